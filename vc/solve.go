package main

import (
	"bytes"
	"context"
	"fmt"
	"os"
	"os/exec"
	"path/filepath"
	"strings"
	"sync"
	"time"
)

type solverSpec struct {
	name      string
	dialect   string
	args      func(file string, timeoutMs int) []string
	unsatOnly bool // the query is a weakening (assumptions dropped): only "unsat" means anything
}

var solvers = []solverSpec{
	{"z3-new", "z3", func(file string, t int) []string { return []string{"z3-new", fmt.Sprintf("-t:%d", t), file} }, false},
	{"cvc5", "cvc5", func(file string, t int) []string {
		return []string{"cvc5", fmt.Sprintf("--tlimit=%d", t), "--produce-models", file}
	}, false},
	{"z3", "z3", func(file string, t int) []string { return []string{"z3", fmt.Sprintf("-t:%d", t), file} }, false},
	// the same query without its quantified assumptions (callee postconditions with forall are irrelevant to most
	// goals but send MBQI into a loop): fewer assumptions, so "unsat" is still a proof
	{"z3-new-qf", "z3qf", func(file string, t int) []string { return []string{"z3-new", fmt.Sprintf("-t:%d", t), file} }, true},
}

// stripQuantifiedAssumptions removes the (assert ...) lines that contain a quantifier, except the last assert
// (the negated goal).
func stripQuantifiedAssumptions(q string) string {
	lines := strings.Split(q, "\n")
	last := -1
	for i, l := range lines {
		if strings.HasPrefix(l, "(assert ") {
			last = i
		}
	}
	dropped := false
	var out []string
	for i, l := range lines {
		if i != last && strings.HasPrefix(l, "(assert ") && (strings.Contains(l, "(forall ") || strings.Contains(l, "(exists ")) {
			dropped = true
			continue
		}
		out = append(out, l)
	}
	if !dropped {
		return ""
	}
	return strings.Join(out, "\n")
}

type solveResult struct {
	status string // unsat, sat, unknown
	solver string
	ms     int64
	output string
	all    map[string]string
	errors []string
}

var scratchDir = func() string {
	if d := os.Getenv("VERIF_SCRATCH"); d != "" {
		return d
	}
	return "/dev/shm"
}()

// raceSolve runs the solvers on the query concurrently and returns the first definite answer.
// With wantAll, it waits for every solver (thorough tier) and records agreement.
func raceSolve(queries map[string]string, name string, timeoutMs int, wantModel bool, which []string) solveResult {
	dir, err := os.MkdirTemp(scratchDir, "vc-")
	if err != nil {
		return solveResult{status: "unknown", output: err.Error()}
	}
	defer os.RemoveAll(dir)
	ctx, cancel := context.WithTimeout(context.Background(), time.Duration(timeoutMs+2000)*time.Millisecond)
	defer cancel()
	type res struct {
		solver, status, out string
		ms                  int64
	}
	ch := make(chan res, len(solvers))
	n := 0
	only := os.Getenv("VC_SOLVERS")
	for _, sp := range solvers {
		if only != "" && !strings.Contains(","+only+",", ","+sp.name+",") {
			continue
		}
		use := len(which) == 0
		for _, w := range which {
			if w == sp.name {
				use = true
			}
		}
		if !use {
			continue
		}
		q := queries[sp.dialect]
		if sp.dialect == "z3qf" {
			q = stripQuantifiedAssumptions(queries["z3"])
		}
		if q == "" {
			continue
		}
		if wantModel {
			q += "(get-model)\n"
		}
		file := filepath.Join(dir, sp.name+".smt2")
		if err := os.WriteFile(file, []byte(q), 0o644); err != nil {
			continue
		}
		n++
		go func(sp solverSpec, file string) {
			t0 := time.Now()
			args := sp.args(file, timeoutMs)
			cmd := exec.CommandContext(ctx, args[0], args[1:]...)
			var out bytes.Buffer
			cmd.Stdout = &out
			cmd.Stderr = &out
			_ = cmd.Run()
			first := strings.TrimSpace(strings.SplitN(out.String(), "\n", 2)[0])
			st := "unknown"
			switch first {
			case "unsat":
				st = "unsat"
			case "sat":
				st = "sat"
				if sp.unsatOnly {
					st = "unknown"
				}
			default:
				if strings.HasPrefix(first, "(error") && !strings.Contains(first, "timeout") && !strings.Contains(first, "interrupted") {
					st = "error"
				}
			}
			ch <- res{sp.name, st, out.String(), time.Since(t0).Milliseconds()}
		}(sp, file)
	}
	best := solveResult{status: "unknown", all: map[string]string{}}
	for i := 0; i < n; i++ {
		r := <-ch
		best.all[r.solver] = r.status
		if r.status == "error" {
			best.errors = append(best.errors, r.solver+": "+firstLines(r.out, 2))
			r.status = "unknown"
		}
		if best.status == "unknown" && r.status != "unknown" {
			best.status, best.solver, best.ms, best.output = r.status, r.solver, r.ms, r.out
			cancel()
		} else if best.status == "unknown" {
			best.output += r.solver + ": " + firstLines(r.out, 3) + "\n"
		}
	}
	return best
}

func firstLines(s string, n int) string {
	ls := strings.Split(s, "\n")
	if len(ls) > n {
		ls = ls[:n]
	}
	return strings.Join(ls, " | ")
}

// discharge solves all obligations of vc: first as one group, then individually on failure.
func (vc *VC) discharge(timeoutMs int, par int, keepDir string) {
	vc.dischargeWith(timeoutMs, par, keepDir, nil)
}

func (vc *VC) dischargeWith(timeoutMs int, par int, keepDir string, which []string) {
	obs := vc.obligs
	if len(obs) == 0 {
		return
	}
	q := func(os []*Oblig) map[string]string {
		return map[string]string{"z3": vc.render(os, "z3", timeoutMs), "cvc5": vc.render(os, "cvc5", timeoutMs)}
	}
	if len(obs) > 1 && which == nil {
		gt := timeoutMs
		if gt > 4000 {
			gt = 4000
		}
		r := raceSolve(q(obs), "group", gt, false, []string{"z3-new", "cvc5"})
		if r.status == "unsat" {
			for _, o := range obs {
				o.Status, o.Solver, o.Ms = "unsat", r.solver+"(group)", r.ms/int64(len(obs))
			}
			return
		}
	}
	sem := make(chan struct{}, par)
	var wg sync.WaitGroup
	for _, o := range obs {
		wg.Add(1)
		sem <- struct{}{}
		go func(o *Oblig) {
			defer wg.Done()
			defer func() { <-sem }()
			qs := q([]*Oblig{o})
			r := raceSolve(qs, o.Name, timeoutMs, which == nil, which)
			o.Status, o.Solver, o.Ms = r.status, r.solver, r.ms
			if r.status == "unknown" && len(r.errors) >= 2 {
				o.Status = "error"
				o.Model = strings.Join(r.errors, "; ")
			}
			if r.status == "sat" {
				o.Model = r.output
			} else if r.status == "unknown" {
				o.Model = r.output
			}
			if keepDir != "" && r.status != "unsat" {
				os.MkdirAll(keepDir, 0o755)
				fn := filepath.Join(keepDir, sanitize(o.Name)+".smt2")
				os.WriteFile(fn, []byte(qs["z3"]), 0o644)
				o.SMTFile = fn
			}
		}(o)
	}
	wg.Wait()
}

func sanitize(s string) string {
	var b strings.Builder
	for _, c := range s {
		if c >= 'a' && c <= 'z' || c >= 'A' && c <= 'Z' || c >= '0' && c <= '9' || c == '.' || c == '-' || c == '_' {
			b.WriteRune(c)
		} else {
			b.WriteByte('_')
		}
	}
	r := b.String()
	if len(r) > 150 {
		r = r[:150]
	}
	return r
}
