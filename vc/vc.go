package main

import (
	"strconv"
	"regexp"
	"fmt"
	"go/token"
	"go/types"
	"sort"
	"strings"

	"golang.org/x/tools/go/ssa"
)

type itemKind int

const (
	itDecl itemKind = iota
	itAssume
	itCopy // range copy: rendered as lambda (z3) or quantified axiom (cvc5)
)

type Item struct {
	kind itemKind
	text string // z3 rendering
	alt  string // cvc5 rendering (itCopy)
	quant bool
	ob    *Oblig
}

// Oblig is one proof obligation: under the items before itemIdx, pc => goal.
type Oblig struct {
	Name    string
	Kind    string // index, slice, nil, div, assert, panic, pre, post, inv-entry, inv-keep, shift, make
	Fn      string
	Detail  string
	Pos     token.Position
	itemIdx int
	pc      Term
	goal    Term
	Clause  string // contract clause name (pre/post/inv)
	Inlined string // name of the inlined callee in which this arises, if any
	cand    *autoCand
	// results
	Status string // unsat (discharged), sat, unknown
	Solver string
	Ms     int64
	Model  string
	SMTFile string
}

type VC struct {
	P        *Program
	tt       *TypeTable
	fn       *ssa.Function
	items    []Item
	obligs   []*Oblig
	names    map[string]int
	declared map[string]bool
	stateCtr int
	reach    Term
	pass     int
	loopMods map[string]map[string]bool // loop key -> names written (pass 1 result)
	loopRecs []map[string]bool          // active loop recorders
	strs     map[string]Term
	globals  map[string]int
	watch    map[string]bool
	obNames  map[string]int
	unsupp   []string // soft notes
	hasQuant bool
	stack    []*ssa.Function
	entry    *State
	noInline bool
	autoInv  map[string][]*autoCand
	houdini  bool
	houdiniCheck bool
	err      error
	autoKept []string
	topVals  map[ssa.Value]Term
	renderAllDecls bool
	always   map[string][]*alwaysRec // watch -> accumulators (always("watch", "E") in the contract of the function under verification)
	topFrame *frame
	preStates map[string][]*State // watch name -> states right before each recorded call of it (in translation order)
	mutexes  map[string]bool // mutexes locked/unlocked somewhere in this function (canonical names)
	heldAsk  map[string]bool // names asked for by held("...") clauses
	exitReach []Term
	exitIdx   []int
	exitPos   []string
	inlineBudget int
	watchHit map[string]bool
	heapSorts map[string]Sort
	skipAssume bool
	specCalls int
	binderDepth int // >0 while evaluating the body of a quantifier in a clause
	skipped  []*Oblig
	usedContracts bool
	Vacuity  string
}

func (vc *VC) fresh(base string) string {
	vc.names[base]++
	return sym(fmt.Sprintf("%s!%d", base, vc.names[base]))
}

func (vc *VC) declare(name string, sort Sort) Term {
	n := sym(name)
	if !vc.declared[n] {
		vc.declared[n] = true
		vc.items = append(vc.items, Item{kind: itDecl, text: fmt.Sprintf("(declare-const %s %s)", n, sort)})
	}
	return Term{n, sort}
}

func (vc *VC) declareFresh(base string, sort Sort) Term {
	n := vc.fresh(base)
	vc.declared[n] = true
	vc.items = append(vc.items, Item{kind: itDecl, text: fmt.Sprintf("(declare-const %s %s)", n, sort)})
	return Term{n, sort}
}

// define names a term; small terms are returned as is.
func (vc *VC) define(base string, t Term) Term {
	if len(t.S) < 24 && !strings.Contains(t.S, " ") {
		return t
	}
	// keep constructors visible so that projections simplify syntactically
	for _, c := range []struct {
		ctor  string
		sorts []Sort
		names []string
	}{
		{"mk-slice", []Sort{SBV64, SBV64, SBV64, SBV64}, []string{"obj", "off", "len", "cap"}},
		{"mk-str", []Sort{SBV64, SBV64}, []string{"ptr", "len"}},
		{"mk-iface", []Sort{SBV64, SBV64}, []string{"typ", "val"}},
	} {
		if strings.HasPrefix(t.S, "("+c.ctor+" ") {
			parts := splitTop(t.S[len(c.ctor)+2 : len(t.S)-1])
			if len(parts) == len(c.sorts) {
				var named []Term
				for i, p := range parts {
					named = append(named, vc.define(base+"$"+c.names[i], Term{p, c.sorts[i]}))
				}
				return app(c.ctor, t.Sort, named...)
			}
		}
	}
	n := vc.fresh(base)
	vc.items = append(vc.items, Item{kind: itDecl, text: fmt.Sprintf("(define-fun %s () %s %s)", n, t.Sort, t.S)})
	return Term{n, t.Sort}
}

func (vc *VC) assume(t Term) {
	if t.S == "true" {
		return
	}
	q := strings.Contains(t.S, "(forall ") || strings.Contains(t.S, "(exists ")
	if q {
		vc.hasQuant = true
	}
	vc.items = append(vc.items, Item{kind: itAssume, text: fmt.Sprintf("(assert %s)", mkImplies(vc.reach, t).S), quant: q})
}

func (vc *VC) assumeGlobal(t Term) {
	if t.S == "true" {
		return
	}
	vc.items = append(vc.items, Item{kind: itAssume, text: fmt.Sprintf("(assert %s)", t.S)})
}

func (vc *VC) noteWrite(name string) {
	for _, r := range vc.loopRecs {
		r[name] = true
	}
}

func (vc *VC) oblige(kind, fn, detail string, pos token.Position, goal Term, clause, inlined string) *Oblig {
	if goal.S == "true" {
		return nil
	}
	base := fn + "/" + kind + ":" + detail
	vc.obNames[base]++
	name := base
	if vc.obNames[base] > 1 {
		name = fmt.Sprintf("%s#%d", base, vc.obNames[base])
	}
	o := &Oblig{Name: name, Kind: kind, Fn: fn, Detail: detail, Pos: pos, itemIdx: len(vc.items), pc: vc.reach, goal: goal, Clause: clause, Inlined: inlined}
	vc.obligs = append(vc.obligs, o)
	if strings.Contains(goal.S, "(forall ") || strings.Contains(goal.S, "(exists ") {
		// quantified goals are not turned into assumptions for later obligations (sound: fewer
		// assumptions; they slow the solvers down and are rarely needed downstream)
		return o
	}
	if vc.skipAssume {
		// Houdini candidates may be false: their checks must not help (or vacuously discharge) later checks
		return o
	}
	// later obligations may assume this one
	vc.items = append(vc.items, Item{kind: itAssume, ob: o, text: fmt.Sprintf("(assert %s)", mkImplies(vc.reach, goal).S), quant: strings.Contains(goal.S, "(forall ") || strings.Contains(goal.S, "(exists ")})
	return o
}

// rangeCopy returns a new heap equal to dstHeap except that [dst, dst+n) holds srcHeap[src .. src+n).
func (vc *VC) rangeCopy(base string, dstHeap, srcHeap Term, dst, src, n Term, elemSort Sort) Term {
	name := vc.fresh(base)
	lam := fmt.Sprintf("(lambda ((i!c (_ BitVec 64))) (ite (and (bvule %s i!c) (bvult i!c (bvadd %s %s))) (select %s (bvadd %s (bvsub i!c %s))) (select %s i!c)))",
		dst.S, dst.S, n.S, srcHeap.S, src.S, dst.S, dstHeap.S)
	z3 := fmt.Sprintf("(define-fun %s () %s %s)", name, dstHeap.Sort, lam)
	alt := fmt.Sprintf("(declare-const %s %s)\n(assert (forall ((i!c (_ BitVec 64))) (! (= (select %s i!c) (ite (and (bvule %s i!c) (bvult i!c (bvadd %s %s))) (select %s (bvadd %s (bvsub i!c %s))) (select %s i!c))) :pattern ((select %s i!c)))))",
		name, dstHeap.Sort, name, dst.S, dst.S, n.S, srcHeap.S, src.S, dst.S, dstHeap.S, name)
	vc.items = append(vc.items, Item{kind: itCopy, text: z3, alt: alt})
	return Term{name, dstHeap.Sort}
}

// rangeFill returns a heap equal to h except [dst, dst+n) holds v.
func (vc *VC) rangeFill(base string, h Term, dst, n Term, v Term) Term {
	name := vc.fresh(base)
	body := fmt.Sprintf("(ite (and (bvule %s i!c) (bvult i!c (bvadd %s %s))) %s (select %s i!c))", dst.S, dst.S, n.S, v.S, h.S)
	z3 := fmt.Sprintf("(define-fun %s () %s (lambda ((i!c (_ BitVec 64))) %s))", name, h.Sort, body)
	alt := fmt.Sprintf("(declare-const %s %s)\n(assert (forall ((i!c (_ BitVec 64))) (! (= (select %s i!c) %s) :pattern ((select %s i!c)))))", name, h.Sort, name, body, name)
	vc.items = append(vc.items, Item{kind: itCopy, text: z3, alt: alt})
	return Term{name, h.Sort}
}

// rangeHavoc returns a heap equal to h outside [dst, dst+n) and arbitrary inside.
func (vc *VC) rangeHavoc(base string, h Term, dst, n Term) Term {
	fr := vc.declareFresh(base+"!any", h.Sort)
	name := vc.fresh(base)
	body := fmt.Sprintf("(ite (and (bvule %s i!c) (bvult i!c (bvadd %s %s))) (select %s i!c) (select %s i!c))", dst.S, dst.S, n.S, fr.S, h.S)
	z3 := fmt.Sprintf("(define-fun %s () %s (lambda ((i!c (_ BitVec 64))) %s))", name, h.Sort, body)
	alt := fmt.Sprintf("(declare-const %s %s)\n(assert (forall ((i!c (_ BitVec 64))) (! (= (select %s i!c) %s) :pattern ((select %s i!c)))))", name, h.Sort, name, body, name)
	vc.items = append(vc.items, Item{kind: itCopy, text: z3, alt: alt})
	return Term{name, h.Sort}
}

// blockOp builds a new block-structured heap in which the inner array of object dobj is
// replaced by lambda i. ite(doff <= i < doff+n, inside(i), old[i]).
func (vc *VC) blockOp(base string, h Term, dobj, doff, n Term, inside func(i string) string) Term {
	es := string(h.Sort)
	// inner sort: strip "(Array (_ BitVec 64) " prefix and trailing ")"
	innerSort := Sort(es[len("(Array (_ BitVec 64) ") : len(es)-1])
	in := vc.fresh(base + "$in")
	old := fmt.Sprintf("(select %s %s)", h.S, dobj.S)
	body := fmt.Sprintf("(ite (and (bvsle %s i!c) (bvslt i!c (bvadd %s %s))) %s (select %s i!c))", doff.S, doff.S, n.S, inside("i!c"), old)
	z3 := fmt.Sprintf("(define-fun %s () %s (lambda ((i!c (_ BitVec 64))) %s))", in, innerSort, body)
	alt := fmt.Sprintf("(declare-const %s %s)\n(assert (forall ((i!c (_ BitVec 64))) (! (= (select %s i!c) %s) :pattern ((select %s i!c)))))", in, innerSort, in, body, in)
	vc.items = append(vc.items, Item{kind: itCopy, text: z3, alt: alt})
	return vc.define(base, app("store", h.Sort, h, dobj, Term{in, innerSort}))
}

// blockCopy: [doff, doff+n) of object dobj receives srcInner[soff ...].
func (vc *VC) blockCopy(base string, h Term, srcInner Term, dobj, doff, soff, n Term) Term {
	if k, _, ok := litVal(n); ok && k <= 16 {
		// a constant number of elements: plain stores
		if k == 0 {
			return h
		}
		es := string(h.Sort)
		innerSort := Sort(es[len("(Array (_ BitVec 64) ") : len(es)-1])
		is := string(innerSort)
		elemSort := Sort(is[len("(Array (_ BitVec 64) ") : len(is)-1])
		inner := mkSelect(h, dobj, innerSort)
		for i := uint64(0); i < k; i++ {
			inner = mkStore(inner, bvAdd(doff, bvLit(64, i)), mkSelect(srcInner, bvAdd(soff, bvLit(64, i)), elemSort))
		}
		return vc.define(base, mkStore(h, dobj, inner))
	}
	return vc.blockOp(base, h, dobj, doff, n, func(i string) string {
		return fmt.Sprintf("(select %s (bvadd %s (bvsub %s %s)))", srcInner.S, soff.S, i, doff.S)
	})
}

func (vc *VC) blockFill(base string, h Term, dobj, doff, n Term, v Term) Term {
	return vc.blockOp(base, h, dobj, doff, n, func(i string) string { return v.S })
}

func (vc *VC) blockHavoc(base string, h Term, dobj, doff, n Term) Term {
	es := string(h.Sort)
	innerSort := Sort(es[len("(Array (_ BitVec 64) ") : len(es)-1])
	fr := vc.declareFresh(base+"!any", innerSort)
	return vc.blockOp(base, h, dobj, doff, n, func(i string) string { return fmt.Sprintf("(select %s %s)", fr.S, i) })
}

// freshAbove returns a heap equal to h at indices below bound and arbitrary at and above it.
func (vc *VC) freshAbove(base string, h Term, bound Term) Term {
	fr := vc.declareFresh(base+"!new", h.Sort)
	name := vc.fresh(base + "!n")
	body := fmt.Sprintf("(ite (bvult i!c %s) (select %s i!c) (select %s i!c))", bound.S, h.S, fr.S)
	z3 := fmt.Sprintf("(define-fun %s () %s (lambda ((i!c (_ BitVec 64))) %s))", name, h.Sort, body)
	alt := fmt.Sprintf("(declare-const %s %s)\n(assert (forall ((i!c (_ BitVec 64))) (! (= (select %s i!c) %s) :pattern ((select %s i!c)))))", name, h.Sort, name, body, name)
	vc.items = append(vc.items, Item{kind: itCopy, text: z3, alt: alt})
	return Term{name, h.Sort}
}

// strConst places a constant string in the immutable string memory.
func (vc *VC) strConst(s string) Term {
	if t, ok := vc.strs[s]; ok {
		return t
	}
	k := len(vc.strs)
	addr := uint64(1)<<61 + uint64(k+1)<<24
	t := mkStr(bvLit(64, addr), i64(int64(len(s))))
	vc.strs[s] = t
	sm := vc.declare("SMem", arraySort(SBV64, SBV8))
	var cs []Term
	for i := 0; i < len(s); i++ {
		cs = append(cs, mkEq(mkSelect(sm, bvLit(64, addr+uint64(i)), SBV8), bvLit(8, uint64(s[i]))))
	}
	vc.assumeGlobal(mkAnd(cs...))
	return t
}

func (vc *VC) smem() Term { return vc.declare("SMem", arraySort(SBV64, SBV8)) }

// globalAddr gives each package-level variable a fixed address.
func (vc *VC) globalAddr(g *ssa.Global) Term {
	k := g.Pkg.Pkg.Path() + "." + g.Name()
	id, ok := vc.globals[k]
	if !ok {
		id = len(vc.globals) + 1
		vc.globals[k] = id
	}
	return bvLit(64, uint64(1)<<32+uint64(id)<<20)
}

// ---------------------------------------------------------------------------

func obligSortKey(o *Oblig) string { return o.Name }

func sortObligs(os []*Oblig) {
	sort.SliceStable(os, func(i, j int) bool { return os[i].itemIdx < os[j].itemIdx })
}

func typesOf(vs []ssa.Value) []types.Type {
	out := make([]types.Type, len(vs))
	for i, v := range vs {
		out[i] = v.Type()
	}
	return out
}


// alwaysRec: a ghost accumulator "E held right after every event of watch w so far".
type alwaysRec struct {
	w, text string
	cl      *Clause
}

func (vc *VC) alwaysReg(w, ex string) *alwaysRec {
	for _, r := range vc.always[w] {
		if alwaysName(r.w, r.text) == alwaysName(w, ex) {
			return r
		}
	}
	return nil
}

var alwaysRe = regexp.MustCompile(`always\(\s*"([^"]+)"\s*,\s*"((?:[^"\\]|\\.)*)"\s*\)`)

// registerAlways scans the contract of the function under verification for always("w", "E") accumulators.
func (vc *VC) registerAlways(ct *Contract, fn *ssa.Function) {
	if ct == nil {
		return
	}
	var texts []string
	for _, c := range ct.Requires {
		texts = append(texts, c.Text)
	}
	for _, c := range ct.Ensures {
		texts = append(texts, c.Text)
	}
	for _, cs := range ct.Loops {
		for _, c := range cs {
			texts = append(texts, c.Text)
		}
	}
	for _, t := range texts {
		t = expandMacros(t, pkgMacros[ct.relpkg])
		for _, m := range alwaysRe.FindAllStringSubmatch(t, -1) {
			w := m[1]
			ex, err := strconv.Unquote("\"" + m[2] + "\"")
			if err != nil {
				unsup("always: bad expression literal %s", m[2])
			}
			if vc.alwaysReg(w, ex) != nil {
				continue
			}
			cl := &Clause{Name: "always:" + ex, Text: ex}
			if err := vc.P.prepare(cl, fn, contractPos(fn)); err != nil {
				unsup("stale contract: %v", err)
			}
			if vc.always == nil {
				vc.always = map[string][]*alwaysRec{}
			}
			vc.always[w] = append(vc.always[w], &alwaysRec{w: w, text: ex, cl: cl})
		}
	}
}

// updateAlways folds the event of watch w that just happened (under condition cond) into its accumulators.
func (f *frame) updateAlways(w string, cond Term) {
	vc := f.vc
	for _, r := range vc.always[w] {
		env := vc.topFrame.env(r.cl, nil)
		env.now = f.st
		val := env.eval(r.cl.expr)
		name := alwaysName(r.w, r.text)
		old := f.st.get(name, SBool)
		f.st.set(name, vc.define("G$always", mkAnd(old, mkOr(mkNot(cond), val))))
	}
}

// taintAlways: events of w happened (when some) that were not observed one by one.
func (f *frame) taintAlways(w string, some Term) {
	vc := f.vc
	for _, r := range vc.always[w] {
		name := alwaysName(r.w, r.text)
		old := f.st.get(name, SBool)
		fresh := vc.declareFresh("G$always!t", SBool)
		f.st.set(name, vc.define("G$always", mkAnd(old, mkOr(mkNot(some), fresh))))
	}
}


func (vc *VC) heldAsked(n string) {
	if vc.heldAsk == nil {
		vc.heldAsk = map[string]bool{}
	}
	vc.heldAsk[n] = true
}
