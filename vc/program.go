package main

import (
	"bufio"
	"fmt"
	"go/ast"
	"go/token"
	"go/types"
	"os"
	"path/filepath"
	"sort"
	"strings"
	"sync"

	"golang.org/x/tools/go/packages"
	"golang.org/x/tools/go/ssa"
	"golang.org/x/tools/go/ssa/ssautil"
)

const repoMod = "github.com/pion/dtls/v3"

type Program struct {
	fset      *token.FileSet
	pkgs      []*packages.Package
	pkgByPath map[string]*packages.Package
	prog      *ssa.Program
	ssaPkgs   map[string]*ssa.Package
	funcs     map[string]*ssa.Function // key: relpkg:Key
	funcKeys  map[*ssa.Function]string
	funcIDs   map[*ssa.Function]int
	contracts map[*ssa.Function]*Contract
	lines     map[string][]string
	mods      map[*ssa.Function]map[string]bool
	modBusy   map[*ssa.Function]bool
	modCycleHits int
	modFinal map[*ssa.Function]bool
	modVisited map[*ssa.Function]bool
	modChanged bool
	usedIntrinsics map[string]bool
	assumedInvs    map[string]bool
	abstractDiv    bool // second attempt: over-approximate 64-bit division by symbolic divisors (only "unsat" answers are used)
	sawSymbolicDiv bool
	assumedCts     map[string]bool // contracts whose ensures were assumed at a call site (value: trusted)
	missing []string
	eventCache map[*ssa.Function]map[string]bool
	implCache map[string][]implRec
	mu sync.Mutex
	contractDiffs []string
	contractList []*Contract
	gconst    map[*ssa.Global]*globalInit
	gconstOK  bool
	repoDir   string
	tt        *TypeTable // scratch table for mod-set naming
	allFuncs  map[*ssa.Function]bool
}

func loadProgram(repoDir string, patterns []string) (*Program, error) {
	cfg := &packages.Config{Mode: packages.LoadAllSyntax, Dir: repoDir, BuildFlags: []string{"-tags=verif"}, Env: append(os.Environ(), "GOFLAGS=-mod=mod", "GOPROXY=off")}
	pkgs, err := packages.Load(cfg, patterns...)
	if err != nil {
		return nil, err
	}
	var errs []string
	packages.Visit(pkgs, nil, func(p *packages.Package) {
		for _, e := range p.Errors {
			errs = append(errs, e.Error())
		}
	})
	if len(errs) > 0 {
		return nil, fmt.Errorf("load errors: %s", strings.Join(errs, "; "))
	}
	prog, spkgs := ssautil.AllPackages(pkgs, ssa.GlobalDebug|ssa.InstantiateGenerics)
	prog.Build()
	P := &Program{fset: prog.Fset, pkgs: pkgs, prog: prog, ssaPkgs: map[string]*ssa.Package{}, pkgByPath: map[string]*packages.Package{},
		funcs: map[string]*ssa.Function{}, funcKeys: map[*ssa.Function]string{}, funcIDs: map[*ssa.Function]int{},
		contracts: map[*ssa.Function]*Contract{}, lines: map[string][]string{}, mods: map[*ssa.Function]map[string]bool{}, modBusy: map[*ssa.Function]bool{},
		repoDir: repoDir, tt: newTypeTable()}
	for i, p := range pkgs {
		if spkgs[i] != nil {
			P.ssaPkgs[p.PkgPath] = spkgs[i]
		}
	}
	packages.Visit(pkgs, nil, func(p *packages.Package) { P.pkgByPath[p.PkgPath] = p })
	P.allFuncs = ssautil.AllFunctions(prog)
	var fns []*ssa.Function
	for fn := range P.allFuncs {
		fns = append(fns, fn)
	}
	sort.Slice(fns, func(i, j int) bool { return fns[i].String() < fns[j].String() })
	for i, fn := range fns {
		P.funcIDs[fn] = i + 1
		if P.inRepo(fn) && fn.Synthetic == "" {
			k := P.keyOf(fn)
			if k != "" {
				if _, dup := P.funcs[k]; !dup {
					P.funcs[k] = fn
				}
				P.funcKeys[fn] = k
			}
		}
	}
	return P, nil
}

func (P *Program) funcID(fn *ssa.Function) int { return P.funcIDs[fn] }

func pkgOf(fn *ssa.Function) *ssa.Package {
	for fn != nil {
		if fn.Pkg != nil {
			return fn.Pkg
		}
		if fn.Parent() == nil {
			if o := fn.Origin(); o != nil && o != fn {
				fn = o
				continue
			}
			return nil
		}
		fn = fn.Parent()
	}
	return nil
}

func (P *Program) inRepo(fn *ssa.Function) bool {
	p := pkgOf(fn)
	return p != nil && strings.HasPrefix(p.Pkg.Path(), repoMod)
}

func relPkg(path string) string {
	r := strings.TrimPrefix(path, repoMod)
	r = strings.TrimPrefix(r, "/")
	if r == "" {
		return "."
	}
	return r
}

// keyOf is the contract key of a function: "<relpkg>:<Recv.>Name" ; closures get "$n" suffixes.
func (P *Program) keyOf(fn *ssa.Function) string {
	p := pkgOf(fn)
	if p == nil {
		return ""
	}
	return relPkg(p.Pkg.Path()) + ":" + localKey(fn)
}

func localKey(fn *ssa.Function) string {
	if fn.Parent() != nil {
		return localKey(fn.Parent()) + strings.TrimPrefix(fn.Name(), fn.Parent().Name())
	}
	if recv := fn.Signature.Recv(); recv != nil {
		t := recv.Type()
		if p, ok := t.(*types.Pointer); ok {
			t = p.Elem()
		}
		if n, ok := t.(*types.Named); ok {
			return n.Obj().Name() + "." + fn.Name()
		}
	}
	return fn.Name()
}

func (P *Program) sourceLine(p token.Pos) string {
	if !p.IsValid() {
		return "?"
	}
	pos := P.fset.Position(p)
	ls, ok := P.lines[pos.Filename]
	if !ok {
		fh, err := os.Open(pos.Filename)
		if err == nil {
			sc := bufio.NewScanner(fh)
			sc.Buffer(make([]byte, 1<<20), 1<<20)
			for sc.Scan() {
				ls = append(ls, sc.Text())
			}
			fh.Close()
		}
		P.lines[pos.Filename] = ls
	}
	if pos.Line-1 < len(ls) && pos.Line >= 1 {
		return strings.Join(strings.Fields(ls[pos.Line-1]), " ")
	}
	return "?"
}

func (P *Program) relFile(p token.Pos) string {
	pos := P.fset.Position(p)
	r, err := filepath.Rel(P.repoDir, pos.Filename)
	if err != nil {
		return pos.Filename
	}
	return fmt.Sprintf("%s:%d", r, pos.Line)
}

func (P *Program) contractFor(fn *ssa.Function) *Contract {
	return P.contracts[fn]
}

// funcDecl returns the syntax of fn.
func funcBody(fn *ssa.Function) (*ast.BlockStmt, *ast.FuncType) {
	switch n := fn.Syntax().(type) {
	case *ast.FuncDecl:
		return n.Body, n.Type
	case *ast.FuncLit:
		return n.Body, n.Type
	}
	return nil, nil
}

// ---------------------------------------------------------------------------
// constant globals: package-level variables that are written only by their package
// initialiser, with values that can be read off the initialiser.

type globalInit struct {
	fields map[int]*ssa.Const // struct field index -> constant
	whole  *ssa.Const
	nonNil bool // interface/pointer initialised with a non-nil value
	dynType types.Type
	from    *ssa.Global // initialised by copying another package-level variable
	mutable bool
}

func (P *Program) scanGlobals() {
	if P.gconstOK {
		return
	}
	P.gconstOK = true
	P.gconst = map[*ssa.Global]*globalInit{}
	get := func(g *ssa.Global) *globalInit {
		gi := P.gconst[g]
		if gi == nil {
			gi = &globalInit{fields: map[int]*ssa.Const{}}
			P.gconst[g] = gi
		}
		return gi
	}
	var rootGlobal func(v ssa.Value) (*ssa.Global, []int)
	rootGlobal = func(v ssa.Value) (*ssa.Global, []int) {
		switch x := v.(type) {
		case *ssa.Global:
			return x, nil
		case *ssa.FieldAddr:
			g, path := rootGlobal(x.X)
			if g != nil {
				return g, append(path, x.Field)
			}
		case *ssa.IndexAddr:
			g, _ := rootGlobal(x.X)
			if g != nil {
				return g, []int{-1}
			}
		}
		return nil, nil
	}
	for fn := range P.allFuncs {
		isInit := fn.Name() == "init" && fn.Parent() == nil && fn.Signature.Recv() == nil
		for _, b := range fn.Blocks {
			for _, in := range b.Instrs {
				// any use of a global other than load/store-through-fieldaddr makes it mutable
				for _, op := range in.Operands(nil) {
					if op == nil || *op == nil {
						continue
					}
					g, ok := (*op).(*ssa.Global)
					if !ok {
						continue
					}
					switch x := in.(type) {
					case *ssa.UnOp:
						if x.Op == token.MUL {
							continue
						}
					case *ssa.FieldAddr, *ssa.DebugRef:
						continue
					case *ssa.Store:
						if x.Addr == g && isInit {
							continue
						}
					}
					get(g).mutable = true
				}
				switch x := in.(type) {
				case *ssa.Store:
					g, path := rootGlobal(x.Addr)
					if g == nil {
						continue
					}
					gi := get(g)
					if !isInit || pkgOf(fn) != g.Pkg {
						gi.mutable = true
						continue
					}
					if len(path) == 0 {
						if c, ok := x.Val.(*ssa.Const); ok {
							gi.whole = c
						} else {
							switch x.Val.(type) {
							case *ssa.MakeInterface:
								gi.nonNil = true
								gi.dynType = x.Val.(*ssa.MakeInterface).X.Type()
							case *ssa.Alloc, *ssa.MakeMap, *ssa.MakeSlice, *ssa.MakeClosure, *ssa.Function:
								gi.nonNil = true
							case *ssa.UnOp:
								if ld := x.Val.(*ssa.UnOp); ld.Op == token.MUL {
									if g2, ok := ld.X.(*ssa.Global); ok {
										gi.from = g2
									}
								}
							case *ssa.Call:
								call := x.Val.(*ssa.Call)
								if sc := call.Call.StaticCallee(); sc != nil {
									switch sc.String() {
									case "errors.New", "fmt.Errorf":
										gi.nonNil = true
									}
								}
							}
						}
					} else if len(path) == 1 && path[0] >= 0 {
						if c, ok := x.Val.(*ssa.Const); ok {
							if _, dup := gi.fields[path[0]]; dup {
								gi.mutable = true
							}
							gi.fields[path[0]] = c
						} else {
							gi.fields[path[0]] = nil
						}
					} else {
						gi.fields[-1] = nil
					}
				case *ssa.FieldAddr:
					// FieldAddr of a global used for anything but Store/Load => mutable
					if g, _ := rootGlobal(x); g != nil {
						for _, r := range *x.Referrers() {
							switch rr := r.(type) {
							case *ssa.Store:
								if rr.Addr == x {
									continue
								}
							case *ssa.UnOp:
								continue
							case *ssa.DebugRef:
								continue
							}
							get(g).mutable = true
						}
					}
				}
			}
		}
	}
}

// globalConst returns the value of a load of g if g is effectively constant.
func (P *Program) globalConst(f *frame, g *ssa.Global) (Term, bool) {
	P.scanGlobals()
	gi := P.gconst[g]
	// a variable that is a copy of another constant variable has that variable's value
	for hops := 0; gi != nil && !gi.mutable && gi.from != nil && hops < 4; hops++ {
		src := P.gconst[gi.from]
		if src == nil || src.mutable {
			return Term{}, false
		}
		g, gi = gi.from, src
	}
	T := deref(g.Type())
	if gi == nil {
		// never stored: zero value (declared without initialiser) -- but only trust in-repo/simple cases
		return Term{}, false
	}
	if gi.mutable {
		return Term{}, false
	}
	tt := f.tt()
	switch u := T.Underlying().(type) {
	case *types.Struct:
		if _, bad := gi.fields[-1]; bad {
			return Term{}, false
		}
		si := tt.structOf(T)
		var args []Term
		for i := range si.fields {
			c, ok := gi.fields[i]
			switch {
			case ok && c != nil:
				args = append(args, f.constVal(c))
			case ok && c == nil:
				return Term{}, false
			default:
				args = append(args, tt.zero(u.Field(i).Type()))
			}
		}
		if len(args) == 0 {
			return Term{si.ctor, si.sort}, true
		}
		return app(si.ctor, si.sort, args...), true
	case *types.Interface:
		if gi.nonNil {
			// a fixed, non-nil value: identified by the global's address
			id := f.vc.globalAddr(g)
			typ := bvAdd(bvLit(64, 1<<40), id)
			if gi.dynType != nil {
				typ = i64(int64(tt.typeID(gi.dynType)))
			} else {
				typ = i64(int64(tt.typeIDName("*errors.errorString")))
			}
			return mkIface(typ, id), true
		}
	case *types.Basic:
		if gi.whole != nil {
			return f.constVal(gi.whole), true
		}
	}
	return Term{}, false
}


// noteAssumedInv records a data-structure invariant that a caller in another package assumed.
func (P *Program) noteAssumedInv(name string) {
	if P.assumedInvs == nil {
		P.assumedInvs = map[string]bool{}
	}
	P.assumedInvs[name] = true
}


// noteAssumedContract records a callee contract whose postconditions a verified caller relied on.
func (P *Program) noteAssumedContract(key string, trusted bool) {
	if P.assumedCts == nil {
		P.assumedCts = map[string]bool{}
	}
	P.assumedCts[key] = trusted
}
