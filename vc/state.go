package main

import "strings"

// State is a node in a persistent DAG of program states. A state maps names
// (heaps, ghost variables, the allocation frontier) to SMT terms; missing names
// are resolved lazily through the node kind.
type State struct {
	vc     *VC
	id     int
	kind   stateKind
	parent *State
	writes map[string]Term
	preds  []*State // merge
	conds  []Term   // merge: condition selecting preds[i]
	keep   map[string]bool // havocSome: names that are NOT havocked (nil => see mods)
	mods   map[string]bool // havocSome: names that are havocked
	tag    string
	modPrefixes []string // havocSome: heap names with these prefixes (after the kind tag) are havocked too
}

type stateKind int

const (
	stEntry stateKind = iota
	stSeq
	stMerge
	stHavocAll
	stHavocSome
	stGhostDelta // call events relative to a callee's entry: fresh, callee-local values
)

func (vc *VC) newState(kind stateKind, parent *State) *State {
	vc.stateCtr++
	return &State{vc: vc, id: vc.stateCtr, kind: kind, parent: parent, writes: map[string]Term{}}
}

func (s *State) seq() *State { return s.vc.newState(stSeq, s) }

// isHeapName: field, element, box and map heaps (not ghosts, locals, the frontier).
func isHeapName(name string) bool {
	for _, p := range []string{"F$", "M$", "B$", "MD$", "MV$", "MN$"} {
		if strings.HasPrefix(name, p) {
			return true
		}
	}
	return false
}

// prefixHit: name is a heap whose qualified name (after F$/M$/MD$/...) starts with a havocked prefix.
func (s *State) prefixHit(name string) bool {
	i := strings.Index(name, "$")
	if i < 0 || strings.HasPrefix(name, "G$") || strings.HasPrefix(name, "L$") || strings.HasPrefix(name, "A$") {
		if strings.HasPrefix(name, "A$") {
			return s.prefixHit(name[2:])
		}
		return false
	}
	q := name[i+1:]
	for _, p := range s.modPrefixes {
		if strings.HasPrefix(q, p) {
			return true
		}
	}
	for k := range s.mods {
		if strings.HasPrefix(k, "prefix:") && strings.HasPrefix(q, k[7:]) {
			return true
		}
	}
	return false
}

// deltaNames: is the ghost variable name one of the callee's watched names?
func (s *State) deltaNames(name string) bool {
	for w := range s.mods {
		for _, pre := range []string{"G$called$", "G$ncalls$", "G$tainted$", "G$seq$"} {
			if name == pre+w {
				return true
			}
		}
		if strings.HasPrefix(name, "G$ret$"+w+"$") || strings.HasPrefix(name, "G$arg$"+w+"$") {
			return true
		}
	}
	return false
}

// get returns the current term for name (of the given sort).
func (s *State) get(name string, sort Sort) Term {
	if s.vc.heapSorts != nil {
		if _, known := s.vc.heapSorts[name]; !known && len(name) > 2 && name[1] == '$' && name[0] == 'F' {
			s.vc.heapSorts[name] = sort
		}
	}
	if t, ok := s.writes[name]; ok {
		return t
	}
	var t Term
	if strings.HasPrefix(name, "A$") {
		// allocation frontier at the time of the last write to the heap name[2:]
		switch s.kind {
		case stEntry, stHavocAll:
			t = s.get("$alloc", SBV64)
			s.writes[name] = t
			return t
		case stHavocSome:
			if s.mods[name[2:]] || s.mods["*"] || s.mods["N$"+name[2:]] || s.mods["N$*"] {
				t = s.get("$alloc", SBV64)
				s.writes[name] = t
				return t
			}
		}
	}
	if s.kind == stGhostDelta {
		if strings.HasPrefix(name, "G$") && !strings.HasPrefix(name, "G$held$") && s.deltaNames(name) {
			t = s.vc.declareFresh(name+"!d", sort)
			s.writes[name] = t
			return t
		}
		return s.parent.get(name, sort)
	}
	switch s.kind {
	case stEntry:
		switch {
		case strings.HasPrefix(name, "L$"):
			t = s.vc.declare("E$"+name, sort) // read before initialisation cannot happen: Alloc zeroes first
		case strings.HasPrefix(name, "G$called$"), strings.HasPrefix(name, "G$held$"), strings.HasPrefix(name, "G$tainted$"), strings.HasPrefix(name, "D$") && sort == SBool:
			t = tFalse
		case strings.HasPrefix(name, "G$always$"):
			t = tTrue
		case strings.HasPrefix(name, "G$ncalls$"), name == "G$clock", strings.HasPrefix(name, "G$seq$"):
			t = i64(0)
		default:
			t = s.vc.declare("E$"+name, sort)
		}
	case stSeq:
		// walk up iteratively over plain sequence nodes
		p := s.parent
		for p.kind == stSeq && p.parent != nil {
			if v, ok := p.writes[name]; ok {
				return v
			}
			p = p.parent
		}
		return p.get(name, sort)
	case stHavocAll:
		if isFrameLocal(name) && !s.mods[name] {
			t = s.parent.get(name, sort)
		} else {
			t = s.vc.declareFresh(name+"!h", sort)
			if name == "G$clock" || strings.HasPrefix(name, "G$seq$") {
				// the event clock never runs backwards and stays far from wrap-around
				s.writes[name] = t
				s.vc.assumeGlobal(mkAnd(sle(s.parent.get(name, sort), t), sle(t, bvLit(64, 1<<40))))
				if name != "G$clock" {
					s.vc.assumeGlobal(sle(t, s.get("G$clock", SBV64)))
				}
			}
		}
	case stHavocSome:
		if s.mods[name] || s.mods["*"] || s.prefixHit(name) {
			t = s.vc.declareFresh(name+"!l", sort)
			if strings.HasPrefix(name, "G$ncalls$") {
				// a call counter: non-negative, and positive exactly when the event has happened
				w := name[len("G$ncalls$"):]
				s.writes[name] = t
				c := s.get("G$called$"+w, SBool)
				s.vc.assumeGlobal(mkAnd(sle(i64(0), t), sle(t, bvLit(64, 1<<40)), mkEq(c, slt(i64(0), t))))
			}
			if name == "G$clock" || strings.HasPrefix(name, "G$seq$") {
				// the event clock and the time stamps taken from it never run backwards and stay far from wrap-around
				s.writes[name] = t
				s.vc.assumeGlobal(mkAnd(sle(s.parent.get(name, sort), t), sle(t, bvLit(64, 1<<40))))
				if name != "G$clock" {
					s.vc.assumeGlobal(sle(t, s.get("G$clock", SBV64)))
				}
			}
		} else if (s.mods["N$"+name] || s.mods["N$*"] && isHeapName(name)) && strings.HasPrefix(string(sort), "(Array (_ BitVec 64) ") {
			// only objects allocated since the parent state may differ
			t = s.vc.freshAbove(name, s.parent.get(name, sort), s.parent.get("$alloc", SBV64))
		} else {
			t = s.parent.get(name, sort)
		}
	case stMerge:
		ts := make([]Term, len(s.preds))
		same := true
		for i, p := range s.preds {
			ts[i] = p.get(name, sort)
			if ts[i].S != ts[0].S {
				same = false
			}
		}
		if same {
			t = ts[0]
		} else {
			r := ts[len(ts)-1]
			for i := len(ts) - 2; i >= 0; i-- {
				r = mkIte(s.conds[i], ts[i], r)
			}
			t = s.vc.define(name+"!m", r)
		}
	}
	s.writes[name] = t
	return t
}

func (s *State) set(name string, t Term) {
	s.writes[name] = t
	s.vc.noteWrite(name)
	if len(name) > 2 && name[1] == '$' || strings.HasPrefix(name, "MV$") || strings.HasPrefix(name, "MD$") {
		switch name[0] {
		case 'F', 'M', 'B':
			s.writes["A$"+name] = s.get("$alloc", SBV64)
		}
	}
}

// isFrameLocal: names that unknown calls cannot change (ghost call events are updated
// explicitly; defer registration flags are local to the frame).
func isFrameLocal(name string) bool {
	return len(name) > 2 && (name[:2] == "D$" || name[:2] == "G$" || name[:2] == "L$")
}

func (vc *VC) mergeStates(preds []*State, conds []Term) *State {
	if len(preds) == 1 {
		return preds[0].seq()
	}
	s := vc.newState(stMerge, nil)
	s.preds = preds
	s.conds = conds
	return s
}

func (vc *VC) havocAll(s *State) *State {
	vc.noteWrite("*")
	return vc.havocAllQuiet(s)
}

// havocAllQuiet forgets everything without recording a write (used for the discovery pass at loop headers).
func (vc *VC) havocAllQuiet(s *State) *State {
	n := vc.newState(stHavocAll, s)
	// the allocation frontier only grows
	a0 := s.get("$alloc", SBV64)
	a1 := n.get("$alloc", SBV64)
	vc.assume(mkAnd(ule(a0, a1), ult(a1, bvLit(64, 1<<60))))
	return n
}

func (vc *VC) havocSome(s *State, mods map[string]bool) *State {
	n := vc.newState(stHavocSome, s)
	n.mods = mods
	if mods["$alloc"] {
		a0 := s.get("$alloc", SBV64)
		a1 := n.get("$alloc", SBV64)
		vc.assume(mkAnd(ule(a0, a1), ult(a1, bvLit(64, 1<<60))))
	}
	return n
}
