package main

import (
	"fmt"
	"go/ast"
	"go/token"
	"go/types"
	"sort"
	"strings"

	"golang.org/x/tools/go/ssa"
)

type invariant struct {
	name string
	cl   *Clause
	auto bool
	cand *autoCand
	term func(f *frame, hdr *ssa.BasicBlock) Term // for auto candidates
	pos  token.Pos
}

// loopNames returns the source-level names under which the loop with header b can be
// addressed in a contract: names of header phis, and the key variable of a range loop.
func loopNames(fn *ssa.Function, li *loopInfo) []string {
	var names []string
	seen := map[string]bool{}
	add := func(s string) {
		if s != "" && !seen[s] {
			seen[s] = true
			names = append(names, s)
		}
	}
	for _, in := range li.header.Instrs {
		phi, ok := in.(*ssa.Phi)
		if !ok {
			break
		}
		add(phi.Comment)
	}
	for b := range li.blocks {
		for _, in := range b.Instrs {
			dr, ok := in.(*ssa.DebugRef)
			if !ok {
				continue
			}
			if bo, ok := dr.X.(*ssa.BinOp); ok && bo.Block() == li.header {
				if phi, ok := bo.X.(*ssa.Phi); ok && phi.Block() == li.header && phi.Comment == "rangeindex" {
					if id, ok := dr.Expr.(*ast.Ident); ok {
						add(id.Name)
					}
				}
			}
		}
	}
	return names
}

// loopPos: a position inside the loop where its variables are in scope.
func loopPos(li *loopInfo) token.Pos {
	var best token.Pos
	var lo, hi token.Pos
	if body, _ := funcBody(li.header.Parent()); body != nil {
		lo, hi = body.Lbrace, body.Rbrace
	}
	for b := range li.blocks {
		for _, in := range b.Instrs {
			if _, isPhi := in.(*ssa.Phi); isPhi {
				continue
			}
			// the latest position in the loop is inside its body, where the loop variables are in scope
			p := in.Pos()
			if !p.IsValid() || (lo.IsValid() && (p < lo || p > hi)) {
				continue
			}
			if best == token.NoPos || p > best {
				best = p
			}
		}
	}
	if best == token.NoPos {
		for _, in := range li.header.Instrs {
			if p := in.Pos(); p.IsValid() {
				return p
			}
		}
	}
	return best
}

// loopInvariants selects the contract invariants for the loop headed by b.
func (f *frame) loopInvariants(b *ssa.BasicBlock, li *loopInfo, phis []*ssa.Phi) []*invariant {
	var out []*invariant
	ct := f.contract
	if ct == nil && !f.top {
		ct = f.vc.P.contractFor(f.fn)
	}
	if ct != nil && len(ct.Loops) > 0 {
		// order loops of the function by header index to resolve "name#k"
		var hdrs []*loopInfo
		for _, l := range f.loops {
			hdrs = append(hdrs, l)
		}
		sort.Slice(hdrs, func(i, j int) bool { return hdrs[i].header.Index < hdrs[j].header.Index })
		count := map[string]int{}
		for ord, l := range hdrs {
			if l == li {
				for _, cl := range ct.Loops[fmt.Sprintf("#%d", ord+1)] {
					if !f.top && f.vc.P.usesAlways(cl, f.fn) {
						continue // accumulators are only registered for the function under verification
					}
					pos := loopPos(li)
					cl.loopVars = rangeLoopVars(li)
					if err := f.vc.P.prepare(cl, f.fn, pos); err != nil {
						unsup("stale contract: loop invariant (checked at %s): %v", f.vc.P.fset.Position(pos), err)
					}
					out = append(out, &invariant{name: cl.Name, cl: cl, pos: pos})
				}
			}
			for _, nm := range loopNames(f.fn, l) {
				count[nm]++
				keys := []string{fmt.Sprintf("%s#%d", nm, count[nm])}
				if count[nm] == 1 {
					keys = append(keys, nm)
				}
				if l != li {
					continue
				}
				for _, k := range keys {
					for _, cl := range ct.Loops[k] {
						if !f.top && f.vc.P.usesAlways(cl, f.fn) {
							continue
						}
						pos := loopPos(li)
						cl.loopVars = rangeLoopVars(li)
						if err := f.vc.P.prepare(cl, f.fn, pos); err != nil {
							unsup("stale contract: loop invariant: %v", err)
						}
						out = append(out, &invariant{name: cl.Name, cl: cl, pos: pos})
					}
				}
			}
		}
	}
	out = append(out, f.autoInvariants(b, li, phis)...)
	return out
}

func (f *frame) evalInv(inv *invariant, hdr *ssa.BasicBlock) Term {
	if inv.term != nil {
		return inv.term(f, hdr)
	}
	env := f.env(inv.cl, nil)
	env.loopHdr = hdr
	return env.eval(inv.cl.expr)
}

func (f *frame) env(cl *Clause, results []Term) *specEnv {
	e := &specEnv{f: f, now: f.st, old: f.oldSt, vars: map[types.Object]Term{}, results: results, info: cl.info, oldSet: cl.oldSet, fn: f.fn, frameOfLocals: f, resNames: map[string]int{}}
	if e.old == nil {
		e.old = f.vc.entry
	}
	res := f.fn.Signature.Results()
	_, ft := funcBody(f.fn)
	named := false
	if ft != nil && ft.Results != nil {
		i := 0
		for _, fld := range ft.Results.List {
			for _, nm := range fld.Names {
				e.resNames[nm.Name] = i
				named = true
				i++
			}
			if len(fld.Names) == 0 {
				i++
			}
		}
	}
	if !named {
		for i := 0; i < res.Len(); i++ {
			e.resNames[fmt.Sprintf("result%d", i)] = i
		}
		if res.Len() == 1 {
			e.resNames["result"] = 0
		}
	}
	return e
}

func contractPos(fn *ssa.Function) token.Pos {
	body, _ := funcBody(fn)
	if body == nil {
		return fn.Pos()
	}
	return body.Rbrace
}

// checkPost emits the postcondition obligations at a return of the function under verification.
func (f *frame) checkPost(ret *ssa.Return, results []Term) {
	ct := f.contract
	if ct == nil {
		return
	}
	for _, cl := range ct.Ensures {
		if err := f.vc.P.prepare(cl, f.fn, contractPos(f.fn)); err != nil {
			unsup("stale contract: %v", err)
		}
		env := f.env(cl, results)
		g := env.eval(cl.expr)
		f.vc.oblige("post", f.label, cl.Name, f.pos(ret.Pos()), g, cl.Name, "")
	}
}

// assumePre assumes the preconditions of the function under verification.
func (f *frame) assumePre() {
	ct := f.contract
	if ct == nil {
		return
	}
	for _, cl := range ct.Requires {
		if err := f.vc.P.prepare(cl, f.fn, contractPos(f.fn)); err != nil {
			unsup("stale contract: %v", err)
		}
		env := f.env(cl, nil)
		env.old = f.st
		f.vc.assume(env.eval(cl.expr))
	}
}

// onlyLoops: a contract that only supplies loop invariants does not summarise the function.
func (ct *Contract) onlyLoops() bool {
	return len(ct.Requires) == 0 && len(ct.Ensures) == 0 && !ct.Trusted
}

// checkPre emits the callee's preconditions as obligations at this call site.
func (f *frame) checkPre(callee *ssa.Function, ct *Contract, args []Term, pos token.Pos) {
	vc := f.vc
	g := &frame{vc: vc, fn: callee, prefix: f.prefix, vals: map[ssa.Value]Term{}, ptrs: map[ssa.Value]*ptrDesc{}, tuples: map[ssa.Value][]Term{}, closures: map[ssa.Value]*ssa.MakeClosure{}, label: f.label}
	for i, p := range callee.Params {
		g.vals[p] = args[i]
	}
	pre := f.st
	g.st = pre
	for _, cl := range ct.Requires {
		if err := vc.P.prepare(cl, callee, contractPos(callee)); err != nil {
			unsup("stale contract: %v", err)
		}
		if cl.usesGhost {
			unsup("precondition %q of %s mentions call events", cl.Name, callee.Name())
		}
		env := g.env(cl, nil)
		env.now, env.old = pre, pre
		goal := env.eval(cl.expr)
		detail := normName(callee.String()) + "." + cl.Name + " @ " + f.srcLine(pos)
		if f.inlined != "" {
			detail = "[" + f.inlined + "] " + detail
		}
		if cl.Inv && f.fn.Pkg != callee.Pkg {
			vc.assume(goal)
			vc.P.noteAssumedInv(normName(callee.String()) + "." + cl.Name)
			continue
		}
		vc.oblige("pre", f.label, detail, f.pos(pos), goal, cl.Name, f.inlined)
	}
}

// contractCall replaces a call by the callee's contract.
func (f *frame) contractCallTerms(callee *ssa.Function, ct *Contract, args []Term, pos token.Pos) []Term {
	return f.contractCall(callee, ct, nil, args, pos)
}

func (f *frame) contractCall(callee *ssa.Function, ct *Contract, c *ssa.CallCommon, args []Term, pos token.Pos) []Term {
	vc := f.vc
	vc.usedContracts = true
	if len(ct.Ensures) > 0 {
		vc.P.noteAssumedContract(ct.Key, ct.Trusted)
	}
	// a frame standing for the callee, only to bind parameters
	g := &frame{vc: vc, fn: callee, prefix: f.prefix, vals: map[ssa.Value]Term{}, ptrs: map[ssa.Value]*ptrDesc{}, tuples: map[ssa.Value][]Term{}, closures: map[ssa.Value]*ssa.MakeClosure{}, label: f.label}
	for i, p := range callee.Params {
		g.vals[p] = args[i]
	}
	for _, w := range ct.Watch {
		_ = w
	}
	// Interior pointers (&x.f, &s[i]) passed as arguments: the callee's contract speaks about *p as a
	// standalone cell; copy the caller's location into that cell before, and back after the call.
	type alias struct {
		addr Term
		T    types.Type
		pd   *ptrDesc
	}
	var aliases []alias
	if c != nil {
		for _, a := range c.Args {
			pd := f.ptrDescOf(a)
			if pd == nil || isStructPtr(a.Type()) {
				continue
			}
			if _, isPtr := a.Type().Underlying().(*types.Pointer); !isPtr {
				continue
			}
			if pd.kind == pdField || (pd.kind == pdElem && pd.obj.valid()) || pd.kind == pdLocal {
				T := deref(a.Type())
				if isStructType(T) {
					continue
				}
				if _, isArr := T.Underlying().(*types.Array); isArr {
					continue
				}
				addr := f.val(a)
				f.elemWrite(T, addr, i64(0), f.load(addr, T, pd))
				aliases = append(aliases, alias{addr, T, pd})
			}
		}
	}
	pre := f.st
	f.checkPre(callee, ct, args, pos)
	// effects
	var argVals []ssa.Value
	if c != nil {
		argVals = c.Args
	}
	// events: names the callee's contract speaks about are imported as deltas; other watched names
	// that the callee may generate become unknown
	described := map[string]bool{}
	for _, cw := range ct.Watch {
		described[cw] = true
	}
	f.noTaint = true
	rs := f.havocCall(callee, callee.Signature, argVals, false)
	f.noTaint = false
	f.taintEvents([]*ssa.Function{callee}, described)
	delta := vc.newState(stGhostDelta, f.st)
	delta.mods = described
	for cw := range described {
		if vc.watch[cw] {
			vc.watchHit[cw] = true
		}
		dn := delta.get("G$ncalls$"+cw, SBV64)
		dc := delta.get("G$called$"+cw, SBool)
		vc.assume(mkAnd(sle(i64(0), dn), sle(dn, bvLit(64, 1<<32)), mkEq(dc, slt(i64(0), dn))))
		vc.assume(mkNot(delta.get("G$tainted$"+cw, SBool)))
	}
	savedWatch := vc.watch
	vc.watch = map[string]bool{}
	for w := range savedWatch {
		vc.watch[w] = true
	}
	for cw := range described {
		vc.watch[cw] = true
	}
	g.st = delta
	g.oldSt = pre
	for _, cl := range ct.Ensures {
		if vc.P.usesAlways(cl, callee) {
			continue // accumulators belong to the function under verification; a callee's are not assumed here
		}
		if err := vc.P.prepare(cl, callee, contractPos(callee)); err != nil {
			unsup("stale contract: %v", err)
		}
		env := g.env(cl, rs)
		env.now, env.old = delta, pre
		vc.assume(env.eval(cl.expr))
	}
	vc.watch = savedWatch
	for _, al := range aliases {
		f.store(al.addr, al.T, al.pd, f.elemRead(f.st, al.T, al.addr, i64(0)))
	}
	// fold the callee-relative events into the caller's ghost state
	for cw := range described {
		if !vc.watch[cw] {
			continue
		}
		if strings.HasSuffix(cw, "!") {
			continue // "name!" counts the caller's own (lexical) calls only: the callee's are not folded in
		}
		dc := delta.get("G$called$"+cw, SBool)
		dn := delta.get("G$ncalls$"+cw, SBV64)
		f.st.set("G$called$"+cw, vc.define("G$called", mkOr(f.st.get("G$called$"+cw, SBool), dc)))
		f.st.set("G$ncalls$"+cw, vc.define("G$ncalls", bvAdd(f.st.get("G$ncalls$"+cw, SBV64), dn)))
		f.st.set("G$tainted$"+cw, vc.define("G$tainted", mkAnd(f.st.get("G$tainted$"+cw, SBool), mkNot(dc))))
		f.taintAlways(cw, dc)
		for name, dv := range delta.writes {
			if strings.HasPrefix(name, "G$ret$"+cw+"$") || strings.HasPrefix(name, "G$arg$"+cw+"$") {
				f.st.set(name, vc.define("G$ev", mkIte(dc, dv, f.st.get(name, dv.Sort))))
			}
		}
		f.st.set("G$seq$"+cw, mkIte(dc, f.bumpClock(), f.st.get("G$seq$"+cw, SBV64)))
	}
	return rs
}

// ---------------------------------------------------------------------------
// automatic loop invariant candidates (validated by a Houdini pass before use)

func (f *frame) autoInvariants(b *ssa.BasicBlock, li *loopInfo, phis []*ssa.Phi) []*invariant {
	key := f.prefix + li.key
	cands := f.vc.autoInv[key]
	var out []*invariant
	if f.vc.houdini {
		// generate all candidates (first Houdini round) or the surviving ones
		if cands == nil {
			cands = f.genCandidates(b, li, phis)
			f.vc.autoInv[key] = cands
		}
	}
	for _, c := range cands {
		if c.dropped {
			continue
		}
		c := c
		out = append(out, &invariant{name: "auto:" + c.desc, auto: !f.vc.houdiniCheck, cand: c, term: c.term, pos: b.Instrs[0].Pos()})
	}
	return out
}

type autoCand struct {
	desc    string
	term    func(f *frame, hdr *ssa.BasicBlock) Term
	dropped bool
}

// genCandidates proposes simple bounds on integer loop variables.
func (f *frame) genCandidates(b *ssa.BasicBlock, li *loopInfo, phis []*ssa.Phi) []*autoCand {
	var out []*autoCand
	// values that can serve as bounds: lengths of slices/strings visible at the header, integer values compared with phis
	type bound struct {
		desc string
		get  func(f *frame) (Term, bool)
	}
	var bounds []bound
	seen := map[string]bool{}
	addBound := func(v ssa.Value) {
		if v == nil || seen[v.Name()+fmt.Sprint(v.Pos())] {
			return
		}
		// only values defined outside the loop (or parameters/constants)
		if in, ok := v.(ssa.Instruction); ok && li.blocks[in.Block()] {
			// allow len(x) computed inside the loop of a loop-invariant x
			if call, ok := v.(*ssa.Call); ok {
				if bi, ok := call.Call.Value.(*ssa.Builtin); ok && bi.Name() == "len" {
					arg := call.Call.Args[0]
					if ai, ok := arg.(ssa.Instruction); ok && li.blocks[ai.Block()] {
						return
					}
					seen[v.Name()+fmt.Sprint(v.Pos())] = true
					bounds = append(bounds, bound{desc: "len(" + valueName(arg) + ")", get: func(f *frame) (Term, bool) {
						t, ok := f.vals[arg]
						if !ok {
							if _, isP := arg.(*ssa.Parameter); !isP {
								return Term{}, false
							}
							t = f.val(arg)
						}
						switch t.Sort {
						case SSlice:
							return slLen(t), true
						case SStr:
							return strLen(t), true
						}
						return Term{}, false
					}})
				}
			}
			return
		}
		if !isInt(v.Type()) {
			return
		}
		seen[v.Name()+fmt.Sprint(v.Pos())] = true
		bounds = append(bounds, bound{desc: valueName(v), get: func(f *frame) (Term, bool) {
			if _, isC := v.(*ssa.Const); isC {
				return bvResize(f.val(v), 64, isSigned(v.Type())), true
			}
			t, ok := f.vals[v]
			if !ok {
				return Term{}, false
			}
			return bvResize(t, 64, isSigned(v.Type())), true
		}})
	}
	for blk := range li.blocks {
		for _, in := range blk.Instrs {
			if bo, ok := in.(*ssa.BinOp); ok {
				switch bo.Op {
				case token.LSS, token.LEQ, token.GTR, token.GEQ, token.NEQ, token.EQL:
					addBound(bo.X)
					addBound(bo.Y)
				}
			}
		}
	}
	// lengths of loop-invariant slices indexed or sliced inside the loop, and of slice parameters
	lenBound := func(arg ssa.Value) {
		if ai, ok := arg.(ssa.Instruction); ok && li.blocks[ai.Block()] {
			return
		}
		k := "len:" + arg.Name() + fmt.Sprint(arg.Pos())
		if seen[k] {
			return
		}
		seen[k] = true
		bounds = append(bounds, bound{desc: "len(" + valueName(arg) + ")", get: func(f *frame) (Term, bool) {
			t, ok := f.vals[arg]
			if !ok {
				return Term{}, false
			}
			switch t.Sort {
			case SSlice:
				return slLen(t), true
			case SStr:
				return strLen(t), true
			}
			return Term{}, false
		}})
	}
	for blk := range li.blocks {
		for _, in := range blk.Instrs {
			switch x := in.(type) {
			case *ssa.IndexAddr:
				if _, ok := x.X.Type().Underlying().(*types.Slice); ok {
					lenBound(x.X)
				}
			case *ssa.Slice:
				if _, ok := x.X.Type().Underlying().(*types.Slice); ok {
					lenBound(x.X)
				}
			}
		}
	}
	for _, phi := range phis {
		if !isInt(phi.Type()) {
			continue
		}
		phi := phi
		signed := isSigned(phi.Type())
		name := phi.Comment
		if name == "" {
			name = phi.Name()
		}
		get := func(f *frame) Term { return bvResize(f.vals[phi], 64, signed) }
		// lower bounds from initial constants
		for i, e := range phi.Edges {
			if isBackEdge(phi.Block().Preds[i], phi.Block()) {
				continue
			}
			if c, ok := e.(*ssa.Const); ok && c.Value != nil {
				c := c
				out = append(out, &autoCand{desc: fmt.Sprintf("%s >= %s", name, c.Value), term: func(f *frame, hdr *ssa.BasicBlock) Term {
					return sle(bvResize(f.val(c), 64, signed), get(f))
				}})
			}
		}
		if signed {
			for _, c := range []int64{-1, 0} {
				c := c
				out = append(out, &autoCand{desc: fmt.Sprintf("%s >= %d", name, c), term: func(f *frame, hdr *ssa.BasicBlock) Term {
					return sle(i64(c), get(f))
				}})
			}
		}
		for _, bd := range bounds {
			bd := bd
			if strings.HasPrefix(bd.desc, "len(") {
				out = append(out, &autoCand{desc: fmt.Sprintf("(%s - %s) even", bd.desc, name), term: func(f *frame, hdr *ssa.BasicBlock) Term {
					t, ok := bd.get(f)
					if !ok {
						return tTrue
					}
					return mkEq(app("bvand", SBV64, bvSub(t, get(f)), i64(1)), i64(0))
				}})
			}
			out = append(out, &autoCand{desc: fmt.Sprintf("%s <= %s", name, bd.desc), term: func(f *frame, hdr *ssa.BasicBlock) Term {
				t, ok := bd.get(f)
				if !ok {
					return tTrue
				}
				return sle(get(f), t)
			}})
			out = append(out, &autoCand{desc: fmt.Sprintf("%s < %s", name, bd.desc), term: func(f *frame, hdr *ssa.BasicBlock) Term {
				t, ok := bd.get(f)
				if !ok {
					return tTrue
				}
				return slt(get(f), t)
			}})
		}
	}
	// call-event bookkeeping: "no unrecorded call of w happened" is usually an invariant
	for w := range f.vc.watch {
		w := w
		out = append(out, &autoCand{desc: "events of " + w + " are all recorded", term: func(f *frame, hdr *ssa.BasicBlock) Term {
			return mkNot(f.st.get("G$tainted$"+w, SBool))
		}})
	}
	// slices that only shrink from the front keep a valid shape; nothing to add: type invariants are assumed for phis.
	_ = strings.Join
	return out
}

// rangePhi returns the hidden index phi of a range-over-slice loop (nil otherwise).
func rangePhi(hdr *ssa.BasicBlock) *ssa.Phi {
	for _, in := range hdr.Instrs {
		phi, ok := in.(*ssa.Phi)
		if !ok {
			break
		}
		if phi.Comment == "rangeindex" {
			return phi
		}
	}
	return nil
}

// rangeLoopVars: ghost variables offered to invariants of a range loop: idx = elements already processed.
func rangeLoopVars(li *loopInfo) []string {
	if rangePhi(li.header) != nil {
		return []string{"idx"}
	}
	return nil
}
