package main

import (
	"fmt"
	"go/token"
	"go/types"
	"strings"

	"golang.org/x/tools/go/ssa"
)

const maxInlineDepth = 4
const maxInlineInstrs = 220
const maxInlineTotal = 2500

func normName(full string) string {
	// "(*github.com/pion/dtls/v3/internal/flight.Cache).PullAndMerge" -> "flight.Cache.PullAndMerge"
	if i := strings.Index(full, "["); i > 0 && !strings.HasPrefix(full, "(") {
		full = full[:i] // instance of a generic function: "slices.Contains[[]T T]" is named after the generic function
	}
	s := strings.NewReplacer("(", "", ")", "", "*", "").Replace(full)
	if i := strings.LastIndex(s, "/"); i >= 0 {
		s = s[i+1:]
	}
	return s
}

func (vc *VC) watched(full string) (string, bool) {
	for w := range vc.watch {
		if matchWatch(w, full) {
			return w, true
		}
	}
	return "", false
}

// matchWatch: does the event name full (callee, value or "send:"+channel name) match watch name w?
func matchWatch(w, full string) bool {
	w = strings.TrimSuffix(w, "!") // "name!": only calls made lexically by the function under verification
	for _, pre := range []string{"send:", "recv:"} {
		ws, fs := strings.HasPrefix(w, pre), strings.HasPrefix(full, pre)
		if ws != fs {
			return false
		}
		if ws {
			w, full = w[5:], full[5:]
			break
		}
	}
	n := normName(full)
	if n == w || strings.HasSuffix(n, "."+w) {
		return true
	}
	// instances of generic functions ("slices.Contains[[]T T]") are named after the generic function
	if i := strings.Index(n, "["); i > 0 {
		g := n[:i]
		return g == w || strings.HasSuffix(g, "."+w)
	}
	return false
}

// noteEvent records a call event for the ghost vocabulary called/ncalls/lastarg/lastret.
func (f *frame) noteEvent(kind string, callee any, args []Term, results []Term) {
	vc := f.vc
	var full string
	switch c := callee.(type) {
	case string:
		full = c
	case *ssa.Function:
		full = c.String()
	case ssa.Value:
		// channel send / dynamic call through a value: name by field or variable
		full = valueName(c)
	}
	if kind == "send" {
		full = "send:" + full
	}
	w, ok := vc.watched(full)
	if !ok {
		return
	}
	if strings.HasSuffix(w, "!") && !f.top {
		return
	}
	vc.watchHit[w] = true
	if f.preCall != nil {
		if vc.preStates == nil {
			vc.preStates = map[string][]*State{}
		}
		vc.preStates[w] = append(vc.preStates[w], f.preCall)
	}
	f.recordEvent(w, args, results)
}

func (f *frame) recordEvent(w string, args, results []Term) {
	vc := f.vc
	f.st.set("G$called$"+w, tTrue)
	f.st.set("G$tainted$"+w, tFalse)
	n := f.st.get("G$ncalls$"+w, SBV64)
	f.st.set("G$ncalls$"+w, vc.define("G$ncalls$"+w, bvAdd(n, i64(1))))
	for i, a := range args {
		f.st.set(fmt.Sprintf("G$arg$%s$%d", w, i), a)
	}
	for i, r := range results {
		f.st.set(fmt.Sprintf("G$ret$%s$%d", w, i), r)
	}
	// snapshot of the whole ghost event state at this call, for ordering clauses
	f.st.set("G$seq$"+w, f.bumpClock())
	f.updateAlways(w, tTrue)
}

func (f *frame) bumpClock() Term {
	c := f.st.get("G$clock", SBV64)
	n := f.vc.define("G$clock", bvAdd(c, i64(1)))
	f.st.set("G$clock", n)
	return n
}

// valueName gives a stable source-level name to a value used as callee or channel:
// the field or variable it was loaded from.
func valueName(v ssa.Value) string {
	switch x := v.(type) {
	case *ssa.UnOp:
		if x.Op == token.MUL {
			return valueName(x.X)
		}
	case *ssa.FieldAddr:
		st := deref(x.X.Type()).Underlying().(*types.Struct)
		return shortType(deref(x.X.Type())) + "." + st.Field(x.Field).Name()
	case *ssa.Field:
		st := x.X.Type().Underlying().(*types.Struct)
		return shortType(x.X.Type()) + "." + st.Field(x.Field).Name()
	case *ssa.Parameter:
		return "param." + x.Name()
	case *ssa.FreeVar:
		return "freevar." + x.Name()
	case *ssa.Global:
		return x.Pkg.Pkg.Name() + "." + x.Name()
	case *ssa.Alloc:
		return "local." + x.Comment
	case *ssa.Phi:
		return "local." + x.Comment
	case *ssa.MakeClosure:
		return x.Fn.(*ssa.Function).Name()
	case *ssa.Function:
		return x.String()
	case *ssa.Extract:
		return valueName(x.Tuple) + fmt.Sprintf("#%d", x.Index)
	case *ssa.Lookup:
		return valueName(x.X) + "[]"
	case *ssa.IndexAddr:
		return valueName(x.X) + "[]"
	case *ssa.Call:
		if sc := x.Call.StaticCallee(); sc != nil {
			return "ret." + normName(sc.String())
		}
		if x.Call.IsInvoke() {
			return "ret." + normName("("+fullType(x.Call.Value.Type())+")."+x.Call.Method.Name())
		}
	}
	return "value." + v.Name()
}

func (f *frame) call(x *ssa.Call) []Term {
	return f.doCall(&x.Call, x.Pos(), x)
}

func (f *frame) argTerms(c *ssa.CallCommon) []Term {
	var args []Term
	for _, a := range c.Args {
		args = append(args, f.val(a))
	}
	return args
}

func (f *frame) doCall(c *ssa.CallCommon, pos token.Pos, site ssa.Instruction) []Term {
	f.preCall = f.st // state right before the call: what atCall("name", E) clauses are evaluated in
	rs := f.doCall1(c, pos, site)
	return rs
}

func (f *frame) doCall1(c *ssa.CallCommon, pos token.Pos, site ssa.Instruction) []Term {
	vc := f.vc
	sig := c.Signature()
	if b, ok := c.Value.(*ssa.Builtin); ok {
		return f.builtin(b, c, pos)
	}
	if c.IsInvoke() {
		recv := f.val(c.Value)
		f.oblige("nil", pos, mkNot(mkEq(ifTyp(recv), i64(0))))
		full := "(" + fullType(c.Value.Type()) + ")." + c.Method.Name()
		args := append([]Term{recv}, f.argTerms(c)...)
		if rs, ok := f.intrinsicInvoke(full, c, args, pos); ok {
			f.noteEvent("call", full, args, rs)
			return rs
		}
		if isAssumedPure(normName(c.Method.FullName())) && sig.Results().Len() == 1 {
			vc.trust("observer method assumed to be a pure function of its receiver: " + normName(c.Method.FullName()))
			rs := []Term{f.observer(c.Method, recv)}
			f.noteEvent("call", full, args, rs)
			return rs
		}
		if rs, ok := f.devirtualise(c, recv, pos); ok {
			f.noteEvent("call", full, args, rs)
			return rs
		}
		rs := f.havocInvoke(c, sig)
		f.noteEvent("call", full, args, rs)
		return rs
	}
	args := f.argTerms(c)
	callee := c.StaticCallee()
	if callee == nil {
		// closure created in this function?
		if mc, ok := f.closures[c.Value]; ok {
			fn := mc.Fn.(*ssa.Function)
			rs := f.inline(fn, c.Args, mc.Bindings, pos)
			f.noteEvent("call", fn, args, rs)
			return rs
		}
		fv := f.val(c.Value)
		f.oblige("nil", pos, mkNot(mkEq(fv, i64(0))))
		if isHashCtor(c.Value.Type()) {
			vc.trust("values of type func() hash.Hash are pure constructors returning a fresh, non-nil hash")
			a := f.alloc(i64(1))
			vc.assume(ule(i64(4096), a))
			rs := []Term{mkIface(i64(int64(f.tt().typeIDName("*hash.digest"))), a)}
			f.noteEvent("call", c.Value, args, rs)
			return rs
		}
		if ok := isAssumedPure(valueName(c.Value)); ok {
			vc.trust("callback assumed pure: " + valueName(c.Value))
			if ws := assumedWritesOf(valueName(c.Value)); len(ws) > 0 {
				vc.trust("callback " + valueName(c.Value) + " assumed to write only heaps named " + strings.Join(ws, ", "))
				hs := vc.havocSome(f.st, map[string]bool{"$alloc": true})
				hs.modPrefixes = ws
				f.st = hs
				vc.noteWrite("$alloc")
				for _, w := range ws {
					vc.noteWrite("prefix:" + w)
				}
			}
			n := sig.Results().Len()
			rs := make([]Term, n)
			for i := 0; i < n; i++ {
				rs[i] = f.freshOf("cb", sig.Results().At(i).Type())
			}
			f.noteEvent("call", c.Value, args, rs)
			return rs
		}
		rs := f.havocCall(nil, sig, c.Args, true)
		f.noteEvent("call", c.Value, args, rs)
		return rs
	}
	if mc, ok := c.Value.(*ssa.MakeClosure); ok {
		rs := f.inline(callee, c.Args, mc.Bindings, pos)
		f.noteEvent("call", callee, args, rs)
		return rs
	}
	full := callee.String()
	if callee.Signature.Recv() != nil && len(c.Args) > 0 {
		if _, isPtr := c.Args[0].Type().Underlying().(*types.Pointer); isPtr {
			// callee contracts and the sweep assume a non-nil pointer receiver
			f.oblige("nil", pos, mkNot(mkEq(args[0], i64(0))))
		}
	}
	if rs, ok := f.intrinsic(full, callee, c, args, pos); ok {
		f.noteEvent("call", callee, args, rs)
		return rs
	}
	if ct := vc.P.contractFor(callee); ct != nil && ct.NoInline && ct.onlyLoops() {
		// summarised by its inferred write set only; verified on its own
		rs := f.havocCall(callee, sig, c.Args, false)
		f.noteEvent("call", callee, args, rs)
		return rs
	}
	if ct := vc.P.contractFor(callee); ct != nil && ct.Inline {
		f.checkPre(callee, ct, args, pos)
		rs := f.inline(callee, c.Args, nil, pos)
		f.noteEvent("call", callee, args, rs)
		return rs
	} else if ct != nil && !ct.onlyLoops() {
		rs := f.contractCall(callee, ct, c, args, pos)
		f.noteEvent("call", callee, args, rs)
		return rs
	}
	if (vc.P.inRepo(callee) || inlineLib(callee)) && f.canInline(callee) {
		rs := f.inline(callee, c.Args, nil, pos)
		f.noteEvent("call", callee, args, rs)
		return rs
	}
	rs := f.havocCall(callee, sig, c.Args, false)
	f.noteEvent("call", callee, args, rs)
	return rs
}

// inlineLib: library functions whose real source is translated in place (no assumed contract).
func inlineLib(fn *ssa.Function) bool {
	p := pkgOf(fn)
	if p == nil {
		return false
	}
	switch p.Pkg.Path() {
	case "golang.org/x/crypto/cryptobyte":
		return true
	case "encoding/binary":
		return strings.HasPrefix(fn.Name(), "AppendUint")
	case "sync/atomic":
		// typed atomics are thin wrappers around the function forms (modelled sequentially)
		if recv := fn.Signature.Recv(); recv != nil {
			rs := recv.Type().String()
			if strings.Contains(rs, "atomic.Value") || strings.Contains(rs, "atomic.Pointer") {
				return false
			}
			return true
		}
		return fn.Name() == "b32"
	case "slices":
		return false
	}
	return false
}

func (f *frame) canInline(fn *ssa.Function) bool {
	if f.vc.noInline || fn.Blocks == nil || f.depth >= maxInlineDepth {
		return false
	}
	if fn.TypeParams() != nil && len(fn.TypeArgs()) == 0 {
		return false
	}
	for _, s := range f.vc.stack {
		if s == fn {
			return false
		}
	}
	n := 0
	for _, b := range fn.Blocks {
		for _, in := range b.Instrs {
			switch in.(type) {
			case *ssa.Go, *ssa.Select:
				return false
			case *ssa.DebugRef:
			default:
				n++
			}
		}
	}
	if n > maxInlineInstrs || f.vc.inlineBudget+n > maxInlineTotal {
		return false
	}
	f.vc.inlineBudget += n
	return true
}

// inline translates the callee body in place.
func (f *frame) inlineTerms(fn *ssa.Function, args []Term, pos token.Pos) []Term {
	return f.inlineImpl(fn, nil, args, nil, pos)
}

func (f *frame) inline(fn *ssa.Function, argVals []ssa.Value, bindings []ssa.Value, pos token.Pos) []Term {
	return f.inlineImpl(fn, argVals, nil, bindings, pos)
}

func (f *frame) inlineImpl(fn *ssa.Function, argVals []ssa.Value, argTerms []Term, bindings []ssa.Value, pos token.Pos) []Term {
	vc := f.vc
	if fn.Blocks == nil {
		unsup("inline of bodyless %s", fn)
	}
	for _, s := range vc.stack {
		if s == fn {
			unsup("recursive inline of %s", fn)
		}
	}
	if f.depth >= maxInlineDepth+2 {
		unsup("inline depth exceeded at %s", fn)
	}
	vc.names["inl"]++
	g := &frame{vc: vc, fn: fn, prefix: fmt.Sprintf("%si%d$", f.prefix, vc.names["inl"]), depth: f.depth + 1,
		vals: map[ssa.Value]Term{}, ptrs: map[ssa.Value]*ptrDesc{}, tuples: map[ssa.Value][]Term{}, closures: map[ssa.Value]*ssa.MakeClosure{},
		label: f.label, inlined: normName(fn.String()), oldSt: f.st}
	if argVals != nil && len(argVals) != len(fn.Params) || argVals == nil && len(argTerms) != len(fn.Params) {
		unsup("arity mismatch inlining %s", fn)
	}
	for i, p := range fn.Params {
		if argVals == nil {
			g.vals[p] = argTerms[i]
			continue
		}
		g.vals[p] = f.val(argVals[i])
		if pd := f.ptrDescOf(argVals[i]); pd != nil {
			g.ptrs[p] = pd
		}
		if mc, ok := f.closures[argVals[i]]; ok {
			g.closures[p] = mc
			g.closureFrames(mc, f)
		}
	}
	for i, fv := range fn.FreeVars {
		if i < len(bindings) {
			g.vals[fv] = f.val(bindings[i])
			if pd := f.ptrDescOf(bindings[i]); pd != nil {
				g.ptrs[fv] = pd
			}
		}
	}
	vc.stack = append(vc.stack, fn)
	g.run(vc.reach, f.st)
	vc.stack = vc.stack[:len(vc.stack)-1]
	// merge returns
	if len(g.rets) == 0 {
		vc.reach = tFalse
		n := fn.Signature.Results().Len()
		rs := make([]Term, n)
		for i := range rs {
			rs[i] = f.tt().zero(fn.Signature.Results().At(i).Type())
		}
		return rs
	}
	var sts []*State
	var conds []Term
	for _, r := range g.rets {
		sts = append(sts, r.st)
		conds = append(conds, r.reach)
	}
	vc.reach = vc.define(g.prefix+"ret", mkOr(conds...))
	f.st = vc.mergeStates(sts, conds)
	n := fn.Signature.Results().Len()
	rs := make([]Term, n)
	for i := 0; i < n; i++ {
		r := g.rets[len(g.rets)-1].results[i]
		for j := len(g.rets) - 2; j >= 0; j-- {
			r = mkIte(conds[j], g.rets[j].results[i], r)
		}
		rs[i] = vc.define(fmt.Sprintf("%sres%d", g.prefix, i), r)
	}
	return rs
}

// closureFrames: closures passed into an inlined callee keep referring to values of the
// creating frame; bindings are resolved eagerly so the callee can inline the closure.
func (g *frame) closureFrames(mc *ssa.MakeClosure, creator *frame) {
	for _, b := range mc.Bindings {
		if _, ok := g.vals[b]; !ok {
			if t, ok := creator.vals[b]; ok {
				g.vals[b] = t
			}
		}
	}
}

// havocCall models a call whose effect is unknown beyond its (inferred) write set.
func (f *frame) havocCall(callee *ssa.Function, sig *types.Signature, argVals []ssa.Value, unknown bool) []Term {
	vc := f.vc
	for _, a := range argVals {
		if pd := f.ptrDescOf(a); pd != nil && pd.kind == pdField && !isStructPtr(a.Type()) {
			// pointer to a primitive field escapes into an unknown callee: that field may change
			hn, hs := f.tt().fieldHeap(pd.si, pd.field)
			h := f.st.get(hn, hs)
			fr := vc.declareFresh(hn+"!esc", f.tt().sortOf(deref(a.Type())))
			f.st.set(hn, vc.define(hn, mkStore(h, pd.base, fr)))
		}
	}
	var mods map[string]bool
	if callee != nil && !unknown {
		mods = vc.P.modSet(callee)
	}
	if callee != nil && !f.noTaint {
		f.taintEvents([]*ssa.Function{callee}, nil)
	}
	// closures passed as arguments may be invoked: their effects are included
	for _, a := range argVals {
		if mc, ok := f.closures[a]; ok && mods != nil && !mods["*"] {
			cm := wholeMods(vc.P.modSet(mc.Fn.(*ssa.Function)))
			nm := map[string]bool{}
			for k := range mods {
				nm[k] = true
			}
			for k := range cm {
				nm[k] = true
			}
			mods = nm
		} else if _, isSig := a.Type().Underlying().(*types.Signature); isSig && !ok {
			av := a
			for {
				ct, isCT := av.(*ssa.ChangeType)
				if !isCT {
					break
				}
				av = ct.X
			}
			_, isFn := av.(*ssa.Function)
			_, isParam := av.(*ssa.Parameter)
			cst, isConst := av.(*ssa.Const)
			switch {
			case isHashCtor(a.Type()), isParam, isConst && cst.Value == nil, isAssumedPure(valueName(av)):
				// no effect beyond what the callee's own write set says
			case isFn:
				if mods != nil {
					nm := map[string]bool{}
					for k := range mods {
						nm[k] = true
					}
					for k := range wholeMods(vc.P.modSet(av.(*ssa.Function))) {
						nm[k] = true
					}
					mods = nm
				}
			default:
				if mc2, isMC := av.(*ssa.MakeClosure); isMC && mods != nil {
					nm := map[string]bool{}
					for k := range mods {
						nm[k] = true
					}
					for k := range wholeMods(vc.P.modSet(mc2.Fn.(*ssa.Function))) {
						nm[k] = true
					}
					mods = nm
				} else {
					mods = nil
				}
			}
		}
	}
	if mods == nil || mods["*"] {
		f.st = vc.havocAll(f.st)
	} else if len(mods) > 0 {
		f.applyMods(mods, argVals)
	}
	n := sig.Results().Len()
	rs := make([]Term, n)
	for i := 0; i < n; i++ {
		rs[i] = f.freshOf("ret", sig.Results().At(i).Type())
	}
	if callee != nil && n == 1 && nonNilCtors[callee.String()] {
		// library constructors that never return nil (assumed library contract)
		vc.trust(callee.String() + " returns a non-nil value")
		if rs[0].Sort == SIface {
			vc.assume(mkNot(mkEq(ifTyp(rs[0]), i64(0))))
			vc.assume(mkNot(mkEq(ifVal(rs[0]), i64(0))))
		} else if rs[0].Sort == SBV64 {
			vc.assume(mkNot(mkEq(rs[0], i64(0))))
		}
	}
	return rs
}

// nonNilCtors: library constructors whose single result is never nil.
var nonNilCtors = map[string]bool{
	"crypto/hmac.New": true, "crypto/sha256.New": true, "crypto/sha1.New": true, "crypto/sha512.New": true, "crypto/sha512.New384": true, "crypto/md5.New": true,
	"encoding/gob.NewEncoder": true, "encoding/gob.NewDecoder": true,
}

// wholeMods drops the per-object refinement: "@k+off$heap" becomes "heap".
func wholeMods(m map[string]bool) map[string]bool {
	out := map[string]bool{}
	for k := range m {
		if strings.HasPrefix(k, "@") {
			k = k[strings.Index(k, "$")+1:]
		}
		out[k] = true
	}
	normMods(out)
	return out
}

// applyMods havocs the heaps of a write set; "@k+off$heap" entries change only at argument k's object.
func (f *frame) applyMods(mods map[string]bool, argVals []ssa.Value) {
	vc := f.vc
	whole := map[string]bool{}
	type point struct {
		hn   string
		addr Term
	}
	var points []point
	for k := range mods {
		if strings.HasPrefix(k, "@") {
			i := strings.Index(k, "$")
			var idx int
			var off int64
			hn := k[i+1:]
			if _, err := fmt.Sscanf(k[:i], "@%d+%d", &idx, &off); err == nil && idx < len(argVals) && argVals != nil {
				if _, ok := f.vals[argVals[idx]]; ok || isConstOrGlobal(argVals[idx]) {
					points = append(points, point{hn, bvAdd(f.val(argVals[idx]), i64(off))})
					continue
				}
			}
			whole[hn] = true
			continue
		}
		whole[k] = true
	}
	for k := range whole {
		vc.noteWrite(k)
	}
	if len(whole) > 0 {
		f.st = vc.havocSome(f.st, whole)
	}
	for _, pt := range points {
		if whole[pt.hn] {
			continue
		}
		sort, ok := vc.heapSorts[pt.hn]
		if !ok {
			// the heap has not been used in this function yet: its sort is unknown here, havoc it entirely
			f.st = vc.havocSome(f.st, map[string]bool{pt.hn: true})
			vc.noteWrite(pt.hn)
			continue
		}
		es := string(sort)
		elem := Sort(es[len("(Array (_ BitVec 64) ") : len(es)-1])
		h := f.st.get(pt.hn, sort)
		fr := vc.declareFresh(pt.hn+"!pt", elem)
		f.st.set(pt.hn, vc.define(pt.hn, mkStore(h, pt.addr, fr)))
	}
}

func isConstOrGlobal(v ssa.Value) bool {
	switch v.(type) {
	case *ssa.Const, *ssa.Global:
		return true
	}
	return false
}

// ---------------------------------------------------------------------------
// builtins

func (f *frame) builtin(b *ssa.Builtin, c *ssa.CallCommon, pos token.Pos) []Term {
	tt := f.tt()
	vc := f.vc
	switch b.Name() {
	case "len":
		a := f.val(c.Args[0])
		switch u := c.Args[0].Type().Underlying().(type) {
		case *types.Slice:
			return []Term{slLen(a)}
		case *types.Basic:
			return []Term{strLen(a)}
		case *types.Map:
			return []Term{f.mapLen(a, u)}
		case *types.Array:
			return []Term{i64(u.Len())}
		case *types.Pointer:
			return []Term{i64(u.Elem().Underlying().(*types.Array).Len())}
		case *types.Chan:
			r := vc.declareFresh(f.prefix+"chlen", SBV64)
			vc.assume(sle(i64(0), r))
			return []Term{r}
		}
	case "cap":
		a := f.val(c.Args[0])
		switch u := c.Args[0].Type().Underlying().(type) {
		case *types.Slice:
			return []Term{slCap(a)}
		case *types.Array:
			return []Term{i64(u.Len())}
		case *types.Pointer:
			return []Term{i64(u.Elem().Underlying().(*types.Array).Len())}
		case *types.Chan:
			r := vc.declareFresh(f.prefix+"chcap", SBV64)
			vc.assume(sle(i64(0), r))
			return []Term{r}
		}
	case "append":
		return []Term{f.appendOp(c, pos)}
	case "copy":
		dst, src := f.val(c.Args[0]), f.val(c.Args[1])
		el := c.Args[0].Type().Underlying().(*types.Slice).Elem()
		var sl Term
		fromStr := false
		if src.Sort == SStr {
			sl = strLen(src)
			fromStr = true
		} else {
			sl = slLen(src)
		}
		n := vc.define(f.prefix+"copy$n", mkIte(slt(slLen(dst), sl), slLen(dst), sl))
		if fromStr {
			hn, hs := tt.elemHeap(el)
			f.st.set(hn, vc.blockCopy(hn, f.st.get(hn, hs), vc.smem(), slObj(dst), slOff(dst), strPtr(src), n))
		} else {
			f.copyRange(slObj(dst), slOff(dst), slObj(src), slOff(src), n, el)
		}
		return []Term{n}
	case "delete":
		mt := c.Args[0].Type().Underlying().(*types.Map)
		f.mapDelete(f.val(c.Args[0]), f.val(c.Args[1]), mt)
		return nil
	case "min", "max":
		r := f.val(c.Args[0])
		signed := isSigned(c.Args[0].Type())
		for _, a := range c.Args[1:] {
			v := f.val(a)
			var lt Term
			if signed {
				lt = slt(v, r)
			} else {
				lt = ult(v, r)
			}
			if b.Name() == "max" {
				gt := mkNot(mkOr(lt, mkEq(v, r))) // v > r
				r = mkIte(gt, v, r)
				continue
			}
			r = mkIte(lt, v, r)
		}
		return []Term{r}
	case "print", "println":
		return nil
	case "recover":
		return []Term{nilIface}
	case "close":
		return nil
	case "clear":
		if mt, ok := c.Args[0].Type().Underlying().(*types.Map); ok {
			m := f.val(c.Args[0])
			dn, _, nn, ds, _, ns, ks, _ := f.mapHeaps(mt)
			D := f.st.get(dn, ds)
			N := f.st.get(nn, ns)
			empty := Term{"((as const " + string(arraySort(ks, SBool)) + ") false)", arraySort(ks, SBool)}
			f.st.set(dn, vc.define(dn, mkIte(mkEq(m, i64(0)), D, mkStore(D, m, empty))))
			f.st.set(nn, vc.define(nn, mkIte(mkEq(m, i64(0)), N, mkStore(N, m, i64(0)))))
			return nil
		}
		if sl, ok := c.Args[0].Type().Underlying().(*types.Slice); ok {
			s := f.val(c.Args[0])
			f.zeroRange(slObj(s), slOff(s), slLen(s), sl.Elem())
			return nil
		}
		f.st = vc.havocAll(f.st)
		return nil
	case "ssa:wrapnilchk":
		return []Term{f.val(c.Args[0])}
	}
	unsup("builtin %s on %s", b.Name(), c.Args[0].Type())
	return nil
}

func (f *frame) appendOp(c *ssa.CallCommon, pos token.Pos) Term {
	tt := f.tt()
	vc := f.vc
	s := f.val(c.Args[0])
	el := c.Args[0].Type().Underlying().(*types.Slice).Elem()
	slots := tt.slots(el)
	t := f.val(c.Args[1])
	fromStr := t.Sort == SStr
	var n Term
	if fromStr {
		n = strLen(t)
	} else {
		n = slLen(t)
	}
	n = vc.define(f.prefix+"app$n", n)
	newLen := vc.define(f.prefix+"app$len", bvAdd(slLen(s), n))
	fits := vc.define(f.prefix+"app$fits", sle(newLen, slCap(s)))
	// new backing store (used when it does not fit)
	ncap := vc.declareFresh(f.prefix+"app$cap", SBV64)
	vc.assume(mkAnd(sle(newLen, ncap), sle(ncap, bvLit(64, 1<<40)), sle(i64(1), ncap)))
	units := i64(1)
	if isStructType(el) {
		units = vc.define(f.prefix+"app$units", bvAdd(bvMul(ncap, i64(slots)), i64(1)))
	}
	nobj := f.alloc(units)
	vc.assume(ule(i64(4096), nobj))
	dobj := vc.define(f.prefix+"app$obj", mkIte(fits, slObj(s), nobj))
	if !isStructType(el) {
		// Reallocation: the new object's inner array is a copy of the old object's whole inner
		// array and the slice keeps its offset inside it (contents beyond the capacity are junk
		// either way), so no range copy is needed.
		hn, hs := tt.elemHeap(el)
		h := f.st.get(hn, hs)
		es := tt.sortOf(el)
		inner := arraySort(SBV64, es)
		copied := vc.define(hn, mkIte(fits, h, mkStore(h, nobj, mkSelect(h, slObj(s), inner))))
		f.st.set(hn, copied)
		doff := slOff(s)
		if !fromStr {
			f.copyRange(dobj, bvAdd(doff, slLen(s)), slObj(t), slOff(t), n, el)
		} else {
			h2 := f.st.get(hn, hs)
			f.st.set(hn, vc.blockCopy(hn, h2, vc.smem(), dobj, bvAdd(doff, slLen(s)), strPtr(t), n))
		}
		vc.assume(mkImplies(mkNot(fits), sle(bvAdd(doff, ncap), bvLit(64, 1<<41))))
		return mkSlice(dobj, doff, newLen, mkIte(fits, slCap(s), ncap))
	}
	doff := vc.define(f.prefix+"app$off", mkIte(fits, slOff(s), i64(0)))
	// copy old contents when reallocating (length 0 when it fits)
	oldN := vc.define(f.prefix+"app$old", mkIte(fits, i64(0), slLen(s)))
	f.copyRange(nobj, i64(0), slObj(s), slOff(s), oldN, el)
	f.copyRange(dobj, bvAdd(doff, slLen(s)), slObj(t), slOff(t), n, el)
	return mkSlice(dobj, doff, newLen, mkIte(fits, slCap(s), ncap))
}

// ---------------------------------------------------------------------------
// defer / select

func (f *frame) deferInstr(x *ssa.Defer) {
	id := len(f.defers)
	d := &deferRec{instr: x, flag: fmt.Sprintf("D$%s%d", f.prefix, id)}
	for _, li := range f.loops {
		if li.blocks[x.Block()] {
			unsup("defer inside a loop")
		}
	}
	f.defers = append(f.defers, d)
	f.st.set(d.flag, tTrue)
	// arguments are evaluated now
	for i, a := range x.Call.Args {
		n := fmt.Sprintf("%s$a%d", d.flag, i)
		f.st.set(n, f.val(a))
		d.args = append(d.args, n)
	}
}

func (f *frame) runDefers(x *ssa.RunDefers) {
	vc := f.vc
	for i := len(f.defers) - 1; i >= 0; i-- {
		d := f.defers[i]
		flag := f.st.get(d.flag, SBool)
		// E$ entry default of an unset flag is an arbitrary Bool: flags are false initially
		if strings.HasPrefix(flag.S, "E$") || strings.HasPrefix(flag.S, "|E$") {
			continue
		}
		if flag.S == "false" {
			continue
		}
		// conditional execution: run the call under reach && flag, then merge
		before := f.st
		savedReach := vc.reach
		vc.reach = vc.define(f.prefix+"dreach", mkAnd(savedReach, flag))
		f.st = before.seq()
		f.doCall(&d.instr.Call, d.instr.Pos(), d.instr)
		after := f.st
		afterReach := vc.reach
		skip := mkAnd(savedReach, mkNot(flag))
		vc.reach = vc.define(f.prefix+"dmerge", mkOr(afterReach, skip))
		f.st = vc.mergeStates([]*State{after, before}, []Term{afterReach, skip})
	}
}

func (f *frame) selectInstr(x *ssa.Select) {
	vc := f.vc
	tup := x.Type().(*types.Tuple)
	idx := vc.declareFresh(f.name(x)+"$idx", SBV64)
	lo := i64(0)
	if !x.Blocking {
		lo = i64(-1)
	}
	vc.assume(mkAnd(sle(lo, idx), slt(idx, i64(int64(len(x.States))))))
	rs := []Term{idx, vc.declareFresh(f.name(x)+"$ok", SBool)}
	for i := 2; i < tup.Len(); i++ {
		rs = append(rs, f.freshOf("selrecv", tup.At(i).Type()))
	}
	f.tuples[x] = rs
	// receive cases: the chosen case consumed one value from its channel
	ri := 2
	for i, s := range x.States {
		if s.Dir != types.RecvOnly {
			continue
		}
		var recvd Term
		if ri < len(rs) {
			recvd = rs[ri]
		}
		ri++
		w, ok := vc.watched("recv:" + valueName(s.Chan))
		if !ok {
			continue
		}
		chosen := mkEq(idx, i64(int64(i)))
		vc.watchHit[w] = true
		n := f.st.get("G$ncalls$"+w, SBV64)
		f.st.set("G$ncalls$"+w, vc.define("G$ncalls$"+w, mkIte(chosen, bvAdd(n, i64(1)), n)))
		c := f.st.get("G$called$"+w, SBool)
		f.st.set("G$called$"+w, vc.define("G$called$"+w, mkOr(c, chosen)))
		if recvd.valid() {
			a := f.st.get("G$ret$"+w+"$0", recvd.Sort)
			f.st.set("G$ret$"+w+"$0", vc.define("G$ret$"+w, mkIte(chosen, recvd, a)))
		}
		f.updateAlways(w, chosen)
	}
	for i, s := range x.States {
		if s.Dir == types.SendOnly {
			// a send happens iff this case is chosen
			w, ok := vc.watched("send:" + valueName(s.Chan))
			if ok {
				vc.watchHit[w] = true
				chosen := mkEq(idx, i64(int64(i)))
				n := f.st.get("G$ncalls$"+w, SBV64)
				f.st.set("G$ncalls$"+w, vc.define("G$ncalls$"+w, mkIte(chosen, bvAdd(n, i64(1)), n)))
				c := f.st.get("G$called$"+w, SBool)
				f.st.set("G$called$"+w, vc.define("G$called$"+w, mkOr(c, chosen)))
				a := f.st.get("G$arg$"+w+"$0", f.tt().sortOf(s.Send.Type()))
				f.st.set("G$arg$"+w+"$0", vc.define("G$arg$"+w, mkIte(chosen, f.val(s.Send), a)))
				f.updateAlways(w, chosen)
			}
		}
	}
}

// switchExec runs each body under its condition from the same pre-state and merges.
// Conditions must be mutually exclusive; def runs when none holds.
func (f *frame) switchExec(conds []Term, bodies []func() []Term, def func() []Term, resultTypes []types.Type) []Term {
	vc := f.vc
	before := f.st
	savedReach := vc.reach
	var sts []*State
	var reaches []Term
	var results [][]Term
	var named []Term
	for i, c := range conds {
		cn := vc.define(f.prefix+"case", c)
		named = append(named, cn)
		vc.reach = vc.define(f.prefix+"creach", mkAnd(savedReach, cn))
		f.st = before.seq()
		rs := bodies[i]()
		sts = append(sts, f.st)
		reaches = append(reaches, vc.reach)
		results = append(results, rs)
	}
	none := mkNot(mkOr(named...))
	vc.reach = vc.define(f.prefix+"creach", mkAnd(savedReach, none))
	f.st = before.seq()
	rs := def()
	sts = append(sts, f.st)
	reaches = append(reaches, vc.reach)
	results = append(results, rs)
	vc.reach = vc.define(f.prefix+"cmerge", mkOr(reaches...))
	f.st = vc.mergeStates(sts, reaches)
	out := make([]Term, len(resultTypes))
	for k := range out {
		r := results[len(results)-1][k]
		for i := len(conds) - 1; i >= 0; i-- {
			r = mkIte(named[i], results[i][k], r)
		}
		out[k] = vc.define(f.prefix+"cres", r)
	}
	return out
}

// implementations lists the in-repo concrete methods that an interface method call may dispatch to.
func (P *Program) implementations(iface *types.Interface, method *types.Func) []implRec {
	key := method.FullName()
	if r, ok := P.implCache[key]; ok {
		return r
	}
	var out []implRec
	seen := map[string]bool{}
	for _, pkg := range P.pkgs {
		if !strings.HasPrefix(pkg.PkgPath, repoMod) {
			continue
		}
		sc := pkg.Types.Scope()
		for _, name := range sc.Names() {
			tn, ok := sc.Lookup(name).(*types.TypeName)
			if !ok || tn.IsAlias() {
				continue
			}
			T := tn.Type()
			if types.IsInterface(T) {
				continue
			}
			if named, ok := T.(*types.Named); ok && named.TypeParams().Len() > 0 {
				continue
			}
			for _, cand := range []types.Type{T, types.NewPointer(T)} {
				if !types.Implements(cand, iface) {
					continue
				}
				sel := P.prog.MethodSets.MethodSet(cand).Lookup(method.Pkg(), method.Name())
				if sel == nil {
					continue
				}
				fn := P.prog.MethodValue(sel)
				if fn == nil || seen[fullType(cand)] {
					continue
				}
				seen[fullType(cand)] = true
				out = append(out, implRec{typ: cand, fn: fn})
			}
		}
	}
	if P.implCache == nil {
		P.implCache = map[string][]implRec{}
	}
	P.implCache[key] = out
	return out
}

type implRec struct {
	typ types.Type
	fn  *ssa.Function
}

const maxDevirt = 4

// devirtualise turns an interface call with few in-repo implementations into a switch on the dynamic type.
func (f *frame) devirtualise(c *ssa.CallCommon, recv Term, pos token.Pos) ([]Term, bool) {
	vc := f.vc
	iface, ok := c.Value.Type().Underlying().(*types.Interface)
	if !ok {
		return nil, false
	}
	impls := vc.P.implementations(iface, c.Method)
	if len(impls) == 0 || len(impls) > maxDevirt {
		return nil, false
	}
	// a pointer type *T and its value type T may both implement: both are distinct dynamic types
	sig := c.Signature()
	var rts []types.Type
	for i := 0; i < sig.Results().Len(); i++ {
		rts = append(rts, sig.Results().At(i).Type())
	}
	tt := f.tt()
	var conds []Term
	var bodies []func() []Term
	for _, im := range impls {
		im := im
		if im.fn.Blocks == nil && im.fn.Synthetic == "" {
			return nil, false
		}
		conds = append(conds, mkEq(ifTyp(recv), i64(int64(tt.typeID(im.typ)))))
		bodies = append(bodies, func() []Term {
			var rv Term
			if f.isPtrLikeType(im.typ) {
				rv = ifVal(recv)
			} else {
				hn, hs := tt.boxHeap(im.typ)
				rv = mkSelect(f.st.get(hn, hs), ifVal(recv), tt.sortOf(im.typ))
			}
			return f.callConcrete(im.fn, rv, c, pos)
		})
	}
	rs := f.switchExec(conds, bodies, func() []Term { return f.havocInvoke(c, sig) }, rts)
	return rs, true
}

// callConcrete calls fn with an explicit receiver term and the arguments of c.
func (f *frame) callConcrete(fn *ssa.Function, recv Term, c *ssa.CallCommon, pos token.Pos) []Term {
	vc := f.vc
	args := append([]Term{recv}, f.argTerms(c)...)
	target := fn
	// wrappers (synthetic) for promoted/pointer methods: call through contract/havoc only
	if ct := vc.P.contractFor(target); ct != nil && !ct.onlyLoops() && !ct.Inline {
		return f.contractCallTerms(target, ct, args, pos)
	}
	noInl := false
	if ct := vc.P.contractFor(target); ct != nil && ct.NoInline {
		noInl = true
	}
	// synthetic wrappers (promoted methods, value->pointer) forward to a declared method: honour its contract flags
	if target.Synthetic != "" {
		if decl := wrappedMethod(target); decl != nil {
			if ct := vc.P.contractFor(decl); ct != nil && ct.NoInline {
				noInl = true
			}
		}
	}
	if !noInl && target.Synthetic == "" && vc.P.inRepo(target) && f.canInline(target) {
		return f.inlineTerms(target, args, pos)
	}
	if !noInl && target.Synthetic != "" && target.Blocks != nil && f.canInline(target) {
		return f.inlineTerms(target, args, pos)
	}
	mods := wholeMods(vc.P.modSet(target))
	f.taintEvents([]*ssa.Function{target}, nil)
	if mods["*"] {
		f.st = vc.havocAll(f.st)
	} else if len(mods) > 0 {
		for k := range mods {
			vc.noteWrite(k)
		}
		f.st = vc.havocSome(f.st, mods)
	}
	n := target.Signature.Results().Len()
	rs := make([]Term, n)
	for i := 0; i < n; i++ {
		rs[i] = f.freshOf("ret", target.Signature.Results().At(i).Type())
	}
	return rs
}

// havocInvoke models an interface call by the union of the write sets of its in-repo implementations.
func (f *frame) havocInvoke(c *ssa.CallCommon, sig *types.Signature) []Term {
	vc := f.vc
	iface, ok := c.Value.Type().Underlying().(*types.Interface)
	if !ok {
		return f.havocCall(nil, sig, c.Args, true)
	}
	impls := vc.P.implementations(iface, c.Method)
	if len(impls) == 0 {
		return f.havocCall(nil, sig, c.Args, true)
	}
	mods := map[string]bool{}
	var fns []*ssa.Function
	for _, im := range impls {
		fns = append(fns, im.fn)
		for k := range wholeMods(vc.P.modSet(im.fn)) {
			mods[k] = true
		}
	}
	f.taintEvents(fns, nil)
	vc.trust("interface calls write at most what the in-repo implementations of the method write (implementations outside the repository are assumed to stay within that frame)")
	if mods["*"] {
		f.st = vc.havocAll(f.st)
	} else if len(mods) > 0 {
		for k := range mods {
			vc.noteWrite(k)
		}
		f.st = vc.havocSome(f.st, mods)
	}
	n := sig.Results().Len()
	rs := make([]Term, n)
	for i := 0; i < n; i++ {
		rs[i] = f.freshOf("ret", sig.Results().At(i).Type())
	}
	return rs
}

// observer applies the uninterpreted function standing for a pure interface method to its receiver.
func (f *frame) observer(m *types.Func, recv Term) Term {
	vc := f.vc
	sig := m.Type().(*types.Signature)
	rs := f.tt().sortOf(sig.Results().At(0).Type())
	name := sym("obs$" + normName(m.FullName()))
	if !vc.declared[name] {
		vc.declared[name] = true
		vc.items = append(vc.items, Item{kind: itDecl, text: fmt.Sprintf("(declare-fun %s (Iface) %s)", name, rs)})
	}
	return app(name, rs, recv)
}

// eventNames returns the names of all call sites and channel sends reachable from fn through
// static calls, in-repo implementations of interface methods, and closures created on the way.
// Code outside the repository is assumed not to generate in-repo events.
func (P *Program) eventNames(fn *ssa.Function) map[string]bool {
	if r, ok := P.eventCache[fn]; ok {
		return r
	}
	out := map[string]bool{}
	seen := map[*ssa.Function]bool{}
	var visit func(g *ssa.Function)
	visit = func(g *ssa.Function) {
		if g == nil || seen[g] || g.Blocks == nil {
			return
		}
		seen[g] = true
		if !(P.inRepo(g) || inlineLib(g)) {
			return
		}
		for _, b := range g.Blocks {
			for _, in := range b.Instrs {
				switch x := in.(type) {
				case *ssa.Send:
					out["send:"+valueName(x.Chan)] = true
				case *ssa.Select:
					for _, st := range x.States {
						if st.Dir == types.SendOnly {
							out["send:"+valueName(st.Chan)] = true
						} else {
							out["recv:"+valueName(st.Chan)] = true
						}
					}
				case *ssa.UnOp:
					if x.Op == token.ARROW {
						out["recv:"+valueName(x.X)] = true
					}
				case *ssa.MakeClosure:
					visit(x.Fn.(*ssa.Function))
				case *ssa.Go:
					// events of other goroutines are not part of this function's sequential trace
				}
				var c *ssa.CallCommon
				switch x := in.(type) {
				case *ssa.Call:
					c = &x.Call
				case *ssa.Defer:
					c = &x.Call
				default:
					continue
				}
				if _, ok := c.Value.(*ssa.Builtin); ok {
					continue
				}
				if c.IsInvoke() {
					out["("+fullType(c.Value.Type())+")."+c.Method.Name()] = true
					if iface, ok := c.Value.Type().Underlying().(*types.Interface); ok {
						for _, im := range P.implementations(iface, c.Method) {
							visit(im.fn)
						}
					}
					continue
				}
				if callee := c.StaticCallee(); callee != nil {
					out[callee.String()] = true
					visit(callee)
					continue
				}
				out[valueName(c.Value)] = true
			}
		}
	}
	visit(fn)
	if P.eventCache == nil {
		P.eventCache = map[*ssa.Function]map[string]bool{}
	}
	P.eventCache[fn] = out
	return out
}

// taintEvents: a call that is not translated in place may generate watched events that are not
// described by a contract; the ghost state of those names becomes unknown (monotonically).
func (f *frame) taintEvents(callees []*ssa.Function, skip map[string]bool) {
	vc := f.vc
	for w := range vc.watch {
		if skip[w] || strings.HasSuffix(w, "!") {
			continue
		}
		may := false
		for _, cf := range callees {
			if cf == nil {
				continue
			}
			for n := range vc.P.eventNames(cf) {
				if n == "*" || matchWatch(w, n) {
					may = true
					break
				}
			}
			if matchWatch(w, cf.String()) {
				may = false // the call itself is recorded by the caller
			}
		}
		if !may {
			continue
		}
		vc.watchHit[w] = true
		d := vc.declareFresh(f.prefix+"ev$d", SBV64)
		vc.assume(mkAnd(sle(i64(0), d), sle(d, bvLit(64, 1<<32))))
		some := vc.define(f.prefix+"ev$some", slt(i64(0), d))
		f.st.set("G$called$"+w, vc.define("G$called", mkOr(f.st.get("G$called$"+w, SBool), some)))
		f.st.set("G$ncalls$"+w, vc.define("G$ncalls", bvAdd(f.st.get("G$ncalls$"+w, SBV64), d)))
		f.st.set("G$tainted$"+w, vc.define("G$tainted", mkOr(f.st.get("G$tainted$"+w, SBool), some)))
		f.taintAlways(w, some)
	}
}

// wrappedMethod returns the declared method that a synthetic wrapper forwards to (its single static callee).
func wrappedMethod(w *ssa.Function) *ssa.Function {
	var found *ssa.Function
	for _, b := range w.Blocks {
		for _, in := range b.Instrs {
			if c, ok := in.(*ssa.Call); ok {
				if sc := c.Call.StaticCallee(); sc != nil && sc.Name() == w.Name() {
					found = sc
				}
			}
		}
	}
	return found
}
