package main

import (
	"flag"
	"regexp"
	"go/types"
	"fmt"
	"os"
	"sort"
	"strings"
	"time"

	"golang.org/x/tools/go/ssa"
)

func main() {
	if len(os.Args) < 2 {
		fmt.Fprintln(os.Stderr, "usage: vc <cmd> ...")
		os.Exit(2)
	}
	switch os.Args[1] {
	case "fn":
		cmdFn(os.Args[2:])
	case "check":
		cmdCheck(os.Args[2:])
	case "gen":
		cmdGen(os.Args[2:])
	case "mods":
		cmdMods(os.Args[2:])
	case "globals":
		P, _ := loadProgram("/repo", []string{"./..."})
		P.scanGlobals()
		for g, gi := range P.gconst {
			if strings.Contains(g.Name(), os.Args[2]) {
				fmt.Printf("%s.%s mutable=%v nonNil=%v whole=%v fields=%d\n", g.Pkg.Pkg.Path(), g.Name(), gi.mutable, gi.nonNil, gi.whole != nil, len(gi.fields))
			}
		}
	default:
		fmt.Fprintln(os.Stderr, "unknown command", os.Args[1])
		os.Exit(2)
	}
}

// cmdFn: verify the named functions and print per-obligation results (development tool).
func cmdFn(args []string) {
	fs := flag.NewFlagSet("fn", flag.ExitOnError)
	repo := fs.String("repo", "/repo", "repository")
	contracts := fs.String("contracts", "/verif/contracts", "contract mirror")
	timeout := fs.Int("t", 10000, "solver timeout ms")
	keep := fs.String("keep", "", "directory to keep failing queries")
	dump := fs.String("dump", "", "write the full query of the first function to this file")
	noinline := fs.Bool("noinline", false, "disable inlining")
	doReplay := fs.Bool("replay", false, "replay sat obligations on the real code")
	explain := fs.String("explain", "", "substring of an obligation name: print the goal and the model values of the names it mentions")
	fs.Parse(args)
	t0 := time.Now()
	P, err := loadProgram(*repo, []string{"./..."})
	if err != nil {
		fmt.Fprintln(os.Stderr, "load:", err)
		os.Exit(2)
	}
	if err := P.loadContracts(*contracts); err != nil {
		fmt.Fprintln(os.Stderr, "contracts:", err)
		os.Exit(2)
	}
	for _, m := range P.missing {
		fmt.Println("contract for unknown function:", m)
	}
	fmt.Printf("loaded in %v\n", time.Since(t0))
	for _, pat := range fs.Args() {
		var keys []string
		for k := range P.funcs {
			if k == pat || (strings.HasSuffix(pat, "*") && strings.HasPrefix(k, strings.TrimSuffix(pat, "*"))) {
				keys = append(keys, k)
			}
		}
		sort.Strings(keys)
		if len(keys) == 0 {
			fmt.Println("no function matches", pat)
		}
		for _, k := range keys {
			fn := P.funcs[k]
			t1 := time.Now()
			vc := P.verify(fn, *timeout, 8, *keep, *noinline, nil)
			if vc.err != nil {
				fmt.Printf("%-60s UNSUPPORTED %v\n", k, vc.err)
				continue
			}
			gen := time.Since(t1)
			if *dump != "" {
				os.WriteFile(*dump, []byte(vc.render(vc.obligs, "z3", *timeout)), 0o644)
			}
			for w := range vc.watch {
				if !vc.watchHit[w] {
					fmt.Printf("    WARNING: watch name %q matched no call, send or receive in this function or its callees\n", w)
				}
			}
			for hn := range vc.heldAsk {
				if !vc.mutexes[hn] {
					fmt.Printf("    WARNING: held(%q) names no mutex that this function (or an inlined callee) locks or unlocks: the clause reads a constant\n", hn)
				}
			}
			if len(vc.autoKept) > 0 {
				fmt.Printf("    auto invariants: %s\n", strings.Join(vc.autoKept, "; "))
			}
			nOK := 0
			for _, o := range vc.obligs {
				if o.Status == "unsat" {
					nOK++
				}
			}
			fmt.Printf("%-60s %d/%d discharged (gen %v, total %v) %s\n", k, nOK, len(vc.obligs), gen.Round(time.Millisecond), time.Since(t1).Round(time.Millisecond), vc.Vacuity)
			for _, o := range vc.obligs {
				if o.Status == "unsat" && o.Ms > 1500 {
					fmt.Printf("    slow %dms %s %s\n", o.Ms, o.Solver, o.Name)
				}
				if o.Status != "unsat" {
					fmt.Printf("    %-8s %s  [%s:%d] %s\n", o.Status, o.Name, o.Pos.Filename[strings.LastIndex(o.Pos.Filename, "/")+1:], o.Pos.Line, o.Solver)
					if *explain != "" && strings.Contains(o.Name, *explain) && o.Status == "sat" {
						vc.explain(o)
					}
					if *doReplay && o.Status == "sat" {
						if rr := P.replay(o, vc, *repo); rr != nil {
							fmt.Printf("      replay: reproduced=%v %s\n", rr.Reproduced, rr.Note)
							if rr.Reproduced {
								for _, l := range strings.Split(rr.Test, "\n") {
									if strings.Contains(l, " = ") && strings.HasPrefix(l, "\ta") {
										if len(l) > 300 {
											l = l[:300] + "..."
										}
										fmt.Println("        " + l)
									}
								}
								for _, l := range strings.Split(rr.Output, "\n") {
									if strings.Contains(l, "VERIF-REPLAY") {
										fmt.Println("        " + l)
									}
								}
							}
						}
					}
				}
			}
		}
	}
}

// cmdGen generates (but does not solve) the VCs of every in-repo function: a smoke test of the translator.
func cmdGen(args []string) {
	P, err := loadProgram("/repo", []string{"./..."})
	if err != nil {
		fmt.Fprintln(os.Stderr, "load:", err)
		os.Exit(2)
	}
	P.loadContracts("/verif/contracts")
	var keys []string
	for k := range P.funcs {
		keys = append(keys, k)
	}
	sort.Strings(keys)
	reasons := map[string]int{}
	ok, bad, nob := 0, 0, 0
	for _, k := range keys {
		if len(args) > 0 && !strings.HasPrefix(k, args[0]) {
			continue
		}
		func() {
			defer func() {
				if r := recover(); r != nil {
					bad++
					msg := fmt.Sprint(r)
					if len(msg) > 100 {
						msg = msg[:100]
					}
					reasons["PANIC: "+msg]++
					fmt.Println("PANIC", k, msg)
				}
			}()
			vc := P.genVC(P.funcs[k], genOpts{})
			if vc.err != nil {
				bad++
				reasons[vc.err.Error()]++
				if os.Getenv("VC_TRACE") != "" {
					fmt.Println("UNSUPPORTED", k, vc.err)
				}
				return
			}
			ok++
			nob += len(vc.obligs)
		}()
	}
	fmt.Printf("%d functions translated (%d obligations), %d unsupported\n", ok, nob, bad)
	var rs []string
	for r, n := range reasons {
		rs = append(rs, fmt.Sprintf("%5d %s", n, r))
	}
	sort.Sort(sort.Reverse(sort.StringSlice(rs)))
	for _, r := range rs {
		fmt.Println(r)
	}
}

// cmdMods prints the inferred write set of functions, and which callees contribute "*".
func cmdMods(args []string) {
	P, err := loadProgram("/repo", []string{"./..."})
	if err != nil {
		fmt.Fprintln(os.Stderr, "load:", err)
		os.Exit(2)
	}
	P.loadContracts("/verif/contracts")
	for _, k := range args {
		fn := P.funcs[k]
		if fn == nil {
			fmt.Println("no function", k)
			continue
		}
		m := P.modSet(fn)
		fmt.Printf("%s: %d names, star=%v\n", k, len(m), m["*"])
		if m["*"] {
			P.explainStar(fn, 0, map[*ssa.Function]bool{})
		} else {
			for _, n := range sortedKeys(m) {
				fmt.Println("   ", n)
			}
		}
	}
}

func (P *Program) explainStar(fn *ssa.Function, depth int, seen map[*ssa.Function]bool) {
	if seen[fn] || depth > 8 {
		return
	}
	seen[fn] = true
	ind := strings.Repeat("  ", depth+1)
	if fn.Blocks == nil {
		fmt.Printf("%s%s: no body\n", ind, fn)
		return
	}
	for _, b := range fn.Blocks {
		for _, in := range b.Instrs {
			var c *ssa.CallCommon
			switch x := in.(type) {
			case *ssa.Call:
				c = &x.Call
			case *ssa.Defer:
				c = &x.Call
			case *ssa.Go:
				fmt.Printf("%s%s: go statement\n", ind, fn)
				continue
			default:
				continue
			}
			if _, ok := c.Value.(*ssa.Builtin); ok {
				continue
			}
			if c.IsInvoke() {
				if _, ok := invokeMods(c); ok {
					continue
				}
				iface := c.Value.Type().Underlying().(*types.Interface)
				impls := P.implementations(iface, c.Method)
				if len(impls) == 0 {
					fmt.Printf("%s%s: invoke %s.%s without in-repo implementation\n", ind, fn.Name(), c.Value.Type(), c.Method.Name())
					continue
				}
				for _, im := range impls {
					if P.modSet(im.fn)["*"] {
						fmt.Printf("%s%s: invoke %s -> %s is *\n", ind, fn.Name(), c.Method.Name(), im.fn)
						P.explainStar(im.fn, depth+1, seen)
					}
				}
				continue
			}
			callee := c.StaticCallee()
			if callee == nil {
				if _, ok := c.Value.(*ssa.MakeClosure); !ok {
					fmt.Printf("%s%s: call through function value %s\n", ind, fn.Name(), valueName(c.Value))
				}
				continue
			}
			if P.modSet(callee)["*"] {
				fmt.Printf("%s%s: calls %s which is *\n", ind, fn.Name(), callee)
				P.explainStar(callee, depth+1, seen)
			}
		}
	}
}

// explain prints the refuted goal and the model values of the named terms it mentions (one level deep).
func (vc *VC) explain(o *Oblig) {
	fmt.Println("      goal:", truncate(o.goal.S, 1500))
	defs := map[string]string{}
	re := regexp.MustCompile(`^\((?:define-fun|declare-const) (\S+|\|[^|]*\|) `)
	for i := 0; i < o.itemIdx && i < len(vc.items); i++ {
		if m := re.FindStringSubmatch(vc.items[i].text); m != nil {
			defs[m[1]] = vc.items[i].text
		}
	}
	tokRe := regexp.MustCompile(`\|[^|]*\||[A-Za-z_$!.][A-Za-z0-9_$!.#@~+-]*`)
	want := map[string]bool{}
	var order []string
	add := func(text string) {
		for _, t := range tokRe.FindAllString(text, -1) {
			if _, ok := defs[t]; ok && !want[t] {
				want[t] = true
				order = append(order, t)
			}
		}
	}
	add(o.goal.S)
	add(o.pc.S)
	n := len(order)
	for _, t := range order[:n] {
		add(defs[t])
	}
	if len(order) > 60 {
		order = order[:60]
	}
	vc.renderAllDecls = false
	q := vc.render([]*Oblig{o}, "z3", 20000) + "(get-value (" + strings.Join(order, " ") + "))\n"
	r := raceSolve(map[string]string{"z3": q}, "explain", 20000, false, []string{"z3-new"})
	out := r.output
	if len(out) > 6000 {
		out = out[:6000]
	}
	fmt.Println("      model:", strings.ReplaceAll(out, "\n", "\n        "))
}
