package main

import (
	"encoding/json"
	"flag"
	"fmt"
	"os"
	"path/filepath"
	"regexp"
	"sort"
	"strings"
	"sync"
	"time"

	"golang.org/x/tools/go/ssa"
)

// PropConfig describes how one property is decided.
type PropConfig struct {
	ID          string   `json:"id"`
	Title       string   `json:"title"`
	Verify      []string `json:"verify"`      // functions under contract: every obligation counts
	Sweep       []string `json:"sweep"`       // functions whose implicit safety obligations count (patterns with trailing *)
	SweepSkip   []string `json:"sweep_skip"`  // exclusions
	Assumptions []string `json:"assumptions"` // reported in evidence
	Bounded     []string `json:"bounded"`     // labels of bounded stand-ins (reported, never counted as proved)
	Frames      []FrameCheck `json:"frames"`  // program-wide syntactic frame obligations
	ThoroughVerify []string `json:"thorough_verify"` // functions under contract that are too expensive for the quick tier
	SlowFactor int `json:"slow_factor"` // budget multiplier for slow_functions (default 5)
	// PostOnly: function key -> clause-name prefix. The function is verified for this property, but only its
	// postconditions with that prefix are counted here; the others belong to the property they were written for.
	PostOnly map[string]string `json:"post_only"`
	Slow        []string `json:"slow_functions"` // functions whose obligations get 5x the solver budget (baseline and check alike)
}

// FrameCheck: only the listed functions may contain a store to the given field.
type FrameCheck struct {
	Name   string   `json:"name"`
	Struct string   `json:"struct"` // e.g. "github.com/pion/dtls/v3.Conn"
	Field  string   `json:"field"`
	Allow  []string `json:"allow"`
}

type Baseline struct {
	Property    string   `json:"property"`
	Discharged  []string `json:"discharged"`  // obligation keys claimed (must stay discharged)
	Unclaimed   []string `json:"unclaimed"`   // obligations not discharged on the pinned tree (reported, not claimed)
	Failing     []string `json:"failing"`     // contract obligations REFUTED on the pinned tree: each needs a known-findings entry
	Functions   []string `json:"functions"`
}

type KnownFinding struct {
	Property   string `json:"property"`
	Obligation string `json:"obligation"` // regexp on the obligation key
	What       string `json:"what"`
	Status     string `json:"status"` // known | fixed
	Commit     string `json:"commit,omitempty"`
}

type fnResult struct {
	key   string
	vc    *VC
	mode  string // verify | sweep
	err   error
	wall  time.Duration
}

// obKey is the stable identity of an obligation for baselines: contract obligations drop
// the per-return ordinal.
func slowFactor(cfg PropConfig) int {
	if cfg.SlowFactor > 0 {
		return cfg.SlowFactor
	}
	return 5
}

func obKey(o *Oblig) string {
	switch o.Kind {
	case "post", "inv-entry", "inv-keep":
		return o.Fn + "/" + o.Kind + ":" + o.Clause
	}
	return o.Name
}

func isSafetyKind(k string) bool {
	switch k {
	case "post", "inv-entry", "inv-keep", "pre":
		return false
	}
	return true
}

func matchPatterns(key string, pats []string) bool {
	for _, p := range pats {
		if p == key {
			return true
		}
		if strings.HasSuffix(p, "*") && strings.HasPrefix(key, strings.TrimSuffix(p, "*")) {
			return true
		}
	}
	return false
}

func cmdCheck(args []string) {
	fs := flag.NewFlagSet("check", flag.ExitOnError)
	repo := fs.String("repo", "/repo", "repository")
	root := fs.String("root", "/verif", "verification root")
	prop := fs.String("prop", "", "property id")
	tier := fs.String("tier", "quick", "quick|thorough")
	writeBaseline := fs.Bool("write-baseline", false, "write the baseline from this run instead of checking against it")
	verbose := fs.Bool("v", false, "verbose")
	fs.Parse(args)
	if t := os.Getenv("VERIF_TIER"); t != "" && *tier == "" {
		*tier = t
	}
	seed := 0
	fmt.Sscanf(os.Getenv("VERIF_SEED"), "%d", &seed)
	t0 := time.Now()
	cfgPath := filepath.Join(*root, "props", *prop+".json")
	var cfg PropConfig
	if err := readJSON(cfgPath, &cfg); err != nil {
		fmt.Fprintln(os.Stderr, "config:", err)
		os.Exit(2)
	}
	P, err := loadProgram(*repo, []string{"./..."})
	if err != nil {
		fmt.Fprintln(os.Stderr, "load:", err)
		os.Exit(2)
	}
	if err := P.loadContracts(filepath.Join(*root, "contracts")); err != nil {
		fmt.Fprintln(os.Stderr, "contracts:", err)
		os.Exit(2)
	}
	P.compareRepoContracts(filepath.Join(*root, "contracts"))
	loadT := time.Since(t0)

	timeout := 20000
	baseTimeout := 4000
	houdiniTimeoutMs = 8000
	if *tier == "thorough" {
		timeout = 120000
		houdiniTimeoutMs = 20000
	}
	if *writeBaseline {
		timeout = baseTimeout
		houdiniTimeoutMs = 2000
	}

	// select functions
	type job struct {
		key  string
		mode string
	}
	var jobs []job
	seen := map[string]bool{}
	var missingFns []string
	for _, k := range cfg.Verify {
		if P.funcs[k] == nil {
			missingFns = append(missingFns, k)
			continue
		}
		if !seen[k] {
			seen[k] = true
			jobs = append(jobs, job{k, "verify"})
		}
	}
	thoroughOnly := map[string]bool{}
	if *tier == "thorough" {
		for _, k := range cfg.ThoroughVerify {
			if P.funcs[k] != nil && !seen[k] {
				seen[k] = true
				thoroughOnly[k] = true
				jobs = append(jobs, job{k, "verify"})
			}
		}
	}
	var keys []string
	for k := range P.funcs {
		keys = append(keys, k)
	}
	sort.Strings(keys)
	for _, k := range keys {
		if matchPatterns(k, cfg.Sweep) && !matchPatterns(k, cfg.SweepSkip) && !seen[k] {
			seen[k] = true
			mode := "sweep"
			if ct := P.contractFor(P.funcs[k]); ct != nil && (len(ct.Loops) > 0 || !ct.onlyLoops()) {
				// a swept function that has a contract: its invariant / precondition obligations gate its safety
				// obligations (conditional rule), so they are tracked (claimed, retried); its postconditions belong to
				// the property the contract was written for and are not counted here
				mode = "sweep+inv"
			}
			jobs = append(jobs, job{k, mode})
		}
	}

	basePath := filepath.Join(*root, "baseline", *prop+".json")
	var base Baseline
	skip := map[string]bool{}
	if !*writeBaseline {
		if err := readJSON(basePath, &base); err != nil {
			fmt.Fprintln(os.Stderr, "baseline:", err)
			os.Exit(2)
		}
		if *tier != "thorough" {
			for _, k := range base.Unclaimed {
				skip[k] = true
			}
		}
	}
	retried := 0
	secondOpinions := 0
	results := make([]*fnResult, len(jobs))
	var wg sync.WaitGroup
	sem := make(chan struct{}, 10)
	for i, j := range jobs {
		wg.Add(1)
		sem <- struct{}{}
		go func(i int, j job) {
			defer wg.Done()
			defer func() { <-sem }()
			t1 := time.Now()
			to := timeout
			if matchPatterns(j.key, cfg.Slow) {
				to = slowFactor(cfg) * timeout
			}
			vc := P.verify(P.funcs[j.key], to, 4, filepath.Join(scratchDir, "vc-keep-"+*prop), false, skip)
			results[i] = &fnResult{key: j.key, vc: vc, mode: j.mode, err: vc.err, wall: time.Since(t1)}
		}(i, j)
	}
	wg.Wait()

	// Second opinion. A refutation can be an artefact of a lost auto-invariant (candidate invariants are validated with a
	// time budget; on an overloaded machine one may be dropped and the remaining context is then too weak). Every function with
	// a refuted contract obligation is verified once more on its own, with four times the inference budget; the better of
	// the two results is kept.
	claimedEarly := map[string]bool{}
	for _, k := range base.Discharged {
		claimedEarly[k] = true
	}
	if !*writeBaseline {
		for i, r := range results {
			if r == nil || r.err != nil || r.vc == nil {
				continue
			}
			bad := 0
			for _, o := range r.vc.obligs {
				if o.Status == "sat" && (!isSafetyKind(o.Kind) || claimedEarly[obKey(o)]) && !skip[obKey(o)] {
					bad++
				}
			}
			if bad == 0 {
				continue
			}
			savedH := houdiniTimeoutMs
			houdiniTimeoutMs = 4 * savedH
			to := timeout
			if matchPatterns(r.key, cfg.Slow) {
				to = slowFactor(cfg) * timeout
			}
			vc2 := P.verify(P.funcs[r.key], to, 4, "", false, skip)
			houdiniTimeoutMs = savedH
			if vc2.err != nil {
				continue
			}
			bad2 := 0
			for _, o := range vc2.obligs {
				if o.Status == "sat" && (!isSafetyKind(o.Kind) || claimedEarly[obKey(o)]) && !skip[obKey(o)] {
					bad2++
				}
			}
			if bad2 < bad {
				results[i] = &fnResult{key: r.key, vc: vc2, mode: r.mode, err: nil, wall: r.wall}
			}
			secondOpinions++
		}
	}

	// Baseline writing: the first pass runs many solver processes at once; obligations it leaves undecided get a
	// second, nearly sequential attempt with the same budget so that "unclaimed" means "not provable within the base
	// budget", not "starved of CPU".
	if *writeBaseline {
		type job2 struct {
			vc *VC
			o  *Oblig
			to int
		}
		var again []job2
		for _, r := range results {
			if r == nil || r.err != nil || r.vc == nil {
				continue
			}
			to := timeout
			if matchPatterns(r.key, cfg.Slow) {
				to = slowFactor(cfg) * timeout
			}
			for _, o := range r.vc.obligs {
				if o.Status != "unsat" && o.Status != "sat" && o.Status != "skipped" {
					again = append(again, job2{r.vc, o, to})
				}
			}
		}
		sem2 := make(chan struct{}, 4)
		var wg2 sync.WaitGroup
		for _, j := range again {
			wg2.Add(1)
			sem2 <- struct{}{}
			go func(j job2) {
				defer wg2.Done()
				defer func() { <-sem2 }()
				sub := &VC{P: P, tt: j.vc.tt, items: j.vc.items, obligs: []*Oblig{j.o}}
				sub.dischargeWith(2*j.to, 1, "", nil)
			}(j)
		}
		wg2.Wait()
		retried = len(again)
	}
	// A claimed obligation that comes back undecided (timeout) is retried alone with a long budget before it is
	// reported: on a loaded machine the parallel first pass can starve a solver that needs milliseconds.
	if !*writeBaseline {
		claimedSet := map[string]bool{}
		for _, k := range base.Discharged {
			claimedSet[k] = true
		}
		for _, r := range results {
			if r == nil || r.err != nil || r.vc == nil {
				continue
			}
			for _, o := range r.vc.obligs {
				if o.Status == "unsat" || o.Status == "sat" || o.Status == "skipped" || !claimedSet[obKey(o)] {
					continue
				}
				sub := &VC{P: P, tt: r.vc.tt, items: r.vc.items, obligs: []*Oblig{o}}
				sub.dischargeWith(6*timeout, 3, "", nil)
				retried++
			}
		}
		// last resort on a badly overloaded machine: one more attempt, strictly one obligation at a time, within a
		// total budget of 15 minutes
		tRetry := time.Now()
		if os.Getenv("VC_NO_LAST_RESORT") != "" {
			tRetry = tRetry.Add(-time.Hour) // corpus runs over seeded changes: an undecided obligation is already the verdict
		}
		for _, r := range results {
			if r == nil || r.err != nil || r.vc == nil {
				continue
			}
			for _, o := range r.vc.obligs {
				if o.Status == "unsat" || o.Status == "sat" || o.Status == "skipped" || !claimedSet[obKey(o)] {
					continue
				}
				if time.Since(tRetry) > 15*time.Minute {
					break
				}
				sub := &VC{P: P, tt: r.vc.tt, items: r.vc.items, obligs: []*Oblig{o}}
				sub.dischargeWith(30*timeout, 3, "", nil)
				retried++
			}
		}
	}

	// collect obligations
	type obRec struct {
		key    string
		o      *Oblig
		fn     string
		mode   string
		vc     *VC
	}
	var all []obRec
	var unsupported []string
	for _, r := range results {
		if r.err != nil {
			unsupported = append(unsupported, r.key+": "+r.err.Error())
			continue
		}
		// Obligations after an undischarged invariant / precondition obligation of the same function were
		// proved assuming it: they are only conditionally discharged and must not be claimed. (Implicit
		// safety obligations do not taint: if one fails the program panics there and later points are
		// not reached on that path.)
		sorted := append([]*Oblig{}, r.vc.obligs...)
		sortObligs(sorted)
		tainted := false
		for _, o := range sorted {
			if tainted && o.Status == "unsat" {
				o.Status = "conditional"
				o.Solver = "proved only under an undischarged earlier invariant/precondition obligation"
			}
			if !tainted && (o.Kind == "inv-entry" || o.Kind == "inv-keep" || o.Kind == "pre") && o.Status != "unsat" && o.Status != "skipped" {
				// (an obligation skipped because the baseline does not claim it taints nothing here:
				// everything it tainted when the baseline was written is unclaimed already)
				tainted = true
			}
		}
		for _, o := range r.vc.obligs {
			if r.mode == "sweep" && !isSafetyKind(o.Kind) {
				continue
			}
			if r.mode == "sweep+inv" && o.Kind == "post" {
				continue
			}
			if pfx, ok := cfg.PostOnly[r.key]; ok && o.Kind == "post" && !strings.HasPrefix(o.Clause, pfx) {
				continue
			}
			all = append(all, obRec{key: obKey(o), o: o, fn: r.key, mode: r.mode, vc: r.vc})
		}
	}
	// program-wide frame checks
	var frameFail []string
	frameCount := 0
	for _, fc := range cfg.Frames {
		frameCount++
		bad := P.checkFrame(fc)
		for _, b := range bad {
			frameFail = append(frameFail, fc.Name+": store to "+fc.Struct+"."+fc.Field+" in "+b)
		}
	}

	if *writeBaseline {
		b := Baseline{Property: *prop}
		st := map[string]string{}
		for _, r := range all {
			if prev, ok := st[r.key]; !ok || prev == "unsat" {
				if r.o.Status != "unsat" {
					st[r.key] = r.o.Status
				} else if !ok {
					st[r.key] = "unsat"
				}
			}
		}
		for k, s := range st {
			switch {
			case s == "unsat":
				b.Discharged = append(b.Discharged, k)
			case s == "sat" && (strings.Contains(k, "/post:") || strings.Contains(k, "/inv-")):
				b.Failing = append(b.Failing, k)
				fmt.Println("  REFUTED contract obligation (needs a fix or a known-findings entry):", k)
			default:
				b.Unclaimed = append(b.Unclaimed, k)
			}
		}
		sort.Strings(b.Failing)
		sort.Strings(b.Discharged)
		sort.Strings(b.Unclaimed)
		for _, j := range jobs {
			b.Functions = append(b.Functions, j.key)
		}
		os.MkdirAll(filepath.Dir(basePath), 0o755)
		writeJSON(basePath, b)
		fmt.Printf("baseline %s: %d discharged, %d unclaimed, %d functions (%d unsupported)\n", *prop, len(b.Discharged), len(b.Unclaimed), len(jobs), len(unsupported))
		for _, u := range unsupported {
			fmt.Println("  unsupported:", u)
		}
		if *verbose {
			sort.Slice(results, func(i, j int) bool { return results[i].wall > results[j].wall })
			for i, r := range results {
				if i < 30 {
					n := 0
					if r.vc != nil {
						n = len(r.vc.obligs)
					}
					fmt.Printf("  time: %-70s %6.1fs %d obligations\n", r.key, r.wall.Seconds(), n)
				}
			}
			for _, k := range b.Unclaimed {
				fmt.Println("  unclaimed:", k)
			}
		}
		return
	}

	var known []KnownFinding
	readJSON(filepath.Join(*root, "known_findings.json"), &known)

	claimed := map[string]bool{}
	for _, k := range base.Discharged {
		claimed[k] = true
	}
	for _, k := range base.Failing {
		claimed[k] = true
	}
	unclaimed := map[string]bool{}
	for _, k := range base.Unclaimed {
		unclaimed[k] = true
	}
	// functions whose preconditions were already too weak for some obligation of a kind at baseline time: a new
	// refuted obligation of that kind in edited code is the same missing precondition, not a finding
	kindUnclaimed := map[string]bool{}
	for _, k := range base.Unclaimed {
		if i := strings.Index(k, ":"); i > 0 {
			if j := strings.Index(k[i+1:], ":"); j >= 0 {
				kindUnclaimed[k[:i+1+j]] = true // "<relpkg>:<Func>/<kind>"
			}
		}
	}
	present := map[string]bool{}
	failing := map[string]*obRec{} // key -> first failing instance
	newSafety := map[string]bool{} // refuted implicit obligations that did not exist at baseline time (edited code)
	dischargedN, obligN := 0, 0
	var unclaimedNow []string
	solverMs := map[string]int64{}
	solverCount := map[string]int{}
	for i := range all {
		r := &all[i]
		present[r.key] = true
		if r.o.Status == "unsat" {
			solverMs[strings.TrimSuffix(r.o.Solver, "(group)")] += r.o.Ms
			solverCount[strings.TrimSuffix(r.o.Solver, "(group)")]++
		}
		if claimed[r.key] {
			obligN++
			if r.o.Status == "unsat" {
				dischargedN++
			} else if failing[r.key] == nil {
				failing[r.key] = r
			}
			continue
		}
		if unclaimed[r.key] {
			if r.o.Status != "unsat" {
				unclaimedNow = append(unclaimedNow, r.key)
			}
			continue
		}
		if thoroughOnly[r.fn] && isSafetyKind(r.o.Kind) {
			// functions verified in the thorough tier only have no baseline: their implicit obligations are reported as
			// unclaimed, only their contract clauses are decided
			if r.o.Status != "unsat" {
				unclaimedNow = append(unclaimedNow, r.key+" (thorough-only function)")
			}
			continue
		}
		// a new obligation (edited code): counts when it is refuted
		if r.o.Status == "sat" && failing[r.key] == nil {
			failing[r.key] = r
			if isSafetyKind(r.o.Kind) {
				newSafety[r.key] = true
			}
			obligN++
		} else if r.o.Status == "unsat" {
			obligN++
			dischargedN++
		} else {
			unclaimedNow = append(unclaimedNow, r.key+" (new, undecided)")
		}
	}
	// claimed obligations that can no longer be generated
	var vanished []string
	for _, k := range base.Discharged {
		if !present[k] {
			// safety obligations are named after source text and may legitimately move; contract
			// obligations and whole functions must not vanish.
			if strings.Contains(k, "/post:") || strings.Contains(k, "/inv-") {
				vanished = append(vanished, k)
			}
		}
	}
	for _, m := range missingFns {
		vanished = append(vanished, m+" (function under contract not found)")
	}
	var stale []string
	for _, u := range unsupported {
		// a function that was verified at baseline time and is now outside the supported subset
		for _, bf := range base.Functions {
			if strings.HasPrefix(u, bf+": ") && strings.Contains(u, "stale contract") && (strings.Contains(u, "undefined:") || strings.Contains(u, "undeclared") || strings.Contains(u, "binds to no loop")) {
				// the contract mentions a name (local, parameter, field, loop) the current source no longer
				// declares: the proof cannot be rebuilt, which says nothing about the property. Undecided, not a violation.
				stale = append(stale, u)
				keep := vanished[:0]
				for _, v := range vanished {
					if !strings.HasPrefix(v, bf+"/") {
						keep = append(keep, v)
					}
				}
				vanished = keep
				continue
			}
			if strings.HasPrefix(u, bf+": ") {
				hadClaims := false
				for _, k := range base.Discharged {
					if strings.HasPrefix(k, bf+"/") {
						hadClaims = true
					}
				}
				if hadClaims {
					vanished = append(vanished, u)
				}
			}
		}
	}

	// report
	for _, u := range stale {
		fmt.Printf("STALE-CONTRACT property=%s %s (undecided on this tree: update the contract)\n", *prop, u)
	}
	violations := 0
	replayDir := filepath.Join(*root, "replays", *prop)
	if d := os.Getenv("VC_EVIDENCE_DIR"); d != "" {
		replayDir = filepath.Join(d, "replays", *prop)
	}
	os.MkdirAll(replayDir, 0o755)
	var knownHit []string
	var failKeys []string
	for k := range failing {
		failKeys = append(failKeys, k)
	}
	sort.Strings(failKeys)
	for _, k := range failKeys {
		r := failing[k]
		if kf := matchKnown(known, *prop, k); kf != nil {
			fmt.Printf("KNOWN-FINDING: property=%s %s [%s]\n", *prop, kf.What, k)
			knownHit = append(knownHit, k)
			obligN-- // a recorded finding is reported on its own, not counted among the obligations of the proof
			continue
		}
		rp := filepath.Join(replayDir, sanitize(k)+".json")
		reproduced := P.writeReplay(rp, *prop, r.o, r.vc, claimed[k], *repo)
		if newSafety[k] && (!reproduced || kindUnclaimed[r.fn+"/"+r.o.Kind] || r.o.Kind == "nil" || r.o.Kind == "nilmap") {
			// (nil-ness of receiver state is the commonest unstated invariant: a replay that builds a zero-valued receiver
			// "reproduces" such a panic for any new dereference, so new nil obligations are never reported on their own)
			// an implicit obligation of edited code, refuted only in the abstract (typically a helper precondition
			// that no contract states yet): without a failing input on the real code it is undecided, not a violation
			unclaimedNow = append(unclaimedNow, k+" (new, refuted in the abstract, no failing input)")
			obligN--
			continue
		}
		violations++
		suffix := ""
		if !reproduced {
			suffix = " no-failing-input-found"
		}
		fmt.Printf("VIOLATION property=%s replay=%s obligation=%q status=%s%s\n", *prop, rp, k, r.o.Status, suffix)
	}
	for _, v := range vanished {
		if kf := matchKnown(known, *prop, v); kf != nil {
			fmt.Printf("KNOWN-FINDING: property=%s %s [%s]\n", *prop, kf.What, v)
			continue
		}
		violations++
		rp := filepath.Join(replayDir, sanitize("vanished_"+v)+".json")
		writeJSON(rp, map[string]any{"property": *prop, "obligation": v, "reason": "a claimed contract obligation can no longer be generated from the current source (function, clause or loop key vanished, or the function left the supported subset)"})
		fmt.Printf("VIOLATION property=%s replay=%s obligation=%q status=vanished no-failing-input-found\n", *prop, rp, v)
	}
	for _, ff := range frameFail {
		violations++
		rp := filepath.Join(replayDir, sanitize("frame_"+ff)+".json")
		writeJSON(rp, map[string]any{"property": *prop, "obligation": ff, "reason": "program-wide frame obligation failed"})
		fmt.Printf("VIOLATION property=%s replay=%s obligation=%q status=frame no-failing-input-found\n", *prop, rp, ff)
	}

	// evidence
	var fnsUnderContract []string
	for _, j := range jobs {
		if j.mode == "verify" {
			fnsUnderContract = append(fnsUnderContract, j.key)
		}
	}
	var samples []any
	for i, r := range all {
		if i%(len(all)/6+1) == 0 && len(samples) < 8 {
			samples = append(samples, map[string]any{"obligation": r.o.Name, "kind": r.o.Kind, "status": r.o.Status, "solver": r.o.Solver, "ms": r.o.Ms, "at": fmt.Sprintf("%s:%d", filepath.Base(r.o.Pos.Filename), r.o.Pos.Line)})
		}
	}
	var trusted []string
	for k := range P.usedIntrinsics {
		trusted = append(trusted, "assumed library contract: "+k)
	}
	sort.Strings(trusted)
	var invs []string
	for k := range P.assumedInvs {
		invs = append(invs, "data-structure invariant assumed at a call site outside the owning package (unexported state; proved as post of every method under contract): "+k)
	}
	sort.Strings(invs)
	trusted = append(trusted, invs...)
	// modular soundness: callee contracts relied upon must themselves be verified by some property's check
	verifiedSomewhere := map[string][]string{}
	if ents, err := os.ReadDir(filepath.Join(*root, "props")); err == nil {
		for _, e := range ents {
			var pc PropConfig
			if readJSON(filepath.Join(*root, "props", e.Name()), &pc) == nil {
				for _, k := range pc.Verify {
					verifiedSomewhere[k] = append(verifiedSomewhere[k], pc.ID)
				}
			}
		}
	}
	var calleeCts []string
	for k, isTrusted := range P.assumedCts {
		switch {
		case isTrusted:
			calleeCts = append(calleeCts, k+" (trusted: assumed, not verified)")
		case len(verifiedSomewhere[k]) > 0:
			calleeCts = append(calleeCts, k+" (verified under "+strings.Join(verifiedSomewhere[k], ",")+")")
		default:
			calleeCts = append(calleeCts, k+" (NOT verified by any check: assumption)")
		}
	}
	sort.Strings(calleeCts)
	trusted = append([]string{"vc generator (/verif/vc)", "go/ssa + go/types (x/tools v0.29.0) as the semantics of the source", "SMT solvers z3 4.8.12 / z3 5.1.0 / cvc5 1.0"}, trusted...)
	for _, c := range P.contractList {
		if c.Trusted {
			trusted = append(trusted, "trusted contract: "+c.Key)
		}
	}
	assumptions := append([]string{}, cfg.Assumptions...)
	assumptions = append(assumptions, "pointer receivers are non-nil (checked at every static call site that is itself verified)",
		"allocation never fails; slices longer than 2^40 elements are not modelled", "goroutines are not modelled: sequential semantics of each function")
	if len(P.contractDiffs) > 0 {
		assumptions = append(assumptions, "contract copies under /repo differ from or are missing against /verif/contracts (mirror used): "+strings.Join(P.contractDiffs, ", "))
	}
	perFn := []any{}
	var vacuous []string
	for _, r := range results {
		if r.err != nil {
			perFn = append(perFn, map[string]any{"fn": r.key, "mode": r.mode, "unsupported": r.err.Error()})
			continue
		}
		n, d := 0, 0
		for _, o := range r.vc.obligs {
			if r.mode == "sweep" && !isSafetyKind(o.Kind) {
				continue
			}
			if r.mode == "sweep+inv" && o.Kind == "post" {
				continue
			}
			if pfx, ok := cfg.PostOnly[r.key]; ok && o.Kind == "post" && !strings.HasPrefix(o.Clause, pfx) {
				continue
			}
			n++
			if o.Status == "unsat" {
				d++
			}
		}
		perFn = append(perFn, map[string]any{"fn": r.key, "mode": r.mode, "obligations": n, "discharged": d, "wall_ms": r.wall.Milliseconds(), "auto_invariants": r.vc.autoKept, "vacuity": r.vc.Vacuity})
		if r.vc.Vacuity == "VACUOUS" {
			vacuous = append(vacuous, r.key)
		}
	}
	sort.Strings(unclaimedNow)
	ev := map[string]any{
		"property_id": *prop, "tier": *tier, "seed": seed, "level": "proof",
		"coverage": map[string]any{
			"obligations": obligN + frameCount, "discharged": dischargedN + frameCount - len(frameFail),
			"checker_cmd":  fmt.Sprintf("/verif/bin/vc check -prop %s -tier %s", *prop, *tier),
			"trusted_base": trusted,
			"functions_under_contract": fnsUnderContract,
			"functions_swept":          len(jobs) - len(fnsUnderContract),
			"functions":                perFn,
			"unsupported_functions":    unsupported,
			"unclaimed":                unclaimedNow,
			"bounded":                  cfg.Bounded,
			"frame_obligations":        frameCount,
			"known_findings_hit":       knownHit,
			"stale_contracts":          stale,
			"retried_after_timeout":    retried,
			"second_opinions":          secondOpinions,
			"callee_contracts_assumed": calleeCts,
			"solver_ms":                solverMs,
			"solver_discharged":        solverCount,
			"samples":                  samples,
			"integer_semantics":        "fixed-width bit-vectors (Go wrap-around), no mathematical-integer assumption",
			"load_ms":                  loadT.Milliseconds(),
		},
		"assumptions": assumptions,
		"wall_s":      time.Since(t0).Seconds(),
		"violations":  violations,
	}
	evDir := filepath.Join(*root, "evidence")
	if d := os.Getenv("VC_EVIDENCE_DIR"); d != "" {
		evDir = d // selftest / seeded-change runs against scratch copies must not overwrite the real evidence
	}
	os.MkdirAll(evDir, 0o755)
	writeJSON(filepath.Join(evDir, *prop+".json"), ev)
	fmt.Printf("property %s tier %s: %d/%d obligations discharged, %d functions, %d unclaimed, %d known findings, %d violations (%.1fs)\n",
		*prop, *tier, dischargedN+frameCount-len(frameFail), obligN+frameCount, len(jobs), len(unclaimedNow), len(knownHit), violations, time.Since(t0).Seconds())
	if obligN == 0 {
		fmt.Println("vacuity guard: no obligations were generated")
		os.Exit(2)
	}
	if len(vacuous) > 0 {
		fmt.Println("vacuity guard: assumptions are contradictory (no return reachable) in:", strings.Join(vacuous, ", "))
		os.Exit(2)
	}
	if violations > 0 {
		os.Exit(1)
	}
}

func matchKnown(known []KnownFinding, prop, key string) *KnownFinding {
	for i := range known {
		kf := &known[i]
		if kf.Property != prop || kf.Status != "known" {
			continue
		}
		if re, err := regexp.Compile(kf.Obligation); err == nil && re.MatchString(key) {
			return kf
		}
	}
	return nil
}

func readJSON(path string, v any) error {
	b, err := os.ReadFile(path)
	if err != nil {
		return err
	}
	return json.Unmarshal(b, v)
}

func writeJSON(path string, v any) {
	b, _ := json.MarshalIndent(v, "", " ")
	os.WriteFile(path, append(b, '\n'), 0o644)
}

// compareRepoContracts notes which /repo contract copies differ from the mirror.
func (P *Program) compareRepoContracts(dir string) {
	filepath.Walk(dir, func(path string, info os.FileInfo, err error) error {
		if err != nil || info.IsDir() || !strings.HasSuffix(path, ".go") {
			return nil
		}
		rel, _ := filepath.Rel(dir, path)
		a, _ := os.ReadFile(path)
		b, err2 := os.ReadFile(filepath.Join(P.repoDir, rel))
		if err2 != nil || string(a) != string(b) {
			P.contractDiffs = append(P.contractDiffs, rel)
		}
		return nil
	})
}

// checkFrame returns the functions (outside allow) that contain a store to struct.field.
func (P *Program) checkFrame(fc FrameCheck) []string {
	var bad []string
	for fn := range P.allFuncs {
		if !P.inRepo(fn) {
			continue
		}
		k := P.funcKeys[fn]
		for _, b := range fn.Blocks {
			for _, in := range b.Instrs {
				st, ok := in.(*ssa.Store)
				if !ok {
					continue
				}
				fa, ok := st.Addr.(*ssa.FieldAddr)
				if !ok {
					continue
				}
				T := deref(fa.X.Type())
				if structKey(T) != fc.Struct {
					continue
				}
				si := P.tt.structOf(T)
				if si.fields[fa.Field].name != fc.Field {
					continue
				}
				if !matchPatterns(k, fc.Allow) {
					bad = append(bad, k)
				}
			}
		}
	}
	sort.Strings(bad)
	return bad
}

// writeReplay records the failed obligation; returns true when a failing input was reproduced on the real code.
func (P *Program) writeReplay(path, prop string, o *Oblig, vc *VC, wasClaimed bool, repo string) bool {
	rec := map[string]any{
		"property": prop, "obligation": o.Name, "kind": o.Kind, "function": o.Fn, "status": o.Status,
		"at": fmt.Sprintf("%s:%d", o.Pos.Filename, o.Pos.Line), "solver": o.Solver, "solver_output": truncate(o.Model, 20000),
		"was_discharged_on_baseline": wasClaimed, "query": o.SMTFile,
	}
	reproduced := false
	if o.Status == "sat" {
		if rr := P.replay(o, vc, repo); rr != nil {
			rec["replay"] = rr
			reproduced = rr.Reproduced
		}
	}
	rec["reproduced_on_real_code"] = reproduced
	writeJSON(path, rec)
	return reproduced
}

func truncate(s string, n int) string {
	if len(s) > n {
		return s[:n] + "...(truncated)"
	}
	return s
}
