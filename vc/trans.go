package main

import (
	"fmt"
	"go/constant"
	"go/token"
	"go/types"
	"math/big"
	"strings"

	"golang.org/x/tools/go/ssa"
)

type pdKind int

const (
	pdElem  pdKind = iota // cell / element in M$<type>
	pdField               // field heap F$struct$field indexed by base
	pdLocal               // non-escaping local struct kept in frame-local state variables
)

type ptrDesc struct {
	kind  pdKind
	base  Term // pdField: address of the enclosing struct
	si    *structInfo
	field int
	obj   Term // pdElem: object (block) and offset inside it
	off   Term
	local string // pdLocal: state variable prefix
}

// childDesc gives the descriptor of field i of a struct located by pd at address addr.
func childDesc(pd *ptrDesc, addr Term, si *structInfo, i int) *ptrDesc {
	if pd != nil && pd.kind == pdLocal {
		return &ptrDesc{kind: pdLocal, local: pd.local + "." + si.fields[i].name}
	}
	return &ptrDesc{kind: pdField, base: addr, si: si, field: i}
}

// elemLoc gives the (object, offset) location of a pointer to a non-struct value.
func elemLoc(addr Term, pd *ptrDesc) (Term, Term) {
	if pd != nil && pd.kind == pdElem && pd.obj.valid() {
		return pd.obj, pd.off
	}
	return addr, i64(0)
}

func (f *frame) elemRead(st *State, t types.Type, obj, off Term) Term {
	hn, hs := f.tt().elemHeap(t)
	es := f.tt().sortOf(t)
	return mkSelect(mkSelect(st.get(hn, hs), obj, arraySort(SBV64, es)), off, es)
}

func (f *frame) elemWrite(t types.Type, obj, off, v Term) {
	hn, hs := f.tt().elemHeap(t)
	es := f.tt().sortOf(t)
	h := f.st.get(hn, hs)
	f.st.set(hn, f.vc.define(hn, mkStore(h, obj, mkStore(mkSelect(h, obj, arraySort(SBV64, es)), off, v))))
}

type blockExit struct {
	reach Term
	st    *State
	cond  Term // condition of a trailing If
}

type retRec struct {
	reach   Term
	results []Term
	st      *State
	instr   *ssa.Return
}

type deferRec struct {
	instr *ssa.Defer
	flag  string // state name of the registration flag
	args  []string
}

type frame struct {
	vc       *VC
	preCall  *State // state right before the call being translated
	fn       *ssa.Function
	prefix   string
	depth    int
	vals     map[ssa.Value]Term
	ptrs     map[ssa.Value]*ptrDesc
	st       *State
	exits    map[*ssa.BasicBlock]*blockExit
	rets     []retRec
	contract *Contract
	top      bool
	defers   []*deferRec
	label    string // function label for obligation names
	inlined  string
	oldSt    *State
	tuples   map[ssa.Value][]Term
	closures map[ssa.Value]*ssa.MakeClosure
	loops    map[*ssa.BasicBlock]*loopInfo
	params   []Term
	dead     bool
	noTaint  bool
}

type loopInfo struct {
	header *ssa.BasicBlock
	blocks map[*ssa.BasicBlock]bool
	key    string
}

func (f *frame) tt() *TypeTable { return f.vc.tt }

func (f *frame) name(v ssa.Value) string {
	n := v.Name()
	return f.prefix + n
}

func (f *frame) pos(p token.Pos) token.Position {
	return f.vc.P.fset.Position(p)
}

func (f *frame) srcLine(p token.Pos) string {
	return f.vc.P.sourceLine(p)
}

func (f *frame) oblige(kind string, p token.Pos, goal Term) {
	if f.vc.reach.S == "false" {
		return
	}
	detail := f.srcLine(p)
	if f.inlined != "" {
		detail = "[" + f.inlined + "] " + detail
	}
	f.vc.oblige(kind, f.label, detail, f.pos(p), goal, "", f.inlined)
}

// alloc reserves n address units and returns the base address.
func (f *frame) alloc(n Term) Term {
	a := f.st.get("$alloc", SBV64)
	na := f.vc.define("alloc", bvAdd(a, n))
	f.st.set("$alloc", na)
	return a
}

func (f *frame) curAlloc() Term { return f.st.get("$alloc", SBV64) }

// val returns the SMT term of an SSA value.
func (f *frame) val(v ssa.Value) Term {
	if t, ok := f.vals[v]; ok {
		return t
	}
	switch x := v.(type) {
	case *ssa.Const:
		return f.constVal(x)
	case *ssa.Global:
		return f.vc.globalAddr(x)
	case *ssa.Function:
		return bvLit(64, uint64(1)<<33+uint64(f.vc.tt.typeID(types.NewPointer(x.Signature)))<<8+uint64(f.vc.P.funcID(x)))
	case *ssa.Builtin:
		unsup("builtin as value %s", x.Name())
	}
	unsup("value %s (%T) not defined in %s", v.Name(), v, f.fn.Name())
	return Term{}
}

func (f *frame) constVal(c *ssa.Const) Term {
	t := c.Type()
	if c.Value == nil {
		return f.tt().zero(t)
	}
	switch u := t.Underlying().(type) {
	case *types.Basic:
		if n, _, ok := intWidth(u); ok {
			if c.Value.Kind() == constant.Int {
				if i, exact := constant.Int64Val(c.Value); exact {
					return bvLit(n, uint64(i))
				}
				if i, exact := constant.Uint64Val(c.Value); exact {
					return bvLit(n, i)
				}
				bi, _ := new(big.Int).SetString(c.Value.ExactString(), 10)
				return bvLitBig(n, bi)
			}
			if c.Value.Kind() == constant.Float { // integer typed constants are Int kind normally
				fl, _ := constant.Float64Val(c.Value)
				return bvLit(n, uint64(int64(fl)))
			}
		}
		switch u.Kind() {
		case types.Bool, types.UntypedBool:
			if constant.BoolVal(c.Value) {
				return tTrue
			}
			return tFalse
		case types.String, types.UntypedString:
			return f.vc.strConst(constant.StringVal(c.Value))
		case types.Float32, types.Float64, types.UntypedFloat:
			return f.vc.declare("fconst$"+c.Value.ExactString(), SFloat)
		}
	}
	unsup("constant %s of type %s", c.Value, t)
	return Term{}
}

// setVal binds an SSA value to a named term.
func (f *frame) setVal(v ssa.Value, t Term) {
	want := f.tt().sortOf(v.Type())
	if t.Sort != want {
		panic(fmt.Sprintf("sort mismatch for %s in %s: %s vs %s (%s)", v.Name(), f.fn, t.Sort, want, t.S))
	}
	f.vals[v] = f.vc.define(f.name(v), t)
}

func (f *frame) freshVal(v ssa.Value) Term {
	t := f.vc.declareFresh(f.name(v), f.tt().sortOf(v.Type()))
	f.vals[v] = t
	f.vc.assume(f.tt().typeInv(t, v.Type(), f.curAlloc()))
	return t
}

func (f *frame) freshOf(base string, t types.Type) Term {
	x := f.vc.declareFresh(f.prefix+base, f.tt().sortOf(t))
	f.vc.assume(f.tt().typeInv(x, t, f.curAlloc()))
	return x
}

// ---------------------------------------------------------------------------
// memory access

func deref(t types.Type) types.Type {
	if p, ok := t.Underlying().(*types.Pointer); ok {
		return p.Elem()
	}
	unsup("deref of non-pointer %s", t)
	return nil
}

// load reads a value of type t at address addr. pd describes the location if known.
func (f *frame) load(addr Term, t types.Type, pd *ptrDesc) Term {
	tt := f.tt()
	switch u := t.Underlying().(type) {
	case *types.Struct:
		si := tt.structOf(t)
		if len(si.fields) == 0 {
			return Term{si.ctor, si.sort}
		}
		var args []Term
		for i, fi := range si.fields {
			fa := bvAdd(addr, i64(fi.offset))
			args = append(args, f.load(fa, fi.typ, childDesc(pd, addr, si, i)))
		}
		return app(si.ctor, si.sort, args...)
	case *types.Array:
		es := tt.sortOf(u.Elem())
		if u.Len() > 64 && isStructType(u.Elem()) {
			return f.vc.declareFresh(f.prefix+"arr", arraySort(SBV64, es))
		}
		if !isStructType(u.Elem()) {
			// the array value is the prefix of the object's inner array
			hn, hs := tt.elemHeap(u.Elem())
			inner := mkSelect(f.st.get(hn, hs), addr, arraySort(SBV64, es))
			if u.Len() > 64 {
				return inner
			}
			// normalised value: only [0,N) is significant
			arr := tt.zero(t)
			for i := int64(0); i < u.Len(); i++ {
				arr = mkStore(arr, i64(i), mkSelect(inner, i64(i), es))
			}
			return arr
		}
		arr := tt.zero(t)
		sl := tt.slots(u.Elem())
		for i := int64(0); i < u.Len(); i++ {
			arr = mkStore(arr, i64(i), f.load(bvAdd(addr, i64(i*sl)), u.Elem(), nil))
		}
		return arr
	}
	var v Term
	var hn string
	if pd != nil && pd.kind == pdLocal {
		return f.st.get(pd.local, tt.sortOf(t))
	}
	if pd != nil && pd.kind == pdField {
		var hs Sort
		hn, hs = tt.fieldHeap(pd.si, pd.field)
		v = mkSelect(f.st.get(hn, hs), pd.base, tt.sortOf(t))
	} else {
		obj, off := elemLoc(addr, pd)
		v = f.elemRead(f.st, t, obj, off)
		hn, _ = tt.elemHeap(t)
	}
	if hasRefs(t) && f.vc.binderDepth == 0 {
		// references stored in a heap were allocated before the last write to that heap
		f.vc.assume(tt.typeInv(v, t, f.st.get("A$"+hn, SBV64)))
	}
	return v
}

// loadInv loads and assumes the type invariant of the loaded value.
func (f *frame) loadInv(addr Term, t types.Type, pd *ptrDesc, nameBase string) Term {
	return f.vc.define(nameBase, f.load(addr, t, pd))
}

func hasRefs(t types.Type) bool {
	switch u := t.Underlying().(type) {
	case *types.Basic:
		return u.Kind() == types.String
	case *types.Struct:
		for i := 0; i < u.NumFields(); i++ {
			if hasRefs(u.Field(i).Type()) {
				return true
			}
		}
		return false
	case *types.Array:
		return false
	}
	return true
}

func (f *frame) store(addr Term, t types.Type, pd *ptrDesc, v Term) {
	tt := f.tt()
	switch u := t.Underlying().(type) {
	case *types.Struct:
		si := tt.structOf(t)
		for i, fi := range si.fields {
			fa := bvAdd(addr, i64(fi.offset))
			f.store(fa, fi.typ, childDesc(pd, addr, si, i), tt.fieldOf(v, si, i))
		}
		return
	case *types.Array:
		sl := tt.slots(u.Elem())
		if !isStructType(u.Elem()) {
			// [0,N) of the object's inner array receives the array value
			hn, hs := tt.elemHeap(u.Elem())
			h := f.st.get(hn, hs)
			f.st.set(hn, f.vc.blockCopy(hn, h, v, addr, i64(0), i64(0), i64(u.Len())))
			return
		}
		if u.Len() > 64 {
			unsup("store of large struct array")
		}
		for i := int64(0); i < u.Len(); i++ {
			f.store(bvAdd(addr, i64(i*sl)), u.Elem(), nil, mkSelect(v, i64(i), tt.sortOf(u.Elem())))
		}
		return
	}
	if pd != nil && pd.kind == pdLocal {
		f.st.set(pd.local, f.vc.define(pd.local, v))
		return
	}
	if pd != nil && pd.kind == pdField {
		hn, hs := tt.fieldHeap(pd.si, pd.field)
		f.st.set(hn, f.vc.define(hn, mkStore(f.st.get(hn, hs), pd.base, v)))
	} else {
		obj, off := elemLoc(addr, pd)
		f.elemWrite(t, obj, off, v)
	}
}

func (tt *TypeTable) fieldOf(v Term, si *structInfo, i int) Term {
	fi := si.fields[i]
	if strings.HasPrefix(v.S, "("+si.ctor+" ") {
		parts := splitTop(v.S[len(si.ctor)+2 : len(v.S)-1])
		if i < len(parts) {
			return Term{parts[i], fi.sort}
		}
	}
	return app(fi.acc, fi.sort, v)
}

// zeroMem zero-initialises memory of type t at addr.
func (f *frame) zeroMem(addr Term, t types.Type, pd *ptrDesc) {
	tt := f.tt()
	switch u := t.Underlying().(type) {
	case *types.Struct:
		si := tt.structOf(t)
		for i, fi := range si.fields {
			f.zeroMem(bvAdd(addr, i64(fi.offset)), fi.typ, childDesc(pd, addr, si, i))
		}
		return
	case *types.Array:
		sl := tt.slots(u.Elem())
		if isStructType(u.Elem()) {
			if u.Len() > 64 {
				unsup("zeroing large struct array")
			}
			for i := int64(0); i < u.Len(); i++ {
				f.zeroMem(bvAdd(addr, i64(i*sl)), u.Elem(), nil)
			}
			return
		}
		hn, hs := tt.elemHeap(u.Elem())
		es := tt.sortOf(u.Elem())
		zeroArr := Term{fmt.Sprintf("((as const %s) %s)", arraySort(SBV64, es), tt.zero(u.Elem()).S), arraySort(SBV64, es)}
		f.st.set(hn, f.vc.define(hn, mkStore(f.st.get(hn, hs), addr, zeroArr)))
		return
	}
	f.store(addr, t, pd, tt.zero(t))
}

// ptrDescOf returns the location descriptor for a pointer-typed SSA value.
func (f *frame) ptrDescOf(v ssa.Value) *ptrDesc {
	if pd, ok := f.ptrs[v]; ok {
		return pd
	}
	return nil
}

func (f *frame) nonNil(p token.Pos, addr Term) {
	f.oblige("nil", p, mkNot(mkEq(addr, i64(0))))
}

// ---------------------------------------------------------------------------
// control flow

func (f *frame) findLoops() {
	f.loops = map[*ssa.BasicBlock]*loopInfo{}
	for _, b := range f.fn.Blocks {
		for _, s := range b.Succs {
			if s.Dominates(b) { // back edge b -> s
				li := f.loops[s]
				if li == nil {
					li = &loopInfo{header: s, blocks: map[*ssa.BasicBlock]bool{s: true}}
					li.key = fmt.Sprintf("%s#%d", f.fn.String(), s.Index)
					f.loops[s] = li
				}
				// natural loop: nodes that reach b without passing through s
				var stack []*ssa.BasicBlock
				if !li.blocks[b] {
					li.blocks[b] = true
					stack = append(stack, b)
				}
				for len(stack) > 0 {
					n := stack[len(stack)-1]
					stack = stack[:len(stack)-1]
					for _, p := range n.Preds {
						if !li.blocks[p] {
							li.blocks[p] = true
							stack = append(stack, p)
						}
					}
				}
			}
		}
	}
}

func isBackEdge(from, to *ssa.BasicBlock) bool { return to.Dominates(from) }

// rpo computes a reverse post-order of the CFG ignoring back edges.
func rpo(fn *ssa.Function) []*ssa.BasicBlock {
	seen := map[*ssa.BasicBlock]bool{}
	var order []*ssa.BasicBlock
	var visit func(b *ssa.BasicBlock)
	visit = func(b *ssa.BasicBlock) {
		seen[b] = true
		for i := len(b.Succs) - 1; i >= 0; i-- {
			s := b.Succs[i]
			if !seen[s] && !isBackEdge(b, s) {
				visit(s)
			}
		}
		order = append(order, b)
	}
	visit(fn.Blocks[0])
	for i, j := 0, len(order)-1; i < j; i, j = i+1, j-1 {
		order[i], order[j] = order[j], order[i]
	}
	return order
}

// edgeCond is the condition under which control flows from p to b.
func (f *frame) edgeCond(p, b *ssa.BasicBlock) Term {
	ex := f.exits[p]
	if ex == nil {
		return tFalse
	}
	if len(p.Succs) == 2 {
		if p.Succs[0] == b && p.Succs[1] == b {
			return ex.reach
		}
		if p.Succs[0] == b {
			return mkAnd(ex.reach, ex.cond)
		}
		return mkAnd(ex.reach, mkNot(ex.cond))
	}
	return ex.reach
}

// run translates the whole function body. entryReach/entrySt give the context.
func (f *frame) run(entryReach Term, entrySt *State) {
	vc := f.vc
	if f.fn.Blocks == nil {
		unsup("function %s has no body", f.fn)
	}
	if f.fn.Recover != nil {
		vc.unsupp = append(vc.unsupp, "recover block of "+f.fn.String()+" not translated")
	}
	f.findLoops()
	f.exits = map[*ssa.BasicBlock]*blockExit{}
	order := rpo(f.fn)
	savedRecs := vc.loopRecs
	defer func() { vc.loopRecs = savedRecs }()
	for _, b := range order {
		// active loop recorders: caller's + the loops this block belongs to
		recs := append([]map[string]bool{}, savedRecs...)
		for _, li := range f.loops {
			if li.blocks[b] {
				if vc.pass == 1 {
					if vc.loopMods[f.prefix+li.key] == nil {
						vc.loopMods[f.prefix+li.key] = map[string]bool{}
					}
					recs = append(recs, vc.loopMods[f.prefix+li.key])
				}
			}
		}
		vc.loopRecs = recs

		if b.Index == 0 {
			vc.reach = entryReach
			f.st = entrySt.seq()
		} else {
			var preds []*State
			var conds []Term
			var predBlocks []*ssa.BasicBlock
			for _, p := range b.Preds {
				if isBackEdge(p, b) {
					continue
				}
				if f.exits[p] == nil {
					continue
				}
				c := f.edgeCond(p, b)
				if c.S == "false" {
					continue
				}
				preds = append(preds, f.exits[p].st)
				conds = append(conds, c)
				predBlocks = append(predBlocks, p)
			}
			if len(preds) == 0 {
				vc.reach = tFalse
				f.st = entrySt.seq()
				f.exits[b] = &blockExit{reach: tFalse, st: f.st, cond: tFalse}
				// still need phis defined for consumers: give them zero values
				for _, in := range b.Instrs {
					if v, ok := in.(ssa.Value); ok {
						if _, isT := v.Type().(*types.Tuple); isT {
							continue
						}
						f.vals[v] = f.tt().zero(v.Type())
					}
				}
				continue
			}
			reach := vc.define(fmt.Sprintf("%sreach%d", f.prefix, b.Index), mkOr(conds...))
			if li := f.loops[b]; li != nil {
				f.loopHeader(b, li, reach, preds, conds, predBlocks)
			} else {
				vc.reach = reach
				f.st = vc.mergeStates(preds, conds)
				for _, in := range b.Instrs {
					phi, ok := in.(*ssa.Phi)
					if !ok {
						break
					}
					f.phi(phi, predBlocks, conds)
				}
			}
		}
		f.block(b)
	}
}

func (f *frame) phi(phi *ssa.Phi, predBlocks []*ssa.BasicBlock, conds []Term) {
	b := phi.Block()
	var ts []Term
	var pds []*ptrDesc
	for _, p := range predBlocks {
		for i, bp := range b.Preds {
			if bp == p {
				ts = append(ts, f.val(phi.Edges[i]))
				pds = append(pds, f.ptrDescOf(phi.Edges[i]))
				break
			}
		}
	}
	r := ts[len(ts)-1]
	for i := len(ts) - 2; i >= 0; i-- {
		r = mkIte(conds[i], ts[i], r)
	}
	f.setVal(phi, r)
	f.phiPtr(phi, pds)
}

func (f *frame) phiPtr(phi *ssa.Phi, pds []*ptrDesc) {
	var first *ptrDesc
	for _, pd := range pds {
		if pd != nil && pd.kind == pdField {
			if first == nil {
				first = pd
			} else if first.si != pd.si || first.field != pd.field {
				unsup("phi of pointers to different fields")
			}
		}
	}
	if first == nil {
		return
	}
	for _, pd := range pds {
		if pd == nil || pd.kind != pdField {
			unsup("phi mixing field pointer with other pointer")
		}
	}
	off := first.si.fields[first.field].offset
	f.ptrs[phi] = &ptrDesc{kind: pdField, base: bvSub(f.vals[phi], i64(off)), si: first.si, field: first.field}
}

// loopHeader cuts the loop at b: checks invariants on entry, havocs what the loop
// modifies, and assumes the invariants.
func (f *frame) loopHeader(b *ssa.BasicBlock, li *loopInfo, reach Term, preds []*State, conds []Term, predBlocks []*ssa.BasicBlock) {
	vc := f.vc
	entrySt := vc.mergeStates(preds, conds)
	vc.reach = reach
	f.st = entrySt
	// values of phis on entry
	var phis []*ssa.Phi
	for _, in := range b.Instrs {
		phi, ok := in.(*ssa.Phi)
		if !ok {
			break
		}
		phis = append(phis, phi)
	}
	entryVals := map[*ssa.Phi]Term{}
	for _, phi := range phis {
		var ts []Term
		for _, p := range predBlocks {
			for i, bp := range b.Preds {
				if bp == p {
					ts = append(ts, f.val(phi.Edges[i]))
					if pd := f.ptrDescOf(phi.Edges[i]); pd != nil && pd.kind == pdField {
						unsup("loop phi of field pointer")
					}
					break
				}
			}
		}
		r := ts[len(ts)-1]
		for i := len(ts) - 2; i >= 0; i-- {
			r = mkIte(conds[i], ts[i], r)
		}
		entryVals[phi] = vc.define(f.name(phi)+"$in", r)
	}
	invs := f.loopInvariants(b, li, phis)
	// check on entry
	for _, inv := range invs {
		for _, phi := range phis {
			f.vals[phi] = entryVals[phi]
		}
		g := f.evalInv(inv, b)
		if inv.auto {
			continue // auto candidates were validated by the Houdini pass
		}
		vc.skipAssume = inv.cand != nil
		if o := vc.oblige("inv-entry", f.label, inv.name, f.pos(b.Instrs[0].Pos()), g, inv.name, f.inlined); o != nil {
			o.cand = inv.cand
		}
		vc.skipAssume = false
	}
	allocBefore := entrySt.get("$alloc", SBV64)
	// havoc
	if vc.pass == 1 {
		f.st = vc.havocAllQuiet(entrySt)
	} else {
		mods := vc.loopMods[f.prefix+li.key]
		if mods["*"] {
			f.st = vc.havocAll(entrySt)
			f.st.mods = mods // frame-local names written in the loop are havocked too
		} else {
			f.st = vc.havocSome(entrySt, mods)
		}
	}
	vc.assume(ule(allocBefore, f.curAlloc()))
	for _, phi := range phis {
		delete(f.vals, phi)
		f.freshVal(phi)
	}
	for _, inv := range invs {
		vc.assume(f.evalInv(inv, b))
	}
}

// backEdge checks that the invariants of header h hold when jumping back from b.
func (f *frame) backEdge(b, h *ssa.BasicBlock, cond Term) {
	vc := f.vc
	li := f.loops[h]
	var phis []*ssa.Phi
	for _, in := range h.Instrs {
		phi, ok := in.(*ssa.Phi)
		if !ok {
			break
		}
		phis = append(phis, phi)
	}
	invs := f.loopInvariants(h, li, phis)
	if len(invs) == 0 {
		return
	}
	saved := map[*ssa.Phi]Term{}
	idx := -1
	for i, p := range h.Preds {
		if p == b {
			idx = i
		}
	}
	newVals := map[*ssa.Phi]Term{}
	for _, phi := range phis {
		newVals[phi] = f.val(phi.Edges[idx])
	}
	for _, phi := range phis {
		saved[phi] = f.vals[phi]
		f.vals[phi] = newVals[phi]
	}
	savedReach := vc.reach
	vc.reach = vc.define(f.prefix+"back", mkAnd(vc.reach, cond))
	for _, inv := range invs {
		if inv.auto {
			continue
		}
		g := f.evalInv(inv, h)
		vc.skipAssume = inv.cand != nil
		if o := vc.oblige("inv-keep", f.label, inv.name, f.pos(h.Instrs[0].Pos()), g, inv.name, f.inlined); o != nil {
			o.cand = inv.cand
		}
		vc.skipAssume = false
	}
	vc.reach = savedReach
	for _, phi := range phis {
		f.vals[phi] = saved[phi]
	}
}

// block translates the instructions of b (after phis).
func (f *frame) block(b *ssa.BasicBlock) {
	vc := f.vc
	ex := &blockExit{cond: tTrue}
	for _, in := range b.Instrs {
		if _, ok := in.(*ssa.Phi); ok {
			continue
		}
		if vc.reach.S == "false" {
			// unreachable: define values as zero to keep later references well formed
			if v, ok := in.(ssa.Value); ok {
				if _, isT := v.Type().(*types.Tuple); !isT {
					if _, done := f.vals[v]; !done {
						f.vals[v] = f.tt().zero(v.Type())
					}
				} else {
					tup := v.Type().(*types.Tuple)
					var ts []Term
					for i := 0; i < tup.Len(); i++ {
						ts = append(ts, f.tt().zero(tup.At(i).Type()))
					}
					f.tuples[v] = ts
				}
			}
			continue
		}
		switch x := in.(type) {
		case *ssa.If:
			ex.cond = f.val(x.Cond)
		case *ssa.Jump:
		case *ssa.Return:
			var rs []Term
			for _, r := range x.Results {
				rs = append(rs, f.val(r))
				if pd := f.ptrDescOf(r); pd != nil && pd.kind == pdField && !isStructPtr(r.Type()) {
					unsup("field pointer returned")
				}
			}
			f.rets = append(f.rets, retRec{reach: vc.reach, results: rs, st: f.st, instr: x})
			if f.top {
				vc.exitReach = append(vc.exitReach, vc.reach)
				vc.exitIdx = append(vc.exitIdx, len(vc.items))
				vc.exitPos = append(vc.exitPos, fmt.Sprint(f.pos(x.Pos()).Line))
				f.checkPost(x, rs)
			}
		case *ssa.Panic:
			f.oblige("panic", x.Pos(), tFalse)
			vc.reach = tFalse
		default:
			f.instr(in)
		}
	}
	ex.reach = vc.reach
	ex.st = f.st
	f.exits[b] = ex
	// back edges
	for i, s := range b.Succs {
		if isBackEdge(b, s) {
			c := tTrue
			if len(b.Succs) == 2 {
				if i == 0 {
					c = ex.cond
				} else {
					c = mkNot(ex.cond)
				}
			}
			f.backEdge(b, s, c)
		}
	}
}

func isStructPtr(t types.Type) bool {
	if p, ok := t.Underlying().(*types.Pointer); ok {
		_, ok := p.Elem().Underlying().(*types.Struct)
		return ok
	}
	return false
}
