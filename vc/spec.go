package main

import (
	"bufio"
	"strconv"
	"fmt"
	"go/ast"
	"go/constant"
	"go/parser"
	"go/token"
	"go/types"
	"os"
	"path/filepath"
	"regexp"
	"strings"

	"golang.org/x/tools/go/ssa"
)

// Contract is the parsed contract of one function.
type Contract struct {
	Key      string // relpkg:Func
	Requires []*Clause
	Ensures  []*Clause
	Loops    map[string][]*Clause // loop variable -> invariants
	Watch    []string
	Lemmas   []*Clause
	Trusted  bool
	NoInline bool
	Inline   bool // requires are checked at call sites, then the body is inlined
	File     string
	fn       *ssa.Function
	macros   []*macro
	relpkg   string
	Locals   map[string]string // loop var -> "name type, ..." declarations (unused when CheckExpr resolves them)
}

type Clause struct {
	Name   string
	Text   string
	Line   int
	expr   ast.Expr
	info   *types.Info
	oldSet map[ast.Expr]bool
	loopVars []string
	usesGhost bool
	Inv    bool // data-structure invariant: assumed (not proved) at call sites outside the callee's package
	done   bool
	err    error
}

// pkgMacros: `define` macros per package directory.
var pkgMacros = map[string][]*macro{}

// assumedPure: value names (as produced by valueName) of callbacks assumed to have no effect.
var assumedPure = map[string]string{}

// assumedWrites: heap-name prefixes an assumed-pure callback may nevertheless write.
var assumedWrites = map[string][]string{}

func assumedWritesOf(name string) []string {
	for k, v := range assumedWrites {
		if name == k || strings.HasSuffix(name, "."+k) {
			return v
		}
	}
	return nil
}

func isAssumedPure(name string) bool {
	for k := range assumedPure {
		if name == k || strings.HasSuffix(name, "."+k) {
			return true
		}
	}
	return false
}

var kwRe = regexp.MustCompile(`^(func|invariant|requires|ensures|loop|watch|lemma|trusted|noinline|inline|define|assume-pure|end)\b`)

type macro struct {
	name   string
	params []string
	body   string
}

var macroHead = regexp.MustCompile(`^([A-Za-z_][A-Za-z0-9_]*)\(([^)]*)\)\s+(.*)$`)

// expandMacros replaces NAME(args) by the macro body with parameters substituted (textually, to a fixed point).
func expandMacros(s string, macros []*macro) string {
	for iter := 0; iter < 8; iter++ {
		changed := false
		for _, m := range macros {
			for {
				idx := findCall(s, m.name)
				if idx < 0 {
					break
				}
				open := idx + len(m.name)
				cl := matchClose(s, open)
				if cl < 0 {
					break
				}
				args := splitArgs(s[open+1 : cl])
				if len(args) != len(m.params) {
					break
				}
				body := m.body
				ren := map[string]string{}
				for i, p := range m.params {
					ren[p] = "(" + strings.TrimSpace(args[i]) + ")"
				}
				body = renameIdents(body, ren)
				s = s[:idx] + "(" + body + ")" + s[cl+1:]
				changed = true
			}
		}
		if !changed {
			break
		}
	}
	return s
}

func findCall(s, name string) int {
	from := 0
	for {
		i := strings.Index(s[from:], name+"(")
		if i < 0 {
			return -1
		}
		i += from
		if (i == 0 || !isIdentChar(s[i-1]) && s[i-1] != '.') && !insideStringLit(s, i) {
			return i
		}
		from = i + 1
	}
}

func splitArgs(inner string) []string {
	var parts []string
	depth, start := 0, 0
	for k := 0; k < len(inner); k++ {
		switch inner[k] {
		case '(', '{', '[':
			depth++
		case ')', '}', ']':
			depth--
		case ',':
			if depth == 0 {
				parts = append(parts, inner[start:k])
				start = k + 1
			}
		}
	}
	if strings.TrimSpace(inner[start:]) != "" || len(parts) > 0 {
		parts = append(parts, inner[start:])
	}
	return parts
}

// parseContractFile reads //@ lines.
func parseContractFile(path, relpkg string) ([]*Contract, error) {
	fh, err := os.Open(path)
	if err != nil {
		return nil, err
	}
	defer fh.Close()
	var out []*Contract
	var cur *Contract
	var last *Clause
	var macros []*macro
	var lastMacro *macro
	defer func() {
		// macros are shared by all contract files of the package
		pkgMacros[relpkg] = append(pkgMacros[relpkg], macros...)
		for _, c := range out {
			c.relpkg = relpkg
		}
	}()
	sc := bufio.NewScanner(fh)
	sc.Buffer(make([]byte, 1<<20), 1<<20)
	ln := 0
	for sc.Scan() {
		ln++
		line := sc.Text()
		if !strings.HasPrefix(line, "//@") {
			last = nil
			continue
		}
		body := strings.TrimPrefix(line, "//@")
		tb := strings.TrimSpace(body)
		if tb == "" {
			continue
		}
		m := kwRe.FindString(tb)
		if m == "func" && strings.HasPrefix(tb, "func(") {
			m = ""
		}
		if m == "" {
			if lastMacro != nil {
				lastMacro.body += " " + tb
				continue
			}
			if last == nil {
				return nil, fmt.Errorf("%s:%d: continuation without clause", path, ln)
			}
			last.Text += " " + tb
			continue
		}
		lastMacro = nil
		rest := strings.TrimSpace(tb[len(m):])
		switch m {
		case "assume-pure":
			// a function-valued field or variable whose calls have no effect on program state
			// (user-supplied callbacks that the library treats as pure): an assumption, reported
			// "NAME" or "NAME writes PREFIX PREFIX ..." (heap-name prefixes the callback may write)
			fs := strings.Fields(rest)
			if len(fs) > 0 {
				assumedPure[fs[0]] = path
				if len(fs) > 2 && fs[1] == "writes" {
					assumedWrites[fs[0]] = fs[2:]
				}
			}
			last = nil
		case "define":
			mh := macroHead.FindStringSubmatch(rest)
			if mh == nil {
				return nil, fmt.Errorf("%s:%d: define NAME(params) body", path, ln)
			}
			mc := &macro{name: mh[1], body: mh[3]}
			for _, p := range strings.Split(mh[2], ",") {
				if p = strings.TrimSpace(p); p != "" {
					mc.params = append(mc.params, p)
				}
			}
			macros = append(macros, mc)
			lastMacro = mc
			last = nil
		case "func":
			cur = &Contract{Key: relpkg + ":" + rest, Loops: map[string][]*Clause{}, File: path}
			out = append(out, cur)
			last = nil
		case "end":
			cur, last = nil, nil
		default:
			if cur == nil {
				return nil, fmt.Errorf("%s:%d: clause outside func", path, ln)
			}
			switch m {
			case "trusted":
				cur.Trusted = true
			case "noinline":
				cur.NoInline = true
			case "inline":
				cur.Inline = true
			case "watch":
				cur.Watch = append(cur.Watch, strings.Fields(rest)...)
			case "invariant":
				// data-structure invariant over unexported state: requires + ensures of this function; callers in
				// other packages cannot break it (the fields are unexported) and assume it instead of proving it
				name, text := splitName(rest)
				if name == "" {
					name = "inv"
				}
				rq := &Clause{Name: name, Text: text, Line: ln, Inv: true}
				en := &Clause{Name: name, Text: text, Line: ln}
				cur.Requires = append(cur.Requires, rq)
				cur.Ensures = append(cur.Ensures, en)
				last = nil
			case "requires", "ensures", "lemma":
				name, text := splitName(rest)
				cl := &Clause{Name: name, Text: text, Line: ln}
				switch m {
				case "requires":
					if name == "" {
						cl.Name = fmt.Sprintf("r%d", len(cur.Requires)+1)
					}
					cur.Requires = append(cur.Requires, cl)
				case "ensures":
					if name == "" {
						cl.Name = fmt.Sprintf("e%d", len(cur.Ensures)+1)
					}
					cur.Ensures = append(cur.Ensures, cl)
				case "lemma":
					cur.Lemmas = append(cur.Lemmas, cl)
				}
				last = cl
			case "loop":
				// loop <var>: [name:] expr
				i := strings.Index(rest, ":")
				if i < 0 {
					return nil, fmt.Errorf("%s:%d: loop needs 'var: expr'", path, ln)
				}
				v := strings.TrimSpace(rest[:i])
				name, text := splitName(strings.TrimSpace(rest[i+1:]))
				if name == "" {
					name = fmt.Sprintf("%s.inv%d", v, len(cur.Loops[v])+1)
				} else {
					name = v + "." + name
				}
				cl := &Clause{Name: name, Text: text, Line: ln}
				cur.Loops[v] = append(cur.Loops[v], cl)
				last = cl
			}
		}
	}
	return out, nil
}

var nameRe = regexp.MustCompile(`^([A-Za-z][A-Za-z0-9_\-]*):\s`)

func splitName(s string) (string, string) {
	if m := nameRe.FindStringSubmatch(s + " "); m != nil {
		return m[1], strings.TrimSpace(s[len(m[1])+1:])
	}
	return "", s
}

// loadContracts reads all contract files under dir (mirror layout: dir/<relpkg>/verif_contracts.go).
func (P *Program) loadContracts(dir string) error {
	return filepath.Walk(dir, func(path string, info os.FileInfo, err error) error {
		if err != nil || info.IsDir() || !strings.HasSuffix(path, ".go") {
			return err
		}
		rel, _ := filepath.Rel(dir, filepath.Dir(path))
		if rel == "" {
			rel = "."
		}
		cs, err := parseContractFile(path, rel)
		if err != nil {
			return err
		}
		for _, c := range cs {
			fn := P.funcs[c.Key]
			if fn == nil {
				P.missing = append(P.missing, c.Key)
				continue
			}
			c.fn = fn
			if prev := P.contracts[fn]; prev != nil {
				// several files may contribute clauses for one function (one file per property)
				prev.Requires = append(prev.Requires, c.Requires...)
				prev.Ensures = append(prev.Ensures, c.Ensures...)
				prev.Watch = append(prev.Watch, c.Watch...)
				prev.Lemmas = append(prev.Lemmas, c.Lemmas...)
				for k, v := range c.Loops {
					prev.Loops[k] = append(prev.Loops[k], v...)
				}
				prev.Trusted = prev.Trusted || c.Trusted
				prev.NoInline = prev.NoInline || c.NoInline
				prev.Inline = prev.Inline || c.Inline
				prev.macros = append(prev.macros, c.macros...)
				continue
			}
			P.contracts[fn] = c
			P.contractList = append(P.contractList, c)
		}
		return nil
	})
}

// rewriteImplies turns "a ==> b" into "(!(a) || (b))" (right associative, lowest precedence).
func rewriteImplies(s string) string {
	// process parenthesised / braced groups recursively
	var b strings.Builder
	i := 0
	for i < len(s) {
		c := s[i]
		if c == '(' || c == '{' || c == '[' {
			j := matchClose(s, i)
			if j < 0 {
				b.WriteString(s[i:])
				break
			}
			inner := s[i+1 : j]
			if c == '{' {
				// function literal body: "return expr" possibly
				b.WriteByte(c)
				b.WriteString(rewriteStmtImplies(inner))
				b.WriteByte(s[j])
			} else {
				b.WriteByte(c)
				b.WriteString(rewriteArgs(inner))
				b.WriteByte(s[j])
			}
			i = j + 1
			continue
		}
		if c == '"' || c == '`' || c == '\'' {
			j := i + 1
			for j < len(s) && s[j] != c {
				if s[j] == '\\' {
					j++
				}
				j++
			}
			if j >= len(s) {
				j = len(s) - 1
			}
			b.WriteString(s[i : j+1])
			i = j + 1
			continue
		}
		b.WriteByte(c)
		i++
	}
	t := b.String()
	// split at top-level ==>
	depth := 0
	for k := 0; k+2 < len(t); k++ {
		switch t[k] {
		case '(', '{', '[':
			depth++
		case ')', '}', ']':
			depth--
		case '"':
			k++
			for k < len(t) && t[k] != '"' {
				if t[k] == '\\' {
					k++
				}
				k++
			}
		}
		if depth == 0 && strings.HasPrefix(t[k:], "==>") {
			return "(!(" + t[:k] + ") || (" + rewriteTop(t[k+3:]) + "))"
		}
	}
	return t
}

func rewriteTop(t string) string {
	depth := 0
	for k := 0; k+2 < len(t); k++ {
		switch t[k] {
		case '(', '{', '[':
			depth++
		case ')', '}', ']':
			depth--
		}
		if depth == 0 && strings.HasPrefix(t[k:], "==>") {
			return "(!(" + t[:k] + ") || (" + rewriteTop(t[k+3:]) + "))"
		}
	}
	return t
}

func rewriteArgs(inner string) string {
	// split at top-level commas, rewrite each
	var parts []string
	depth, start := 0, 0
	for k := 0; k < len(inner); k++ {
		switch inner[k] {
		case '(', '{', '[':
			depth++
		case ')', '}', ']':
			depth--
		case '"':
			k++
			for k < len(inner) && inner[k] != '"' {
				if inner[k] == '\\' {
					k++
				}
				k++
			}
		case ',':
			if depth == 0 {
				parts = append(parts, inner[start:k])
				start = k + 1
			}
		}
	}
	parts = append(parts, inner[start:])
	for i, p := range parts {
		parts[i] = rewriteImplies(p)
	}
	return strings.Join(parts, ",")
}

func rewriteStmtImplies(inner string) string {
	t := strings.TrimSpace(inner)
	if strings.HasPrefix(t, "return ") {
		return " return " + rewriteImplies(strings.TrimSpace(t[7:])) + " "
	}
	return inner
}

func matchClose(s string, i int) int {
	open := s[i]
	var cl byte
	switch open {
	case '(':
		cl = ')'
	case '{':
		cl = '}'
	case '[':
		cl = ']'
	}
	depth := 0
	for j := i; j < len(s); j++ {
		switch s[j] {
		case '"':
			j++
			for j < len(s) && s[j] != '"' {
				if s[j] == '\\' {
					j++
				}
				j++
			}
		case open:
			depth++
		case cl:
			depth--
			if depth == 0 {
				return j
			}
		}
	}
	return -1
}

// ---------------------------------------------------------------------------
// ghost vocabulary available in clauses

type ghostSig struct {
	params  []types.Type
	results types.Type
	variadic bool
}

func (P *Program) ghostScope(parent *types.Scope, pkg *types.Package, pos token.Pos, fn *ssa.Function) *types.Scope {
	sc := types.NewScope(parent, pos, pos+1, "verif")
	boolT, intT, strT := types.Typ[types.Bool], types.Typ[types.Int], types.Typ[types.String]
	bytesT := types.NewSlice(types.Typ[types.Uint8])
	errT := types.Universe.Lookup("error").Type()
	anyT := types.NewInterfaceType(nil, nil)
	u64T := types.Typ[types.Uint64]
	mk := func(name string, res types.Type, ps ...types.Type) {
		var vars []*types.Var
		for i, p := range ps {
			vars = append(vars, types.NewVar(token.NoPos, nil, fmt.Sprintf("a%d", i), p))
		}
		var rs *types.Tuple
		if res != nil {
			rs = types.NewTuple(types.NewVar(token.NoPos, nil, "", res))
		}
		sig := types.NewSignatureType(nil, nil, nil, types.NewTuple(vars...), rs, false)
		sc.Insert(types.NewFunc(token.NoPos, pkg, name, sig))
	}
	pred := types.NewSignatureType(nil, nil, nil, types.NewTuple(types.NewVar(0, nil, "i", intT)), types.NewTuple(types.NewVar(0, nil, "", boolT)), false)
	mk("forall", boolT, intT, intT, pred)
	mk("exists", boolT, intT, intT, pred)
	mk("called", boolT, strT)
	mk("ncalls", intT, strT)
	mk("calledBefore", boolT, strT, strT)
	mk("held", boolT, strT)
	mk("retBool", boolT, strT, intT)
	mk("retErr", errT, strT, intT)
	mk("retBytes", bytesT, strT, intT)
	mk("retInt", intT, strT, intT)
	mk("retU64", u64T, strT, intT)
	mk("retAny", anyT, strT, intT)
	mk("argBool", boolT, strT, intT)
	mk("argErr", errT, strT, intT)
	mk("argBytes", bytesT, strT, intT)
	mk("argInt", intT, strT, intT)
	mk("argU64", u64T, strT, intT)
	mk("argAny", anyT, strT, intT)
	mk("bytesEq", boolT, bytesT, bytesT)
	mk("sameSlice", boolT, anyT, anyT)
	mk("sameRef", boolT, anyT, anyT)
	mk("isNil", boolT, anyT)
	mk("allocated", boolT, anyT)
	mk("fresh", boolT, anyT)
	mk("typeIs", boolT, anyT, strT)
	mk("nonNilPayload", boolT, anyT)
	mk("offsetOf", intT, anyT)
	mk("sameArray", boolT, anyT, anyT)
	mk("disjoint", boolT, anyT, anyT)
	mk("always", boolT, types.Typ[types.String], types.Typ[types.String])
	mk("atCall", boolT, types.Typ[types.String], boolT)
	mk("hasKey", boolT, anyT, anyT)
	predU16 := types.NewSignatureType(nil, nil, nil, types.NewTuple(types.NewVar(0, nil, "k", types.Typ[types.Uint16])), types.NewTuple(types.NewVar(0, nil, "", boolT)), false)
	predU32 := types.NewSignatureType(nil, nil, nil, types.NewTuple(types.NewVar(0, nil, "k", types.Typ[types.Uint32])), types.NewTuple(types.NewVar(0, nil, "", boolT)), false)
	predU64 := types.NewSignatureType(nil, nil, nil, types.NewTuple(types.NewVar(0, nil, "k", u64T)), types.NewTuple(types.NewVar(0, nil, "", boolT)), false)
	mk("forallKey", boolT, anyT, anyT)
	mk("forallU16", boolT, predU16)
	mk("forallU32", boolT, predU32)
	mk("forallU64", boolT, predU64)
	// old is handled syntactically (rewritten to a parenthesised expression before checking)
	if fn != nil {
		res := fn.Signature.Results()
		_, ft := funcBody(fn)
		named := false
		if ft != nil && ft.Results != nil {
			for _, fld := range ft.Results.List {
				if len(fld.Names) > 0 {
					named = true
				}
			}
		}
		if !named {
			for i := 0; i < res.Len(); i++ {
				sc.Insert(types.NewVar(token.NoPos, pkg, fmt.Sprintf("result%d", i), res.At(i).Type()))
				if res.Len() == 1 && parent.Lookup("result") == nil && !hasParamNamed(fn, "result") {
					sc.Insert(types.NewVar(token.NoPos, pkg, "result", res.At(i).Type()))
				}
			}
		}
	}
	return sc
}

func hasParamNamed(fn *ssa.Function, name string) bool {
	for _, p := range fn.Params {
		if p.Name() == name {
			return true
		}
	}
	return false
}

// prepare parses and type-checks a clause at position pos of fn's package.
func (P *Program) prepare(cl *Clause, fn *ssa.Function, pos token.Pos) error {
	if cl.done {
		return cl.err
	}
	cl.done = true
	text := cl.Text
	if ct := P.contractFor(fn); ct != nil {
		text = expandMacros(text, pkgMacros[ct.relpkg])
	}
	src := rewriteImplies(text)
	e, err := parser.ParseExpr(src)
	if err != nil {
		cl.err = fmt.Errorf("clause %q: parse: %v (after rewriting: %s)", cl.Name, err, src)
		return cl.err
	}
	// old(e) -> (e), remembered
	cl.oldSet = map[ast.Expr]bool{}
	e = rewriteOld(e, cl.oldSet)
	pkg := pkgOf(fn).Pkg
	inner := pkg.Scope().Innermost(pos)
	if inner == nil {
		cl.err = fmt.Errorf("clause %q: no scope at position", cl.Name)
		return cl.err
	}
	gs := P.ghostScope(inner, pkg, pos, fn)
	for _, lv := range cl.loopVars {
		gs.Insert(types.NewVar(token.NoPos, pkg, lv, types.Typ[types.Int]))
	}
	info := &types.Info{Types: map[ast.Expr]types.TypeAndValue{}, Uses: map[*ast.Ident]types.Object{}, Defs: map[*ast.Ident]types.Object{}, Selections: map[*ast.SelectorExpr]*types.Selection{}}
	if err := types.CheckExpr(P.fset, pkg, pos, e, info); err != nil {
		cl.err = fmt.Errorf("clause %q: %v", cl.Name, err)
		return cl.err
	}
	if tv := info.Types[e]; !types.Identical(tv.Type.Underlying(), types.Typ[types.Bool]) && tv.Type != types.Typ[types.UntypedBool] {
		cl.err = fmt.Errorf("clause %q: not boolean", cl.Name)
		return cl.err
	}
	cl.expr = e
	cl.info = info
	ast.Inspect(e, func(n ast.Node) bool {
		switch x := n.(type) {
		case *ast.CallExpr:
			if id, ok := x.Fun.(*ast.Ident); ok {
				switch id.Name {
				case "always", "atCall", "called", "ncalls", "calledBefore", "retBool", "retErr", "retBytes", "retInt", "retU64", "retAny", "argBool", "argErr", "argBytes", "argInt", "argU64", "argAny":
					cl.usesGhost = true
				}
			}
		case *ast.ParenExpr:
			if _, ok := ghostAs[x]; ok {
				cl.usesGhost = true
			}
		}
		return true
	})
	return nil
}

// ghostAs records argAs/retAs placeholders (keyed by the ParenExpr that replaced them).
var ghostAs map[ast.Expr][3]string

func rewriteOld(e ast.Expr, set map[ast.Expr]bool) ast.Expr {
	var rw func(n ast.Expr) ast.Expr
	rw = func(n ast.Expr) ast.Expr {
		switch x := n.(type) {
		case *ast.CallExpr:
			if id, ok := x.Fun.(*ast.Ident); ok && id.Name == "old" && len(x.Args) == 1 {
				p := &ast.ParenExpr{Lparen: x.Lparen, X: rw(x.Args[0]), Rparen: x.Rparen}
				set[p] = true
				return p
			}
			// argAs("callee", k, e) / retAs("callee", k, e): the k-th argument/result of the last call,
			// typed like the expression e (which is only type-checked, never evaluated)
			if id, ok := x.Fun.(*ast.Ident); ok && (id.Name == "argAs" || id.Name == "retAs") && len(x.Args) == 3 {
				p := &ast.ParenExpr{Lparen: x.Lparen, X: rw(x.Args[2]), Rparen: x.Rparen}
				if ghostAs == nil {
					ghostAs = map[ast.Expr][3]string{}
				}
				a0, a1 := unparen(x.Args[0]), unparen(x.Args[1])
				l0, ok0 := a0.(*ast.BasicLit)
				l1, ok1 := a1.(*ast.BasicLit)
				if !ok0 || !ok1 {
					return n
				}
				name, _ := strconv.Unquote(l0.Value)
				ghostAs[p] = [3]string{id.Name[:3], name, l1.Value}
				return p
			}
			x.Fun = rw(x.Fun)
			for i := range x.Args {
				x.Args[i] = rw(x.Args[i])
			}
		case *ast.ParenExpr:
			x.X = rw(x.X)
		case *ast.BinaryExpr:
			x.X, x.Y = rw(x.X), rw(x.Y)
		case *ast.UnaryExpr:
			x.X = rw(x.X)
		case *ast.StarExpr:
			x.X = rw(x.X)
		case *ast.TypeAssertExpr:
			x.X = rw(x.X)
		case *ast.SelectorExpr:
			x.X = rw(x.X)
		case *ast.IndexExpr:
			x.X, x.Index = rw(x.X), rw(x.Index)
		case *ast.SliceExpr:
			x.X = rw(x.X)
			if x.Low != nil {
				x.Low = rw(x.Low)
			}
			if x.High != nil {
				x.High = rw(x.High)
			}
			if x.Max != nil {
				x.Max = rw(x.Max)
			}
		case *ast.FuncLit:
			for _, st := range x.Body.List {
				if r, ok := st.(*ast.ReturnStmt); ok {
					for i := range r.Results {
						r.Results[i] = rw(r.Results[i])
					}
				}
			}
		}
		return n
	}
	return rw(e)
}

// ---------------------------------------------------------------------------
// evaluation of clauses

type specEnv struct {
	f       *frame // frame giving the vocabulary (vc, tt); evaluation state is f.st unless overridden
	now     *State
	old     *State
	vars    map[types.Object]Term
	results []Term
	resNames map[string]int
	info    *types.Info
	oldSet  map[ast.Expr]bool
	fn      *ssa.Function
	loopHdr *ssa.BasicBlock
	inOld   bool
	frameOfLocals *frame
	ghostNow *State
}

// gst: the state the call-event ghosts are read from (the current one, also inside old() and atCall()).
func (e *specEnv) gst() *State {
	if e.ghostNow != nil {
		return e.ghostNow
	}
	return e.now
}

func (e *specEnv) st() *State {
	if e.inOld {
		return e.old
	}
	return e.now
}

func (e *specEnv) tt() *TypeTable { return e.f.vc.tt }

func (e *specEnv) typeOf(x ast.Expr) types.Type {
	if tv, ok := e.info.Types[x]; ok {
		return tv.Type
	}
	if id, ok := x.(*ast.Ident); ok {
		if o := e.info.Uses[id]; o != nil {
			return o.Type()
		}
	}
	unsup("spec: no type for %s", exprString(x))
	return nil
}

func exprString(x ast.Expr) string {
	var b strings.Builder
	fs := token.NewFileSet()
	_ = fs
	ast.Fprint(&b, nil, x, nil)
	s := types.ExprString(x)
	return s
}

func (e *specEnv) constOf(x ast.Expr) (Term, bool) {
	tv, ok := e.info.Types[x]
	if !ok || tv.Value == nil {
		return Term{}, false
	}
	// an expression that contains a retAs/argAs placeholder with a constant witness is not constant
	if len(ghostAs) > 0 {
		hasGhost := false
		ast.Inspect(x, func(n ast.Node) bool {
			if p, ok := n.(*ast.ParenExpr); ok {
				if _, isG := ghostAs[p]; isG {
					hasGhost = true
				}
			}
			return !hasGhost
		})
		if hasGhost {
			return Term{}, false
		}
	}
	t := tv.Type
	switch u := t.Underlying().(type) {
	case *types.Basic:
		if n, _, ok := intWidth(u); ok {
			if i, exact := constant.Int64Val(constant.ToInt(tv.Value)); exact {
				return bvLit(n, uint64(i)), true
			}
			if i, exact := constant.Uint64Val(constant.ToInt(tv.Value)); exact {
				return bvLit(n, i), true
			}
		}
		switch u.Kind() {
		case types.Bool, types.UntypedBool:
			if constant.BoolVal(tv.Value) {
				return tTrue, true
			}
			return tFalse, true
		case types.String, types.UntypedString:
			return e.f.vc.strConst(constant.StringVal(tv.Value)), true
		}
	}
	return Term{}, false
}

// eval translates a specification expression.
func (e *specEnv) eval(x ast.Expr) Term {
	if p, ok := x.(*ast.ParenExpr); ok {
		if _, isGhost := ghostAs[p]; isGhost {
			g := ghostAs[p]
			w := g[1]
			if !e.f.vc.watch[w] {
				unsup("spec: %q is used in a clause but not declared with 'watch'", w)
			}
			return e.ghostVal(g[0], w, g[2], e.tt().sortOf(e.typeOf(p.X)))
		}
	}
	if t, ok := e.constOf(x); ok {
		return t
	}
	tt := e.tt()
	vc := e.f.vc
	switch n := x.(type) {
	case *ast.ParenExpr:
		if g, ok := ghostAs[n]; ok {
			w := g[1]
			if !e.f.vc.watch[w] {
				unsup("spec: %q is used in a clause but not declared with 'watch'", w)
			}
			return e.st().get(fmt.Sprintf("G$%s$%s$%s", g[0], w, g[2]), tt.sortOf(e.typeOf(n.X)))
		}
		if e.oldSet[n] {
			saved := e.inOld
			e.inOld = true
			r := e.eval(n.X)
			e.inOld = saved
			return r
		}
		return e.eval(n.X)
	case *ast.Ident:
		return e.ident(n)
	case *ast.BasicLit:
		unsup("spec: literal without constant value %s", n.Value)
	case *ast.UnaryExpr:
		switch n.Op {
		case token.NOT:
			return mkNot(e.eval(n.X))
		case token.SUB:
			v := e.eval(n.X)
			return app("bvneg", v.Sort, v)
		case token.XOR:
			v := e.eval(n.X)
			return app("bvnot", v.Sort, v)
		case token.AND:
			// &x.f : address
			return e.addrOf(n.X)
		}
	case *ast.StarExpr:
		p := e.eval(n.X)
		T := deref(e.typeOf(n.X))
		return e.loadAt(p, T, nil)
	case *ast.BinaryExpr:
		return e.binary(n)
	case *ast.SelectorExpr:
		return e.selector(n)
	case *ast.IndexExpr:
		return e.index(n)
	case *ast.SliceExpr:
		return e.sliceExpr(n)
	case *ast.CallExpr:
		return e.call(n)
	case *ast.TypeAssertExpr:
		v := e.eval(n.X)
		T := e.typeOf(n)
		if isPtrLike(T) {
			return ifVal(v)
		}
		hn, hs := tt.boxHeap(T)
		return mkSelect(e.st().get(hn, hs), ifVal(v), tt.sortOf(T))
	case *ast.CompositeLit:
		unsup("spec: composite literal")
	}
	_ = tt
	_ = vc
	unsup("spec: expression %s (%T)", exprString(x), x)
	return Term{}
}

func (e *specEnv) ident(n *ast.Ident) Term {
	switch n.Name {
	case "nil":
		return e.tt().zero(e.typeOf(n))
	case "true":
		return tTrue
	case "false":
		return tFalse
	}
	obj := e.info.Uses[n]
	if obj == nil {
		unsup("spec: unresolved identifier %s", n.Name)
	}
	if t, ok := e.vars[obj]; ok {
		return t
	}
	if v, ok := obj.(*types.Var); ok {
		// result placeholders (ghost variables have no source position)
		if i, ok := e.resNames[n.Name]; ok && e.results != nil && !obj.Pos().IsValid() {
			return e.results[i]
		}
		// named result / parameter / local of the function
		if t, ok := e.lookupLocal(v); ok {
			return t
		}
		// package-level variable
		if v.Parent() == v.Pkg().Scope() {
			sp := e.f.vc.P.prog.Package(v.Pkg())
			if sp != nil {
				if g, ok := sp.Members[v.Name()].(*ssa.Global); ok {
					if t, ok := e.f.vc.P.globalConst(e.f, g); ok {
						return t
					}
					return e.loadAt(e.f.vc.globalAddr(g), v.Type(), nil)
				}
			}
		}
	}
	if v, ok := obj.(*types.Var); ok && v.Pkg() != nil && v.Parent() != v.Pkg().Scope() {
		// a local that has no value on this path: an arbitrary value of its type
		return e.f.vc.declare("undef$"+n.Name, e.tt().sortOf(v.Type()))
	}
	unsup("spec: cannot resolve %s", n.Name)
	return Term{}
}

// lookupLocal resolves a parameter, named result or local variable of the function under contract.
func (e *specEnv) lookupLocal(v *types.Var) (Term, bool) {
	fr := e.frameOfLocals
	if fr == nil {
		return Term{}, false
	}
	fn := fr.fn
	// in loop clauses a parameter that is reassigned in the loop denotes its current value (header phi);
	// old(name) still denotes the entry value
	if e.loopHdr != nil && !e.inOld {
		for _, in := range e.loopHdr.Instrs {
			phi, ok := in.(*ssa.Phi)
			if !ok {
				break
			}
			if phi.Comment == v.Name() {
				for _, p := range fn.Params {
					if p.Object() == v {
						if t, ok := fr.vals[phi]; ok {
							return t, true
						}
					}
				}
			}
		}
	}
	for _, p := range fn.Params {
		if p.Object() == v {
			return fr.val(p), true
		}
	}
	for _, fv := range fn.FreeVars {
		if fv.Name() == v.Name() {
			// free variables are pointers to the captured variable
			return e.loadAt(fr.val(fv), v.Type(), nil), true
		}
	}
	if i, ok := e.resNames[v.Name()]; ok && e.results != nil {
		return e.results[i], true
	}
	// range loops: idx (and the key variable) denote the number of elements already processed
	if e.loopHdr != nil {
		if rp := rangePhi(e.loopHdr); rp != nil {
			isKey := v.Name() == "idx" && v.Pkg() != nil && v.Parent() != nil && v.Parent().Lookup("idx") == v && !v.Pos().IsValid()
			if !isKey {
				for _, b := range fn.Blocks {
					for _, in := range b.Instrs {
						if dr, ok := in.(*ssa.DebugRef); ok && dr.Object() == v {
							if bo, ok := dr.X.(*ssa.BinOp); ok && bo.Block() == e.loopHdr && bo.X == ssa.Value(rp) {
								isKey = true
							}
						}
					}
				}
			}
			if isKey {
				if t, ok := fr.vals[rp]; ok {
					return bvAdd(t, i64(1)), true
				}
			}
		}
	}
	// loop header phi with that name
	if e.loopHdr != nil {
		for _, in := range e.loopHdr.Instrs {
			phi, ok := in.(*ssa.Phi)
			if !ok {
				break
			}
			if phi.Comment == v.Name() {
				if t, ok := fr.vals[phi]; ok {
					return t, true
				}
			}
		}
	}
	// debug refs
	var best ssa.Value
	var bestAddr bool
	for _, b := range fn.Blocks {
		for _, in := range b.Instrs {
			dr, ok := in.(*ssa.DebugRef)
			if !ok {
				continue
			}
			if id, ok := dr.Expr.(*ast.Ident); ok && dr.Object() == v && id != nil {
				if _, defined := fr.vals[dr.X]; !defined {
					if _, isC := dr.X.(*ssa.Const); !isC {
						if _, isP := dr.X.(*ssa.Parameter); !isP {
							continue
						}
					}
				}
				if e.loopHdr != nil {
					// prefer a definition that dominates the loop header
					if vi, ok := dr.X.(ssa.Instruction); ok {
						if !vi.Block().Dominates(e.loopHdr) || vi.Block() == e.loopHdr {
							if _, isPhi := dr.X.(*ssa.Phi); !isPhi {
								continue
							}
						}
					}
				}
				best, bestAddr = dr.X, dr.IsAddr
			}
		}
	}
	if best != nil {
		if bestAddr {
			return e.loadAt(fr.val(best), v.Type(), fr.ptrDescOf(best)), true
		}
		return fr.val(best), true
	}
	return Term{}, false
}

func (e *specEnv) loadAt(addr Term, T types.Type, pd *ptrDesc) Term {
	saved := e.f.st
	e.f.st = e.st()
	defer func() { e.f.st = saved }()
	return e.f.load(addr, T, pd)
}

func (e *specEnv) addrOf(x ast.Expr) Term {
	switch n := x.(type) {
	case *ast.SelectorExpr:
		sel := e.info.Selections[n]
		if sel == nil || sel.Kind() != types.FieldVal {
			unsup("spec: address of non-field")
		}
		base, T := e.fieldBase(n.X)
		return e.fieldAddrPath(base, T, sel.Index())
	case *ast.IndexExpr:
		s := e.eval(n.X)
		i := e.to64(n.Index)
		el := e.typeOf(n.X).Underlying().(*types.Slice).Elem()
		return bvAdd(slObj(s), bvMul(bvAdd(slOff(s), i), i64(e.tt().slots(el))))
	}
	unsup("spec: address of %s", exprString(x))
	return Term{}
}

// fieldBase returns the address of the struct denoted by x (x is a pointer to struct or an addressable struct).
func (e *specEnv) fieldBase(x ast.Expr) (Term, types.Type) {
	T := e.typeOf(x)
	if p, ok := T.Underlying().(*types.Pointer); ok {
		return e.eval(x), p.Elem()
	}
	// struct-valued expression: must itself be addressable (field of pointer, deref)
	switch n := x.(type) {
	case *ast.SelectorExpr:
		sel := e.info.Selections[n]
		if sel != nil && sel.Kind() == types.FieldVal {
			b, bt := e.fieldBase(n.X)
			return e.fieldAddrPath(b, bt, sel.Index()), T
		}
	case *ast.StarExpr:
		return e.eval(n.X), T
	case *ast.ParenExpr:
		return e.fieldBase(n.X)
	case *ast.IndexExpr:
		return e.addrOf(n), T
	}
	return Term{}, nil
}

func (e *specEnv) fieldAddrPath(base Term, T types.Type, path []int) Term {
	tt := e.tt()
	for _, i := range path {
		if p, ok := T.Underlying().(*types.Pointer); ok {
			// implicit dereference through embedded pointer
			T = p.Elem()
			_ = T
			unsup("spec: selection through embedded pointer")
		}
		si := tt.structOf(T)
		base = bvAdd(base, i64(si.fields[i].offset))
		T = si.fields[i].typ
	}
	return base
}

func (e *specEnv) selector(n *ast.SelectorExpr) Term {
	tt := e.tt()
	// qualified identifier pkg.Name
	if id, ok := n.X.(*ast.Ident); ok {
		if _, isPkg := e.info.Uses[id].(*types.PkgName); isPkg {
			return e.ident(n.Sel)
		}
	}
	sel := e.info.Selections[n]
	if sel == nil {
		unsup("spec: selector %s", exprString(n))
	}
	if sel.Kind() != types.FieldVal {
		unsup("spec: method value %s", exprString(n))
	}
	XT := e.typeOf(n.X)
	if _, ok := XT.Underlying().(*types.Pointer); ok || e.addressable(n.X) {
		base, T := e.fieldBase(n.X)
		if T != nil {
			path := sel.Index()
			// walk to the final field keeping the last struct for the field heap
			for k, i := range path {
				si := tt.structOf(T)
				fi := si.fields[i]
				if k == len(path)-1 {
					return e.loadAt(bvAdd(base, i64(fi.offset)), fi.typ, &ptrDesc{kind: pdField, base: base, si: si, field: i})
				}
				if p, ok := fi.typ.Underlying().(*types.Pointer); ok {
					// promoted through an embedded pointer field: load that field, continue in the pointee
					base = e.loadAt(bvAdd(base, i64(fi.offset)), fi.typ, &ptrDesc{kind: pdField, base: base, si: si, field: i})
					T = p.Elem()
					continue
				}
				base = bvAdd(base, i64(fi.offset))
				T = fi.typ
			}
		}
	}
	// struct value
	v := e.eval(n.X)
	T := XT
	for _, i := range sel.Index() {
		si := tt.structOf(T)
		v = tt.fieldOf(v, si, i)
		T = si.fields[i].typ
	}
	return v
}

func (e *specEnv) addressable(x ast.Expr) bool {
	switch n := x.(type) {
	case *ast.SelectorExpr:
		sel := e.info.Selections[n]
		if sel == nil || sel.Kind() != types.FieldVal {
			return false
		}
		if _, ok := e.typeOf(n.X).Underlying().(*types.Pointer); ok {
			return true
		}
		return e.addressable(n.X)
	case *ast.StarExpr:
		return true
	case *ast.ParenExpr:
		return e.addressable(n.X)
	case *ast.IndexExpr:
		_, ok := e.typeOf(n.X).Underlying().(*types.Slice)
		return ok
	}
	return false
}

func (e *specEnv) to64(x ast.Expr) Term {
	v := e.eval(x)
	return bvResize(v, 64, isSigned(e.typeOf(x)))
}

func (e *specEnv) index(n *ast.IndexExpr) Term {
	tt := e.tt()
	XT := e.typeOf(n.X)
	switch u := XT.Underlying().(type) {
	case *types.Slice:
		s := e.eval(n.X)
		i := e.to64(n.Index)
		off := bvAdd(slOff(s), i)
		addr := bvAdd(slObj(s), bvMul(off, i64(tt.slots(u.Elem()))))
		if isStructType(u.Elem()) {
			return e.loadAt(addr, u.Elem(), nil)
		}
		return e.loadAt(addr, u.Elem(), &ptrDesc{kind: pdElem, obj: slObj(s), off: off})
	case *types.Array:
		a := e.eval(n.X)
		return mkSelect(a, e.to64(n.Index), tt.sortOf(u.Elem()))
	case *types.Basic:
		s := e.eval(n.X)
		return mkSelect(e.f.vc.smem(), bvAdd(strPtr(s), e.to64(n.Index)), SBV8)
	case *types.Map:
		m := e.eval(n.X)
		k := e.eval(n.Index)
		saved := e.f.st
		e.f.st = e.st()
		defer func() { e.f.st = saved }()
		dn, vn, _, ds, vs, _, ks, es := e.f.mapHeaps(u)
		dom := mkSelect(e.f.st.get(dn, ds), m, arraySort(ks, SBool))
		in := mkAnd(mkNot(mkEq(m, i64(0))), mkSelect(dom, k, SBool))
		v := mkSelect(mkSelect(e.f.st.get(vn, vs), m, arraySort(ks, es)), k, es)
		return mkIte(in, v, tt.zero(u.Elem()))
	case *types.Pointer:
		if arr, ok := u.Elem().Underlying().(*types.Array); ok {
			p := e.eval(n.X)
			idx := e.to64(n.Index)
			if isStructType(arr.Elem()) {
				return e.loadAt(bvAdd(p, bvMul(idx, i64(tt.slots(arr.Elem())))), arr.Elem(), nil)
			}
			return e.loadAt(p, arr.Elem(), &ptrDesc{kind: pdElem, obj: p, off: idx})
		}
	}
	unsup("spec: index of %s", XT)
	return Term{}
}

func (e *specEnv) sliceExpr(n *ast.SliceExpr) Term {
	XT := e.typeOf(n.X)
	switch u := XT.Underlying().(type) {
	case *types.Slice:
		s := e.eval(n.X)
		lo, hi, mx := i64(0), slLen(s), slCap(s)
		if n.Low != nil {
			lo = e.to64(n.Low)
		}
		if n.High != nil {
			hi = e.to64(n.High)
		}
		if n.Max != nil {
			mx = e.to64(n.Max)
		}
		_ = u
		return mkSlice(slObj(s), bvAdd(slOff(s), lo), bvSub(hi, lo), bvSub(mx, lo))
	case *types.Basic:
		s := e.eval(n.X)
		lo, hi := i64(0), strLen(s)
		if n.Low != nil {
			lo = e.to64(n.Low)
		}
		if n.High != nil {
			hi = e.to64(n.High)
		}
		return mkStr(bvAdd(strPtr(s), lo), bvSub(hi, lo))
	}
	unsup("spec: slice of %s", XT)
	return Term{}
}

func (e *specEnv) binary(n *ast.BinaryExpr) Term {
	switch n.Op {
	case token.LAND:
		return mkAnd(e.eval(n.X), e.eval(n.Y))
	case token.LOR:
		return mkOr(e.eval(n.X), e.eval(n.Y))
	}
	var a, b Term
	if isNilIdent(n.X) {
		b = e.eval(n.Y)
		a = e.tt().zero(e.typeOf(n.Y))
	} else if isNilIdent(n.Y) {
		a = e.eval(n.X)
		b = e.tt().zero(e.typeOf(n.X))
	} else {
		a, b = e.eval(n.X), e.eval(n.Y)
	}
	xt := e.typeOf(n.X)
	if tv := e.info.Types[n.X]; tv.Value != nil || isUntyped(xt) {
		xt = e.typeOf(n.Y)
	}
	signed := isSigned(xt)
	// shifts: count may have another width
	if n.Op == token.SHL || n.Op == token.SHR {
		w, _ := a.Sort.isBV()
		cnt := bvResize(b, w, false)
		cw, _ := b.Sort.isBV()
		big := tFalse
		if cw > w {
			big = ule(bvLit(cw, uint64(w)), b)
		}
		if n.Op == token.SHL {
			return mkIte(big, bvLit(w, 0), app("bvshl", a.Sort, a, cnt))
		}
		if isSigned(e.typeOf(n.X)) {
			return app("bvashr", a.Sort, a, cnt)
		}
		return mkIte(big, bvLit(w, 0), app("bvlshr", a.Sort, a, cnt))
	}
	if a.Sort != b.Sort {
		unsup("spec: operand sorts differ in %s: %s vs %s", exprString(n), a.Sort, b.Sort)
	}
	switch n.Op {
	case token.ADD:
		return bvAdd(a, b)
	case token.SUB:
		return bvSub(a, b)
	case token.MUL:
		return bvMul(a, b)
	case token.QUO:
		if signed {
			return app("bvsdiv", a.Sort, a, b)
		}
		return app("bvudiv", a.Sort, a, b)
	case token.REM:
		if signed {
			return app("bvsrem", a.Sort, a, b)
		}
		return app("bvurem", a.Sort, a, b)
	case token.AND:
		return app("bvand", a.Sort, a, b)
	case token.OR:
		return app("bvor", a.Sort, a, b)
	case token.XOR:
		return app("bvxor", a.Sort, a, b)
	case token.AND_NOT:
		return app("bvand", a.Sort, a, app("bvnot", b.Sort, b))
	case token.EQL:
		return e.f.equal(a, b, xt)
	case token.NEQ:
		return mkNot(e.f.equal(a, b, xt))
	case token.LSS, token.LEQ, token.GTR, token.GEQ:
		ops := map[token.Token][2]string{token.LSS: {"bvslt", "bvult"}, token.LEQ: {"bvsle", "bvule"}, token.GTR: {"bvsgt", "bvugt"}, token.GEQ: {"bvsge", "bvuge"}}
		if signed {
			return bvCmp(ops[n.Op][0], a, b)
		}
		return bvCmp(ops[n.Op][1], a, b)
	}
	unsup("spec: operator %s", n.Op)
	return Term{}
}

func unparen(x ast.Expr) ast.Expr {
	for {
		p, ok := x.(*ast.ParenExpr)
		if !ok {
			return x
		}
		x = p.X
	}
}

func isNilIdent(x ast.Expr) bool {
	for {
		p, ok := x.(*ast.ParenExpr)
		if !ok {
			break
		}
		x = p.X
	}
	id, ok := x.(*ast.Ident)
	return ok && id.Name == "nil"
}

func isUntyped(t types.Type) bool {
	b, ok := t.(*types.Basic)
	return ok && b.Info()&types.IsUntyped != 0
}

func (e *specEnv) strArg(x ast.Expr) string {
	x = unparen(x)
	tv := e.info.Types[x]
	if tv.Value == nil || tv.Value.Kind() != constant.String {
		unsup("spec: ghost function needs a string literal")
	}
	return constant.StringVal(tv.Value)
}

func (e *specEnv) intArg(x ast.Expr) int {
	x = unparen(x)
	tv := e.info.Types[x]
	if tv.Value == nil {
		unsup("spec: ghost function needs a constant index")
	}
	i, _ := constant.Int64Val(constant.ToInt(tv.Value))
	return int(i)
}

func (e *specEnv) call(n *ast.CallExpr) Term {
	tt := e.tt()
	vc := e.f.vc
	// conversion?
	if tv, ok := e.info.Types[n.Fun]; ok && tv.IsType() {
		to := tv.Type
		from := e.typeOf(n.Args[0])
		v := e.eval(n.Args[0])
		ts := tt.sortOf(to)
		if w, ok := ts.isBV(); ok {
			if _, ok := v.Sort.isBV(); ok {
				return bvResize(v, w, isSigned(from))
			}
		}
		if v.Sort == ts {
			return v
		}
		unsup("spec: conversion %s -> %s", from, to)
	}
	if id, ok := n.Fun.(*ast.Ident); ok {
		switch id.Name {
		case "len":
			v := e.eval(n.Args[0])
			switch u := e.typeOf(n.Args[0]).Underlying().(type) {
			case *types.Slice:
				return slLen(v)
			case *types.Basic:
				return strLen(v)
			case *types.Array:
				return i64(u.Len())
			case *types.Map:
				saved := e.f.st
				e.f.st = e.st()
				defer func() { e.f.st = saved }()
				return e.f.mapLen(v, u)
			}
		case "cap":
			return slCap(e.eval(n.Args[0]))
		case "min", "max":
			a, b := e.eval(n.Args[0]), e.eval(n.Args[1])
			var lt Term
			if isSigned(e.typeOf(n)) {
				lt = slt(a, b)
			} else {
				lt = ult(a, b)
			}
			if id.Name == "min" {
				return mkIte(lt, a, b)
			}
			return mkIte(lt, b, a)
		case "forall", "exists":
			lo, hi := e.to64(n.Args[0]), e.to64(n.Args[1])
			fl, ok := n.Args[2].(*ast.FuncLit)
			if !ok || len(fl.Body.List) != 1 {
				unsup("spec: forall needs a function literal with a single return")
			}
			ret, ok := fl.Body.List[0].(*ast.ReturnStmt)
			if !ok {
				unsup("spec: forall body must be a return")
			}
			pid := fl.Type.Params.List[0].Names[0]
			obj := e.info.Defs[pid]
			vc.names["q"]++
			bv := Term{fmt.Sprintf("q!%s%d", pid.Name, vc.names["q"]), SBV64}
			e.vars[obj] = bv
			vc.binderDepth++
			body := e.eval(ret.Results[0])
			vc.binderDepth--
			delete(e.vars, obj)
			vc.hasQuant = true
			rng := mkAnd(sle(lo, bv), slt(bv, hi))
			if sle(hi, lo).S == "true" || lo.S == hi.S {
				// empty range
				if id.Name == "forall" {
					return tTrue
				}
				return tFalse
			}
			if id.Name == "forall" {
				return Term{fmt.Sprintf("(forall ((%s (_ BitVec 64))) %s)", bv.S, mkImplies(rng, body).S), SBool}
			}
			return Term{fmt.Sprintf("(exists ((%s (_ BitVec 64))) %s)", bv.S, mkAnd(rng, body).S), SBool}
		case "called":
			return e.gst().get("G$called$"+e.watchName(n.Args[0]), SBool)
		case "ncalls":
			return e.gst().get("G$ncalls$"+e.watchName(n.Args[0]), SBV64)
		case "calledBefore":
			a, b := e.watchName(n.Args[0]), e.watchName(n.Args[1])
			return mkAnd(e.gst().get("G$called$"+a, SBool), e.gst().get("G$called$"+b, SBool),
				ult(e.gst().get("G$seq$"+a, SBV64), e.gst().get("G$seq$"+b, SBV64)))
		case "held":
			mn := canonMutexName(e.strArg(n.Args[0]))
			e.f.vc.heldAsked(mn)
			return e.st().get("G$held$"+mn, SBool)
		case "retBool", "retErr", "retBytes", "retInt", "retU64", "retAny", "argBool", "argErr", "argBytes", "argInt", "argU64", "argAny":
			kind := "ret"
			if strings.HasPrefix(id.Name, "arg") {
				kind = "arg"
			}
			w := e.watchName(n.Args[0])
			k := e.intArg(n.Args[1])
			return e.ghostVal(kind, w, fmt.Sprint(k), tt.sortOf(e.typeOf(n)))
		case "bytesEq":
			a, b := e.eval(n.Args[0]), e.eval(n.Args[1])
			ia, ib := e.f.byteInner(e.st(), a), e.f.byteInner(e.st(), b)
			vc.names["q"]++
			bv := fmt.Sprintf("q!be%d", vc.names["q"])
			vc.hasQuant = true
			q := fmt.Sprintf("(forall ((%s (_ BitVec 64))) (=> (and (bvsle #x0000000000000000 %s) (bvslt %s %s)) (= (select %s (bvadd %s %s)) (select %s (bvadd %s %s)))))",
				bv, bv, bv, slLen(a).S, ia.S, slOff(a).S, bv, ib.S, slOff(b).S, bv)
			return mkAnd(mkEq(slLen(a), slLen(b)), Term{q, SBool})
		case "sameSlice", "sameRef":
			return mkEq(e.eval(n.Args[0]), e.eval(n.Args[1]))
		case "isNil":
			v := e.eval(n.Args[0])
			switch v.Sort {
			case SSlice:
				return mkEq(slObj(v), i64(0))
			case SIface:
				return mkEq(ifTyp(v), i64(0))
			case SBV64:
				return mkEq(v, i64(0))
			}
		case "offsetOf":
			return slOff(e.eval(n.Args[0]))
		case "sameArray":
			return mkEq(slObj(e.eval(n.Args[0])), slObj(e.eval(n.Args[1])))
		case "atCall":
			// atCall("watch", E): E evaluated in the state right before the (single) call of the watched name: the heap as
			// the callee received it. Only for names with exactly one recorded call site outside loops.
			w, ok := stringLit(n.Args[0])
			if !ok {
				unsup("spec: atCall(\"watch\", expr)")
			}
			ps := e.f.vc.preStates[w]
			if len(ps) == 0 {
				return tTrue // never called on any path translated so far: guard the clause with called("...")
			}
			if len(ps) != 1 {
				unsup("spec: atCall(%q, ...) needs exactly one call site of %s in the function (found %d)", w, w, len(ps))
			}
			saved, savedIn, savedG := e.now, e.inOld, e.ghostNow
			if e.ghostNow == nil {
				e.ghostNow = e.now
			}
			e.now, e.inOld = ps[0], false
			v := e.eval(n.Args[1])
			e.now, e.inOld, e.ghostNow = saved, savedIn, savedG
			return v
		case "always":
			// always("watch", "E"): E (a clause over the event ghosts of that watch) held right after every event of the watch so far
			w, ok1 := stringLit(n.Args[0])
			ex, ok2 := stringLit(n.Args[1])
			if !ok1 || !ok2 {
				unsup("spec: always(\"watch\", \"expr\") needs two string literals")
			}
			if e.f.vc.alwaysReg(w, ex) == nil {
				unsup("spec: always(%q, ...) is not registered (the watch name must appear in the function's watch list)", w)
			}
			return e.st().get(alwaysName(w, ex), SBool)
		case "disjoint":
			// the element address ranges [obj+off*slots, obj+(off+cap)*slots) of two slices do not overlap
			a, b := e.eval(n.Args[0]), e.eval(n.Args[1])
			sa, ok1 := e.typeOf(n.Args[0]).Underlying().(*types.Slice)
			sb, ok2 := e.typeOf(n.Args[1]).Underlying().(*types.Slice)
			if !ok1 || !ok2 {
				unsup("spec: disjoint needs two slices")
			}
			tt := e.f.tt()
			lo := func(s Term, el types.Type) Term { return bvAdd(slObj(s), bvMul(slOff(s), i64(tt.slots(el)))) }
			hi := func(s Term, el types.Type) Term {
				return bvAdd(slObj(s), bvMul(bvAdd(slOff(s), slCap(s)), i64(tt.slots(el))))
			}
			if !isStructType(sa.Elem()) || !isStructType(sb.Elem()) {
				return mkNot(mkEq(slObj(a), slObj(b)))
			}
			return mkOr(ule(hi(a, sa.Elem()), lo(b, sb.Elem())), ule(hi(b, sb.Elem()), lo(a, sa.Elem())))
		case "hasKey":
			m := e.eval(n.Args[0])
			k := e.eval(n.Args[1])
			mt, ok := e.typeOf(n.Args[0]).Underlying().(*types.Map)
			if !ok {
				unsup("spec: hasKey needs a map")
			}
			saved := e.f.st
			e.f.st = e.st()
			dn, _, _, ds, _, _, ks, _ := e.f.mapHeaps(mt)
			dom := mkSelect(e.f.st.get(dn, ds), m, arraySort(ks, SBool))
			e.f.st = saved
			if k.Sort != ks {
				if w, ok := ks.isBV(); ok {
					k = bvResize(k, w, false)
				}
			}
			return mkAnd(mkNot(mkEq(m, i64(0))), mkSelect(dom, k, SBool))
		case "forallKey":
			mt, ok := e.typeOf(n.Args[0]).Underlying().(*types.Map)
			fl, ok2 := n.Args[1].(*ast.FuncLit)
			if !ok || !ok2 || len(fl.Body.List) != 1 {
				unsup("spec: forallKey(m, func(k K) bool { return ... })")
			}
			ret, ok := fl.Body.List[0].(*ast.ReturnStmt)
			if !ok {
				unsup("spec: quantifier body must be a return")
			}
			pid := fl.Type.Params.List[0].Names[0]
			obj := e.info.Defs[pid]
			ks := tt.sortOf(mt.Key())
			vc.names["q"]++
			bv := Term{fmt.Sprintf("q!%s%d", pid.Name, vc.names["q"]), ks}
			e.vars[obj] = bv
			vc.binderDepth++
			m := e.eval(n.Args[0])
			saved := e.f.st
			e.f.st = e.st()
			dn, _, _, ds, _, _, _, _ := e.f.mapHeaps(mt)
			dom := mkSelect(e.f.st.get(dn, ds), m, arraySort(ks, SBool))
			e.f.st = saved
			in := mkAnd(mkNot(mkEq(m, i64(0))), mkSelect(dom, bv, SBool))
			if hasRefs(mt.Elem()) {
				// axiom about this state's map heaps: every stored value was allocated before the
				// last write to the value heap (asserted once per heap version, outside the binder)
				e.f.st = e.st()
				_, vn, _, _, vs, _, _, es := e.f.mapHeaps(mt)
				V := e.f.st.get(vn, vs)
				D := e.f.st.get(dn, ds)
				bound := e.f.st.get("A$"+vn, SBV64)
				e.f.st = saved
				key := "mapax:" + V.S + "|" + D.S
				if !vc.declared[key] {
					vc.declared[key] = true
					vc.names["q"]++
					r := Term{fmt.Sprintf("q!mr%d", vc.names["q"]), SBV64}
					k2 := Term{fmt.Sprintf("q!mk%d", vc.names["q"]), ks}
					val := mkSelect(mkSelect(V, r, arraySort(ks, es)), k2, es)
					ax := fmt.Sprintf("(forall ((%s (_ BitVec 64)) (%s %s)) (=> (select (select %s %s) %s) %s))", r.S, k2.S, ks, D.S, r.S, k2.S, tt.typeInv(val, mt.Elem(), bound).S)
					saveDepth := vc.binderDepth
					vc.binderDepth = 0
					vc.assumeGlobal(Term{ax, SBool})
					vc.binderDepth = saveDepth
				}
			}
			body := e.eval(ret.Results[0])
			vc.binderDepth--
			delete(e.vars, obj)
			vc.hasQuant = true
			return Term{fmt.Sprintf("(forall ((%s %s)) %s)", bv.S, ks, mkImplies(in, body).S), SBool}
		case "forallU16", "forallU32", "forallU64":
			fl, ok := n.Args[0].(*ast.FuncLit)
			if !ok || len(fl.Body.List) != 1 {
				unsup("spec: %s needs a function literal with a single return", id.Name)
			}
			ret, ok := fl.Body.List[0].(*ast.ReturnStmt)
			if !ok {
				unsup("spec: quantifier body must be a return")
			}
			pid := fl.Type.Params.List[0].Names[0]
			obj := e.info.Defs[pid]
			w := map[string]int{"forallU16": 16, "forallU32": 32, "forallU64": 64}[id.Name]
			vc.names["q"]++
			bv := Term{fmt.Sprintf("q!%s%d", pid.Name, vc.names["q"]), bvSort(w)}
			e.vars[obj] = bv
			vc.binderDepth++
			body := e.eval(ret.Results[0])
			vc.binderDepth--
			delete(e.vars, obj)
			vc.hasQuant = true
			return Term{fmt.Sprintf("(forall ((%s %s)) %s)", bv.S, bvSort(w), body.S), SBool}
		case "allocated":
			v := e.eval(n.Args[0])
			if v.Sort == SSlice {
				v = slObj(v)
			} else if v.Sort == SIface {
				v = ifVal(v)
			}
			al := e.st().get("$alloc", SBV64)
			ext := int64(1)
			if pt, ok := e.typeOf(n.Args[0]).Underlying().(*types.Pointer); ok {
				ext = tt.slotsSafe(pt.Elem())
			}
			if ext > 1 {
				return mkAnd(mkNot(mkEq(v, i64(0))), ult(v, al), ule(bvAdd(v, i64(ext)), al))
			}
			return mkAnd(mkNot(mkEq(v, i64(0))), ult(v, al))
		case "fresh":
			v := e.eval(n.Args[0])
			if v.Sort == SSlice {
				v = slObj(v)
			} else if v.Sort == SIface {
				v = ifVal(v)
			}
			return mkAnd(mkNot(mkEq(v, i64(0))), ule(e.old.get("$alloc", SBV64), v))
		case "nonNilPayload":
			return mkNot(mkEq(ifVal(e.eval(n.Args[0])), i64(0)))
		case "typeIs":
			v := e.eval(n.Args[0])
			name := e.strArg(n.Args[1])
			id, ok := tt.typeIDs[name]
			if !ok {
				id = tt.typeIDName(name)
			}
			return mkEq(ifTyp(v), i64(int64(id)))
		}
	}
	// calls of in-repo functions and methods: evaluated on the clause's state, effects discarded
	var fobj *types.Func
	var recvExpr ast.Expr
	switch fx := n.Fun.(type) {
	case *ast.Ident:
		fobj, _ = e.info.Uses[fx].(*types.Func)
	case *ast.SelectorExpr:
		if sel := e.info.Selections[fx]; sel != nil && sel.Kind() == types.MethodVal {
			fobj, _ = sel.Obj().(*types.Func)
			recvExpr = fx.X
		} else {
			fobj, _ = e.info.Uses[fx.Sel].(*types.Func)
		}
	}
	if fobj != nil {
		if rs, ok := e.pureCall(fobj, recvExpr, n); ok {
			if len(rs) != 1 {
				unsup("spec: call %s must have exactly one result", exprString(n))
			}
			return rs[0]
		}
	}
	unsup("spec: call %s", exprString(n))
	return Term{}
}

// pureCall evaluates a call of an in-repo function inside a clause by translating its body on a
// copy of the clause's state; its effects and its own safety obligations are discarded.
func (e *specEnv) pureCall(fobj *types.Func, recvExpr ast.Expr, n *ast.CallExpr) ([]Term, bool) {
	vc := e.f.vc
	sig := fobj.Type().(*types.Signature)
	if recvExpr != nil && types.IsInterface(sig.Recv().Type()) && isAssumedPure(normName(fobj.FullName())) {
		// observer: an uninterpreted function of the receiver value (also fine under quantifiers)
		return []Term{e.f.observer(fobj, e.eval(recvExpr))}, true
	}
	var args []Term
	if recvExpr != nil {
		rt := e.typeOf(recvExpr)
		want := sig.Recv().Type()
		_, wantPtr := want.Underlying().(*types.Pointer)
		_, havePtr := rt.Underlying().(*types.Pointer)
		switch {
		case types.IsInterface(want):
			// interface method: observer declared pure?
			if isAssumedPure(normName(fobj.FullName())) {
				return []Term{e.f.observer(fobj, e.eval(recvExpr))}, true
			}
			return nil, false
		case wantPtr == havePtr:
			args = append(args, e.eval(recvExpr))
		case wantPtr && !havePtr:
			b, _ := e.fieldBase(recvExpr)
			if !b.valid() {
				return nil, false
			}
			args = append(args, b)
		default: // value receiver, pointer expression
			args = append(args, e.loadAt(e.eval(recvExpr), want, nil))
		}
	}
	for _, a := range n.Args {
		args = append(args, e.eval(a))
	}
	if vc.binderDepth > 0 {
		// allowed when the call does not depend on a bound variable: it is evaluated outside the binder
		for _, a := range args {
			if strings.Contains(a.S, "q!") {
				unsup("spec: function call %s depends on a quantified variable", fobj.Name())
			}
		}
		saved := vc.binderDepth
		vc.binderDepth = 0
		defer func() { vc.binderDepth = saved }()
	}
	fn := vc.P.prog.FuncValue(fobj)
	if fn == nil || fn.Blocks == nil || !(vc.P.inRepo(fn) || inlineLib(fn)) {
		return nil, false
	}
	f := e.f
	savedSt, savedReach, nObl := f.st, vc.reach, len(vc.obligs)
	nItems := len(vc.items)
	f.st = e.st().seq()
	vc.specCalls++
	rs := f.inlineTerms(fn, args, n.Pos())
	vc.specCalls--
	// drop the obligations (and their assume-items) generated inside the callee
	for _, o := range vc.obligs[nObl:] {
		for i := nItems; i < len(vc.items); i++ {
			if vc.items[i].ob == o {
				vc.items[i] = Item{kind: itDecl, text: "; (dropped obligation of a specification call)"}
			}
		}
	}
	vc.obligs = vc.obligs[:nObl]
	f.st, vc.reach = savedSt, savedReach
	return rs, true
}

// ghostVal reads the k-th argument/result of the last call of w; unknown if an unrecorded call may have happened since.
func (e *specEnv) ghostVal(kind, w, k string, sort Sort) Term {
	v := e.gst().get(fmt.Sprintf("G$%s$%s$%s", kind, w, k), sort)
	t := e.gst().get("G$tainted$"+w, SBool)
	if t.S == "false" {
		return v
	}
	u := e.f.vc.declareFresh("G$unknown", sort)
	return mkIte(t, u, v)
}

func (e *specEnv) watchName(x ast.Expr) string {
	w := e.strArg(x)
	if !e.f.vc.watch[w] {
		unsup("spec: %q is used in a clause but not declared with 'watch'", w)
	}
	return w
}


func stringLit(e ast.Expr) (string, bool) {
	if l, ok := unparen(e).(*ast.BasicLit); ok && l.Kind == token.STRING {
		v, err := strconv.Unquote(l.Value)
		return v, err == nil
	}
	return "", false
}

func alwaysName(w, ex string) string {
	return "G$always$" + w + "$" + strings.Join(strings.Fields(ex), "")
}


// insideStringLit: is position i of s inside a "..." literal? (macros are not expanded there: the text of an
// always("w", "E") accumulator is expanded when E itself is prepared)
func insideStringLit(s string, i int) bool {
	in := false
	for k := 0; k < i && k < len(s); k++ {
		switch s[k] {
		case '\\':
			if in {
				k++
			}
		case '"':
			in = !in
		}
	}
	return in
}


// usesAlways: does the clause (after macro expansion) contain an always(...) accumulator?
func (P *Program) usesAlways(cl *Clause, fn *ssa.Function) bool {
	text := cl.Text
	if ct := P.contractFor(fn); ct != nil {
		text = expandMacros(text, pkgMacros[ct.relpkg])
	}
	return strings.Contains(text, "always(")
}
