package main

import (
	"fmt"
	"go/types"
	"sort"
	"strings"
)

// TypeTable maps Go types to SMT sorts and keeps the datatype declarations that are needed.
type TypeTable struct {
	structs   map[string]*structInfo // key: canonical struct key
	order     []*structInfo
	typeIDs   map[string]int
	typeNames []string
	tuples    map[string]bool
}

type structInfo struct {
	key    string
	sort   Sort
	ctor   string
	st     *types.Struct
	fields []fieldInfo
	slots  int64
	named  string
}

type fieldInfo struct {
	name   string
	acc    string
	typ    types.Type
	sort   Sort
	offset int64
}

func newTypeTable() *TypeTable {
	return &TypeTable{structs: map[string]*structInfo{}, typeIDs: map[string]int{}, tuples: map[string]bool{}}
}

func shortType(t types.Type) string {
	return types.TypeString(t, func(p *types.Package) string { return p.Name() })
}

func fullType(t types.Type) string {
	t = types.Unalias(t)
	if b, ok := t.(*types.Basic); ok && b.Kind() < types.UntypedBool && b.Kind() != types.Invalid {
		t = types.Typ[b.Kind()]
	}
	return types.TypeString(t, func(p *types.Package) string { return p.Path() })
}

func (tt *TypeTable) typeID(t types.Type) int {
	k := fullType(t)
	if id, ok := tt.typeIDs[k]; ok {
		return id
	}
	id := len(tt.typeNames) + 1
	tt.typeIDs[k] = id
	tt.typeNames = append(tt.typeNames, k)
	return id
}

func (tt *TypeTable) typeIDName(k string) int {
	if id, ok := tt.typeIDs[k]; ok {
		return id
	}
	id := len(tt.typeNames) + 1
	tt.typeIDs[k] = id
	tt.typeNames = append(tt.typeNames, k)
	return id
}

type unsupported struct{ msg string }

func (u unsupported) Error() string { return "unsupported: " + u.msg }

func unsup(format string, a ...any) { panic(unsupported{fmt.Sprintf(format, a...)}) }

func intWidth(b *types.Basic) (int, bool, bool) {
	switch b.Kind() {
	case types.Int8:
		return 8, true, true
	case types.Int16:
		return 16, true, true
	case types.Int32:
		return 32, true, true
	case types.Int64, types.Int, types.UntypedInt, types.UntypedRune:
		return 64, true, true
	case types.Uint8:
		return 8, false, true
	case types.Uint16:
		return 16, false, true
	case types.Uint32:
		return 32, false, true
	case types.Uint64, types.Uint, types.Uintptr:
		return 64, false, true
	}
	return 0, false, false
}

// isSigned reports whether t is a signed integer type.
func isSigned(t types.Type) bool {
	if b, ok := t.Underlying().(*types.Basic); ok {
		_, s, ok := intWidth(b)
		return ok && s
	}
	return false
}

func isInt(t types.Type) bool {
	if b, ok := t.Underlying().(*types.Basic); ok {
		_, _, ok := intWidth(b)
		return ok
	}
	return false
}

func (tt *TypeTable) sortOf(t types.Type) Sort {
	switch u := t.Underlying().(type) {
	case *types.Basic:
		if n, _, ok := intWidth(u); ok {
			return bvSort(n)
		}
		switch u.Kind() {
		case types.Bool, types.UntypedBool:
			return SBool
		case types.String, types.UntypedString:
			return SStr
		case types.Float32, types.Float64, types.UntypedFloat, types.Complex64, types.Complex128:
			return SFloat
		case types.UnsafePointer, types.UntypedNil:
			return SBV64
		}
		unsup("basic type %s", t)
	case *types.Pointer, *types.Map, *types.Chan, *types.Signature:
		return SBV64
	case *types.Slice:
		return SSlice
	case *types.Interface:
		return SIface
	case *types.Struct:
		return tt.structOf(t).sort
	case *types.Array:
		return arraySort(SBV64, tt.sortOf(u.Elem()))
	case *types.Tuple:
		unsup("tuple sort")
	case *types.TypeParam:
		unsup("type parameter %s", t)
	}
	unsup("type %s", t)
	return ""
}

func structKey(t types.Type) string {
	if n, ok := t.(*types.Named); ok {
		if _, ok := n.Underlying().(*types.Struct); ok {
			return fullType(n)
		}
	}
	if a, ok := t.(*types.Alias); ok {
		return structKey(types.Unalias(a))
	}
	return fullType(t.Underlying())
}

func (tt *TypeTable) structOf(t types.Type) *structInfo {
	st, ok := t.Underlying().(*types.Struct)
	if !ok {
		unsup("not a struct: %s", t)
	}
	key := structKey(t)
	if si, ok := tt.structs[key]; ok {
		return si
	}
	id := len(tt.structs)
	nm := shortType(t)
	if len(nm) > 40 || strings.ContainsAny(nm, " {};") {
		nm = "anon"
	}
	si := &structInfo{key: key, st: st, named: nm}
	si.sort = Sort(sym(fmt.Sprintf("S%d_%s", id, nm)))
	si.ctor = sym(fmt.Sprintf("mk-S%d_%s", id, nm))
	tt.structs[key] = si // placed before recursion (recursive structs only through pointers)
	var off int64
	for i := 0; i < st.NumFields(); i++ {
		f := st.Field(i)
		fi := fieldInfo{name: f.Name(), typ: f.Type(), offset: off}
		fi.acc = sym(fmt.Sprintf("S%d_%s.%d%s", id, nm, i, f.Name()))
		fi.sort = tt.sortOf(f.Type())
		off += tt.slots(f.Type())
		si.fields = append(si.fields, fi)
	}
	if off == 0 {
		off = 1
	}
	si.slots = off
	tt.order = append(tt.order, si)
	return si
}

// slots is the number of address units a value of type t occupies in the abstract layout.
func (tt *TypeTable) slots(t types.Type) int64 {
	switch u := t.Underlying().(type) {
	case *types.Struct:
		return tt.structOf(t).slots
	case *types.Array:
		n := u.Len() * tt.slots(u.Elem())
		if n == 0 {
			return 1
		}
		return n
	}
	return 1
}

func (tt *TypeTable) slotsSafe(t types.Type) (n int64) {
	defer func() {
		if r := recover(); r != nil {
			n = 1
		}
	}()
	return tt.slots(t)
}

// heapKey names the element heap used for values of type t stored in slices, arrays and cells.
// Element memory is block structured: object (allocation) -> offset -> value.
func (tt *TypeTable) elemHeap(t types.Type) (string, Sort) {
	return "M$" + fullType(t), arraySort(SBV64, arraySort(SBV64, tt.sortOf(t)))
}

func isStructType(t types.Type) bool {
	_, ok := t.Underlying().(*types.Struct)
	return ok
}

func (tt *TypeTable) fieldHeap(si *structInfo, i int) (string, Sort) {
	return "F$" + si.key + "$" + si.fields[i].name, arraySort(SBV64, si.fields[i].sort)
}

func (tt *TypeTable) boxHeap(t types.Type) (string, Sort) {
	return "B$" + fullType(t), arraySort(SBV64, tt.sortOf(t))
}

// zero returns the zero value of type t.
func (tt *TypeTable) zero(t types.Type) Term {
	switch u := t.Underlying().(type) {
	case *types.Basic:
		if n, _, ok := intWidth(u); ok {
			return bvLit(n, 0)
		}
		switch u.Kind() {
		case types.Bool, types.UntypedBool:
			return tFalse
		case types.String, types.UntypedString:
			return mkStr(i64(0), i64(0))
		case types.UnsafePointer, types.UntypedNil:
			return i64(0)
		default:
			return Term{"float0", SFloat}
		}
	case *types.Pointer, *types.Map, *types.Chan, *types.Signature:
		return i64(0)
	case *types.Slice:
		return nilSlice
	case *types.Interface:
		return nilIface
	case *types.Struct:
		si := tt.structOf(t)
		if len(si.fields) == 0 {
			return Term{si.ctor, si.sort}
		}
		var args []Term
		for _, f := range si.fields {
			args = append(args, tt.zero(f.typ))
		}
		return app(si.ctor, si.sort, args...)
	case *types.Array:
		es := tt.sortOf(u.Elem())
		return Term{fmt.Sprintf("((as const %s) %s)", arraySort(SBV64, es), tt.zero(u.Elem()).S), arraySort(SBV64, es)}
	}
	unsup("zero of %s", t)
	return Term{}
}

// preamble emits datatype declarations.
func (tt *TypeTable) preamble() string {
	var b strings.Builder
	b.WriteString("(declare-datatypes ((Slice 0)) (((mk-slice (sobj (_ BitVec 64)) (soff (_ BitVec 64)) (slen (_ BitVec 64)) (scap (_ BitVec 64))))))\n")
	b.WriteString("(declare-datatypes ((Str 0)) (((mk-str (strp (_ BitVec 64)) (strl (_ BitVec 64))))))\n")
	b.WriteString("(declare-datatypes ((Iface 0)) (((mk-iface (ityp (_ BitVec 64)) (ival (_ BitVec 64))))))\n")
	b.WriteString("(declare-sort Float 0)\n(declare-const float0 Float)\n")
	for _, si := range tt.order {
		fmt.Fprintf(&b, "(declare-datatypes ((%s 0)) (((%s", si.sort, si.ctor)
		for _, f := range si.fields {
			fmt.Fprintf(&b, " (%s %s)", f.acc, f.sort)
		}
		b.WriteString("))))\n")
	}
	return b.String()
}

// typeInv returns the representation invariant assumed of every value of type t
// (alloc is the current allocation frontier).
func (tt *TypeTable) typeInv(v Term, t types.Type, alloc Term) Term {
	lim := bvLit(64, 1<<40)
	switch u := t.Underlying().(type) {
	case *types.Pointer:
		// the whole pointee (including embedded structs and arrays) lies below the frontier
		n := tt.slotsSafe(u.Elem())
		if n > 1 {
			return mkOr(mkEq(v, i64(0)), mkAnd(ule(i64(4096), v), ult(v, alloc), ule(bvAdd(v, i64(n)), alloc)))
		}
		return mkOr(mkEq(v, i64(0)), mkAnd(ule(i64(4096), v), ult(v, alloc)))
	case *types.Map, *types.Chan, *types.Signature:
		return mkOr(mkEq(v, i64(0)), mkAnd(ule(i64(4096), v), ult(v, alloc)))
	case *types.Basic:
		switch u.Kind() {
		case types.String, types.UntypedString:
			return mkAnd(sle(i64(0), strLen(v)), sle(strLen(v), lim), ult(strPtr(v), bvLit(64, 1<<62)))
		case types.UnsafePointer:
			return tTrue
		}
		return tTrue
	case *types.Slice:
		p, o, l, c := slObj(v), slOff(v), slLen(v), slCap(v)
		shape := mkAnd(sle(i64(0), l), sle(l, c), sle(c, lim), sle(i64(0), o), sle(o, lim))
		if isStructType(u.Elem()) {
			sl := i64(tt.slots(u.Elem()))
			return mkAnd(shape, mkOr(mkAnd(mkEq(p, i64(0)), mkEq(c, i64(0))),
				mkAnd(ule(i64(4096), p), ult(p, alloc), ule(bvAdd(p, bvMul(bvAdd(o, c), sl)), alloc))))
		}
		return mkAnd(shape, mkOr(mkAnd(mkEq(p, i64(0)), mkEq(c, i64(0))), mkAnd(ule(i64(4096), p), ult(p, alloc))))
	case *types.Interface:
		return mkAnd(mkImplies(mkEq(ifTyp(v), i64(0)), mkEq(ifVal(v), i64(0))), mkOr(mkEq(ifVal(v), i64(0)), ult(ifVal(v), alloc), tTrue))
	case *types.Struct:
		si := tt.structOf(t)
		var cs []Term
		for _, f := range si.fields {
			cs = append(cs, tt.typeInv(app(f.acc, f.sort, v), f.typ, alloc))
		}
		return mkAnd(cs...)
	}
	return tTrue
}

func sortedKeys[V any](m map[string]V) []string {
	ks := make([]string, 0, len(m))
	for k := range m {
		ks = append(ks, k)
	}
	sort.Strings(ks)
	return ks
}
