package main

import (
	"go/token"
	"fmt"
	"os"
	"time"
	"go/types"
	"strings"

	"golang.org/x/tools/go/ssa"
)

// genVC builds the verification conditions of fn (against its contract if any).
func (P *Program) genVC(fn *ssa.Function, opts genOpts) (vc *VC) {
	P.mu.Lock()
	defer P.mu.Unlock()
	P.abstractDiv = opts.abstractDiv || os.Getenv("VC_ABSTRACT_DIV") != ""
	defer func() { P.abstractDiv = false }()
	ct := P.contractFor(fn)
	loopMods := map[string]map[string]bool{}
	autoInv := opts.autoInv
	if autoInv == nil {
		autoInv = map[string][]*autoCand{}
	}
	build := func(pass int) (vc *VC) {
		vc = &VC{P: P, tt: newTypeTable(), fn: fn, names: map[string]int{}, declared: map[string]bool{}, pass: pass, loopMods: loopMods,
			strs: map[string]Term{}, globals: map[string]int{}, heapSorts: map[string]Sort{}, watchHit: map[string]bool{}, watch: map[string]bool{}, obNames: map[string]int{}, autoInv: autoInv,
			houdini: opts.houdini, houdiniCheck: opts.houdiniCheck, noInline: opts.noInline}
		defer func() {
			if r := recover(); r != nil {
				if u, ok := r.(unsupported); ok {
					vc.err = u
					return
				}
				panic(r)
			}
		}()
		if ct != nil {
			for _, w := range ct.Watch {
				vc.watch[w] = true
			}
		}
		for _, w := range opts.watch {
			vc.watch[w] = true
		}
		vc.reach = tTrue
		entry := vc.newState(stEntry, nil)
		vc.entry = entry
		label := P.funcKeys[fn]
		if label == "" {
			label = normName(fn.String())
		}
		f := &frame{vc: vc, fn: fn, prefix: "", vals: map[ssa.Value]Term{}, ptrs: map[ssa.Value]*ptrDesc{}, tuples: map[ssa.Value][]Term{}, closures: map[ssa.Value]*ssa.MakeClosure{},
			contract: ct, top: true, label: label, oldSt: entry}
		f.st = entry
		vc.topFrame = f
		vc.registerAlways(ct, fn)
		a0 := entry.get("$alloc", SBV64)
		vc.assumeGlobal(mkAnd(ule(bvLit(64, 1<<34), a0), ult(a0, bvLit(64, 1<<60))))
		for i, p := range fn.Params {
			pn := p.Name()
			if pn == "_" || pn == "" {
				pn = fmt.Sprintf("_%d", i)
			}
			t := vc.declare("p$"+pn, vc.tt.sortOf(p.Type()))
			f.vals[p] = t
			vc.assumeGlobal(vc.tt.typeInv(t, p.Type(), a0))
		}
		if fn.Signature.Recv() != nil && len(fn.Params) > 0 {
			if _, isPtr := fn.Params[0].Type().Underlying().(*types.Pointer); isPtr {
				// pointer receivers are non-nil: required of (and checked at) every static call site
				vc.assumeGlobal(mkNot(mkEq(f.vals[fn.Params[0]], i64(0))))
			}
		}
		for _, fv := range fn.FreeVars {
			t := vc.declare("fv$"+fv.Name(), vc.tt.sortOf(fv.Type()))
			f.vals[fv] = t
			vc.assumeGlobal(vc.tt.typeInv(t, fv.Type(), a0))
			vc.assumeGlobal(mkNot(mkEq(t, i64(0))))
		}
		f.params = nil
		vc.topVals = map[ssa.Value]Term{}
		for _, p := range fn.Params {
			vc.topVals[p] = f.vals[p]
		}
		f.assumePre()
		vc.stack = []*ssa.Function{fn}
		f.run(tTrue, entry)
		if ct != nil && pass == 2 {
			// every loop clause must have bound to a loop of the current source
			nloops := len(f.loops)
			names := map[string]bool{}
			cnt := map[string]int{}
			for _, l := range f.loops {
				for _, nm := range loopNames(fn, l) {
					names[nm] = true
				}
			}
			for _, l := range f.loops {
				for _, nm := range loopNames(fn, l) {
					cnt[nm]++
				}
			}
			for k := range ct.Loops {
				ok := false
				var ord int
				if n, _ := fmt.Sscanf(k, "#%d", &ord); n == 1 {
					ok = ord >= 1 && ord <= nloops
				} else if i := strings.Index(k, "#"); i > 0 {
					var c int
					fmt.Sscanf(k[i+1:], "%d", &c)
					ok = c >= 1 && c <= cnt[k[:i]]
				} else {
					ok = names[k]
				}
				if !ok {
					// the loop the clauses were written for is gone: its invariants are moot, the postconditions are
					// still checked (they fail if the loop mattered)
					vc.unsupp = append(vc.unsupp, fmt.Sprintf("loop clause key %q binds to no loop of the current source (clauses dropped)", k))
				}
			}
		}
		return vc
	}
	v1 := build(1)
	if v1.err != nil {
		return v1
	}
	return build(2)
}

type genOpts struct {
	abstractDiv  bool
	houdini      bool
	houdiniCheck bool
	autoInv      map[string][]*autoCand
	noInline     bool
	watch        []string
}

// render prints the SMT-LIB query for one obligation (or a group: any of them failing).
func (vc *VC) render(obs []*Oblig, dialect string, timeoutMs int) string {
	var b strings.Builder
	maxIdx := 0
	for _, o := range obs {
		if o.itemIdx > maxIdx {
			maxIdx = o.itemIdx
		}
	}
	if dialect == "cvc5" {
		b.WriteString("(set-option :produce-models true)\n(set-logic ALL)\n")
	} else {
		b.WriteString("(set-option :produce-models true)\n")
		if dialect == "z3" || dialect == "z3-new" {
			b.WriteString("(set-option :smt.mbqi true)\n")
		}
	}
	// the preamble must come after all struct sorts are known; items only reference sorts from vc.tt
	b.WriteString(vc.tt.preamble())
	// Group query: a level variable selects which obligation is refuted; an assumption made at
	// item i is active only for obligations generated after it, so the group query is exactly the
	// disjunction of the single queries (assumptions about later program points never help, or
	// vacuously discharge, an earlier obligation).
	group := len(obs) > 1
	if group {
		b.WriteString("(declare-const lvl!g Int)\n")
	}
	sorted := append([]*Oblig{}, obs...)
	sortObligs(sorted)
	next := 0 // index of the first obligation in sorted with itemIdx > i
	for i := 0; i < maxIdx; i++ {
		it := vc.items[i]
		for next < len(sorted) && sorted[next].itemIdx <= i {
			next++
		}
		txt := it.text
		if it.kind == itCopy && dialect == "cvc5" {
			txt = it.alt
		}
		if group && it.kind == itAssume {
			// (assert X) -> (assert (=> (>= lvl next) X))
			body := strings.TrimSuffix(strings.TrimPrefix(txt, "(assert "), ")")
			txt = fmt.Sprintf("(assert (=> (>= lvl!g %d) %s))", next, body)
		}
		b.WriteString(txt)
		b.WriteByte('\n')
	}
	if vc.renderAllDecls {
		for i := maxIdx; i < len(vc.items); i++ {
			if it := vc.items[i]; it.kind == itDecl || (it.kind == itCopy && dialect != "cvc5") {
				b.WriteString(it.text)
				b.WriteByte('\n')
			}
		}
	}
	if !group {
		o := obs[0]
		fmt.Fprintf(&b, "(assert %s)\n(assert (not %s))\n", o.pc.S, o.goal.S)
	} else {
		var ds []Term
		for k, o := range sorted {
			ds = append(ds, mkAnd(Term{fmt.Sprintf("(= lvl!g %d)", k), SBool}, o.pc, mkNot(o.goal)))
		}
		fmt.Fprintf(&b, "(assert %s)\n", mkOr(ds...).S)
	}
	b.WriteString("(check-sat)\n")
	return b.String()
}

// verify generates and discharges the obligations of fn, inferring simple loop
// invariants (Houdini) where the contract supplies none.
// houdiniTimeoutMs: budget per candidate-invariant query. Baselines are written with 2 s; checks run with a
// larger budget so that a loaded machine never loses an invariant the baseline relied on.
var houdiniTimeoutMs = 2000

func (P *Program) verify(fn *ssa.Function, timeoutMs int, par int, keepDir string, noInline bool, skip map[string]bool) *VC {
	trace := os.Getenv("VC_TRACE") != ""
	tStart := time.Now()
	tr := func(what string) {
		if trace {
			fmt.Fprintf(os.Stderr, "  [%s] %s at %v\n", fn.Name(), what, time.Since(tStart).Round(time.Millisecond))
		}
	}
	autoInv := map[string][]*autoCand{}
	vc := P.genVC(fn, genOpts{houdini: true, houdiniCheck: true, autoInv: autoInv, noInline: noInline})
	if vc.err != nil {
		return vc
	}
	hasCand := func(v *VC) bool {
		for _, o := range v.obligs {
			if o.cand != nil {
				return true
			}
		}
		return false
	}
	if hasCand(vc) {
		converged := false
		for round := 0; round < 25; round++ {
			var cands []*Oblig
			for _, o := range vc.obligs {
				if o.cand != nil {
					cands = append(cands, o)
				}
			}
			tr(fmt.Sprintf("houdini round %d: %d candidate obligations, %d items", round, len(cands), len(vc.items)))
			sub := &VC{P: P, tt: vc.tt, items: vc.items, obligs: cands}
			sub.dischargeWith(houdiniTimeoutMs, 8, "", []string{"z3-new", "cvc5"})
			dropped := 0
			if trace {
				for _, o := range cands {
					if strings.Contains(o.Name, "even") {
						fmt.Fprintf(os.Stderr, "    cand %s -> %s (pc %s)\n", o.Name, o.Status, o.pc.S)
					}
				}
			}
			for _, o := range cands {
				if o.Status != "unsat" && !o.cand.dropped {
					o.cand.dropped = true
					dropped++
				}
			}
			if dropped == 0 {
				converged = true
				break
			}
			vc = P.genVC(fn, genOpts{houdini: true, houdiniCheck: true, autoInv: autoInv, noInline: noInline})
			if vc.err != nil {
				return vc
			}
		}
		if !converged {
			// no fixpoint within the budget: none of the remaining candidates is validated
			for _, cs := range autoInv {
				for _, c := range cs {
					c.dropped = true
				}
			}
		}
		vc = P.genVC(fn, genOpts{houdini: true, houdiniCheck: false, autoInv: autoInv, noInline: noInline})
		if vc.err != nil {
			return vc
		}
		for _, cs := range autoInv {
			for _, c := range cs {
				if !c.dropped {
					vc.autoKept = append(vc.autoKept, c.desc)
				}
			}
		}
	}
	tr(fmt.Sprintf("final vc: %d obligations, %d items", len(vc.obligs), len(vc.items)))
	// functions that divide by a symbolic value: a short exact attempt first, then the division-abstracted attempt with the
	// full budget, and only then the exact query again with the full budget
	symDiv := funcHasSymbolicDiv(fn, 3)
	firstBudget := timeoutMs
	if symDiv && firstBudget > 8000 {
		firstBudget = 8000
	}
	if len(skip) > 0 {
		var keep []*Oblig
		for _, o := range vc.obligs {
			if skip[obKey(o)] {
				o.Status, o.Solver = "skipped", "not attempted (unclaimed in baseline)"
				vc.skipped = append(vc.skipped, o)
			} else {
				keep = append(keep, o)
			}
		}
		all := vc.obligs
		vc.obligs = keep
		vc.discharge(firstBudget, par, keepDir)
		vc.obligs = all
	} else {
		vc.discharge(firstBudget, par, keepDir)
	}
	tr("discharged")
	// Second attempt for undecided obligations of functions that divide by a symbolic value: bit-blasted 64-bit
	// division stalls the solvers even where it is irrelevant. Regenerate with the quotient/remainder replaced by
	// their ranges (an over-approximation) and keep only the "unsat" answers of that run.
	{
		undecided := map[string]*Oblig{}
		for _, o := range vc.obligs {
			if o.Status != "unsat" && o.Status != "sat" && o.Status != "skipped" {
				undecided[o.Name] = o
			}
		}
		if len(undecided) > 0 && symDiv {
			vc2 := P.genVC(fn, genOpts{houdini: true, houdiniCheck: false, autoInv: autoInv, noInline: noInline, abstractDiv: true})
			if vc2.err == nil {
				var again []*Oblig
				for _, o := range vc2.obligs {
					if undecided[o.Name] != nil {
						again = append(again, o)
					}
				}
				all := vc2.obligs
				vc2.obligs = again
				abstractBudget := 3 * timeoutMs
				if abstractBudget > 120000 {
					abstractBudget = 120000 // thorough tier / slow functions: the over-approximated query either goes through quickly or not at all
				}
				vc2.discharge(abstractBudget, par, "")
				vc2.obligs = all
				for _, o := range again {
					if o.Status == "unsat" {
						u := undecided[o.Name]
						u.Status, u.Solver, u.Ms = "unsat", o.Solver+" (division by symbolic divisor over-approximated)", o.Ms
					}
				}
			}
			tr("division-abstracted retry")
			if firstBudget < timeoutMs {
				var rest []*Oblig
				for _, o := range vc.obligs {
					if o.Status != "unsat" && o.Status != "sat" && o.Status != "skipped" {
						rest = append(rest, o)
					}
				}
				if len(rest) > 0 {
					all := vc.obligs
					vc.obligs = rest
					vc.discharge(timeoutMs, par, keepDir)
					vc.obligs = all
				}
			}
		}
	}
	if P.contractFor(fn) != nil || vc.usedContracts {
		vc.checkVacuity()
	} else {
		vc.Vacuity = "not-needed (no contract assumed)"
	}
	tr("vacuity")
	return vc
}

// checkVacuity asks whether all assumptions together still admit an execution that reaches a
// return (or a loop back edge): if not, every obligation was discharged vacuously.
func (vc *VC) checkVacuity() {
	if len(vc.exitReach) == 0 {
		vc.Vacuity = "no-exit"
		return
	}
	if os.Getenv("VC_REACH") != "" {
		// per-return reachability report (debugging aid)
		for i, r := range vc.exitReach {
			var b strings.Builder
			b.WriteString(vc.tt.preamble())
			for j := 0; j < vc.exitIdx[i] && j < len(vc.items); j++ {
				if vc.items[j].ob != nil {
					continue
				}
				b.WriteString(vc.items[j].text)
				b.WriteByte('\n')
			}
			fmt.Fprintf(&b, "(assert %s)\n(check-sat)\n", r.S)
			res := raceSolve(map[string]string{"z3": b.String()}, "reach", 5000, false, []string{"z3-new"})
			fmt.Fprintf(os.Stderr, "  return #%d at %s: %s\n", i+1, vc.exitPos[i], res.status)
		}
		seen := map[string]bool{}
		for _, o := range vc.obligs {
			if seen[o.pc.S] {
				continue
			}
			seen[o.pc.S] = true
			var b strings.Builder
			b.WriteString(vc.tt.preamble())
			for j := 0; j < o.itemIdx; j++ {
				if vc.items[j].ob != nil {
					continue
				}
				b.WriteString(vc.items[j].text)
				b.WriteByte('\n')
			}
			fmt.Fprintf(&b, "(assert %s)\n(check-sat)\n", o.pc.S)
			res := raceSolve(map[string]string{"z3": b.String()}, "reach", 5000, false, []string{"z3-new"})
			if res.status != "sat" {
				fmt.Fprintf(os.Stderr, "  path of %s (line %d): %s\n", o.Name, o.Pos.Line, res.status)
				if d := os.Getenv("VC_REACH_DUMP"); d != "" {
					os.WriteFile(d, []byte(b.String()), 0o644)
				}
			}
		}
	}
	var b strings.Builder
	b.WriteString("(set-option :smt.mbqi true)\n")
	b.WriteString(vc.tt.preamble())
	for _, it := range vc.items {
		if it.ob != nil {
			continue // goals of obligations are not assumptions of the function
		}
		b.WriteString(it.text)
		b.WriteByte('\n')
	}
	fmt.Fprintf(&b, "(assert %s)\n(check-sat)\n", mkOr(vc.exitReach...).S)
	q := b.String()
	r := raceSolve(map[string]string{"z3": q}, "vacuity", 3000, false, []string{"z3-new"})
	switch r.status {
	case "sat":
		vc.Vacuity = "reachable"
	case "unsat":
		vc.Vacuity = "VACUOUS"
	default:
		vc.Vacuity = "undetermined"
	}
}


// funcHasSymbolicDiv: does fn (or a callee up to the given depth) divide by a non-constant?
func funcHasSymbolicDiv(fn *ssa.Function, depth int) bool {
	for _, b := range fn.Blocks {
		for _, in := range b.Instrs {
			if bo, ok := in.(*ssa.BinOp); ok && (bo.Op == token.QUO || bo.Op == token.REM) {
				if _, c := bo.Y.(*ssa.Const); !c {
					return true
				}
			}
			if depth > 0 {
				if c, ok := in.(ssa.CallInstruction); ok {
					if sc := c.Common().StaticCallee(); sc != nil && len(sc.Blocks) > 0 && funcHasSymbolicDiv(sc, depth-1) {
						return true
					}
				}
			}
		}
	}
	return false
}
