package main

import (
	"fmt"
	"go/types"
	"strings"

	"golang.org/x/tools/go/ssa"
)

// genVC builds the verification conditions of fn (against its contract if any).
func (P *Program) genVC(fn *ssa.Function, opts genOpts) (vc *VC) {
	P.mu.Lock()
	defer P.mu.Unlock()
	ct := P.contractFor(fn)
	loopMods := map[string]map[string]bool{}
	autoInv := opts.autoInv
	if autoInv == nil {
		autoInv = map[string][]*autoCand{}
	}
	build := func(pass int) (vc *VC) {
		vc = &VC{P: P, tt: newTypeTable(), fn: fn, names: map[string]int{}, declared: map[string]bool{}, pass: pass, loopMods: loopMods,
			strs: map[string]Term{}, globals: map[string]int{}, watch: map[string]bool{}, obNames: map[string]int{}, autoInv: autoInv,
			houdini: opts.houdini, houdiniCheck: opts.houdiniCheck, noInline: opts.noInline}
		defer func() {
			if r := recover(); r != nil {
				if u, ok := r.(unsupported); ok {
					vc.err = u
					return
				}
				panic(r)
			}
		}()
		if ct != nil {
			for _, w := range ct.Watch {
				vc.watch[w] = true
			}
		}
		for _, w := range opts.watch {
			vc.watch[w] = true
		}
		vc.reach = tTrue
		entry := vc.newState(stEntry, nil)
		vc.entry = entry
		label := P.funcKeys[fn]
		if label == "" {
			label = normName(fn.String())
		}
		f := &frame{vc: vc, fn: fn, prefix: "", vals: map[ssa.Value]Term{}, ptrs: map[ssa.Value]*ptrDesc{}, tuples: map[ssa.Value][]Term{}, closures: map[ssa.Value]*ssa.MakeClosure{},
			contract: ct, top: true, label: label, oldSt: entry}
		f.st = entry
		a0 := entry.get("$alloc", SBV64)
		vc.assumeGlobal(mkAnd(ule(bvLit(64, 1<<34), a0), ult(a0, bvLit(64, 1<<60))))
		for _, p := range fn.Params {
			t := vc.declare("p$"+p.Name(), vc.tt.sortOf(p.Type()))
			f.vals[p] = t
			vc.assumeGlobal(vc.tt.typeInv(t, p.Type(), a0))
		}
		if fn.Signature.Recv() != nil && len(fn.Params) > 0 {
			if _, isPtr := fn.Params[0].Type().Underlying().(*types.Pointer); isPtr {
				// pointer receivers are non-nil: required of (and checked at) every static call site
				vc.assumeGlobal(mkNot(mkEq(f.vals[fn.Params[0]], i64(0))))
			}
		}
		for _, fv := range fn.FreeVars {
			t := vc.declare("fv$"+fv.Name(), vc.tt.sortOf(fv.Type()))
			f.vals[fv] = t
			vc.assumeGlobal(vc.tt.typeInv(t, fv.Type(), a0))
			vc.assumeGlobal(mkNot(mkEq(t, i64(0))))
		}
		f.params = nil
		vc.topVals = map[ssa.Value]Term{}
		for _, p := range fn.Params {
			vc.topVals[p] = f.vals[p]
		}
		f.assumePre()
		vc.stack = []*ssa.Function{fn}
		f.run(tTrue, entry)
		return vc
	}
	v1 := build(1)
	if v1.err != nil {
		return v1
	}
	return build(2)
}

type genOpts struct {
	houdini      bool
	houdiniCheck bool
	autoInv      map[string][]*autoCand
	noInline     bool
	watch        []string
}

// render prints the SMT-LIB query for one obligation (or a group: any of them failing).
func (vc *VC) render(obs []*Oblig, dialect string, timeoutMs int) string {
	var b strings.Builder
	maxIdx := 0
	for _, o := range obs {
		if o.itemIdx > maxIdx {
			maxIdx = o.itemIdx
		}
	}
	if dialect == "cvc5" {
		b.WriteString("(set-option :produce-models true)\n(set-logic ALL)\n")
	} else {
		b.WriteString("(set-option :produce-models true)\n")
		if dialect == "z3" || dialect == "z3-new" {
			b.WriteString("(set-option :smt.mbqi true)\n")
		}
	}
	// the preamble must come after all struct sorts are known; items only reference sorts from vc.tt
	b.WriteString(vc.tt.preamble())
	inGroup := map[*Oblig]bool{}
	if len(obs) > 1 {
		for _, o := range obs {
			inGroup[o] = true
		}
	}
	for i := 0; i < maxIdx; i++ {
		it := vc.items[i]
		if it.ob != nil && inGroup[it.ob] {
			continue
		}
		if it.kind == itCopy && dialect == "cvc5" {
			b.WriteString(it.alt)
		} else {
			b.WriteString(it.text)
		}
		b.WriteByte('\n')
	}
	if vc.renderAllDecls {
		for i := maxIdx; i < len(vc.items); i++ {
			if it := vc.items[i]; it.kind == itDecl || (it.kind == itCopy && dialect != "cvc5") {
				b.WriteString(it.text)
				b.WriteByte('\n')
			}
		}
	}
	if len(obs) == 1 {
		o := obs[0]
		fmt.Fprintf(&b, "(assert %s)\n(assert (not %s))\n", o.pc.S, o.goal.S)
	} else {
		// group query: some obligation fails. Assumption items of obligations in the
		// group that precede others are already included above (sound: see DESIGN 2.3).
		var ds []Term
		for _, o := range obs {
			ds = append(ds, mkAnd(o.pc, mkNot(o.goal)))
		}
		fmt.Fprintf(&b, "(assert %s)\n", mkOr(ds...).S)
	}
	b.WriteString("(check-sat)\n")
	return b.String()
}

// verify generates and discharges the obligations of fn, inferring simple loop
// invariants (Houdini) where the contract supplies none.
func (P *Program) verify(fn *ssa.Function, timeoutMs int, par int, keepDir string, noInline bool) *VC {
	autoInv := map[string][]*autoCand{}
	vc := P.genVC(fn, genOpts{houdini: true, houdiniCheck: true, autoInv: autoInv, noInline: noInline})
	if vc.err != nil {
		return vc
	}
	hasCand := func(v *VC) bool {
		for _, o := range v.obligs {
			if o.cand != nil {
				return true
			}
		}
		return false
	}
	if hasCand(vc) {
		for round := 0; round < 10; round++ {
			var cands []*Oblig
			for _, o := range vc.obligs {
				if o.cand != nil {
					cands = append(cands, o)
				}
			}
			sub := &VC{P: P, tt: vc.tt, items: vc.items, obligs: cands}
			sub.discharge(3000, par, "")
			dropped := 0
			for _, o := range cands {
				if o.Status != "unsat" && !o.cand.dropped {
					o.cand.dropped = true
					dropped++
				}
			}
			if dropped == 0 {
				break
			}
			vc = P.genVC(fn, genOpts{houdini: true, houdiniCheck: true, autoInv: autoInv, noInline: noInline})
			if vc.err != nil {
				return vc
			}
		}
		vc = P.genVC(fn, genOpts{houdini: true, houdiniCheck: false, autoInv: autoInv, noInline: noInline})
		if vc.err != nil {
			return vc
		}
		for _, cs := range autoInv {
			for _, c := range cs {
				if !c.dropped {
					vc.autoKept = append(vc.autoKept, c.desc)
				}
			}
		}
	}
	vc.discharge(timeoutMs, par, keepDir)
	return vc
}
