package main

import (
	"fmt"
	"go/token"
	"go/types"
	"strings"

	"golang.org/x/tools/go/ssa"
)

// Assumed models of functions outside /repo (the "speclib"). Every name that is
// used in a run is recorded in vc.P.usedIntrinsics and reported as trusted.

var pureExternalPrefixes = []string{
	"time.", "(time.Time).", "(time.Duration).", "(*time.Timer).", "(*time.Time).",
	"fmt.Sprintf", "fmt.Sprint", "fmt.Errorf", "fmt.Fprintf", "fmt.Fprintln", "fmt.Fprint", // Fprint*: the io.Writer is application code, assumed not to touch library state
 "errors.New", "errors.Is", "errors.Unwrap",
	"strings.", "strconv.", "math.", "math/bits.", "unicode.", "unicode/utf8.",
	"bytes.Equal", "bytes.Compare", "bytes.HasPrefix", "bytes.Contains", "bytes.IndexByte",
	"crypto/subtle.ConstantTimeCompare", "crypto/subtle.ConstantTimeByteEq", "crypto/subtle.ConstantTimeEq", "crypto/subtle.ConstantTimeSelect", "crypto/subtle.ConstantTimeLessOrEq",
	"crypto/hmac.Equal", "crypto/hmac.New", "crypto/sha256.New", "crypto/sha1.New", "crypto/sha512.New", "crypto/md5.New",
	"crypto/sha256.Sum256", "crypto/sha1.Sum",
	"(crypto.Hash).", "crypto.Hash.",
	"context.", "(*github.com/pion/logging", "slices.Contains", "slices.Index",
	"net.", "(*net.UDPAddr).", "(net.IP).", "(*net.IPAddr).",
	"sort.Search", "reflect.TypeOf", "reflect.DeepEqual",
}

var pureInvokePrefixes = []string{
	"(github.com/pion/logging.LeveledLogger).", "(error).Error", "(net.Addr).", "(fmt.Stringer).", "(context.Context).",
	"(hash.Hash).",
	"(crypto/cipher.AEAD).", "(crypto/cipher.Block).", "(crypto/cipher.BlockMode).", "(crypto/cipher.Stream).",
	"(io.Reader).Read", "(io.Writer).Write",
	"(github.com/pion/dtls/v3/pkg/crypto/ciphersuite.cbcMode).",
	"(github.com/pion/transport/v4/replaydetector.ReplayDetector).",
	"(github.com/pion/transport/v4/netctx.PacketConn).", "(github.com/pion/transport/v4/netctx.Conn).", "(net.PacketConn).", "(net.Conn).",
	"(github.com/pion/logging.LoggerFactory).",
	"(crypto.PublicKey).", "(crypto.Signer).Public",
}

// pureInvoke: interface methods of the standard crypto packages and the listed library interfaces.
func pureInvoke(full string) bool {
	if strings.HasPrefix(full, "(crypto/") || strings.HasPrefix(full, "(crypto.") || strings.HasPrefix(full, "(hash.") || strings.HasPrefix(full, "(golang.org/x/crypto/") {
		return true
	}
	return hasAnyPrefix(full, pureInvokePrefixes)
}

func hasAnyPrefix(s string, ps []string) bool {
	for _, p := range ps {
		if strings.HasPrefix(s, p) {
			return true
		}
	}
	return false
}

// externalMods gives the write set of well known library functions.
func externalMods(fn *ssa.Function) ([]string, bool) {
	full := fn.String()
	if hasAnyPrefix(full, pureExternalPrefixes) {
		return []string{"$alloc"}, true
	}
	if p := pkgOf(fn); p != nil {
		path := p.Pkg.Path()
		switch {
		case path == "sync/atomic", path == "internal/runtime/atomic":
			// the pointee is written by Store/Add/Swap/CompareAndSwap: callers inside the repository
			// reach these through intrinsics; elsewhere only the atomic cell changes
			return []string{"M$uint32", "M$uint64", "M$int32", "M$int64", "M$uintptr", "M$unsafe.Pointer", "prefix:sync/atomic.", "F$sync/atomic.Value$v", "F$sync/atomic.Bool$v", "F$sync/atomic.Uint32$v", "F$sync/atomic.Uint64$v", "F$sync/atomic.Int32$v", "F$sync/atomic.Int64$v"}, true
		case path == "crypto/x509" || strings.HasPrefix(path, "crypto/x509/") || path == "encoding/asn1" || path == "encoding/pem":
			// certificate parsing and verification build new objects and touch nothing that exists
			return []string{"$alloc", "N$*"}, true
		case strings.HasPrefix(path, "crypto/") && path != "crypto/tls", path == "crypto", strings.HasPrefix(path, "hash"),
			strings.HasPrefix(path, "golang.org/x/crypto/") && path != "golang.org/x/crypto/cryptobyte":
			// crypto library code writes only its own objects and the byte buffers handed to it
			return []string{"$alloc", "M$uint8"}, true
		}
	}
	if strings.HasPrefix(full, "(*sync.Pool).") {
		return []string{"$alloc"}, true
	}
	if full == "bytes.Clone" {
		return []string{"$alloc", "N$M$uint8"}, true
	}
	if full == "time.AfterFunc" {
		return []string{"$alloc"}, true
	}
	switch {
	case strings.HasPrefix(full, "(encoding/binary.bigEndian).Put"), strings.HasPrefix(full, "(encoding/binary.littleEndian).Put"):
		return []string{"M$uint8", "M$byte"}, true
	case strings.HasPrefix(full, "(encoding/binary.bigEndian).Append"), strings.HasPrefix(full, "(encoding/binary.littleEndian).Append"):
		return []string{"M$uint8", "M$byte", "$alloc"}, true
	case strings.HasPrefix(full, "(encoding/binary.bigEndian)."), strings.HasPrefix(full, "(encoding/binary.littleEndian)."):
		return []string{}, true
	case strings.HasPrefix(full, "(*sync.Mutex)."), strings.HasPrefix(full, "(*sync.RWMutex)."), strings.HasPrefix(full, "(*sync.Once)."), strings.HasPrefix(full, "(*sync.WaitGroup)."):
		if strings.HasSuffix(full, ".Do") {
			return nil, false
		}
		return []string{}, true
	case full == "crypto/rand.Read", full == "io.ReadFull":
		return []string{"M$uint8", "M$byte", "$alloc"}, true
	}
	return nil, false
}

func invokeMods(c *ssa.CallCommon) ([]string, bool) {
	full := "(" + fullType(c.Value.Type()) + ")." + c.Method.Name()
	if pureInvoke(full) {
		return []string{"$alloc", "M$uint8", "M$byte"}, true
	}
	return nil, false
}

func (vc *VC) trust(name string) {
	if vc.P.usedIntrinsics == nil {
		vc.P.usedIntrinsics = map[string]bool{}
	}
	vc.P.usedIntrinsics[name] = true
}

// byteHeap returns the heap for []byte elements.
func (f *frame) byteHeap() (string, Sort) {
	return f.tt().elemHeap(types.Typ[types.Uint8])
}

func (f *frame) byteInner(st *State, s Term) Term {
	hn, hs := f.byteHeap()
	return mkSelect(st.get(hn, hs), slObj(s), arraySort(SBV64, SBV8))
}

func (f *frame) readByte(s Term, i int64) Term {
	return mkSelect(f.byteInner(f.st, s), bvAdd(slOff(s), i64(i)), SBV8)
}

func (f *frame) writeBytes(s Term, vals []Term) {
	hn, hs := f.byteHeap()
	h := f.st.get(hn, hs)
	in := mkSelect(h, slObj(s), arraySort(SBV64, SBV8))
	for i, v := range vals {
		in = mkStore(in, bvAdd(slOff(s), i64(int64(i))), v)
	}
	f.st.set(hn, f.vc.define(hn, mkStore(h, slObj(s), in)))
}

func extractByte(v Term, k int) Term {
	return Term{fmt.Sprintf("((_ extract %d %d) %s)", 8*k+7, 8*k, v.S), SBV8}
}

func concatBytes(bs []Term) Term {
	// bs[0] is the most significant byte
	s := bs[0].S
	for _, b := range bs[1:] {
		s = fmt.Sprintf("(concat %s %s)", s, b.S)
	}
	return Term{s, bvSort(8 * len(bs))}
}

// intrinsic models a statically dispatched library call. ok=false: not an intrinsic.
func (f *frame) intrinsic(full string, callee *ssa.Function, c *ssa.CallCommon, args []Term, pos token.Pos) ([]Term, bool) {
	vc := f.vc
	tt := f.tt()
	sig := callee.Signature
	switch {
	case strings.HasPrefix(full, "(encoding/binary.bigEndian)."), strings.HasPrefix(full, "(encoding/binary.littleEndian)."):
		little := strings.Contains(full, "littleEndian")
		m := callee.Name()
		width := 0
		switch {
		case strings.HasSuffix(m, "16"):
			width = 2
		case strings.HasSuffix(m, "32"):
			width = 4
		case strings.HasSuffix(m, "64"):
			width = 8
		default:
			return nil, false
		}
		vc.trust("encoding/binary." + m)
		switch {
		case strings.HasPrefix(m, "Uint"):
			s := args[1]
			f.oblige("index", pos, sle(i64(int64(width)), slLen(s)))
			var bs []Term
			for i := 0; i < width; i++ {
				bs = append(bs, f.readByte(s, int64(i)))
			}
			if little {
				for i, j := 0, len(bs)-1; i < j; i, j = i+1, j-1 {
					bs[i], bs[j] = bs[j], bs[i]
				}
			}
			return []Term{concatBytes(bs)}, true
		case strings.HasPrefix(m, "PutUint"):
			s, v := args[1], args[2]
			f.oblige("index", pos, sle(i64(int64(width)), slLen(s)))
			var bs []Term
			for i := 0; i < width; i++ {
				k := width - 1 - i
				if little {
					k = i
				}
				bs = append(bs, extractByte(v, k))
			}
			f.writeBytes(s, bs)
			return nil, true
		case strings.HasPrefix(m, "AppendUint"):
			return nil, false // modelled through its body when needed
		}
		return nil, false
	case full == "bytes.Equal", full == "crypto/hmac.Equal", full == "crypto/subtle.ConstantTimeCompare":
		vc.trust(full)
		a, b := args[0], args[1]
		r := vc.declareFresh(f.prefix+"byteseq", SBool)
		ia := vc.define(f.prefix+"byteseq$a", f.byteInner(f.st, a))
		ib := vc.define(f.prefix+"byteseq$b", f.byteInner(f.st, b))
		k := vc.declareFresh(f.prefix+"byteseq$k", SBV64)
		vc.hasQuant = true
		q := fmt.Sprintf("(forall ((i!e (_ BitVec 64))) (=> (and (bvsle #x0000000000000000 i!e) (bvslt i!e %s)) (= (select %s (bvadd %s i!e)) (select %s (bvadd %s i!e)))))", slLen(a).S, ia.S, slOff(a).S, ib.S, slOff(b).S)
		vc.assume(mkImplies(r, mkAnd(mkEq(slLen(a), slLen(b)), Term{q, SBool})))
		diff := mkAnd(sle(i64(0), k), slt(k, slLen(a)), mkNot(mkEq(mkSelect(ia, bvAdd(slOff(a), k), SBV8), mkSelect(ib, bvAdd(slOff(b), k), SBV8))))
		vc.assume(mkImplies(mkNot(r), mkOr(mkNot(mkEq(slLen(a), slLen(b))), diff)))
		if full == "crypto/subtle.ConstantTimeCompare" {
			return []Term{mkIte(r, i64(1), i64(0))}, true
		}
		return []Term{r}, true
	case full == "bytes.Clone", full == "slices.Clone[[]byte]":
		vc.trust("bytes.Clone (fresh copy; nil for nil)")
		b := args[0]
		obj := f.alloc(i64(1))
		vc.assume(ule(i64(4096), obj))
		hn, hs := f.byteHeap()
		h := f.st.get(hn, hs)
		f.st.set(hn, vc.blockCopy(hn, h, mkSelect(h, slObj(b), arraySort(SBV64, SBV8)), obj, i64(0), slOff(b), slLen(b)))
		ncap := vc.declareFresh(f.prefix+"clone$cap", SBV64)
		vc.assume(mkAnd(sle(slLen(b), ncap), sle(ncap, bvLit(64, 1<<40))))
		res := mkIte(mkEq(slObj(b), i64(0)), nilSlice, mkSlice(obj, i64(0), slLen(b), ncap))
		return []Term{res}, true
	case strings.HasPrefix(full, "slices.Contains["), strings.HasPrefix(full, "slices.Index["):
		sl, okT := c.Args[0].Type().Underlying().(*types.Slice)
		if !okT {
			return nil, false
		}
		el := sl.Elem()
		if isStructType(el) || tt.sortOf(el) == SIface || tt.sortOf(el) == SFloat {
			return nil, false
		}
		vc.trust("slices.Contains / slices.Index (first index of an equal element, -1 if none)")
		s, v := args[0], args[1]
		es := tt.sortOf(el)
		hn, hs := tt.elemHeap(el)
		inner := vc.define(f.prefix+"sc$in", mkSelect(f.st.get(hn, hs), slObj(s), arraySort(SBV64, es)))
		k := vc.declareFresh(f.prefix+"sc$k", SBV64)
		found := vc.declareFresh(f.prefix+"sc$found", SBool)
		at := func(i Term) Term { return mkSelect(inner, bvAdd(slOff(s), i), es) }
		vc.hasQuant = true
		none := fmt.Sprintf("(forall ((i!n (_ BitVec 64))) (=> (and (bvsle #x0000000000000000 i!n) (bvslt i!n %s)) (not (= %s %s))))", slLen(s).S, at(Term{"i!n", SBV64}).S, v.S)
		before := fmt.Sprintf("(forall ((i!n (_ BitVec 64))) (=> (and (bvsle #x0000000000000000 i!n) (bvslt i!n %s)) (not (= %s %s))))", k.S, at(Term{"i!n", SBV64}).S, v.S)
		vc.assume(mkImplies(found, mkAnd(sle(i64(0), k), slt(k, slLen(s)), mkEq(at(k), v), Term{before, SBool})))
		vc.assume(mkImplies(mkNot(found), Term{none, SBool}))
		if strings.HasPrefix(full, "slices.Contains[") {
			return []Term{found}, true
		}
		return []Term{mkIte(found, k, i64(-1))}, true
	case full == "github.com/pion/transport/v4/replaydetector.New", full == "github.com/pion/transport/v4/replaydetector.WithWrap":
		vc.trust(full + " (returns a non-nil detector)")
		a := f.alloc(i64(1))
		vc.assume(ule(i64(4096), a))
		return []Term{mkIface(i64(int64(tt.typeIDName("*replaydetector.slidingWindowDetector"))), a)}, true
	case full == "errors.New", full == "fmt.Errorf":
		vc.trust(full)
		a := f.alloc(i64(1))
		vc.assume(ule(i64(4096), a))
		id := tt.typeIDName("*errors.errorString")
		if full == "fmt.Errorf" {
			id = tt.typeIDName("*fmt.wrapError")
		}
		return []Term{mkIface(i64(int64(id)), a)}, true
	case full == "errors.As":
		vc.trust(full + " (may set the target, result unconstrained)")
		if len(c.Args) == 2 {
			if mi, ok := c.Args[1].(*ssa.MakeInterface); ok {
				if _, isPtr := mi.X.Type().Underlying().(*types.Pointer); isPtr {
					T := deref(mi.X.Type())
					fr := f.freshOf("as", T)
					f.store(f.val(mi.X), T, f.ptrDescOf(mi.X), fr)
					r := vc.declareFresh(f.prefix+"errAs", SBool)
					vc.assume(mkImplies(mkEq(ifTyp(args[0]), i64(0)), mkNot(r)))
					return []Term{r}, true
				}
			}
		}
		return nil, false
	case full == "errors.Is":
		vc.trust(full)
		r := vc.declareFresh(f.prefix+"errIs", SBool)
		vc.assume(mkImplies(mkEq(ifTyp(args[0]), i64(0)), mkEq(r, mkEq(ifTyp(args[1]), i64(0)))))
		vc.assume(mkImplies(mkAnd(mkEq(ifTyp(args[0]), ifTyp(args[1])), mkEq(ifVal(args[0]), ifVal(args[1]))), r))
		return []Term{r}, true
	case strings.HasPrefix(full, "(*sync.Mutex)."), strings.HasPrefix(full, "(*sync.RWMutex)."):
		vc.trust("sync.Mutex semantics")
		name := "G$held$" + canonMutexName(valueName(c.Args[0]))
		vc.mutexSeen(canonMutexName(valueName(c.Args[0])))
		switch callee.Name() {
		case "Lock", "RLock":
			f.st.set(name, tTrue)
		case "Unlock", "RUnlock":
			f.st.set(name, tFalse)
		case "TryLock", "TryRLock":
			r := vc.declareFresh(f.prefix+"trylock", SBool)
			f.st.set(name, mkOr(f.st.get(name, SBool), r))
			return []Term{r}, true
		}
		return nil, true
	case strings.HasPrefix(full, "(*sync/atomic.Value)."), strings.HasPrefix(full, "(*sync/atomic.Pointer["):
		// sequential semantics on the single value cell of the object
		vc.trust("sync/atomic.Value / Pointer (sequential semantics)")
		recvT := deref(c.Args[0].Type())
		si := tt.structOf(recvT)
		fi := -1
		for i, fl := range si.fields {
			if fl.name == "v" {
				fi = i
			}
		}
		if fi < 0 {
			return nil, false
		}
		isValue := strings.HasPrefix(full, "(*sync/atomic.Value).")
		var cellT types.Type
		if isValue {
			cellT = types.NewInterfaceType(nil, nil)
		} else {
			nm := callee.Name()
			switch {
			case strings.HasPrefix(nm, "Load") || strings.HasPrefix(nm, "Swap"):
				cellT = callee.Signature.Results().At(0).Type()
			case callee.Signature.Params().Len() > 0:
				cellT = callee.Signature.Params().At(callee.Signature.Params().Len() - 1).Type()
			default:
				return nil, false
			}
		}
		hn := "F$" + si.key + "$v#" + fullType(cellT)
		hs := arraySort(SBV64, tt.sortOf(cellT))
		addr := args[0]
		f.nonNil(pos, addr)
		cur := func() Term { return mkSelect(f.st.get(hn, hs), addr, tt.sortOf(cellT)) }
		set := func(v Term) { f.st.set(hn, vc.define(hn, mkStore(f.st.get(hn, hs), addr, v))) }
		mname := callee.Name()
		if i := strings.Index(mname, "["); i > 0 {
			mname = mname[:i]
		}
		switch mname {
		case "Load":
			v := vc.define(f.prefix+"aload", cur())
			if hasRefs(cellT) {
				vc.assume(tt.typeInv(v, cellT, f.st.get("A$"+hn, SBV64)))
			}
			return []Term{v}, true
		case "Store":
			set(args[1])
			return nil, true
		case "Swap":
			old := vc.define(f.prefix+"aswap", cur())
			set(args[1])
			return []Term{old}, true
		case "CompareAndSwap":
			old := vc.define(f.prefix+"acas", cur())
			eq := vc.define(f.prefix+"acas$eq", f.equal(old, args[1], cellT))
			set(mkIte(eq, args[2], old))
			return []Term{eq}, true
		}
		return nil, false
	case strings.HasPrefix(full, "sync/atomic."):
		return f.atomicFn(callee, c, args, pos)
	case full == "crypto/rand.Read":
		vc.trust(full)
		s := args[0]
		hn, hs := f.byteHeap()
		f.st.set(hn, vc.blockHavoc(hn, f.st.get(hn, hs), slObj(s), slOff(s), slLen(s)))
		e := f.freshOf("randerr", sig.Results().At(1).Type())
		n := vc.declareFresh(f.prefix+"randn", SBV64)
		vc.assume(mkImplies(mkEq(ifTyp(e), i64(0)), mkEq(n, slLen(s))))
		return []Term{n, e}, true
	}
	if full == "time.NewTimer" || full == "time.AfterFunc" || full == "time.NewTicker" {
		vc.trust(full + " (returns a non-nil timer)")
		a := f.alloc(i64(8))
		vc.assume(ule(i64(4096), a))
		if full == "time.AfterFunc" {
			return []Term{a}, true
		}
		return []Term{a}, true
	}
	if hasAnyPrefix(full, pureExternalPrefixes) {
		vc.trust(full + " (pure, result unconstrained)")
		// result arbitrary, no heap effect beyond allocation
		f.st = vc.havocSome(f.st, map[string]bool{"$alloc": true})
		vc.noteWrite("$alloc")
		n := sig.Results().Len()
		rs := make([]Term, n)
		for i := 0; i < n; i++ {
			rs[i] = f.freshOf("ext", sig.Results().At(i).Type())
		}
		if n == 1 && nonNilCtors[full] {
			vc.trust(full + " returns a non-nil value")
			if rs[0].Sort == SIface {
				vc.assume(mkAnd(mkNot(mkEq(ifTyp(rs[0]), i64(0))), mkNot(mkEq(ifVal(rs[0]), i64(0)))))
			} else if rs[0].Sort == SBV64 {
				vc.assume(mkNot(mkEq(rs[0], i64(0))))
			}
		}
		return rs, true
	}
	return nil, false
}

func (f *frame) atomicFn(callee *ssa.Function, c *ssa.CallCommon, args []Term, pos token.Pos) ([]Term, bool) {
	vc := f.vc
	name := callee.Name()
	vc.trust("sync/atomic (sequential semantics)")
	var T types.Type
	if len(c.Args) > 0 {
		if p, ok := c.Args[0].Type().Underlying().(*types.Pointer); ok {
			T = p.Elem()
		}
	}
	if T == nil {
		return nil, false
	}
	addr := args[0]
	pd := f.ptrDescOf(c.Args[0])
	f.nonNil(pos, addr)
	switch {
	case strings.HasPrefix(name, "Load"):
		return []Term{f.loadInv(addr, T, pd, f.prefix+"aload")}, true
	case strings.HasPrefix(name, "Store"):
		f.store(addr, T, pd, args[1])
		return nil, true
	case strings.HasPrefix(name, "Add"):
		v := f.vc.define(f.prefix+"aadd", bvAdd(f.load(addr, T, pd), args[1]))
		f.store(addr, T, pd, v)
		return []Term{v}, true
	case strings.HasPrefix(name, "Swap"):
		old := f.loadInv(addr, T, pd, f.prefix+"aswap")
		f.store(addr, T, pd, args[1])
		return []Term{old}, true
	case strings.HasPrefix(name, "CompareAndSwap"):
		old := f.loadInv(addr, T, pd, f.prefix+"acas")
		eq := f.vc.define(f.prefix+"acas$eq", mkEq(old, args[1]))
		f.store(addr, T, pd, mkIte(eq, args[2], old))
		return []Term{eq}, true
	}
	return nil, false
}

// intrinsicInvoke models interface method calls on library interfaces.
func (f *frame) intrinsicInvoke(full string, c *ssa.CallCommon, args []Term, pos token.Pos) ([]Term, bool) {
	vc := f.vc
	sig := c.Signature()
	if pureInvoke(full) {
		vc.trust(full + " (no effect on program state, result unconstrained)")
		mods := map[string]bool{"$alloc": true}
		switch c.Method.Name() {
		case "Sum", "Seal", "Open", "CryptBlocks", "Read", "XORKeyStream", "Encrypt", "Decrypt", "ReadFrom", "ReadFromContext", "ReadContext":
			hn, _ := f.byteHeap()
			mods[hn] = true
		}
		for k := range mods {
			vc.noteWrite(k)
		}
		f.st = vc.havocSome(f.st, mods)
		n := sig.Results().Len()
		rs := make([]Term, n)
		for i := 0; i < n; i++ {
			rs[i] = f.freshOf("ext", sig.Results().At(i).Type())
		}
		if strings.HasSuffix(full, "(hash.Hash).Write") {
			vc.assume(mkAnd(mkEq(rs[0], slLen(args[1])), mkEq(ifTyp(rs[1]), i64(0))))
		}
		if strings.HasSuffix(full, ".BlockSize") || strings.HasSuffix(full, "(hash.Hash).Size") {
			// block and digest sizes of the standard primitives are small positive numbers
			vc.trust("BlockSize()/Size() of cipher and hash objects is between 1 and 256")
			vc.assume(mkAnd(sle(i64(1), rs[0]), sle(rs[0], i64(256))))
		}
		if strings.HasSuffix(full, ".NonceSize") || strings.HasSuffix(full, ".Overhead") {
			vc.assume(mkAnd(sle(i64(0), rs[0]), sle(rs[0], i64(256))))
		}
		return rs, true
	}
	return nil, false
}


// canonMutexName: "dtls.Conn.writeLock" and "Conn.writeLock" name the same mutex (the package qualifier of the
// owning type is dropped, as for watch names).
func canonMutexName(n string) string {
	parts := strings.Split(n, ".")
	if len(parts) >= 3 {
		return strings.Join(parts[1:], ".")
	}
	return n
}

func (vc *VC) mutexSeen(n string) {
	if vc.mutexes == nil {
		vc.mutexes = map[string]bool{}
	}
	vc.mutexes[n] = true
}
