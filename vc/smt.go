package main

import (
	"fmt"
	"math/big"
	"strconv"
	"strings"
)

// Sort is an SMT-LIB sort written out.
type Sort string

const (
	SBool  Sort = "Bool"
	SBV64  Sort = "(_ BitVec 64)"
	SBV8   Sort = "(_ BitVec 8)"
	SSlice Sort = "Slice"
	SStr   Sort = "Str"
	SIface Sort = "Iface"
	SFloat Sort = "Float"
)

func bvSort(n int) Sort { return Sort(fmt.Sprintf("(_ BitVec %d)", n)) }

func arraySort(k, v Sort) Sort { return Sort("(Array " + string(k) + " " + string(v) + ")") }

func (s Sort) isBV() (int, bool) {
	var n int
	if _, err := fmt.Sscanf(string(s), "(_ BitVec %d)", &n); err == nil {
		return n, true
	}
	return 0, false
}

// Term is an SMT term with its sort.
type Term struct {
	S    string
	Sort Sort
}

func (t Term) String() string { return t.S }
func (t Term) valid() bool    { return t.S != "" }

var (
	tTrue  = Term{"true", SBool}
	tFalse = Term{"false", SBool}
)

func bvLit(n int, v uint64) Term {
	if n%4 == 0 {
		return Term{fmt.Sprintf("#x%0*x", n/4, v&mask(n)), bvSort(n)}
	}
	return Term{fmt.Sprintf("(_ bv%d %d)", v&mask(n), n), bvSort(n)}
}

func mask(n int) uint64 {
	if n >= 64 {
		return ^uint64(0)
	}
	return (uint64(1) << uint(n)) - 1
}

func bvLitBig(n int, v *big.Int) Term {
	m := new(big.Int).Lsh(big.NewInt(1), uint(n))
	x := new(big.Int).Mod(v, m)
	if x.Sign() < 0 {
		x.Add(x, m)
	}
	return Term{fmt.Sprintf("(_ bv%s %d)", x.String(), n), bvSort(n)}
}

func i64(v int64) Term { return bvLit(64, uint64(v)) }

func app(op string, sort Sort, args ...Term) Term {
	var b strings.Builder
	b.WriteByte('(')
	b.WriteString(op)
	for _, a := range args {
		b.WriteByte(' ')
		b.WriteString(a.S)
	}
	b.WriteByte(')')
	return Term{b.String(), sort}
}

func mkNot(a Term) Term {
	switch a.S {
	case "true":
		return tFalse
	case "false":
		return tTrue
	}
	if strings.HasPrefix(a.S, "(not ") {
		return Term{a.S[5 : len(a.S)-1], SBool}
	}
	return app("not", SBool, a)
}

func mkAnd(as ...Term) Term {
	var out []Term
	for _, a := range as {
		if a.S == "true" {
			continue
		}
		if a.S == "false" {
			return tFalse
		}
		out = append(out, a)
	}
	switch len(out) {
	case 0:
		return tTrue
	case 1:
		return out[0]
	}
	return app("and", SBool, out...)
}

func mkOr(as ...Term) Term {
	var out []Term
	for _, a := range as {
		if a.S == "false" {
			continue
		}
		if a.S == "true" {
			return tTrue
		}
		out = append(out, a)
	}
	switch len(out) {
	case 0:
		return tFalse
	case 1:
		return out[0]
	}
	return app("or", SBool, out...)
}

func mkImplies(a, b Term) Term {
	if a.S == "true" {
		return b
	}
	if a.S == "false" || b.S == "true" {
		return tTrue
	}
	return app("=>", SBool, a, b)
}

func mkEq(a, b Term) Term {
	if a.S == b.S {
		return tTrue
	}
	if x, _, ok := litVal(a); ok {
		if y, _, ok := litVal(b); ok && x != y {
			return tFalse
		}
	}
	return app("=", SBool, a, b)
}

func mkIte(c, a, b Term) Term {
	if c.S == "true" {
		return a
	}
	if c.S == "false" {
		return b
	}
	if a.S == b.S {
		return a
	}
	return app("ite", a.Sort, c, a, b)
}

func mkSelect(arr, idx Term, elem Sort) Term { return app("select", elem, arr, idx) }
func mkStore(arr, idx, v Term) Term          { return app("store", arr.Sort, arr, idx, v) }

// litVal returns the value of a hexadecimal bit-vector literal of at most 64 bits.
func litVal(a Term) (uint64, int, bool) {
	if !strings.HasPrefix(a.S, "#x") || len(a.S) > 18 {
		return 0, 0, false
	}
	v, err := strconv.ParseUint(a.S[2:], 16, 64)
	if err != nil {
		return 0, 0, false
	}
	return v, (len(a.S) - 2) * 4, true
}

func bvAdd(a, b Term) Term {
	if isZeroLit(b) {
		return a
	}
	if isZeroLit(a) {
		return b
	}
	if x, w, ok := litVal(a); ok {
		if y, _, ok := litVal(b); ok {
			return bvLit(w, x+y)
		}
	}
	return app("bvadd", a.Sort, a, b)
}
func bvSub(a, b Term) Term {
	if isZeroLit(b) {
		return a
	}
	if x, w, ok := litVal(a); ok {
		if y, _, ok := litVal(b); ok {
			return bvLit(w, x-y)
		}
	}
	if a.S == b.S {
		if w, ok := a.Sort.isBV(); ok && w%4 == 0 {
			return bvLit(w, 0)
		}
	}
	return app("bvsub", a.Sort, a, b)
}
func bvMul(a, b Term) Term {
	if isOneLit(b) {
		return a
	}
	if isOneLit(a) {
		return b
	}
	if x, w, ok := litVal(a); ok {
		if y, _, ok := litVal(b); ok {
			return bvLit(w, x*y)
		}
	}
	return app("bvmul", a.Sort, a, b)
}

func isZeroLit(a Term) bool {
	return strings.HasPrefix(a.S, "#x") && strings.Trim(a.S[2:], "0") == ""
}
func isOneLit(a Term) bool {
	return strings.HasPrefix(a.S, "#x") && strings.TrimLeft(a.S[2:], "0") == "1"
}

func bvCmp(op string, a, b Term) Term {
	if x, w, ok := litVal(a); ok && w == 64 {
		if y, _, ok := litVal(b); ok {
			var r bool
			switch op {
			case "bvsle":
				r = int64(x) <= int64(y)
			case "bvslt":
				r = int64(x) < int64(y)
			case "bvule":
				r = x <= y
			case "bvult":
				r = x < y
			case "bvsge":
				r = int64(x) >= int64(y)
			case "bvsgt":
				r = int64(x) > int64(y)
			case "bvuge":
				r = x >= y
			case "bvugt":
				r = x > y
			default:
				return app(op, SBool, a, b)
			}
			if r {
				return tTrue
			}
			return tFalse
		}
	}
	return app(op, SBool, a, b)
}

func sle(a, b Term) Term { return bvCmp("bvsle", a, b) }
func slt(a, b Term) Term { return bvCmp("bvslt", a, b) }
func ule(a, b Term) Term { return bvCmp("bvule", a, b) }
func ult(a, b Term) Term { return bvCmp("bvult", a, b) }

// bvResize converts a bit-vector to width n; signed selects sign extension when widening.
func bvResize(a Term, n int, signed bool) Term {
	w, ok := a.Sort.isBV()
	if !ok {
		panic("bvResize on non-bv " + a.S + " : " + string(a.Sort))
	}
	switch {
	case w == n:
		return a
	case w > n:
		return Term{fmt.Sprintf("((_ extract %d 0) %s)", n-1, a.S), bvSort(n)}
	case signed:
		return Term{fmt.Sprintf("((_ sign_extend %d) %s)", n-w, a.S), bvSort(n)}
	default:
		return Term{fmt.Sprintf("((_ zero_extend %d) %s)", n-w, a.S), bvSort(n)}
	}
}

// Slice / Str / Iface datatype helpers.
func mkSlice(obj, off, ln, cp Term) Term { return app("mk-slice", SSlice, obj, off, ln, cp) }
func slObj(s Term) Term                  { return dtAcc("sobj", "mk-slice", 0, s, SBV64) }
func slOff(s Term) Term                  { return dtAcc("soff", "mk-slice", 1, s, SBV64) }
func slLen(s Term) Term                  { return dtAcc("slen", "mk-slice", 2, s, SBV64) }
func slCap(s Term) Term                  { return dtAcc("scap", "mk-slice", 3, s, SBV64) }
func mkStr(ptr, ln Term) Term       { return app("mk-str", SStr, ptr, ln) }
func strPtr(s Term) Term            { return dtAcc("strp", "mk-str", 0, s, SBV64) }
func strLen(s Term) Term            { return dtAcc("strl", "mk-str", 1, s, SBV64) }
func mkIface(typ, val Term) Term    { return app("mk-iface", SIface, typ, val) }
func ifTyp(s Term) Term             { return dtAcc("ityp", "mk-iface", 0, s, SBV64) }
func ifVal(s Term) Term             { return dtAcc("ival", "mk-iface", 1, s, SBV64) }

// dtAcc applies accessor acc; if s is syntactically a constructor application it projects directly.
func dtAcc(acc, ctor string, idx int, s Term, sort Sort) Term {
	if strings.HasPrefix(s.S, "("+ctor+" ") {
		parts := splitTop(s.S[len(ctor)+2 : len(s.S)-1])
		if idx < len(parts) {
			return Term{parts[idx], sort}
		}
	}
	return app(acc, sort, s)
}

// splitTop splits a space separated list of s-expressions at top level.
func splitTop(s string) []string {
	var out []string
	depth := 0
	start := -1
	inBar := false
	for i := 0; i < len(s); i++ {
		c := s[i]
		if inBar {
			if c == '|' {
				inBar = false
			}
			continue
		}
		switch c {
		case '|':
			inBar = true
			if start < 0 {
				start = i
			}
		case '(':
			if start < 0 {
				start = i
			}
			depth++
		case ')':
			depth--
		case ' ', '\n', '\t':
			if depth == 0 && start >= 0 {
				out = append(out, s[start:i])
				start = -1
			}
		default:
			if start < 0 {
				start = i
			}
		}
	}
	if start >= 0 {
		out = append(out, s[start:])
	}
	return out
}

var nilSlice = mkSlice(i64(0), i64(0), i64(0), i64(0))
var nilIface = mkIface(i64(0), i64(0))

// sym quotes a symbol for SMT-LIB.
func sym(s string) string {
	ok := true
	for _, c := range s {
		if !(c >= 'a' && c <= 'z' || c >= 'A' && c <= 'Z' || c >= '0' && c <= '9' || strings.ContainsRune("_.$!@~-+", c)) {
			ok = false
			break
		}
	}
	if ok && s != "" && !(s[0] >= '0' && s[0] <= '9') {
		return s
	}
	return "|" + strings.ReplaceAll(strings.ReplaceAll(s, "|", "!"), "\\", "/") + "|"
}
