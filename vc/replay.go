package main

// ReplayResult describes an attempt to reproduce a solver counterexample on the real code.
type ReplayResult struct {
	Reproduced bool   `json:"reproduced"`
	Test       string `json:"test,omitempty"`
	Output     string `json:"output,omitempty"`
	Inputs     any    `json:"inputs,omitempty"`
	Note       string `json:"note,omitempty"`
}

// replay is filled in by replay_gen.go; nil means no driver is available for this function shape.
func (P *Program) replay(o *Oblig, vc *VC, repo string) *ReplayResult {
	return P.replayModel(o, vc, repo)
}
