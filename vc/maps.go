package main

import (
	"go/types"

	"golang.org/x/tools/go/ssa"
)

// map heaps: per map type, domain, values and length, indexed by the map reference.
func (f *frame) mapHeaps(mt *types.Map) (dn, vn, nn string, ds, vs, ns Sort, ks, es Sort) {
	tt := f.tt()
	k := fullType(mt.Key()) + "$" + fullType(mt.Elem())
	ks, es = tt.sortOf(mt.Key()), tt.sortOf(mt.Elem())
	dn, vn, nn = "MD$"+k, "MV$"+k, "MN$"+k
	ds = arraySort(SBV64, arraySort(ks, SBool))
	vs = arraySort(SBV64, arraySort(ks, es))
	ns = arraySort(SBV64, SBV64)
	return
}

func (f *frame) makeMap(x *ssa.MakeMap) {
	mt := x.Type().Underlying().(*types.Map)
	dn, _, nn, ds, _, ns, ks, _ := f.mapHeaps(mt)
	a := f.alloc(i64(1))
	f.setVal(x, a)
	a = f.vals[x]
	f.vc.assume(ule(i64(4096), a))
	empty := Term{"((as const " + string(arraySort(ks, SBool)) + ") false)", arraySort(ks, SBool)}
	f.st.set(dn, f.vc.define(dn, mkStore(f.st.get(dn, ds), a, empty)))
	f.st.set(nn, f.vc.define(nn, mkStore(f.st.get(nn, ns), a, i64(0))))
}

func (f *frame) mapLen(m Term, mt *types.Map) Term {
	_, _, nn, _, _, ns, _, _ := f.mapHeaps(mt)
	n := mkSelect(f.st.get(nn, ns), m, SBV64)
	if f.vc.binderDepth == 0 {
		f.vc.assume(mkAnd(sle(i64(0), n), sle(n, bvLit(64, 1<<40)))) // cardinality of a map
	}
	return mkIte(mkEq(m, i64(0)), i64(0), n)
}

// presentImpliesNonEmpty: instance of "the length is the cardinality of the domain".
func (f *frame) presentImpliesNonEmpty(m, present Term, mt *types.Map) {
	if f.vc.binderDepth > 0 {
		return
	}
	_, _, nn, _, _, ns, _, _ := f.mapHeaps(mt)
	n := mkSelect(f.st.get(nn, ns), m, SBV64)
	f.vc.assume(mkAnd(sle(i64(0), n), mkImplies(present, sle(i64(1), n))))
}

func (f *frame) lookup(x *ssa.Lookup) {
	tt := f.tt()
	vc := f.vc
	if _, ok := x.X.Type().Underlying().(*types.Basic); ok { // string index
		s := f.val(x.X)
		idx := f.intTo64(x.Index)
		f.oblige("index", x.Pos(), mkAnd(sle(i64(0), idx), slt(idx, strLen(s))))
		f.setVal(x, mkSelect(vc.smem(), bvAdd(strPtr(s), idx), SBV8))
		return
	}
	mt := x.X.Type().Underlying().(*types.Map)
	dn, vn, _, ds, vs, _, ks, es := f.mapHeaps(mt)
	m := f.val(x.X)
	k := f.val(x.Index)
	dom := mkSelect(f.st.get(dn, ds), m, arraySort(ks, SBool))
	in := mkAnd(mkNot(mkEq(m, i64(0))), mkSelect(dom, k, SBool))
	inN := vc.define(f.name(x)+"$ok", in)
	f.presentImpliesNonEmpty(m, inN, mt)
	v := mkSelect(mkSelect(f.st.get(vn, vs), m, arraySort(ks, es)), k, es)
	r := vc.define(f.name(x)+"$v", mkIte(inN, v, tt.zero(mt.Elem())))
	if hasRefs(mt.Elem()) {
		vc.assume(tt.typeInv(r, mt.Elem(), f.st.get("A$"+vn, SBV64)))
	}
	if x.CommaOk {
		f.tuples[x] = []Term{r, inN}
	} else {
		f.vals[x] = r
	}
}

func (f *frame) mapUpdate(x *ssa.MapUpdate) {
	mt := x.Map.Type().Underlying().(*types.Map)
	dn, vn, nn, ds, vs, ns, ks, es := f.mapHeaps(mt)
	m := f.val(x.Map)
	f.oblige("nilmap", x.Pos(), mkNot(mkEq(m, i64(0))))
	k := f.val(x.Key)
	v := f.val(x.Value)
	D := f.st.get(dn, ds)
	V := f.st.get(vn, vs)
	N := f.st.get(nn, ns)
	dom := mkSelect(D, m, arraySort(ks, SBool))
	was := mkSelect(dom, k, SBool)
	f.st.set(dn, f.vc.define(dn, mkStore(D, m, mkStore(dom, k, tTrue))))
	f.st.set(vn, f.vc.define(vn, mkStore(V, m, mkStore(mkSelect(V, m, arraySort(ks, es)), k, v))))
	n := mkSelect(N, m, SBV64)
	f.st.set(nn, f.vc.define(nn, mkStore(N, m, mkIte(was, n, bvAdd(n, i64(1))))))
}

func (f *frame) mapDelete(m, k Term, mt *types.Map) {
	dn, _, nn, ds, _, ns, ks, _ := f.mapHeaps(mt)
	D := f.st.get(dn, ds)
	N := f.st.get(nn, ns)
	dom := mkSelect(D, m, arraySort(ks, SBool))
	was := f.vc.define(f.prefix+"del$was", mkAnd(mkNot(mkEq(m, i64(0))), mkSelect(dom, k, SBool)))
	f.presentImpliesNonEmpty(m, was, mt)
	f.st.set(dn, f.vc.define(dn, mkIte(mkEq(m, i64(0)), D, mkStore(D, m, mkStore(dom, k, tFalse)))))
	n := mkSelect(N, m, SBV64)
	f.st.set(nn, f.vc.define(nn, mkIte(was, mkStore(N, m, bvSub(n, i64(1))), N)))
}

// next models one step of a range over a map or string: an arbitrary
// not-yet-exhausted iteration (order and completeness are not modelled).
func (f *frame) next(x *ssa.Next) {
	vc := f.vc
	tt := f.tt()
	rng := x.Iter.(*ssa.Range)
	tup := x.Type().(*types.Tuple)
	ok := vc.declareFresh(f.name(x)+"$ok", SBool)
	if x.IsString {
		s := f.val(rng.X)
		i := vc.declareFresh(f.name(x)+"$i", SBV64)
		r := vc.declareFresh(f.name(x)+"$r", bvSort(32))
		vc.assume(mkImplies(ok, mkAnd(sle(i64(0), i), slt(i, strLen(s)))))
		f.tuples[x] = []Term{ok, i, r}
		return
	}
	mt := rng.X.Type().Underlying().(*types.Map)
	dn, vn, _, ds, vs, _, ks, es := f.mapHeaps(mt)
	m := f.val(rng.X)
	var k, v Term
	kt, vt := tup.At(1).Type(), tup.At(2).Type()
	k = vc.declareFresh(f.name(x)+"$k", ks)
	dom := mkSelect(f.st.get(dn, ds), m, arraySort(ks, SBool))
	vc.assume(mkImplies(ok, mkAnd(mkNot(mkEq(m, i64(0))), mkSelect(dom, k, SBool))))
	f.presentImpliesNonEmpty(m, ok, mt)
	if hasRefs(mt.Key()) {
		vc.assume(tt.typeInv(k, mt.Key(), f.st.get("A$"+dn, SBV64)))
	}
	v = vc.define(f.name(x)+"$v", mkSelect(mkSelect(f.st.get(vn, vs), m, arraySort(ks, es)), k, es))
	if hasRefs(mt.Elem()) {
		vc.assume(tt.typeInv(v, mt.Elem(), f.st.get("A$"+vn, SBV64)))
	}
	// unused components have invalid type in the tuple
	kk, vv := k, v
	if b, isB := kt.(*types.Basic); isB && b.Kind() == types.Invalid {
		kk = Term{"false", SBool}
	}
	if b, isB := vt.(*types.Basic); isB && b.Kind() == types.Invalid {
		vv = Term{"false", SBool}
	}
	f.tuples[x] = []Term{ok, kk, vv}
}
