package main

import (
	"fmt"
	"go/token"
	"go/types"

	"golang.org/x/tools/go/ssa"
)

func (f *frame) instr(in ssa.Instruction) {
	vc := f.vc
	tt := f.tt()
	switch x := in.(type) {
	case *ssa.DebugRef:
	case *ssa.Alloc:
		T := deref(x.Type())
		addr := f.alloc(i64(tt.slots(T)))
		f.setVal(x, addr)
		addr = f.vals[x]
		vc.assume(mkAnd(ule(i64(4096), addr), ult(addr, f.curAlloc())))
		var pd *ptrDesc
		if isLocalAlloc(x) {
			// a struct whose address never escapes: kept out of the heaps
			vc.names["loc"]++
			pd = &ptrDesc{kind: pdLocal, local: fmt.Sprintf("L$%s%s#%d", f.prefix, x.Name(), vc.names["loc"])}
			f.ptrs[x] = pd
		}
		f.zeroMem(addr, T, pd)
	case *ssa.FieldAddr:
		base := f.val(x.X)
		f.nonNil(x.Pos(), base)
		st := deref(x.X.Type())
		si := tt.structOf(st)
		fi := si.fields[x.Field]
		f.setVal(x, bvAdd(base, i64(fi.offset)))
		if bpd := f.ptrDescOf(x.X); bpd != nil && bpd.kind == pdLocal {
			f.ptrs[x] = childDesc(bpd, base, si, x.Field)
			break
		}
		switch fi.typ.Underlying().(type) {
		case *types.Struct, *types.Array:
		default:
			f.ptrs[x] = &ptrDesc{kind: pdField, base: base, si: si, field: x.Field}
		}
	case *ssa.Field:
		si := tt.structOf(x.X.Type())
		f.setVal(x, tt.fieldOf(f.val(x.X), si, x.Field))
	case *ssa.IndexAddr:
		idx := f.intTo64(x.Index)
		switch u := x.X.Type().Underlying().(type) {
		case *types.Slice:
			s := f.val(x.X)
			f.oblige("index", x.Pos(), mkAnd(sle(i64(0), idx), slt(idx, slLen(s))))
			off := f.vc.define(f.name(x)+"$off", bvAdd(slOff(s), idx))
			f.setVal(x, bvAdd(slObj(s), bvMul(off, i64(tt.slots(u.Elem())))))
			if !isStructType(u.Elem()) {
				f.ptrs[x] = &ptrDesc{kind: pdElem, obj: slObj(s), off: off}
			}
		case *types.Pointer:
			arr := u.Elem().Underlying().(*types.Array)
			p := f.val(x.X)
			f.nonNil(x.Pos(), p)
			f.oblige("index", x.Pos(), mkAnd(sle(i64(0), idx), slt(idx, i64(arr.Len()))))
			f.setVal(x, bvAdd(p, bvMul(idx, i64(tt.slots(arr.Elem())))))
			if !isStructType(arr.Elem()) {
				f.ptrs[x] = &ptrDesc{kind: pdElem, obj: p, off: idx}
			}
		default:
			unsup("IndexAddr on %s", x.X.Type())
		}
	case *ssa.Index:
		idx := f.intTo64(x.Index)
		switch u := x.X.Type().Underlying().(type) {
		case *types.Array:
			f.oblige("index", x.Pos(), mkAnd(sle(i64(0), idx), slt(idx, i64(u.Len()))))
			f.setVal(x, mkSelect(f.val(x.X), idx, tt.sortOf(u.Elem())))
		case *types.Basic: // string
			s := f.val(x.X)
			f.oblige("index", x.Pos(), mkAnd(sle(i64(0), idx), slt(idx, strLen(s))))
			f.setVal(x, mkSelect(vc.smem(), bvAdd(strPtr(s), idx), SBV8))
		default:
			unsup("Index on %s", x.X.Type())
		}
	case *ssa.UnOp:
		f.unop(x)
	case *ssa.Store:
		addr := f.val(x.Addr)
		if !derivedAddr(x.Addr) {
			f.nonNil(x.Pos(), addr)
		}
		if pd := f.ptrDescOf(x.Val); pd != nil && pd.kind == pdField {
			unsup("field pointer stored to memory")
		}
		f.store(addr, deref(x.Addr.Type()), f.ptrDescOf(x.Addr), f.val(x.Val))
	case *ssa.BinOp:
		f.setVal(x, f.binop(x.Op, x.X, x.Y, x.Pos(), x.Type()))
	case *ssa.Convert:
		f.convert(x)
	case *ssa.ChangeType:
		f.setVal(x, f.retype(f.val(x.X), x.X.Type(), x.Type()))
		if pd := f.ptrDescOf(x.X); pd != nil {
			f.ptrs[x] = pd
		}
		if mc, ok := f.closures[x.X]; ok {
			f.closures[x] = mc
		}
	case *ssa.ChangeInterface:
		f.setVal(x, f.val(x.X))
	case *ssa.MakeInterface:
		f.makeInterface(x)
	case *ssa.TypeAssert:
		f.typeAssert(x)
	case *ssa.Extract:
		ts, ok := f.tuples[x.Tuple]
		if !ok {
			unsup("extract from unknown tuple %s", x.Tuple.Name())
		}
		f.setVal(x, ts[x.Index])
	case *ssa.Slice:
		f.sliceOp(x)
	case *ssa.MakeSlice:
		f.makeSlice(x)
	case *ssa.MakeMap:
		f.makeMap(x)
	case *ssa.MakeChan:
		a := f.alloc(i64(1))
		f.setVal(x, a)
	case *ssa.MakeClosure:
		a := f.alloc(i64(1))
		f.setVal(x, a)
		f.closures[x] = x
		for _, b := range x.Bindings {
			if pd := f.ptrDescOf(b); pd != nil && pd.kind == pdField {
				unsup("closure captures field pointer")
			}
		}
	case *ssa.Lookup:
		f.lookup(x)
	case *ssa.MapUpdate:
		f.mapUpdate(x)
	case *ssa.Range:
		// iterator: opaque
		f.vals[x] = i64(0)
	case *ssa.Next:
		f.next(x)
	case *ssa.Call:
		rs := f.call(x)
		f.bindResults(x, rs)
	case *ssa.Defer:
		f.deferInstr(x)
	case *ssa.RunDefers:
		f.runDefers(x)
	case *ssa.Go:
		// the goroutine body is not entered; anything it can reach may change at any later time
		f.st = vc.havocAll(f.st)
		vc.unsupp = append(vc.unsupp, "go statement abstracted in "+f.fn.String())
	case *ssa.Send:
		f.noteEvent("send", x.Chan, []Term{f.val(x.X)}, nil)
	case *ssa.Select:
		f.selectInstr(x)
	case *ssa.SliceToArrayPointer:
		s := f.val(x.X)
		arr := deref(x.Type()).Underlying().(*types.Array)
		f.oblige("slice", x.Pos(), sle(i64(arr.Len()), slLen(s)))
		_ = s
		unsup("slice to array pointer")
	case *ssa.MultiConvert:
		unsup("MultiConvert")
	default:
		unsup("instruction %T", in)
	}
}

func (f *frame) bindResults(x *ssa.Call, rs []Term) {
	sig := x.Call.Signature()
	n := sig.Results().Len()
	if len(rs) != n {
		panic(fmt.Sprintf("call %s: %d results for %d", x, len(rs), n))
	}
	switch n {
	case 0:
	case 1:
		f.setVal(x, rs[0])
	default:
		f.tuples[x] = rs
	}
}

// intTo64 returns an integer SSA value sign/zero-extended to 64 bits.
func (f *frame) intTo64(v ssa.Value) Term {
	return bvResize(f.val(v), 64, isSigned(v.Type()))
}

func (f *frame) unop(x *ssa.UnOp) {
	switch x.Op {
	case token.MUL: // load
		addr := f.val(x.X)
		if !derivedAddr(x.X) {
			f.nonNil(x.Pos(), addr)
		}
		T := deref(x.X.Type())
		if g, ok := x.X.(*ssa.Global); ok {
			if t, ok := f.vc.P.globalConst(f, g); ok {
				f.setVal(x, t)
				return
			}
		}
		v := f.load(addr, T, f.ptrDescOf(x.X))
		f.setVal(x, v)
	case token.NOT:
		f.setVal(x, mkNot(f.val(x.X)))
	case token.SUB:
		v := f.val(x.X)
		if v.Sort == SFloat {
			f.freshVal(x)
			return
		}
		f.setVal(x, app("bvneg", v.Sort, v))
	case token.XOR:
		v := f.val(x.X)
		f.setVal(x, app("bvnot", v.Sort, v))
	case token.ARROW:
		// channel receive: arbitrary value
		var got Term
		if x.CommaOk {
			tup := x.Type().(*types.Tuple)
			v := f.freshOf("recv", tup.At(0).Type())
			ok := f.vc.declareFresh(f.prefix+"recvok", SBool)
			f.tuples[x] = []Term{v, ok}
			got = v
		} else {
			got = f.freshVal(x)
		}
		if w, ok := f.vc.watched("recv:" + valueName(x.X)); ok {
			f.recordEvent(w, nil, []Term{got})
		}
	default:
		unsup("unop %s", x.Op)
	}
}

func (f *frame) binop(op token.Token, X, Y ssa.Value, pos token.Pos, rt types.Type) Term {
	a, b := f.val(X), f.val(Y)
	xt := X.Type()
	signed := isSigned(xt)
	if a.Sort == SFloat {
		switch op {
		case token.EQL, token.NEQ, token.LSS, token.LEQ, token.GTR, token.GEQ:
			return f.vc.declareFresh(f.prefix+"fcmp", SBool)
		}
		return f.vc.declareFresh(f.prefix+"fop", SFloat)
	}
	switch op {
	case token.ADD:
		if a.Sort == SStr {
			return f.strConcat(a, b)
		}
		return bvAdd(a, b)
	case token.SUB:
		return bvSub(a, b)
	case token.MUL:
		return bvMul(a, b)
	case token.QUO:
		f.oblige("div", pos, mkNot(mkEq(b, f.tt().zero(Y.Type()))))
		if _, constDiv := Y.(*ssa.Const); !constDiv && a.Sort == SBV64 && f.vc.P.abstractDiv {
			f.vc.P.sawSymbolicDiv = true
			// symbolic divisor: bit-blasting 64-bit division stalls every solver; over-approximate the quotient
			// by its range (sound for proofs; a refutation that depends on it does not replay)
			q := f.vc.declareFresh(f.prefix+"quo", a.Sort)
			zero := f.tt().zero(Y.Type())
			if signed {
				f.vc.assume(mkImplies(mkAnd(sle(zero, a), slt(zero, b)), mkAnd(sle(zero, q), sle(q, a))))
			} else {
				f.vc.assume(ule(q, a))
			}
			return q
		}
		if _, constDiv := Y.(*ssa.Const); !constDiv {
			f.vc.P.sawSymbolicDiv = true
		}
		if signed {
			return app("bvsdiv", a.Sort, a, b)
		}
		return app("bvudiv", a.Sort, a, b)
	case token.REM:
		f.oblige("div", pos, mkNot(mkEq(b, f.tt().zero(Y.Type()))))
		if _, constDiv := Y.(*ssa.Const); !constDiv && a.Sort == SBV64 && f.vc.P.abstractDiv {
			f.vc.P.sawSymbolicDiv = true
			r := f.vc.declareFresh(f.prefix+"rem", a.Sort)
			zero := f.tt().zero(Y.Type())
			if signed {
				f.vc.assume(mkImplies(mkAnd(sle(zero, a), slt(zero, b)), mkAnd(sle(zero, r), slt(r, b), sle(r, a))))
			} else {
				f.vc.assume(mkAnd(ult(r, b), ule(r, a)))
			}
			return r
		}
		if _, constDiv := Y.(*ssa.Const); !constDiv {
			f.vc.P.sawSymbolicDiv = true
		}
		if signed {
			return app("bvsrem", a.Sort, a, b)
		}
		return app("bvurem", a.Sort, a, b)
	case token.AND:
		return app("bvand", a.Sort, a, b)
	case token.OR:
		return app("bvor", a.Sort, a, b)
	case token.XOR:
		return app("bvxor", a.Sort, a, b)
	case token.AND_NOT:
		return app("bvand", a.Sort, a, app("bvnot", b.Sort, b))
	case token.SHL, token.SHR:
		w, _ := a.Sort.isBV()
		cw, _ := b.Sort.isBV()
		if isSigned(Y.Type()) {
			if _, isConst := Y.(*ssa.Const); !isConst {
				f.oblige("shift", pos, sle(f.tt().zero(Y.Type()), b))
			}
		}
		var cnt Term
		big := tFalse
		if cw > w {
			big = ule(bvLit(cw, uint64(w)), b)
			cnt = bvResize(b, w, false)
		} else {
			cnt = bvResize(b, w, false)
		}
		if op == token.SHL {
			return mkIte(big, bvLit(w, 0), app("bvshl", a.Sort, a, cnt))
		}
		if signed {
			return mkIte(big, app("bvashr", a.Sort, a, bvLit(w, uint64(w-1))), app("bvashr", a.Sort, a, cnt))
		}
		return mkIte(big, bvLit(w, 0), app("bvlshr", a.Sort, a, cnt))
	case token.EQL:
		return f.equal(a, b, xt)
	case token.NEQ:
		return mkNot(f.equal(a, b, xt))
	case token.LSS, token.LEQ, token.GTR, token.GEQ:
		if a.Sort == SStr {
			return f.vc.declareFresh(f.prefix+"strcmp", SBool)
		}
		ops := map[token.Token][2]string{token.LSS: {"bvslt", "bvult"}, token.LEQ: {"bvsle", "bvule"}, token.GTR: {"bvsgt", "bvugt"}, token.GEQ: {"bvsge", "bvuge"}}
		if signed {
			return bvCmp(ops[op][0], a, b)
		}
		return bvCmp(ops[op][1], a, b)
	}
	unsup("binop %s", op)
	return Term{}
}

// equal is Go's == on values of type t.
func (f *frame) equal(a, b Term, t types.Type) Term {
	switch a.Sort {
	case SStr:
		return f.strEqual(a, b)
	case SIface:
		bothNil := mkAnd(mkEq(ifTyp(a), i64(0)), mkEq(ifTyp(b), i64(0)))
		if a.S == nilIface.S {
			return mkEq(ifTyp(b), i64(0))
		}
		if b.S == nilIface.S {
			return mkEq(ifTyp(a), i64(0))
		}
		same := mkAnd(mkEq(ifTyp(a), ifTyp(b)), mkEq(ifVal(a), ifVal(b)))
		unk := f.vc.declareFresh(f.prefix+"ifeq", SBool)
		ptrLike := app("ptrlike", SBool, ifTyp(a))
		f.vc.needPtrLike()
		return mkOr(bothNil, same, mkAnd(mkNot(mkEq(ifTyp(a), i64(0))), mkEq(ifTyp(a), ifTyp(b)), mkNot(ptrLike), unk))
	case SSlice:
		// only comparison with nil is legal
		if a.S == nilSlice.S {
			return mkEq(slObj(b), i64(0))
		}
		return mkEq(slObj(a), i64(0))
	}
	return mkEq(a, b)
}

func (vc *VC) needPtrLike() {
	if !vc.declared["ptrlike"] {
		vc.declared["ptrlike"] = true
		vc.items = append(vc.items, Item{kind: itDecl, text: "(declare-fun ptrlike ((_ BitVec 64)) Bool)"})
	}
}

// strEqual compares string contents; constants are compared byte by byte.
func (f *frame) strEqual(a, b Term) Term {
	vc := f.vc
	for s, t := range vc.strs {
		if t.S == b.S {
			a, b = b, a
		}
		if t.S == a.S {
			cs := []Term{mkEq(strLen(b), i64(int64(len(s))))}
			for i := 0; i < len(s); i++ {
				cs = append(cs, mkEq(mkSelect(vc.smem(), bvAdd(strPtr(b), i64(int64(i))), SBV8), bvLit(8, uint64(s[i]))))
			}
			if vc.binderDepth > 0 {
				return mkAnd(cs...)
			}
			r := vc.define(f.prefix+"streq", mkAnd(cs...))
			// interning instance: equal content means the very same string value
			vc.assume(mkEq(r, mkEq(a, b)))
			return r
		}
	}
	// Strings are modelled as interned values: equal contents have the same (address, length), so
	// two non-constant strings are equal iff their representations are (every real execution has
	// such a canonical model; map keys rely on the same convention).
	return mkEq(a, b)
}

func (f *frame) strConcat(a, b Term) Term {
	vc := f.vc
	r := vc.declareFresh(f.prefix+"cat", SStr)
	n := bvAdd(strLen(a), strLen(b))
	vc.assume(mkAnd(mkEq(strLen(r), n), ult(strPtr(r), bvLit(64, 1<<62))))
	vc.hasQuant = true
	sm := vc.smem().S
	q1 := fmt.Sprintf("(forall ((i!s (_ BitVec 64))) (=> (and (bvsle #x0000000000000000 i!s) (bvslt i!s %s)) (= (select %s (bvadd %s i!s)) (select %s (bvadd %s i!s)))))", strLen(a).S, sm, strPtr(r).S, sm, strPtr(a).S)
	q2 := fmt.Sprintf("(forall ((i!s (_ BitVec 64))) (=> (and (bvsle #x0000000000000000 i!s) (bvslt i!s %s)) (= (select %s (bvadd %s (bvadd %s i!s))) (select %s (bvadd %s i!s)))))", strLen(b).S, sm, strPtr(r).S, strLen(a).S, sm, strPtr(b).S)
	vc.assume(Term{q1, SBool})
	vc.assume(Term{q2, SBool})
	return r
}

func (f *frame) convert(x *ssa.Convert) {
	vc := f.vc
	tt := f.tt()
	from, to := x.X.Type(), x.Type()
	v := f.val(x.X)
	fs, ts := tt.sortOf(from), tt.sortOf(to)
	if _, ok := fs.isBV(); ok {
		if n, ok := ts.isBV(); ok {
			f.setVal(x, bvResize(v, n, isSigned(from)))
			return
		}
	}
	switch {
	case isStructType(from) && isStructType(to):
		f.setVal(x, f.retype(v, from, to))
	case fs == ts && fs != SSlice:
		f.setVal(x, v)
	case fs == SStr && ts == SSlice: // []byte(s)
		n := strLen(v)
		ptr := f.alloc(i64(1))
		el := to.Underlying().(*types.Slice).Elem()
		if w, _ := tt.sortOf(el).isBV(); w != 8 {
			unsup("string to non-byte slice")
		}
		hn, hs := tt.elemHeap(el)
		h := f.st.get(hn, hs)
		f.st.set(hn, vc.blockCopy(hn, h, vc.smem(), ptr, i64(0), strPtr(v), n))
		f.setVal(x, mkSlice(ptr, i64(0), n, n))
		vc.assume(ule(i64(4096), ptr))
	case fs == SSlice && ts == SStr: // string(b)
		el := from.Underlying().(*types.Slice).Elem()
		if w, _ := tt.sortOf(el).isBV(); w != 8 {
			unsup("non-byte slice to string")
		}
		r := vc.declareFresh(f.prefix+"str", SStr)
		vc.assume(mkAnd(mkEq(strLen(r), slLen(v)), ult(strPtr(r), bvLit(64, 1<<62))))
		hn, hs := tt.elemHeap(el)
		h := f.st.get(hn, hs)
		vc.hasQuant = true
		q := fmt.Sprintf("(forall ((i!s (_ BitVec 64))) (=> (and (bvsle #x0000000000000000 i!s) (bvslt i!s %s)) (= (select %s (bvadd %s i!s)) (select (select %s %s) (bvadd %s i!s)))))", slLen(v).S, vc.smem().S, strPtr(r).S, h.S, slObj(v).S, slOff(v).S)
		vc.assume(Term{q, SBool})
		f.setVal(x, r)
	case fs == SSlice && ts == SSlice:
		f.setVal(x, v)
	case ts == SFloat || fs == SFloat:
		f.freshVal(x)
	case ts == SStr:
		f.freshVal(x) // int -> string (rune)
	case fs == SBV64 && ts == SBV64:
		f.setVal(x, v)
	default:
		unsup("convert %s -> %s", from, to)
	}
}

func (f *frame) isPtrLikeType(t types.Type) bool {
	switch t.Underlying().(type) {
	case *types.Pointer, *types.Map, *types.Chan, *types.Signature:
		return true
	}
	return false
}

func (f *frame) makeInterface(x *ssa.MakeInterface) {
	tt := f.tt()
	T := x.X.Type()
	id := i64(int64(tt.typeID(T)))
	v := f.val(x.X)
	if pd := f.ptrDescOf(x.X); pd != nil && pd.kind == pdField {
		unsup("field pointer boxed in interface")
	}
	var payload Term
	if f.isPtrLikeType(T) {
		payload = v
	} else {
		// boxed value
		addr := f.alloc(i64(1))
		hn, hs := tt.boxHeap(T)
		f.st.set(hn, f.vc.define(hn, mkStore(f.st.get(hn, hs), addr, v)))
		payload = addr
	}
	f.setVal(x, mkIface(id, payload))
}

func (f *frame) typeAssert(x *ssa.TypeAssert) {
	tt := f.tt()
	vc := f.vc
	v := f.val(x.X)
	var ok, res Term
	if types.IsInterface(x.AssertedType) {
		// asserting to an interface type: depends on the dynamic type's method set
		if iface := x.AssertedType.Underlying().(*types.Interface); iface.Empty() {
			ok = mkNot(mkEq(ifTyp(v), i64(0)))
		} else if types.AssignableTo(x.X.Type(), x.AssertedType) {
			ok = mkNot(mkEq(ifTyp(v), i64(0)))
		} else {
			fn := sym("impl$" + fullType(x.AssertedType))
			if !vc.declared[fn] {
				vc.declared[fn] = true
				vc.items = append(vc.items, Item{kind: itDecl, text: fmt.Sprintf("(declare-fun %s ((_ BitVec 64)) Bool)", fn)})
			}
			ok = mkAnd(mkNot(mkEq(ifTyp(v), i64(0))), app(fn, SBool, ifTyp(v)))
		}
		res = v
	} else {
		id := i64(int64(tt.typeID(x.AssertedType)))
		ok = mkEq(ifTyp(v), id)
		if f.isPtrLikeType(x.AssertedType) {
			res = ifVal(v)
		} else {
			hn, hs := tt.boxHeap(x.AssertedType)
			res = mkSelect(f.st.get(hn, hs), ifVal(v), tt.sortOf(x.AssertedType))
		}
	}
	if x.CommaOk {
		okN := vc.define(f.name(x)+"$ok", ok)
		r := vc.define(f.name(x)+"$v", mkIte(okN, res, tt.zero(x.AssertedType)))
		if hasRefs(x.AssertedType) {
			vc.assume(tt.typeInv(r, x.AssertedType, f.curAlloc()))
		}
		f.tuples[x] = []Term{r, okN}
		return
	}
	f.oblige("assert", x.Pos(), ok)
	f.setVal(x, res)
	if hasRefs(x.AssertedType) {
		vc.assume(tt.typeInv(f.vals[x], x.AssertedType, f.curAlloc()))
	}
}

func (f *frame) sliceOp(x *ssa.Slice) {
	opt := func(v ssa.Value, def Term) Term {
		if v == nil {
			return def
		}
		return f.intTo64(v)
	}
	switch u := x.X.Type().Underlying().(type) {
	case *types.Slice:
		s := f.val(x.X)
		lo := opt(x.Low, i64(0))
		hi := opt(x.High, slLen(s))
		mx := opt(x.Max, slCap(s))
		f.oblige("slice", x.Pos(), mkAnd(sle(i64(0), lo), sle(lo, hi), sle(hi, mx), sle(mx, slCap(s))))
		_ = u
		f.setVal(x, mkSlice(slObj(s), mkIte(mkEq(slObj(s), i64(0)), i64(0), bvAdd(slOff(s), lo)), bvSub(hi, lo), bvSub(mx, lo)))
	case *types.Basic: // string
		s := f.val(x.X)
		lo := opt(x.Low, i64(0))
		hi := opt(x.High, strLen(s))
		f.oblige("slice", x.Pos(), mkAnd(sle(i64(0), lo), sle(lo, hi), sle(hi, strLen(s))))
		f.setVal(x, mkStr(bvAdd(strPtr(s), lo), bvSub(hi, lo)))
	case *types.Pointer: // *[N]T
		arr := u.Elem().Underlying().(*types.Array)
		p := f.val(x.X)
		f.nonNil(x.Pos(), p)
		n := i64(arr.Len())
		lo := opt(x.Low, i64(0))
		hi := opt(x.High, n)
		mx := opt(x.Max, n)
		f.oblige("slice", x.Pos(), mkAnd(sle(i64(0), lo), sle(lo, hi), sle(hi, mx), sle(mx, n)))
		f.setVal(x, mkSlice(p, lo, bvSub(hi, lo), bvSub(mx, lo)))
	default:
		unsup("slice of %s", x.X.Type())
	}
}

func (f *frame) makeSlice(x *ssa.MakeSlice) {
	tt := f.tt()
	vc := f.vc
	ln := f.intTo64(x.Len)
	cp := f.intTo64(x.Cap)
	lim := bvLit(64, 1<<40)
	f.oblige("make", x.Pos(), mkAnd(sle(i64(0), ln), sle(ln, cp)))
	// allocation larger than the model's address budget is treated as out of memory, not modelled
	vc.assume(sle(cp, lim))
	el := x.Type().Underlying().(*types.Slice).Elem()
	sl := tt.slots(el)
	units := i64(1)
	if isStructType(el) {
		units = vc.define(f.prefix+"mk$n", bvAdd(bvMul(cp, i64(sl)), i64(1)))
	}
	ptr := f.alloc(units)
	vc.assume(ule(i64(4096), ptr))
	if !isStructType(el) {
		if _, isArr := el.Underlying().(*types.Array); isArr {
			unsup("slice of arrays")
		}
		// a fresh object: its whole inner array is zero
		hn, hs := tt.elemHeap(el)
		es := tt.sortOf(el)
		zeroArr := Term{fmt.Sprintf("((as const %s) %s)", arraySort(SBV64, es), tt.zero(el).S), arraySort(SBV64, es)}
		f.st.set(hn, vc.define(hn, mkStore(f.st.get(hn, hs), ptr, zeroArr)))
	} else {
		f.zeroRange(ptr, i64(0), cp, el)
	}
	f.setVal(x, mkSlice(ptr, i64(0), ln, cp))
}

// zeroRange zero-fills n elements of type el starting at element offset off of object obj.
func (f *frame) zeroRange(obj, off, n Term, el types.Type) {
	tt := f.tt()
	if !isStructType(el) {
		if _, isArr := el.Underlying().(*types.Array); isArr {
			unsup("slice of arrays")
		}
		hn, hs := tt.elemHeap(el)
		f.st.set(hn, f.vc.blockFill(hn, f.st.get(hn, hs), obj, off, n, tt.zero(el)))
		return
	}
	sl := i64(tt.slots(el))
	f.zeroFlat(bvAdd(obj, bvMul(off, sl)), bvMul(n, sl), el)
}

// zeroFlat zero-fills the field heaps of struct type el over the flat address range [ptr, ptr+n).
func (f *frame) zeroFlat(ptr, n Term, el types.Type) {
	tt := f.tt()
	switch u := el.Underlying().(type) {
	case *types.Struct:
		si := tt.structOf(el)
		for i, fi := range si.fields {
			switch fi.typ.Underlying().(type) {
			case *types.Struct:
				f.zeroFlat(ptr, n, fi.typ) // over-approximate: fills the whole range of the nested heaps
			case *types.Array:
				unsup("slice of structs containing arrays")
			default:
				hn, hs := tt.fieldHeap(si, i)
				f.st.set(hn, f.vc.rangeFill(hn, f.st.get(hn, hs), ptr, n, tt.zero(fi.typ)))
			}
		}
	default:
		_ = u
		unsup("zeroFlat of %s", el)
	}
}

// copyRange copies n elements of type el from (sobj, soff) to (dobj, doff).
func (f *frame) copyRange(dobj, doff, sobj, soff, n Term, el types.Type) {
	tt := f.tt()
	if !isStructType(el) {
		hn, hs := tt.elemHeap(el)
		h := f.st.get(hn, hs)
		es := tt.sortOf(el)
		f.st.set(hn, f.vc.blockCopy(hn, h, mkSelect(h, sobj, arraySort(SBV64, es)), dobj, doff, soff, n))
		return
	}
	sl := i64(tt.slots(el))
	f.copyFlat(bvAdd(dobj, bvMul(doff, sl)), bvAdd(sobj, bvMul(soff, sl)), bvMul(n, sl), el)
}

func (f *frame) copyFlat(dst, src, n Term, el types.Type) {
	tt := f.tt()
	si := tt.structOf(el)
	for i, fi := range si.fields {
		switch fi.typ.Underlying().(type) {
		case *types.Struct:
			f.copyFlat(dst, src, n, fi.typ)
		case *types.Array:
			unsup("slice of structs containing arrays")
		default:
			hn, hs := tt.fieldHeap(si, i)
			h := f.st.get(hn, hs)
			f.st.set(hn, f.vc.rangeCopy(hn, h, h, dst, src, n, fi.sort))
		}
	}
}

// derivedAddr: addresses whose validity was already established where they were formed
// (element of a bounds-checked index, field of a nil-checked base, fresh allocation, global).
func derivedAddr(v ssa.Value) bool {
	switch v.(type) {
	case *ssa.IndexAddr, *ssa.FieldAddr, *ssa.Alloc, *ssa.Global:
		return true
	}
	return false
}

// retype converts a value between types with identical underlying structure (struct datatypes differ per named type).
func (f *frame) retype(v Term, from, to types.Type) Term {
	tt := f.tt()
	if tt.sortOf(from) == tt.sortOf(to) {
		return v
	}
	if isStructType(from) && isStructType(to) {
		sf, st := tt.structOf(from), tt.structOf(to)
		if len(sf.fields) != len(st.fields) {
			unsup("struct conversion with different shapes")
		}
		if len(st.fields) == 0 {
			return Term{st.ctor, st.sort}
		}
		var args []Term
		for i := range sf.fields {
			args = append(args, f.retype(tt.fieldOf(v, sf, i), sf.fields[i].typ, st.fields[i].typ))
		}
		return app(st.ctor, st.sort, args...)
	}
	unsup("conversion %s -> %s", from, to)
	return Term{}
}

// isLocalAlloc: a struct (without arrays) whose address is only used for field access, whole loads and stores.
func isLocalAlloc(a *ssa.Alloc) bool {
	T := deref(a.Type())
	if !plainStruct(T) {
		return false
	}
	return addrUsesLocal(a)
}

func plainStruct(t types.Type) bool {
	st, ok := t.Underlying().(*types.Struct)
	if !ok {
		return false
	}
	for i := 0; i < st.NumFields(); i++ {
		switch u := st.Field(i).Type().Underlying().(type) {
		case *types.Array:
			return false
		case *types.Struct:
			if !plainStruct(st.Field(i).Type()) {
				return false
			}
		default:
			_ = u
		}
	}
	return true
}

func addrUsesLocal(v ssa.Value) bool {
	refs := v.Referrers()
	if refs == nil {
		return false
	}
	for _, r := range *refs {
		switch x := r.(type) {
		case *ssa.DebugRef:
		case *ssa.FieldAddr:
			if x.X != v || !addrUsesLocal(x) {
				return false
			}
		case *ssa.UnOp:
			if x.Op != token.MUL {
				return false
			}
		case *ssa.Store:
			if x.Addr != v || x.Val == v {
				return false
			}
		default:
			return false
		}
	}
	return true
}
