package main

import (
	"fmt"
	"go/types"
	"strings"
	"os"
	"path/filepath"
	"runtime"

	"golang.org/x/tools/go/ssa"
)

// modSet infers the set of heap names fn may write (transitively). "*" means unknown.
// The inference is syntactic over SSA and errs on the side of "*".
func (P *Program) modSet(fn *ssa.Function) map[string]bool {
	if P.modFinal[fn] {
		return P.mods[fn]
	}
	if P.modFinal == nil {
		P.modFinal = map[*ssa.Function]bool{}
	}
	for round := 0; round < 50; round++ {
		P.modVisited = map[*ssa.Function]bool{}
		P.modChanged = false
		P.modCompute(fn)
		if !P.modChanged {
			break
		}
	}
	for f := range P.modVisited {
		P.modFinal[f] = true
	}
	return P.mods[fn]
}

// modCompute is one depth-first pass of the fixpoint iteration.
func (P *Program) modCompute(fn *ssa.Function) map[string]bool {
	if P.modFinal[fn] || P.modVisited[fn] {
		if m := P.mods[fn]; m != nil {
			return m
		}
		return map[string]bool{}
	}
	P.modVisited[fn] = true
	m := map[string]bool{}
	for k := range P.mods[fn] {
		m[k] = true
	}
	all := func() {
		if !m["*"] && os.Getenv("VC_TRACE") != "" {
			_, file, line, _ := runtime.Caller(1)
			fmt.Fprintf(os.Stderr, "modset * in %s at %s:%d\n", fn, filepath.Base(file), line)
		}
		m["*"] = true
	}
	finish := func() map[string]bool {
		normMods(m)
		if len(m) != len(P.mods[fn]) || P.mods[fn] == nil {
			P.modChanged = true
		}
		P.mods[fn] = m
		return m
	}
	if ms, ok := externalMods(fn); ok {
		for _, k := range ms {
			m[k] = true
		}
		return finish()
	}
	if fn.Blocks == nil || m["*"] {
		all()
		return finish()
	}
	tt := P.tt
	fresh := false // while true, recorded names are "N$"-prefixed: only newly allocated objects change
	put := func(hn string) {
		if fresh {
			if !m[hn] {
				m["N$"+hn] = true
			}
			return
		}
		if os.Getenv("VC_TRACE") != "" && !m[hn] {
			_, file, line, _ := runtime.Caller(2)
			fmt.Fprintf(os.Stderr, "modset plain %s in %s via %s:%d\n", hn, fn.Name(), filepath.Base(file), line)
		}
		m[hn] = true
	}
	var addType func(t types.Type)
	addType = func(t types.Type) {
		defer func() {
			if r := recover(); r != nil {
				all()
			}
		}()
		switch u := t.Underlying().(type) {
		case *types.Struct:
			si := tt.structOf(t)
			for i, fi := range si.fields {
				switch fi.typ.Underlying().(type) {
				case *types.Struct, *types.Array:
					addType(fi.typ)
				default:
					hn, _ := tt.fieldHeap(si, i)
					put(hn)
				}
			}
		case *types.Array:
			addType(u.Elem())
		default:
			hn, _ := tt.elemHeap(t)
			put(hn)
		}
	}
	// localSlice: the slice value was created in this function (make, nil, append chains on such, clones)
	lsVisiting := map[ssa.Value]bool{}
	var localSlice func(v ssa.Value, depth int) bool
	localSlice = func(v ssa.Value, depth int) bool {
		if depth > 12 {
			return false
		}
		if lsVisiting[v] {
			return true // cycle through a loop phi: decided by the other edges
		}
		lsVisiting[v] = true
		defer delete(lsVisiting, v)
		switch x := v.(type) {
		case *ssa.MakeSlice:
			return true
		case *ssa.Const:
			return x.Value == nil
		case *ssa.Slice:
			if _, isPtr := x.X.Type().Underlying().(*types.Pointer); isPtr {
				_, isAlloc := x.X.(*ssa.Alloc)
				return isAlloc
			}
			return localSlice(x.X, depth+1)
		case *ssa.Phi:
			for _, e := range x.Edges {
				if e != ssa.Value(x) && !localSlice(e, depth+1) {
					return false
				}
			}
			return true
		case *ssa.Call:
			if bi, ok := x.Call.Value.(*ssa.Builtin); ok && bi.Name() == "append" {
				return localSlice(x.Call.Args[0], depth+1)
			}
			if sc := x.Call.StaticCallee(); sc != nil && sc.String() == "bytes.Clone" {
				return true
			}
		}
		return false
	}
	// rootAlloc: the address is a field/element path into an object allocated in this function
	var rootAlloc func(v ssa.Value) bool
	rootAlloc = func(v ssa.Value) bool {
		switch x := v.(type) {
		case *ssa.Alloc:
			return true
		case *ssa.FieldAddr:
			return rootAlloc(x.X)
		case *ssa.IndexAddr:
			if _, isPtr := x.X.Type().Underlying().(*types.Pointer); isPtr {
				return rootAlloc(x.X)
			}
			if localSlice(x.X, 0) {
				return true
			}
			if sl, ok := x.X.(*ssa.Slice); ok {
				return rootAlloc(sl.X)
			}
		}
		return false
	}
	// paramRoot: addr is a field path into the struct pointed to by parameter k: returns k and the
	// offset of the struct that directly contains the addressed field.
	var paramRoot func(v ssa.Value) (int, int64, bool)
	paramRoot = func(v ssa.Value) (int, int64, bool) {
		switch x := v.(type) {
		case *ssa.Parameter:
			for i, p := range fn.Params {
				if p == x {
					if _, isPtr := x.Type().Underlying().(*types.Pointer); isPtr {
						return i, 0, true
					}
				}
			}
		case *ssa.FieldAddr:
			k, off, ok := paramRoot(x.X)
			if !ok {
				return 0, 0, false
			}
			si := tt.structOf(deref(x.X.Type()))
			return k, off + si.fields[x.Field].offset, true
		}
		return 0, 0, false
	}
	addStore := func(addr ssa.Value) {
		defer func() {
			if r := recover(); r != nil {
				all()
			}
		}()
		if fa, ok := addr.(*ssa.FieldAddr); ok {
			if k, off, ok := paramRoot(fa.X); ok {
				si := tt.structOf(deref(fa.X.Type()))
				switch si.fields[fa.Field].typ.Underlying().(type) {
				case *types.Struct, *types.Array:
				default:
					// only the object the parameter points to changes
					hn, _ := tt.fieldHeap(si, fa.Field)
					if !m[hn] {
						m[fmt.Sprintf("@%d+%d$%s", k, off, hn)] = true
					}
					return
				}
			}
		}
		if rootAlloc(addr) {
			fresh = true
			defer func() { fresh = false }()
		}
		T := deref(addr.Type())
		if fa, ok := addr.(*ssa.FieldAddr); ok {
			st := deref(fa.X.Type())
			si := tt.structOf(st)
			switch si.fields[fa.Field].typ.Underlying().(type) {
			case *types.Struct, *types.Array:
				addType(T)
			default:
				hn, _ := tt.fieldHeap(si, fa.Field)
				put(hn)
			}
			return
		}
		addType(T)
		if _, isParam := addr.(*ssa.Parameter); isParam {
			// a *T parameter may point at a struct field in the caller; handled at the call site
		}
	}
	for _, b := range fn.Blocks {
		for _, in := range b.Instrs {
			switch x := in.(type) {
			case *ssa.Store:
				addStore(x.Addr)
			case *ssa.Alloc, *ssa.MakeSlice, *ssa.MakeMap, *ssa.MakeChan, *ssa.MakeClosure:
				m["$alloc"] = true
				fresh = true
				if a, ok := x.(*ssa.Alloc); ok {
					addType(deref(a.Type()))
				}
				if ms, ok := x.(*ssa.MakeSlice); ok {
					addType(ms.Type().Underlying().(*types.Slice).Elem())
				}
				if mm, ok := x.(*ssa.MakeMap); ok {
					mt := mm.Type().Underlying().(*types.Map)
					k := fullType(mt.Key()) + "$" + fullType(mt.Elem())
					put("MD$" + k)
					put("MV$" + k)
					put("MN$" + k)
				}
				fresh = false
			case *ssa.MakeInterface:
				m["$alloc"] = true
				func() {
					defer func() {
						if r := recover(); r != nil {
							all()
						}
					}()
					if !isPtrLike(x.X.Type()) {
						hn, _ := tt.boxHeap(x.X.Type())
						fresh = true
						put(hn)
						fresh = false
					}
				}()
			case *ssa.Convert:
				m["$alloc"] = true
				if sl, ok := x.Type().Underlying().(*types.Slice); ok {
					addType(sl.Elem())
				}
			case *ssa.MapUpdate:
				addMapHeaps(m, x.Map.Type().Underlying().(*types.Map))
			case *ssa.Go, *ssa.Select, *ssa.Send:
				if _, isGo := x.(*ssa.Go); isGo {
					all()
				}
			case *ssa.Call, *ssa.Defer:
				var c *ssa.CallCommon
				if cc, ok := x.(*ssa.Call); ok {
					c = &cc.Call
				} else {
					c = &x.(*ssa.Defer).Call
				}
				if bi, ok := c.Value.(*ssa.Builtin); ok {
					switch bi.Name() {
					case "append", "copy":
						m["$alloc"] = true
						if localSlice(c.Args[0], 0) {
							fresh = true
						}
						addType(c.Args[0].Type().Underlying().(*types.Slice).Elem())
						fresh = false
					case "delete":
						addMapHeaps(m, c.Args[0].Type().Underlying().(*types.Map))
					case "clear":
						if mt, ok := c.Args[0].Type().Underlying().(*types.Map); ok {
							addMapHeaps(m, mt)
						} else if sl, ok := c.Args[0].Type().Underlying().(*types.Slice); ok {
							addType(sl.Elem())
						} else {
							all()
						}
					}
					continue
				}
				if c.IsInvoke() {
					for _, a := range c.Args {
						switch av := a.(type) {
						case *ssa.FieldAddr:
							if !isStructPtr(av.Type()) {
								addStore(av)
							}
						case *ssa.IndexAddr:
							addStore(av)
						}
					}
					if ms, ok := invokeMods(c); ok {
						for _, k := range ms {
							m[k] = true
						}
						continue
					}
					// class-hierarchy analysis: the union over the in-repo implementations. Implementations
					// outside the repository are assumed to write only what their arguments reach.
					if iface, ok := c.Value.Type().Underlying().(*types.Interface); ok {
						impls := P.implementations(iface, c.Method)
						if len(impls) > 0 {
							for _, im := range impls {
								for k := range P.modCompute(im.fn) {
									if strings.HasPrefix(k, "@") {
										k = k[strings.Index(k, "$")+1:] // receiver objects of interface calls: whole heap
									}
									m[k] = true
								}
							}
							if m["*"] {
								return finish()
							}
							continue
						}
					}
					all()
					continue
				}
				callee := c.StaticCallee()
				if callee != nil && callee.String() == "errors.As" && len(c.Args) == 2 {
					// the target is written
					if mi, ok := c.Args[1].(*ssa.MakeInterface); ok {
						if _, isPtr := mi.X.Type().Underlying().(*types.Pointer); isPtr {
							addStore(mi.X)
							m["$alloc"] = true
							continue
						}
					}
				}
				if callee == nil {
					if mc, ok := c.Value.(*ssa.MakeClosure); ok {
						callee = mc.Fn.(*ssa.Function)
					} else if isHashCtor(c.Value.Type()) {
						m["$alloc"] = true
						continue
					} else if ok := isAssumedPure(valueName(c.Value)); ok {
						continue
					} else if _, isParam := c.Value.(*ssa.Parameter); isParam {
						// a function passed in by the caller: its effects are accounted for at the call
						// sites of this function (closure arguments contribute their write sets there)
						continue
					} else {
						all()
						continue
					}
				}
				for k := range P.modCompute(callee) {
					m[translateMod(k, c.Args, paramRoot, rootAlloc)] = true
				}
				// an interior pointer (&x.f, &s[i]) handed to a callee: the callee may store through
				// it, which changes our field/element heap, not the callee's view of a standalone cell
				for _, a := range c.Args {
					switch av := a.(type) {
					case *ssa.FieldAddr:
						if !isStructPtr(av.Type()) {
							addStore(av)
						}
					case *ssa.IndexAddr:
						addStore(av)
					}
				}
				// closures passed as arguments may run (time.AfterFunc runs its argument on another
				// goroutine later: concurrency is not modelled)
				if callee.String() == "time.AfterFunc" {
					continue
				}
				for _, a := range c.Args {
					for {
						ct, ok := a.(*ssa.ChangeType)
						if !ok {
							break
						}
						a = ct.X
					}
					if mc, ok := a.(*ssa.MakeClosure); ok {
						for k := range wholeMods(P.modCompute(mc.Fn.(*ssa.Function))) {
							m[k] = true
						}
					} else if _, isSig := a.Type().Underlying().(*types.Signature); isSig {
						if _, isFn := a.(*ssa.Function); isFn {
							for k := range wholeMods(P.modCompute(a.(*ssa.Function))) {
								m[k] = true
							}
						} else if _, isParam := a.(*ssa.Parameter); isParam {
							// forwarded from our own caller
						} else if cst, isConst := a.(*ssa.Const); isConst && cst.Value == nil {
							// nil function
						} else if isHashCtor(a.Type()) {
							// func() hash.Hash values are hash constructors (sha256.New, ...): allocation only
						} else if ok := isAssumedPure(valueName(a)); ok {
							// a callback declared free of effects
						} else {
							all()
						}
					}
				}
				if m["*"] {
					return finish()
				}
			}
		}
	}
	return finish()
}

// normMods removes "N$X" and "@k+off$X" entries shadowed by a plain "X".
func normMods(m map[string]bool) {
	for k := range m {
		if strings.HasPrefix(k, "N$") && m[k[2:]] {
			delete(m, k)
		}
		if strings.HasPrefix(k, "@") {
			if i := strings.Index(k, "$"); i > 0 && m[k[i+1:]] {
				delete(m, k)
			}
		}
	}
}

// translateMod maps a pointwise entry of a callee ("@k+off$heap": only the object parameter k points
// to changes) to the caller's view of the actual argument.
func translateMod(k string, args []ssa.Value, paramRoot func(ssa.Value) (int, int64, bool), rootAlloc func(ssa.Value) bool) string {
	if !strings.HasPrefix(k, "@") {
		return k
	}
	var idx int
	var off int64
	i := strings.Index(k, "$")
	if _, err := fmt.Sscanf(k[:i], "@%d+%d", &idx, &off); err != nil || idx >= len(args) {
		return k[i+1:]
	}
	hn := k[i+1:]
	a := args[idx]
	if j, aoff, ok := paramRoot(a); ok {
		return fmt.Sprintf("@%d+%d$%s", j, aoff+off, hn)
	}
	if rootAlloc(a) {
		return "N$" + hn
	}
	return hn
}

func isPtrLike(t types.Type) bool {
	switch t.Underlying().(type) {
	case *types.Pointer, *types.Map, *types.Chan, *types.Signature:
		return true
	}
	return false
}

func addMapHeaps(m map[string]bool, mt *types.Map) {
	k := fullType(mt.Key()) + "$" + fullType(mt.Elem())
	m["MD$"+k] = true
	m["MV$"+k] = true
	m["MN$"+k] = true
}

// isHashCtor: the type func() hash.Hash.
func isHashCtor(t types.Type) bool {
	sig, ok := t.Underlying().(*types.Signature)
	if !ok || sig.Params().Len() != 0 || sig.Results().Len() != 1 {
		return false
	}
	return fullType(sig.Results().At(0).Type()) == "hash.Hash"
}
