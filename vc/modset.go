package main

import (
	"go/types"

	"golang.org/x/tools/go/ssa"
)

// modSet infers the set of heap names fn may write (transitively). "*" means unknown.
// The inference is syntactic over SSA and errs on the side of "*".
func (P *Program) modSet(fn *ssa.Function) map[string]bool {
	if P.modFinal[fn] {
		return P.mods[fn]
	}
	if P.modFinal == nil {
		P.modFinal = map[*ssa.Function]bool{}
	}
	for round := 0; round < 50; round++ {
		P.modVisited = map[*ssa.Function]bool{}
		P.modChanged = false
		P.modCompute(fn)
		if !P.modChanged {
			break
		}
	}
	for f := range P.modVisited {
		P.modFinal[f] = true
	}
	return P.mods[fn]
}

// modCompute is one depth-first pass of the fixpoint iteration.
func (P *Program) modCompute(fn *ssa.Function) map[string]bool {
	if P.modFinal[fn] || P.modVisited[fn] {
		if m := P.mods[fn]; m != nil {
			return m
		}
		return map[string]bool{}
	}
	P.modVisited[fn] = true
	m := map[string]bool{}
	for k := range P.mods[fn] {
		m[k] = true
	}
	all := func() { m["*"] = true }
	finish := func() map[string]bool {
		if len(m) != len(P.mods[fn]) || P.mods[fn] == nil {
			P.modChanged = true
		}
		P.mods[fn] = m
		return m
	}
	if ms, ok := externalMods(fn); ok {
		for _, k := range ms {
			m[k] = true
		}
		return finish()
	}
	if fn.Blocks == nil || m["*"] {
		all()
		return finish()
	}
	tt := P.tt
	var addType func(t types.Type)
	addType = func(t types.Type) {
		defer func() {
			if r := recover(); r != nil {
				all()
			}
		}()
		switch u := t.Underlying().(type) {
		case *types.Struct:
			si := tt.structOf(t)
			for i, fi := range si.fields {
				switch fi.typ.Underlying().(type) {
				case *types.Struct, *types.Array:
					addType(fi.typ)
				default:
					hn, _ := tt.fieldHeap(si, i)
					m[hn] = true
				}
			}
		case *types.Array:
			addType(u.Elem())
		default:
			hn, _ := tt.elemHeap(t)
			m[hn] = true
		}
	}
	addStore := func(addr ssa.Value) {
		defer func() {
			if r := recover(); r != nil {
				all()
			}
		}()
		T := deref(addr.Type())
		if fa, ok := addr.(*ssa.FieldAddr); ok {
			st := deref(fa.X.Type())
			si := tt.structOf(st)
			switch si.fields[fa.Field].typ.Underlying().(type) {
			case *types.Struct, *types.Array:
				addType(T)
			default:
				hn, _ := tt.fieldHeap(si, fa.Field)
				m[hn] = true
			}
			return
		}
		addType(T)
		if _, isParam := addr.(*ssa.Parameter); isParam {
			// a *T parameter may point at a struct field in the caller; handled at the call site
		}
	}
	for _, b := range fn.Blocks {
		for _, in := range b.Instrs {
			switch x := in.(type) {
			case *ssa.Store:
				addStore(x.Addr)
			case *ssa.Alloc, *ssa.MakeSlice, *ssa.MakeMap, *ssa.MakeChan, *ssa.MakeClosure:
				m["$alloc"] = true
				if a, ok := x.(*ssa.Alloc); ok {
					addType(deref(a.Type()))
				}
				if ms, ok := x.(*ssa.MakeSlice); ok {
					addType(ms.Type().Underlying().(*types.Slice).Elem())
				}
				if mm, ok := x.(*ssa.MakeMap); ok {
					addMapHeaps(m, mm.Type().Underlying().(*types.Map))
				}
			case *ssa.MakeInterface:
				m["$alloc"] = true
				func() {
					defer func() {
						if r := recover(); r != nil {
							all()
						}
					}()
					if !isPtrLike(x.X.Type()) {
						hn, _ := tt.boxHeap(x.X.Type())
						m[hn] = true
					}
				}()
			case *ssa.Convert:
				m["$alloc"] = true
				if sl, ok := x.Type().Underlying().(*types.Slice); ok {
					addType(sl.Elem())
				}
			case *ssa.MapUpdate:
				addMapHeaps(m, x.Map.Type().Underlying().(*types.Map))
			case *ssa.Go, *ssa.Select, *ssa.Send:
				if _, isGo := x.(*ssa.Go); isGo {
					all()
				}
			case *ssa.Call, *ssa.Defer:
				var c *ssa.CallCommon
				if cc, ok := x.(*ssa.Call); ok {
					c = &cc.Call
				} else {
					c = &x.(*ssa.Defer).Call
				}
				if bi, ok := c.Value.(*ssa.Builtin); ok {
					switch bi.Name() {
					case "append", "copy":
						m["$alloc"] = true
						addType(c.Args[0].Type().Underlying().(*types.Slice).Elem())
					case "delete":
						addMapHeaps(m, c.Args[0].Type().Underlying().(*types.Map))
					case "clear":
						all()
					}
					continue
				}
				if c.IsInvoke() {
					if ms, ok := invokeMods(c); ok {
						for _, k := range ms {
							m[k] = true
						}
						continue
					}
					all()
					continue
				}
				callee := c.StaticCallee()
				if callee == nil {
					if mc, ok := c.Value.(*ssa.MakeClosure); ok {
						callee = mc.Fn.(*ssa.Function)
					} else {
						all()
						continue
					}
				}
				for k := range P.modCompute(callee) {
					m[k] = true
				}
				// closures passed as arguments may run
				for _, a := range c.Args {
					if mc, ok := a.(*ssa.MakeClosure); ok {
						for k := range P.modCompute(mc.Fn.(*ssa.Function)) {
							m[k] = true
						}
					} else if _, isSig := a.Type().Underlying().(*types.Signature); isSig {
						if _, isFn := a.(*ssa.Function); isFn {
							for k := range P.modCompute(a.(*ssa.Function)) {
								m[k] = true
							}
						} else {
							all()
						}
					}
				}
				if m["*"] {
					return finish()
				}
			}
		}
	}
	return finish()
}

func isPtrLike(t types.Type) bool {
	switch t.Underlying().(type) {
	case *types.Pointer, *types.Map, *types.Chan, *types.Signature:
		return true
	}
	return false
}

func addMapHeaps(m map[string]bool, mt *types.Map) {
	k := fullType(mt.Key()) + "$" + fullType(mt.Elem())
	m["MD$"+k] = true
	m["MV$"+k] = true
	m["MN$"+k] = true
}
