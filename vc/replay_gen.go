package main

import (
	"encoding/json"
	"fmt"
	"go/ast"
	"go/types"
	"os"
	"os/exec"
	"path/filepath"
	"regexp"
	"strconv"
	"strings"

	"golang.org/x/tools/go/ssa"
)

const replayMaxBytes = 192

// modelTerm is a term whose value is requested from the solver to rebuild an input.
type modelTerm struct {
	path string // Go lvalue path, e.g. "a0.Version.Major", or "a1#len", "a1#cap", "a1#3"
	term Term
}

type inputPlan struct {
	terms   []modelTerm
	decls   []string // variable declarations (in order)
	setup   []setupStep
	imports map[string]string // path -> alias
	args    []string
	ok      bool
	note    string
}

type setupStep struct {
	path  string
	kind  string // int, bool, bytes, string, array, ptr
	typ   string // Go type string for literals
	n     int    // array length
	signed bool
	width int
}

// planInputs decides how the parameters of fn are rebuilt from a model.
func (vc *VC) planInputs(fn *ssa.Function, top map[ssa.Value]Term) *inputPlan {
	pl := &inputPlan{imports: map[string]string{}, ok: true}
	pkg := pkgOf(fn).Pkg
	qual := func(p *types.Package) string {
		if p == pkg {
			return ""
		}
		if a, ok := pl.imports[p.Path()]; ok {
			return a
		}
		a := fmt.Sprintf("vp%d", len(pl.imports))
		pl.imports[p.Path()] = a
		return a
	}
	entry := vc.entry
	tt := vc.tt
	declared := func(name string) bool { return vc.declared[sym("E$"+name)] }
	var plan func(path string, T types.Type, val Term, loc *ptrDesc, addr Term, depth int)
	bytesAt := func(path string, sl Term) {
		hn, hs := tt.elemHeap(types.Typ[types.Uint8])
		pl.terms = append(pl.terms, modelTerm{path + "#len", slLen(sl)}, modelTerm{path + "#cap", slCap(sl)}, modelTerm{path + "#nil", mkIte(mkEq(slObj(sl), i64(0)), bvLit(8, 1), bvLit(8, 0))})
		if declared(hn) {
			inner := mkSelect(entry.get(hn, hs), slObj(sl), arraySort(SBV64, SBV8))
			for k := 0; k < replayMaxBytes; k++ {
				pl.terms = append(pl.terms, modelTerm{fmt.Sprintf("%s#%d", path, k), mkSelect(inner, bvAdd(slOff(sl), i64(int64(k))), SBV8)})
			}
		}
	}
	plan = func(path string, T types.Type, val Term, loc *ptrDesc, addr Term, depth int) {
		if depth > 4 {
			return
		}
		switch u := T.Underlying().(type) {
		case *types.Basic:
			if w, s, ok := intWidth(u); ok {
				pl.terms = append(pl.terms, modelTerm{path, val})
				pl.setup = append(pl.setup, setupStep{path: path, kind: "int", signed: s, width: w})
				return
			}
			switch u.Kind() {
			case types.Bool:
				pl.terms = append(pl.terms, modelTerm{path, mkIte(val, bvLit(8, 1), bvLit(8, 0))})
				pl.setup = append(pl.setup, setupStep{path: path, kind: "bool"})
			case types.String:
				pl.terms = append(pl.terms, modelTerm{path + "#len", strLen(val)})
				if vc.declared["SMem"] {
					for k := 0; k < 64; k++ {
						pl.terms = append(pl.terms, modelTerm{fmt.Sprintf("%s#%d", path, k), mkSelect(vc.smem(), bvAdd(strPtr(val), i64(int64(k))), SBV8)})
					}
				}
				pl.setup = append(pl.setup, setupStep{path: path, kind: "string"})
			}
		case *types.Slice:
			if b, ok := u.Elem().Underlying().(*types.Basic); ok && b.Kind() == types.Uint8 && types.Identical(u.Elem(), types.Typ[types.Uint8]) {
				bytesAt(path, val)
				pl.setup = append(pl.setup, setupStep{path: path, kind: "bytes", typ: types.TypeString(T, qual)})
			}
		case *types.Struct:
			si := tt.structOf(T)
			for i, fi := range si.fields {
				f := u.Field(i)
				if !f.Exported() && f.Pkg() != pkg {
					continue
				}
				if f.Name() == "_" {
					continue
				}
				var fv Term
				var faddr Term
				if addr.valid() {
					faddr = bvAdd(addr, i64(fi.offset))
					switch fi.typ.Underlying().(type) {
					case *types.Struct, *types.Array:
					default:
						hn, hs := tt.fieldHeap(si, i)
						if !declared(hn) {
							continue
						}
						fv = mkSelect(entry.get(hn, hs), addr, fi.sort)
					}
				} else {
					fv = tt.fieldOf(val, si, i)
				}
				plan(path+"."+f.Name(), fi.typ, fv, nil, faddr, depth+1)
			}
		case *types.Array:
			if b, ok := u.Elem().Underlying().(*types.Basic); ok && b.Kind() == types.Uint8 && u.Len() <= 64 {
				if addr.valid() {
					hn, hs := tt.elemHeap(u.Elem())
					if !declared(hn) {
						return
					}
					inner := mkSelect(entry.get(hn, hs), addr, arraySort(SBV64, SBV8))
					for k := int64(0); k < u.Len(); k++ {
						pl.terms = append(pl.terms, modelTerm{fmt.Sprintf("%s#%d", path, k), mkSelect(inner, i64(k), SBV8)})
					}
				} else if val.valid() {
					for k := int64(0); k < u.Len(); k++ {
						pl.terms = append(pl.terms, modelTerm{fmt.Sprintf("%s#%d", path, k), mkSelect(val, i64(k), SBV8)})
					}
				}
				pl.setup = append(pl.setup, setupStep{path: path, kind: "array", n: int(u.Len())})
			}
		case *types.Pointer:
			if _, ok := u.Elem().Underlying().(*types.Struct); ok && depth == 0 {
				pl.setup = append(pl.setup, setupStep{path: path, kind: "ptr", typ: types.TypeString(u.Elem(), qual)})
				plan(path, u.Elem(), Term{}, nil, val, depth+1)
			}
		}
	}
	for i, p := range fn.Params {
		name := fmt.Sprintf("a%d", i)
		pl.decls = append(pl.decls, fmt.Sprintf("var %s %s", name, types.TypeString(p.Type(), qual)))
		pl.args = append(pl.args, name)
		plan(name, p.Type(), top[p], nil, Term{}, 0)
	}
	return pl
}

var pairRe = regexp.MustCompile(`#x[0-9a-fA-F]+|#b[01]+|\(_ bv(\d+) \d+\)|true|false`)

// parseValues extracts the values of a (get-value ...) answer in order.
func parseValues(out string, n int) ([]uint64, bool) {
	// the answer is ((t1 v1) (t2 v2) ...); values are the last token of each pair. We split pairs by
	// scanning balanced parentheses at depth 2.
	i := strings.Index(out, "((")
	if i < 0 {
		return nil, false
	}
	s := out[i+1:]
	var vals []uint64
	depth := 0
	start := -1
	for k := 0; k < len(s); k++ {
		switch s[k] {
		case '(':
			if depth == 0 {
				start = k
			}
			depth++
		case ')':
			depth--
			if depth == 0 && start >= 0 {
				pair := s[start+1 : k]
				// value = last top-level element of pair
				parts := splitTop(pair)
				if len(parts) >= 2 {
					v, ok := parseBV(parts[len(parts)-1])
					if !ok {
						return nil, false
					}
					vals = append(vals, v)
				}
				start = -1
			}
			if depth < 0 {
				k = len(s)
			}
		}
	}
	if len(vals) < n {
		return nil, false
	}
	return vals[:n], true
}

func parseBV(s string) (uint64, bool) {
	s = strings.TrimSpace(s)
	switch {
	case strings.HasPrefix(s, "#x"):
		if len(s) > 18 {
			return 0, false
		}
		v, err := strconv.ParseUint(s[2:], 16, 64)
		return v, err == nil
	case strings.HasPrefix(s, "#b"):
		v, err := strconv.ParseUint(s[2:], 2, 64)
		return v, err == nil
	case strings.HasPrefix(s, "(_ bv"):
		f := strings.Fields(s[5:])
		v, err := strconv.ParseUint(f[0], 10, 64)
		return v, err == nil
	case s == "true":
		return 1, true
	case s == "false":
		return 0, true
	}
	return 0, false
}

// buildTest renders the replay test for obligation o using model values.
func (P *Program) buildTest(o *Oblig, vc *VC, pl *inputPlan, vals map[string]uint64) (string, string) {
	fn := vc.fn
	pkg := pkgOf(fn).Pkg
	var b strings.Builder
	fmt.Fprintf(&b, "package %s\n\nimport (\n\t\"fmt\"\n\t\"testing\"\n", pkg.Name())
	for path, alias := range pl.imports {
		fmt.Fprintf(&b, "\t%s %q\n", alias, path)
	}
	b.WriteString(")\n\n")
	for _, alias := range pl.imports {
		_ = alias
	}
	testName := "TestVerifReplay"
	fmt.Fprintf(&b, "func %s(t *testing.T) {\n", testName)
	for _, d := range pl.decls {
		b.WriteString("\t" + d + "\n")
	}
	for i := range pl.args {
		fmt.Fprintf(&b, "\t_ = a%d\n", i)
	}
	for _, st := range pl.setup {
		switch st.kind {
		case "ptr":
			fmt.Fprintf(&b, "\t%s = new(%s)\n", st.path, st.typ)
		case "int":
			v, ok := vals[st.path]
			if !ok {
				continue
			}
			if st.signed {
				sv := int64(v)
				if st.width < 64 {
					sh := uint(64 - st.width)
					sv = int64(v<<sh) >> sh
				}
				fmt.Fprintf(&b, "\t%s = %d\n", st.path, sv)
			} else {
				fmt.Fprintf(&b, "\t%s = %d\n", st.path, v)
			}
		case "bool":
			if v, ok := vals[st.path]; ok {
				fmt.Fprintf(&b, "\t%s = %v\n", st.path, v != 0)
			}
		case "bytes":
			ln, ok := vals[st.path+"#len"]
			if !ok {
				continue
			}
			if vals[st.path+"#nil"] == 1 {
				continue
			}
			cp := vals[st.path+"#cap"]
			if ln > 1<<21 {
				return "", fmt.Sprintf("model needs a %d byte slice; skipped", ln)
			}
			if cp > 1<<22 || cp < ln {
				cp = ln
			}
			var bs []string
			for k := uint64(0); k < ln && k < replayMaxBytes; k++ {
				bs = append(bs, strconv.FormatUint(vals[fmt.Sprintf("%s#%d", st.path, k)]&0xff, 10))
			}
			fmt.Fprintf(&b, "\t%s = make(%s, %d, %d)\n\tcopy(%s, []byte{%s})\n", st.path, st.typ, ln, cp, st.path, strings.Join(bs, ","))
		case "string":
			ln, ok := vals[st.path+"#len"]
			if !ok || ln > 1<<12 {
				continue
			}
			bs := make([]byte, ln)
			for k := uint64(0); k < ln; k++ {
				bs[k] = byte(vals[fmt.Sprintf("%s#%d", st.path, k)])
			}
			fmt.Fprintf(&b, "\t%s = %q\n", st.path, string(bs))
		case "array":
			for k := 0; k < st.n; k++ {
				if v, ok := vals[fmt.Sprintf("%s#%d", st.path, k)]; ok && v != 0 {
					fmt.Fprintf(&b, "\t%s[%d] = %d\n", st.path, k, v&0xff)
				}
			}
		}
	}
	// the call
	var call string
	if fn.Signature.Recv() != nil {
		call = fmt.Sprintf("a0.%s(%s)", fn.Name(), strings.Join(pl.args[1:], ", "))
	} else {
		call = fmt.Sprintf("%s(%s)", fn.Name(), strings.Join(pl.args, ", "))
	}
	nres := fn.Signature.Results().Len()
	var res []string
	for i := 0; i < nres; i++ {
		res = append(res, fmt.Sprintf("r%d", i))
	}
	post, pre := "", ""
	if o.Kind == "post" {
		post, pre = P.clauseToGo(o, vc, res)
	}
	b.WriteString("\tdefer func() {\n\t\tif r := recover(); r != nil {\n\t\t\tfmt.Println(\"VERIF-REPLAY-PANIC:\", r)\n\t\t}\n\t}()\n")
	b.WriteString(pre)
	if nres > 0 {
		fmt.Fprintf(&b, "\t%s := %s\n", strings.Join(res, ", "), call)
		for _, r := range res {
			fmt.Fprintf(&b, "\t_ = %s\n", r)
		}
		fmt.Fprintf(&b, "\tfmt.Printf(\"VERIF-REPLAY-RETURNED: %s\\n\", %s)\n", strings.Repeat("%v ", nres), strings.Join(res, ", "))
	} else {
		fmt.Fprintf(&b, "\t%s\n\tfmt.Println(\"VERIF-REPLAY-RETURNED\")\n", call)
	}
	if post != "" {
		fmt.Fprintf(&b, "\tif !(%s) {\n\t\tfmt.Println(\"VERIF-REPLAY-CLAUSE-FALSE\")\n\t} else {\n\t\tfmt.Println(\"VERIF-REPLAY-CLAUSE-TRUE\")\n\t}\n", post)
	}
	b.WriteString("}\n\n")
	b.WriteString("func verifForall(lo, hi int, f func(int) bool) bool {\n\tfor i := lo; i < hi; i++ {\n\t\tif !f(i) {\n\t\t\treturn false\n\t\t}\n\t}\n\treturn true\n}\n")
	b.WriteString("func verifExists(lo, hi int, f func(int) bool) bool {\n\tfor i := lo; i < hi; i++ {\n\t\tif f(i) {\n\t\t\treturn true\n\t\t}\n\t}\n\treturn false\n}\n")
	return b.String(), ""
}

var identRe = regexp.MustCompile(`[A-Za-z_][A-Za-z0-9_]*`)

// clauseToGo renders a postcondition as Go over the replay variables. Returns (expr, preStatements).
func (P *Program) clauseToGo(o *Oblig, vc *VC, res []string) (string, string) {
	ct := P.contractFor(vc.fn)
	if ct == nil {
		return "", ""
	}
	var cl *Clause
	for _, c := range ct.Ensures {
		if c.Name == o.Clause {
			cl = c
		}
	}
	if cl == nil || cl.expr == nil {
		return "", ""
	}
	src := rewriteImplies(cl.Text)
	for _, g := range []string{"called(", "ncalls(", "retBool(", "retErr(", "retBytes(", "argBytes(", "argInt(", "held(", "calledBefore(", "typeIs(", "sameRef(", "sameSlice(", "retAny(", "argAny(", "retInt(", "retU64(", "argU64(", "argErr(", "argBool(", "fresh(", "allocated("} {
		if strings.Contains(src, g) {
			return "", ""
		}
	}
	// parameter / result renaming
	ren := map[string]string{}
	for i, p := range vc.fn.Params {
		ren[p.Name()] = fmt.Sprintf("a%d", i)
	}
	_, ft := funcBody(vc.fn)
	named := false
	if ft != nil && ft.Results != nil {
		i := 0
		for _, fld := range ft.Results.List {
			for _, nm := range fld.Names {
				ren[nm.Name] = res[i]
				named = true
				i++
			}
			if len(fld.Names) == 0 {
				i++
			}
		}
	}
	if !named {
		for i := range res {
			ren[fmt.Sprintf("result%d", i)] = res[i]
		}
		if len(res) == 1 {
			ren["result"] = res[0]
		}
	}
	ren["forall"] = "verifForall"
	ren["exists"] = "verifExists"
	// old(...) -> captured variables
	var pre strings.Builder
	nOld := 0
	for {
		i := strings.Index(src, "old(")
		if i < 0 || (i > 0 && (isIdentChar(src[i-1]))) {
			break
		}
		j := matchClose(src, i+3)
		if j < 0 {
			return "", ""
		}
		inner := src[i+4 : j]
		v := fmt.Sprintf("verifOld%d", nOld)
		nOld++
		fmt.Fprintf(&pre, "\t%s := verifSnap(%s)\n", v, renameIdents(inner, ren))
		src = src[:i] + v + src[j+1:]
	}
	_ = ast.NewIdent
	return renameIdents(src, ren), pre.String()
}

func isIdentChar(c byte) bool {
	return c == '_' || c >= 'a' && c <= 'z' || c >= 'A' && c <= 'Z' || c >= '0' && c <= '9'
}

func renameIdents(src string, ren map[string]string) string {
	return identRe.ReplaceAllStringFunc(src, func(id string) string {
		if r, ok := ren[id]; ok {
			return r
		}
		return id
	})
}

// replayModel asks the solver for input values of the failing obligation, builds an
// in-package test, injects it with -overlay and runs it against the real code.
func (P *Program) replayModel(o *Oblig, vc *VC, repo string) *ReplayResult {
	fn := vc.fn
	if fn.Parent() != nil || fn.Syntax() == nil {
		return &ReplayResult{Note: "no replay driver for closures"}
	}
	if recv := fn.Signature.Recv(); recv != nil {
		if _, isPtr := recv.Type().(*types.Pointer); !isPtr {
			if _, isNamed := recv.Type().(*types.Named); !isNamed {
				return &ReplayResult{Note: "no replay driver for this receiver"}
			}
		}
	}
	pl := vc.planInputs(fn, vc.topVals)
	// query values, preferring small inputs
	vals := map[string]uint64{}
	if len(pl.terms) > 0 {
		got := false
		var lastOut string
		for _, bound := range []int64{48, 160, 4096, 70000, -1} {
			var b strings.Builder
			vc.renderAllDecls = true
			b.WriteString(vc.render([]*Oblig{o}, "z3", 20000))
			vc.renderAllDecls = false
			b.WriteString("(pop 0)\n")
			q := b.String()
			q = strings.Replace(q, "(check-sat)\n(pop 0)\n", "", 1)
			var extra strings.Builder
			if bound >= 0 {
				for _, mt := range pl.terms {
					if strings.HasSuffix(mt.path, "#len") {
						fmt.Fprintf(&extra, "(assert (bvsle %s %s))\n", mt.term.S, i64(bound).S)
					}
					if strings.HasSuffix(mt.path, "#cap") {
						fmt.Fprintf(&extra, "(assert (bvsle %s %s))\n", mt.term.S, i64(bound*4).S)
					}
				}
			}
			var gv strings.Builder
			gv.WriteString("(check-sat)\n(get-value (")
			for _, mt := range pl.terms {
				gv.WriteString(mt.term.S)
				gv.WriteByte(' ')
			}
			gv.WriteString("))\n")
			r := raceSolve(map[string]string{"z3": q + extra.String() + gv.String()}, "replay", 20000, false, []string{"z3-new"})
			lastOut = r.output
			if r.status != "sat" {
				continue
			}
			rest := r.output[strings.Index(r.output, "\n")+1:]
			vs, ok := parseValues(rest, len(pl.terms))
			if !ok {
				os.WriteFile("/tmp/vc-parse-fail.txt", []byte(r.output), 0o644)
				return &ReplayResult{Note: "could not parse model values"}
			}
			for i, mt := range pl.terms {
				vals[mt.path] = vs[i]
			}
			got = true
			break
		}
		if !got {
			return &ReplayResult{Note: "could not obtain model values: " + firstLines(lastOut, 2)}
		}
	}
	test, note := P.buildTest(o, vc, pl, vals)
	if test == "" {
		return &ReplayResult{Note: note}
	}
	test += "\nfunc verifSnap[T any](v T) T {\n\tif b, ok := any(v).([]byte); ok && b != nil {\n\t\tc := append([]byte{}, b...)\n\t\treturn any(c).(T)\n\t}\n\treturn v\n}\n"
	dir, err := os.MkdirTemp(scratchDir, "vc-replay-")
	if err != nil {
		return &ReplayResult{Note: err.Error()}
	}
	defer os.RemoveAll(dir)
	pkgDir := filepath.Join(repo, relPkg(pkgOf(fn).Pkg.Path()))
	testFile := filepath.Join(dir, "replay_test.go")
	os.WriteFile(testFile, []byte(test), 0o644)
	ov := map[string]any{"Replace": map[string]string{filepath.Join(pkgDir, "zz_verif_replay_test.go"): testFile}}
	ovb, _ := json.Marshal(ov)
	ovFile := filepath.Join(dir, "overlay.json")
	os.WriteFile(ovFile, ovb, 0o644)
	cmd := exec.Command("go", "test", "-overlay", ovFile, "-vet=off", "-count=1", "-timeout", "60s", "-run", "^TestVerifReplay$", "-v", ".")
	cmd.Dir = pkgDir
	cmd.Env = append(os.Environ(), "GOFLAGS=-mod=mod", "GOPROXY=off")
	out, _ := cmd.CombinedOutput()
	so := string(out)
	rr := &ReplayResult{Test: test, Output: truncate(so, 4000), Inputs: vals}
	switch {
	case isSafetyKind(o.Kind):
		rr.Reproduced = strings.Contains(so, "VERIF-REPLAY-PANIC") || strings.Contains(so, "panic:")
	case o.Kind == "post":
		rr.Reproduced = strings.Contains(so, "VERIF-REPLAY-CLAUSE-FALSE")
	}
	if len(vals) > 400 {
		rr.Inputs = "omitted (see test)"
	}
	return rr
}
