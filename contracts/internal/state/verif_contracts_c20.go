//go:build verif

// C20: DTLS 1.3 traffic-key generations (traffic_keys.go). Comment-only; read by /verif/vc.
package state

// Representation invariant of TrafficKeyState: a retained generation is stored under its own epoch.
// It holds for the zero value and is preserved by Install (the only writer); callers must not
// modify a generation after installing it (documented on TrafficGeneration). The two directions
// use distinct maps. The invariant is over unexported fields, so callers in other packages cannot
// state it: it is therefore not a `requires` but a hypothesis of the clauses that need it
// (`old(TKINV(s)) ==> ...`), and Install proves that it is preserved.

//@ define RETAINED(mp) forallKey(mp, func(e uint16) bool { return mp[e] != nil && mp[e].Epoch == e })
//@ define TKINV(s) (RETAINED(s.writeOld) && RETAINED(s.readOld) && (s.writeOld == nil || !sameRef(s.writeOld, s.readOld)))

//@ func installTrafficGeneration
//@ inline
//@ requires ptrs: current != nil && old != nil
//@ end

//@ func TrafficKeyState.Install
//@ requires receiver: s != nil
//@ ensures inv-preserved: old(TKINV(s)) ==> TKINV(s)
//@ ensures write-installed: write != nil ==> s.writeCurrent == write
//@ ensures write-untouched: write == nil ==> s.writeCurrent == old(s.writeCurrent) && sameRef(s.writeOld, old(s.writeOld))
//@ ensures read-installed: read != nil ==> s.readCurrent == read
//@ ensures read-untouched: read == nil ==> s.readCurrent == old(s.readCurrent) && sameRef(s.readOld, old(s.readOld))
//@ ensures previous-read-retained: old(TKINV(s)) && read != nil && old(s.readCurrent) != nil && old(s.readCurrent.Epoch) != read.Epoch
//@    ==> hasKey(s.readOld, old(s.readCurrent.Epoch)) && s.readOld[old(s.readCurrent.Epoch)] == old(s.readCurrent)
//@ ensures previous-write-retained: old(TKINV(s)) && write != nil && old(s.writeCurrent) != nil && old(s.writeCurrent.Epoch) != write.Epoch
//@    ==> hasKey(s.writeOld, old(s.writeCurrent.Epoch)) && s.writeOld[old(s.writeCurrent.Epoch)] == old(s.writeCurrent)
//@ ensures older-reads-kept: old(TKINV(s)) ==> forallU16(func(e uint16) bool { return old(hasKey(s.readOld, e)) && !(read != nil && old(s.readCurrent) != nil && e == old(s.readCurrent.Epoch))
//@    ==> hasKey(s.readOld, e) && s.readOld[e] == old(s.readOld[e]) })
//@ ensures older-writes-kept: old(TKINV(s)) ==> forallU16(func(e uint16) bool { return old(hasKey(s.writeOld, e)) && !(write != nil && old(s.writeCurrent) != nil && e == old(s.writeCurrent.Epoch))
//@    ==> hasKey(s.writeOld, e) && s.writeOld[e] == old(s.writeOld[e]) })
//@ ensures nothing-invented: old(TKINV(s)) ==> forallKey(s.readOld, func(e uint16) bool { return old(hasKey(s.readOld, e)) || s.readOld[e] == old(s.readCurrent) })
//@ ensures generations-unmodified: (read != nil ==> read.Epoch == old(read.Epoch) && read.Generation == old(read.Generation))
//@    && (write != nil ==> write.Epoch == old(write.Epoch) && write.Generation == old(write.Generation))
//@ ensures unlocked: !held("TrafficKeyState.mu")
//@ end

//@ func TrafficKeyState.Write
//@ requires receiver: s != nil
//@ ensures epoch-matches: TKINV(s) && result1 ==> result0 != nil && result0.Epoch == epoch
//@ ensures current-first: s.writeCurrent != nil && s.writeCurrent.Epoch == epoch ==> result1 && result0 == s.writeCurrent
//@ ensures else-retained: !(s.writeCurrent != nil && s.writeCurrent.Epoch == epoch) ==> result1 == hasKey(s.writeOld, epoch) && result0 == s.writeOld[epoch]
//@ ensures read-only: s.writeCurrent == old(s.writeCurrent) && sameRef(s.writeOld, old(s.writeOld)) && s.readCurrent == old(s.readCurrent)
//@ ensures unlocked: !held("TrafficKeyState.mu")
//@ end

//@ func TrafficKeyState.Read
//@ requires receiver: s != nil
//@ ensures epoch-matches: TKINV(s) && result1 ==> result0 != nil && result0.Epoch == epoch
//@ ensures current-first: s.readCurrent != nil && s.readCurrent.Epoch == epoch ==> result1 && result0 == s.readCurrent
//@ ensures else-retained: !(s.readCurrent != nil && s.readCurrent.Epoch == epoch) ==> result1 == hasKey(s.readOld, epoch) && result0 == s.readOld[epoch]
//@ ensures read-only: s.readCurrent == old(s.readCurrent) && sameRef(s.readOld, old(s.readOld)) && s.writeCurrent == old(s.writeCurrent)
//@ ensures unlocked: !held("TrafficKeyState.mu")
//@ end

// ReadCandidates: the result is the input followed only by installed read generations whose low
// two epoch bits are the requested ones.

//@ define INSTALLED(s, g) (g != nil && (g == s.readCurrent || (hasKey(s.readOld, g.Epoch) && s.readOld[g.Epoch] == g)))

//@ func TrafficKeyState.ReadCandidates
//@ requires receiver: s != nil
//@ ensures input-kept: len(result) >= len(candidates) && forall(0, len(candidates), func(i int) bool { return result[i] == old(candidates[i]) })
//@ ensures only-matching: forall(len(candidates), len(result), func(i int) bool { return result[i] != nil && uint8(result[i].Epoch & 3) == epochLow })
//@ ensures only-installed: TKINV(s) ==> forall(len(candidates), len(result), func(i int) bool { return INSTALLED(s, result[i]) })
//@ ensures current-first: s.readCurrent != nil && uint8(s.readCurrent.Epoch & 3) == epochLow ==> len(result) > len(candidates) && result[len(candidates)] == s.readCurrent
//@ ensures read-only: s.readCurrent == old(s.readCurrent) && sameRef(s.readOld, old(s.readOld))
//@ ensures unlocked: !held("TrafficKeyState.mu")
//@ loop #1: input-kept: len(candidates) >= len(old(candidates)) && forall(0, len(old(candidates)), func(i int) bool { return candidates[i] == old(candidates[i]) })
//@ loop #1: only-matching: forall(len(old(candidates)), len(candidates), func(i int) bool { return candidates[i] != nil && uint8(candidates[i].Epoch & 3) == epochLow })
//@ loop #1: only-installed: TKINV(s) ==> forall(len(old(candidates)), len(candidates), func(i int) bool { return INSTALLED(s, candidates[i]) })
//@ loop #1: current-first: s.readCurrent != nil && uint8(s.readCurrent.Epoch & 3) == epochLow ==> len(candidates) > len(old(candidates)) && candidates[len(old(candidates))] == s.readCurrent
//@ end
