//go:build verif

package state

//@ func State12.InitCipherSuite
//@ noinline
//@ end
