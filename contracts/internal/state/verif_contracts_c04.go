//go:build verif

package state

//@ func State12.InitCipherSuite
//@ noinline
//@ end

//@ func Common.CommitNegotiatedExtensions
//@ noinline
//@ end

//@ func Common.ResetConnectionIDs
//@ noinline
//@ end

//@ func State12.SetRemoteServerKeyExchange
//@ noinline
//@ end
