//go:build verif

// C15 (return-routability part): contracts for package rrc (comment-only; read by /verif/vc).
package rrc

// RFC 9853 / RFC 9146 6: before a candidate address has answered a path challenge the endpoint
// sends it at most three times the bytes it received from it. In exact unsigned 64-bit
// arithmetic the budget is sat3(received) = min(3*received, 2^64-1); 6148914691236517205 is
// (2^64-1)/3, above it the product saturates and the bound is vacuous.
//
// KEY() is the map key the function computed for its address argument (the result of the last
// pathKey call; net.Addr methods are opaque). INV(m) is the manager invariant: every stored
// path is non-nil and within its amplification budget.

//@ define BUDGET(p) (p.receivedBytes <= 6148914691236517205 ==> p.sentBytes <= 3*p.receivedBytes)
//@ define KEY() retAs("pathKey", 0, addr.String())
//@ define INV(m) forallKey(m.paths, func(k string) bool { return m.paths[k] != nil && BUDGET(m.paths[k]) })
//@ define SAME() retBool("sameAddress", 0)

//@ func Manager.Reserve
//@ watch sameAddress pathKey time.Time.Before
//@ invariant inv: INV(m)
//@ ensures active-unlimited: SAME() ==> result == nil
//@ ensures budget: result == nil && !SAME() ==> m.paths[KEY()] != nil && BUDGET(m.paths[KEY()])
//@ ensures charged: result == nil && !SAME() ==> m.paths[KEY()].sentBytes == old(m.paths[KEY()].sentBytes) + uint64(wireBytes)
//@ ensures no-wrap: result == nil && !SAME() ==> m.paths[KEY()].sentBytes >= old(m.paths[KEY()].sentBytes)
//@ ensures within-three-times: result == nil && !SAME() && m.paths[KEY()].receivedBytes <= 6148914691236517205
//@    ==> old(m.paths[KEY()].sentBytes) + uint64(wireBytes) <= 3*m.paths[KEY()].receivedBytes
//@ ensures negative-rejected-while-budget-below-2p63: wireBytes < 0 && !SAME() && old(m.paths[KEY()]) != nil
//@    && old(m.paths[KEY()].receivedBytes) <= 3074457345618258602 ==> result != nil
//@ ensures unknown-path-rejected: !SAME() && old(m.paths[KEY()]) == nil ==> result != nil
//@ ensures expired-rejected: called("time.Time.Before") && !retBool("time.Time.Before", 0) ==> result != nil
//@ ensures rejected-unchanged: result != nil || SAME() ==> forallKey(m.paths, func(k string) bool {
//@    return m.paths[k].sentBytes == old(m.paths[k].sentBytes) && m.paths[k].receivedBytes == old(m.paths[k].receivedBytes) })
//@ ensures received-unchanged: forallKey(m.paths, func(k string) bool { return m.paths[k].receivedBytes == old(m.paths[k].receivedBytes) })
//@ ensures others-unchanged: forallKey(m.paths, func(k string) bool {
//@    return m.paths[k] != m.paths[KEY()] ==> m.paths[k].sentBytes == old(m.paths[k].sentBytes) })
//@ ensures map-unchanged: sameRef(m.paths, old(m.paths)) && len(m.paths) == old(len(m.paths))
//@    && forallKey(m.paths, func(k string) bool { return m.paths[k] == old(m.paths[k]) })
//@ ensures unlocked: !held("Manager.mu")
// FINDING (kept last so that it is not assumed by other clauses): a negative wireBytes is converted to
// uint64 (>= 2^63) and is accepted whenever limit-sentBytes >= that value, i.e. once 3*receivedBytes
// reaches 2^63 (receivedBytes > 3074457345618258602). Replayed: receivedBytes = (2^64-1)/3+1,
// sentBytes = 0, Reserve(addr, active, -1) returns nil and sets sentBytes = 2^64-1.
//@ ensures negative-rejected: wireBytes < 0 && !SAME() ==> result != nil
//@ end

// PL() is the path object returned by pathLocked for the address argument; KEPT(k) says that key k
// already named the same path object on entry (so old() of its fields is meaningful).

//@ define PL() retAs("Manager.pathLocked", 0, m.paths[""])
//@ define KEPT(k) (old(hasKey(m.paths, k)) && m.paths[k] == old(m.paths[k]))

//@ func Manager.pathLocked
//@ watch pathKey time.Time.Before
//@ requires inv: INV(m)
//@ ensures inv: INV(m)
//@ ensures non-nil: result != nil
//@ ensures map-made: m.paths != nil
//@ ensures installed: hasKey(m.paths, KEY()) && m.paths[KEY()] == result
//@ ensures fresh-or-kept: (fresh(result) && result.sentBytes == 0 && result.receivedBytes == 0 && !result.challengePending)
//@    || (old(allocated(result)) && result.sentBytes == old(result.sentBytes) && result.receivedBytes == old(result.receivedBytes)
//@        && result.challengePending == old(result.challengePending) && result.cookie == old(result.cookie))
//@ ensures kept-was-stored: old(allocated(result)) ==> old(hasKey(m.paths, KEY()) && m.paths[KEY()] == result)
//@ ensures budget-established: BUDGET(result)
//@ ensures others-kept: forallKey(m.paths, func(k string) bool { return KEPT(k) || m.paths[k] == result })
//@ ensures only-one-new: forallKey(m.paths, func(k string) bool { return k != KEY() ==> KEPT(k) })
//@ ensures counters-kept: forallKey(m.paths, func(k string) bool { return KEPT(k) ==>
//@    m.paths[k].sentBytes == old(m.paths[k].sentBytes) && m.paths[k].receivedBytes == old(m.paths[k].receivedBytes)
//@    && m.paths[k].challengePending == old(m.paths[k].challengePending) && m.paths[k].cookie == old(m.paths[k].cookie) })
//@ ensures deadlines-kept: forallKey(m.paths, func(k string) bool { return KEPT(k) ==> m.paths[k].expiresAt == old(m.paths[k].expiresAt) })
//@ end

//@ func Manager.recordReceived
//@ watch sameAddress Manager.pathLocked Manager.touchLocked
//@ requires inv: INV(m)
//@ ensures counted-path-within-budget: wireBytes > 0 && !SAME() ==> PL() != nil && BUDGET(PL())
//@ ensures inv: INV(m)
//@ ensures ignored: wireBytes <= 0 || SAME() ==> !called("Manager.pathLocked") && sameRef(m.paths, old(m.paths))
//@ ensures counted: wireBytes > 0 && !SAME() ==> called("Manager.pathLocked") && PL() != nil && PL().receivedBytes >= uint64(wireBytes)
//@ ensures monotone: forallKey(m.paths, func(k string) bool { return KEPT(k) ==> m.paths[k].receivedBytes >= old(m.paths[k].receivedBytes) })
//@ ensures saturating: wireBytes > 0 && !SAME() ==> forallKey(m.paths, func(k string) bool { return KEPT(k) && m.paths[k] == PL() ==>
//@    (old(m.paths[k].receivedBytes) <= 18446744073709551615 - uint64(wireBytes) ==> m.paths[k].receivedBytes == old(m.paths[k].receivedBytes) + uint64(wireBytes))
//@    && (old(m.paths[k].receivedBytes) > 18446744073709551615 - uint64(wireBytes) ==> m.paths[k].receivedBytes == 18446744073709551615) })
//@ ensures sent-unchanged: forallKey(m.paths, func(k string) bool { return KEPT(k) ==> m.paths[k].sentBytes == old(m.paths[k].sentBytes) })
//@ ensures others-unchanged: forallKey(m.paths, func(k string) bool { return KEPT(k) && m.paths[k] != PL() ==> m.paths[k].receivedBytes == old(m.paths[k].receivedBytes) })
//@ ensures pending-deadline-kept: forallKey(m.paths, func(k string) bool { return KEPT(k) && old(m.paths[k].challengePending) ==> m.paths[k].expiresAt == old(m.paths[k].expiresAt) })
//@ ensures pending-deadline-not-rearmed: called("Manager.touchLocked") ==> !argAs("Manager.touchLocked", 2, m.paths[""]).challengePending
//@ ensures touched-is-the-counted-path: called("Manager.touchLocked") ==> argAs("Manager.touchLocked", 2, m.paths[""]) == PL() && sameRef(argAs("Manager.touchLocked", 1, addr), addr)
//@ ensures unlocked: !held("Manager.mu")
//@ end

// touchLocked (re)arms the deadline of one path: expiresAt = now + timeout. It writes only the deadline and the
// timer of that path (inferred write set); the timer callback is not modelled.
//@ func Manager.touchLocked
//@ watch time.Now time.Time.Add
//@ noinline
//@ requires args: path != nil
//@ ensures deadline-from-now: called("time.Now") && called("time.Time.Add")
//@ ensures path-state-kept: path.cookie == old(path.cookie) && path.challengePending == old(path.challengePending)
//@    && path.sentBytes == old(path.sentBytes) && path.receivedBytes == old(path.receivedBytes)
//@ ensures cookies-kept: forallKey(m.paths, func(k string) bool { return m.paths[k].cookie == old(m.paths[k].cookie) })
//@ ensures other-deadlines-kept: forallKey(m.paths, func(k string) bool { return m.paths[k] != path ==> m.paths[k].expiresAt == old(m.paths[k].expiresAt) })
//@ ensures map-unchanged: sameRef(m.paths, old(m.paths)) && forallKey(m.paths, func(k string) bool { return m.paths[k] == old(m.paths[k]) })
//@ end

// The expiry callback armed by touchLocked removes a path only when it is still the stored one and its deadline has passed.
//@ func Manager.touchLocked$1
//@ watch time.Time.Before
//@ requires captured: m != nil && path != nil
//@ ensures only-expired-removed: old(hasKey(m.paths, key)) && !hasKey(m.paths, key) ==> old(m.paths[key]) == path && called("time.Time.Before") && !retBool("time.Time.Before", 0)
//@ ensures others-kept: forallKey(m.paths, func(k string) bool { return old(hasKey(m.paths, k)) && m.paths[k] == old(m.paths[k]) })
//@ ensures never-adds: len(m.paths) <= old(len(m.paths))
//@ ensures unlocked: !held("Manager.mu")
//@ end

//@ func Manager.Start
//@ watch sameAddress Manager.pathLocked rand.Read Manager.touchLocked
//@ invariant inv: INV(m)
//@ ensures disabled: !enabled ==> !result1 && result2 == nil && !called("Manager.pathLocked")
//@ ensures active-not-challenged: enabled && SAME() ==> !result1 && result2 == nil && !called("Manager.pathLocked")
//@ ensures error-no-challenge: result2 != nil ==> !result1
//@ ensures challenge-pending: result1 ==> PL() != nil && PL().challengePending
//@ ensures challenge-arms-deadline: result1 ==> called("Manager.touchLocked") && argAs("Manager.touchLocked", 2, m.paths[""]) == PL()
//@ ensures no-challenge-no-rearm: !result1 ==> !called("Manager.touchLocked")
//@ ensures fresh-cookie: result1 ==> called("rand.Read") && retErr("rand.Read", 1) == nil
//@ ensures one-challenge-at-a-time: result1 ==> forallKey(m.paths, func(k string) bool { return KEPT(k) && m.paths[k] == PL() ==> !old(m.paths[k].challengePending) })
//@ ensures pending-kept: forallKey(m.paths, func(k string) bool { return KEPT(k) && old(m.paths[k].challengePending) ==> m.paths[k].challengePending })
//@ ensures pending-cookie-kept: forallKey(m.paths, func(k string) bool { return KEPT(k) && old(m.paths[k].challengePending) ==>
//@    forall(0, 8, func(i int) bool { return m.paths[k].cookie[i] == old(m.paths[k].cookie[i]) }) })
//@ ensures counters-unchanged: forallKey(m.paths, func(k string) bool { return KEPT(k) ==>
//@    m.paths[k].sentBytes == old(m.paths[k].sentBytes) && m.paths[k].receivedBytes == old(m.paths[k].receivedBytes) })
//@ ensures unlocked: !held("Manager.mu")
// (engine limit, kept last so that it is not assumed by the other clauses: touchLocked is summarised by its write set, which
// contains every byte array because pathKey concatenates strings; the local cookie array read for result0 is havocked.)
//@ ensures challenge-recorded: result1 ==> PL() != nil && PL().challengePending && PL().cookie == result0
//@ end

//@ func Manager.Cancel
//@ watch Manager.touchLocked
//@ invariant inv: INV(m)
//@ ensures never-starts: forallKey(m.paths, func(k string) bool { return m.paths[k].challengePending ==> old(m.paths[k].challengePending) })
//@ ensures other-cookie-kept: forallKey(m.paths, func(k string) bool { return old(m.paths[k].cookie) != cookie ==> m.paths[k].challengePending == old(m.paths[k].challengePending) })
//@ ensures cancelled: called("Manager.touchLocked") ==> !argAs("Manager.touchLocked", 2, m.paths[""]).challengePending && argAs("Manager.touchLocked", 2, m.paths[""]).cookie == cookie
//@ ensures cookies-unchanged: forallKey(m.paths, func(k string) bool { return m.paths[k].cookie == old(m.paths[k].cookie) })
//@ ensures counters-unchanged: forallKey(m.paths, func(k string) bool { return
//@    m.paths[k].sentBytes == old(m.paths[k].sentBytes) && m.paths[k].receivedBytes == old(m.paths[k].receivedBytes) })
//@ ensures map-unchanged: sameRef(m.paths, old(m.paths)) && len(m.paths) == old(len(m.paths))
//@    && forallKey(m.paths, func(k string) bool { return m.paths[k] == old(m.paths[k]) })
//@ ensures unlocked: !held("Manager.mu")
//@ end

//@ func Manager.HandleResponse
//@ watch pathKey time.Time.Before
//@ invariant inv: INV(m)
//@ ensures known-path: result ==> old(m.paths[KEY()]) != nil
//@ ensures was-pending: result ==> old(m.paths[KEY()].challengePending)
//@ ensures cookie-equal: result ==> old(m.paths[KEY()].cookie) == cookie
//@ ensures timely: result ==> called("time.Time.Before") && retBool("time.Time.Before", 0)
//@ ensures expiry-is-the-paths: result ==> argAs("time.Time.Before", 1, m.paths[""].expiresAt) == old(m.paths[KEY()].expiresAt)
//@ ensures validated-clears-candidates: result ==> len(m.paths) == 0
//@ ensures late-response-dropped: called("time.Time.Before") && !retBool("time.Time.Before", 0) ==> !result && !hasKey(m.paths, KEY())
//@ ensures counters-unchanged: forallKey(m.paths, func(k string) bool { return m.paths[k] == old(m.paths[k]) &&
//@    m.paths[k].sentBytes == old(m.paths[k].sentBytes) && m.paths[k].receivedBytes == old(m.paths[k].receivedBytes) })
//@ ensures unlocked: !held("Manager.mu")
//@ end

//@ func Manager.WrapReplayMarker
//@ ensures disabled-passthrough: !enabled ==> sameRef(result, marker)
//@ ensures nil-passthrough: marker == nil ==> result == nil
//@ ensures marker-kept-present: marker != nil ==> result != nil
//@ end

// The wrapped marker and the active-address getter are caller-supplied callbacks; they are assumed
// not to touch the manager or the closure's private flag (no re-entrancy).
//@ assume-pure freevar.marker
//@ assume-pure freevar.activeAddress

//@ func Manager.WrapReplayMarker$1
//@ watch marker Manager.recordReceived activeAddress
//@ requires captured: marker != nil && activeAddress != nil && m != nil
//@ requires inv: INV(m)
//@ ensures inv: INV(m)
//@ ensures forwards-once: ncalls("marker") == 1
//@ ensures returns-marker-result: result == retBool("marker", 0)
//@ ensures counted-once: old(marked) ==> !called("Manager.recordReceived")
//@ ensures counted-first: !old(marked) ==> ncalls("Manager.recordReceived") == 1
//@ ensures marked-after: marked
//@ ensures counts-wire-bytes: !old(marked) ==> argInt("Manager.recordReceived", 3) == wireBytes
//@ ensures counts-after-marker: !old(marked) ==> calledBefore("marker", "Manager.recordReceived")
//@ ensures counts-for-the-source: !old(marked) ==> sameRef(argAs("Manager.recordReceived", 1, addr), addr)
//@ ensures active-is-the-current-peer: !old(marked) ==> called("activeAddress") && sameRef(argAs("Manager.recordReceived", 2, addr), retAs("activeAddress", 0, addr))
//@ end
