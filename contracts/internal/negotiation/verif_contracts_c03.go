//go:build verif

// Contracts for package negotiation: validators are summarised at call sites of the flight parsers.
package negotiation

//@ func ValidateServerHello12Context
//@ noinline
//@ end

//@ func ValidateServerHelloResponse
//@ noinline
//@ end

//@ func ValidateSRTPSelection
//@ noinline
//@ end

//@ func DecideConnectionID
//@ noinline
//@ end
