//go:build verif

// C13 contracts for package negotiation (comment-only; read by /verif/vc).
package negotiation

// ClientHello body (RFC 6347 4.2.1): version(2) random(32) sid_len(1) sid cookie_len(1) cookie
// cipher_suites compression [extensions]. A valid snapshot is produced only by snapshotClientHello,
// which walks these vectors; wf(s) is that snapshot invariant.
//   CO(s)  offset of the cookie length byte      CS(s)  first cookie byte
//   CE(s)  first byte after the cookie           s.extensionOffset  start of the extension block

//@ define CO(s) (35 + int(s.body[34]))
//@ define CS(s) (36 + int(s.body[34]))
//@ define CE(s) (36 + int(s.body[34]) + int(s.body[35 + int(s.body[34])]))
//@ define wf(s) (len(s.body) >= 36 && 35 + int(s.body[34]) < len(s.body) && CE(s) <= s.extensionOffset && s.extensionOffset <= len(s.body))

//@ func helloVerifyClientHelloParts
//@ inline
//@ requires snapshot-invariant: wf(snapshot)
//@ end

//@ func ValidateHelloVerifyRequestResponse
//@ requires snapshot-invariant: (len(initial.body) != 0 ==> wf(initial)) && (len(retry.body) != 0 ==> wf(retry))
//@ ensures both-present: result == nil ==> len(initial.body) != 0 && len(retry.body) != 0
//@ ensures cookie-echoed: result == nil ==> bytesEq(retry.body[CS(retry):CE(retry)], cookie)
//@ ensures same-before-cookie: result == nil ==> bytesEq(initial.body[:CO(initial)], retry.body[:CO(retry)])
//@ ensures same-after-cookie: result == nil ==> bytesEq(initial.body[CE(initial):initial.extensionOffset], retry.body[CE(retry):retry.extensionOffset])
//@ ensures otherwise-identical-extensions: result == nil ==> bytesEq(initial.body[initial.extensionOffset:], retry.body[retry.extensionOffset:])
//@ end
