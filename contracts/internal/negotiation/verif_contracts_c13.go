//go:build verif

// C13 contracts for package negotiation (comment-only; read by /verif/vc).
package negotiation

// ClientHello body (RFC 6347 4.2.1): version(2) random(32) sid_len(1) sid cookie_len(1) cookie
// cipher_suites compression [extensions]. A valid snapshot is produced only by snapshotClientHello,
// which walks these vectors; wf(s) is that snapshot invariant.
//   CO(s)  offset of the cookie length byte      CS(s)  first cookie byte
//   CE(s)  first byte after the cookie           s.extensionOffset  start of the extension block

//@ define CO(s) (35 + int(s.body[34]))
//@ define CS(s) (36 + int(s.body[34]))
//@ define CE(s) (36 + int(s.body[34]) + int(s.body[35 + int(s.body[34])]))
//@ define wf(s) (len(s.body) >= 36 && 35 + int(s.body[34]) < len(s.body) && CE(s) <= s.extensionOffset && s.extensionOffset <= len(s.body))

// helloVerifyClientHelloParts indexes the body without checks; it is memory-safe exactly under wf.
// (No `requires` here or on the validator: the invariant is a type invariant of ClientHelloSnapshot
// that callers in other packages cannot state - the fields are unexported - so it appears as the
// antecedent of the validator's clauses and as safety obligations inside, not as a call-site duty.)

// The snapshot invariant is established where snapshots are made: clientHelloExtensions walks the
// four length-prefixed vectors after the random and returns the rest of the body.

//@ define POS() (offsetOf(remainder) - offsetOf(body))

//@ func clientHelloExtensions
//@ ensures suffix: result1 == nil ==> len(result0) <= len(body) && sameArray(result0, body) && offsetOf(result0) + len(result0) == offsetOf(body) + len(body)
//@ ensures cookie-length-inside: result1 == nil ==> len(body) >= 36 && 35 + int(body[34]) < len(body)
//@ ensures extensions-after-cookie: result1 == nil ==> 36 + int(body[34]) + int(body[35 + int(body[34])]) <= len(body) - len(result0)
//@ loop #1: suffix: sameArray(remainder, body) && offsetOf(remainder) + len(remainder) == offsetOf(body) + len(body) && POS() >= 34 && len(body) >= 34
//@ loop #1: at-session-id: idx == 0 ==> POS() == 34
//@ loop #1: at-cookie: idx == 1 ==> len(body) >= 35 && POS() == 35 + int(body[34])
//@ loop #1: past-cookie: idx >= 2 ==> len(body) >= 36 && 35 + int(body[34]) < len(body) && POS() >= 36 + int(body[34]) + int(body[35 + int(body[34])])
//@ end

//@ func snapshotClientHello
//@ ensures snapshot-invariant: result1 == nil ==> wf(result0)
//@ ensures failed-is-invalid: result1 != nil ==> len(result0.body) == 0
//@ end

// The CID / use_srtp extension comparisons are separate steps; this property only needs that
// they do not touch their inputs, so callers see them as opaque (result unknown).

//@ func validateHelloVerifyExtension
//@ noinline
//@ end

//@ func ValidateSRTPRetry
//@ noinline
//@ end

//@ func ValidateHelloVerifyRequestResponse
//@ ensures both-present: result == nil ==> len(initial.body) != 0 && len(retry.body) != 0
//@ ensures cookie-echoed: result == nil && wf(initial) && wf(retry) ==> old(bytesEq(retry.body[CS(retry):CE(retry)], cookie))
//@ ensures same-before-cookie: result == nil && wf(initial) && wf(retry) ==> old(bytesEq(initial.body[:CO(initial)], retry.body[:CO(retry)]))
//@ ensures same-after-cookie: result == nil && wf(initial) && wf(retry) ==> old(bytesEq(initial.body[CE(initial):initial.extensionOffset], retry.body[CE(retry):retry.extensionOffset]))
//@ ensures otherwise-identical-extensions-length: result == nil && wf(initial) && wf(retry) ==> len(initial.body) - initial.extensionOffset == len(retry.body) - retry.extensionOffset
//@ ensures otherwise-identical-extensions: result == nil && wf(initial) && wf(retry) ==> old(bytesEq(initial.body[initial.extensionOffset:], retry.body[retry.extensionOffset:]))
//@ end
