//go:build verif

// C13 contracts for package negotiation (comment-only; read by /verif/vc).
package negotiation

// ClientHello body (RFC 6347 4.2.1): version(2) random(32) sid_len(1) sid cookie_len(1) cookie
// cipher_suites compression [extensions]. A valid snapshot is produced only by snapshotClientHello,
// which walks these vectors; wf(s) is that snapshot invariant.
//   CO(s)  offset of the cookie length byte      CS(s)  first cookie byte
//   CE(s)  first byte after the cookie           s.extensionOffset  start of the extension block

//@ define CO(s) (35 + int(s.body[34]))
//@ define CS(s) (36 + int(s.body[34]))
//@ define CE(s) (36 + int(s.body[34]) + int(s.body[35 + int(s.body[34])]))
//@ define wf(s) (len(s.body) >= 36 && 35 + int(s.body[34]) < len(s.body) && CE(s) <= s.extensionOffset && s.extensionOffset <= len(s.body))

// helloVerifyClientHelloParts indexes the body without checks; it is memory-safe exactly under wf.
// (No `requires` here or on the validator: the invariant is a type invariant of ClientHelloSnapshot
// that callers in other packages cannot state - the fields are unexported - so it appears as the
// antecedent of the validator's clauses and as safety obligations inside, not as a call-site duty.)

// The snapshot invariant is established where snapshots are made: clientHelloExtensions walks the
// four length-prefixed vectors after the random and returns the rest of the body.

//@ define POS() (offsetOf(remainder) - offsetOf(body))

//@ func clientHelloExtensions
//@ ensures suffix: result1 == nil ==> len(result0) <= len(body) && sameArray(result0, body) && offsetOf(result0) + len(result0) == offsetOf(body) + len(body)
//@ ensures cookie-length-inside: result1 == nil ==> len(body) >= 36 && 35 + int(body[34]) < len(body)
//@ ensures extensions-after-cookie: result1 == nil ==> 36 + int(body[34]) + int(body[35 + int(body[34])]) <= len(body) - len(result0)
//@ loop #1: same-array: sameArray(remainder, body)
//@ loop #1: suffix: offsetOf(remainder) + len(remainder) == offsetOf(body) + len(body)
//@ loop #1: past-random: POS() >= 34 && len(body) >= 34
//@ loop #1: at-session-id: idx == 0 ==> POS() == 34
//@ loop #1: at-cookie: idx == 1 ==> len(body) >= 35 && POS() == 35 + int(body[34])
//@ loop #1: past-cookie: idx >= 2 ==> len(body) >= 36 && 35 + int(body[34]) < len(body) && POS() >= 36 + int(body[34]) + int(body[35 + int(body[34])])
//@ end

//@ func snapshotClientHello
//@ ensures snapshot-invariant: result1 == nil ==> wf(result0)
//@ ensures failed-is-invalid: result1 != nil ==> len(result0.body) == 0
//@ ensures snapshot-is-a-copy-of-the-body: result1 == nil ==> bytesEq(result0.body, body) && fresh(result0.body)
//@ end

// The two retained offers (RFC 6347 4.2.1: the second ClientHello is compared with the first): the first
// recorded offer is the reference and is never replaced by a later one; a successful Record makes the
// offered snapshot the current one; a rejected or invalid snapshot changes nothing.

//@ func ClientHelloSnapshots.Record
//@ ensures invalid-is-ignored: len(snapshot.body) == 0 ==> result == nil && sameRef(s.initial, old(s.initial)) && sameRef(s.current, old(s.current))
//@ ensures first-offer-is-kept: old(len(s.initial.body) != 0) ==> sameRef(s.initial, old(s.initial))
//@ ensures first-offer-is-recorded: len(snapshot.body) != 0 && old(len(s.initial.body) == 0) ==> result == nil && sameRef(s.initial, snapshot)
//@ ensures accepted-offer-is-current: len(snapshot.body) != 0 && result == nil ==> sameRef(s.current, snapshot)
//@ ensures rejected-offer-changes-nothing: result != nil ==> sameRef(s.initial, old(s.initial)) && sameRef(s.current, old(s.current))
//@ end

//@ func ClientHelloSnapshots.RecordWire
//@ ensures first-offer-is-kept: old(len(s.initial.body) != 0) ==> sameRef(s.initial, old(s.initial))
//@ ensures rejected-offer-changes-nothing: result != nil ==> sameRef(s.initial, old(s.initial)) && sameRef(s.current, old(s.current))
//@ ensures accepted-offer-is-the-wire-body: result == nil ==> len(rawHandshake) >= 12 && bytesEq(s.current.body, rawHandshake[12:])
//@ ensures accepted-offer-is-well-formed: result == nil ==> wf(s.current) && len(s.initial.body) != 0
//@ ensures first-offer-is-recorded: result == nil && old(len(s.initial.body) == 0) ==> sameRef(s.initial, s.current)
//@ end

// The CID / use_srtp extension comparisons are separate steps; this property only needs that
// they do not touch their inputs, so callers see them as opaque (result unknown).

//@ func validateHelloVerifyExtension
//@ noinline
//@ end

//@ func ValidateSRTPRetry
//@ noinline
//@ end

//@ func ValidateHelloVerifyRequestResponse
//@ ensures both-present: result == nil ==> len(initial.body) != 0 && len(retry.body) != 0
//@ ensures cookie-echoed: result == nil && wf(initial) && wf(retry) ==> old(bytesEq(retry.body[CS(retry):CE(retry)], cookie))
//@ ensures same-before-cookie: result == nil && wf(initial) && wf(retry) ==> old(bytesEq(initial.body[:CO(initial)], retry.body[:CO(retry)]))
//@ ensures same-after-cookie: result == nil && wf(initial) && wf(retry) ==> old(bytesEq(initial.body[CE(initial):initial.extensionOffset], retry.body[CE(retry):retry.extensionOffset]))
//@ ensures otherwise-identical-extensions-length: result == nil && wf(initial) && wf(retry) ==> len(initial.body) - initial.extensionOffset == len(retry.body) - retry.extensionOffset
//@ ensures otherwise-identical-extensions: result == nil && wf(initial) && wf(retry) ==> old(bytesEq(initial.body[initial.extensionOffset:], retry.body[retry.extensionOffset:]))
//@ end

// DTLS 1.3 (RFC 9147 5.1 / RFC 8446 4.1.2, 4.2.2): ClientHello2 is accepted only with both offers present and a
// HelloRetryRequest that this endpoint validated; the legacy fields before the extension block are
// byte-identical; a requested cookie is echoed byte for byte (extension_data = length(2) || cookie).

//@ define inb(s) (0 <= s.extensionOffset && s.extensionOffset <= len(s.body))

//@ func validateRetryKeyShare
//@ noinline
//@ end

// RFC 8446 4.1.2: ClientHello2 is ClientHello1 with only the listed changes (key_share, early_data,
// cookie, padding, pre_shared_key); after setting those aside the two extension lists are the same
// list: same number of extensions, same types in the same order, same data. An extension added to
// (or dropped from) the end of ClientHello2 is a change.
//@ func retryExtensionsMatch
//@ noinline
//@ watch slices.EqualFunc
//@ ensures compared-as-whole-lists: ncalls("slices.EqualFunc") == 1 && result == retBool("slices.EqualFunc", 0)
//@ ensures first-list-against-second-list: sameSlice(argAs("slices.EqualFunc", 0, first), first) && sameSlice(argAs("slices.EqualFunc", 1, second), second)
//@ end

// The element comparison: same extension type and byte-identical extension data.
//@ func retryExtensionsMatch$1
//@ ensures same-type-and-data: result == (a.Type == b.Type && bytesEq(a.Data, b.Data))
//@ end

// What is set aside before the comparison (RFC 8446 4.1.2): padding; early_data of ClientHello1; key_share
// when the HelloRetryRequest selected a group; cookie when it carried one. Nothing else: a list without
// such extensions is compared as it is.
//@ define SETASIDE(t) (t == extension.TypePadding || (t == extension.TypeEarlyData && initial) || (t == extension.TypeKeyShare && request.HasSelectedGroup) || (t == extension.TypeCookie && request.HasCookie))
//@ func comparableRetryExtensions
//@ ensures not-longer: len(result) <= len(values)
//@ ensures own-list: fresh(result) || len(result) == 0
// [engine limit: the quantified form "no element of the result has a set-aside type" is a loop invariant over a
//  slice of structs through append and stays `unknown`; stated for the one-extension list, both directions]
//@ ensures single-set-aside-removed: len(values) == 1 && SETASIDE(old(values[0].Type)) ==> len(result) == 0
//@ ensures single-other-kept: len(values) == 1 && !SETASIDE(old(values[0].Type)) ==> len(result) == 1 && result[0].Type == old(values[0].Type) && sameSlice(result[0].Data, old(values[0].Data))
//@ loop #1: not-longer: len(result) <= idx && len(result) <= cap(result) && cap(result) == len(values) && fresh(result)
//@ loop #1: first-input-kept: len(values) >= 1 ==> values[0].Type == old(values[0].Type) && sameSlice(values[0].Data, old(values[0].Data))
//@ loop #1: nothing-yet: idx == 0 ==> len(result) == 0
//@ loop #1: single-set-aside-removed: idx == 1 && len(values) == 1 && SETASIDE(old(values[0].Type)) ==> len(result) == 0
//@ loop #1: single-other-kept: idx == 1 && len(values) == 1 && !SETASIDE(old(values[0].Type)) ==> len(result) == 1 && result[0].Type == old(values[0].Type) && sameSlice(result[0].Data, old(values[0].Data))
//@ end

//@ func validateRetryCookie
//@ watch bytes.Equal! Cookie.MarshalData ClientHelloSnapshot.Extension!
//@ ensures no-cookie-requested: !request.HasCookie ==> result == nil
//@ ensures cookie-must-be-present: request.HasCookie && result == nil ==> present && err == nil
//@ ensures cookie-echoed-length: request.HasCookie && result == nil ==> len(cookie.Data) == 2 + len(request.Cookie)
// [engine limit: bytesEq(cookie.Data[2:], request.Cookie) through append(out, c.Cookie...) and bytes.Equal stays
//  `unknown` (40 s); stated instead as: the bytes compared are the extension's data and the encoding of the
//  requested cookie, and the comparison said equal]
//@ ensures cookie-echoed: request.HasCookie && result == nil ==> called("bytes.Equal!") && retBool("bytes.Equal!", 0) && sameSlice(argBytes("bytes.Equal!", 0), cookie.Data) && sameSlice(argBytes("bytes.Equal!", 1), payload)
//@ ensures compared-with-the-requested-cookie: called("Cookie.MarshalData") ==> sameSlice(argAs("Cookie.MarshalData", 0, extension13.Cookie{}).Cookie, request.Cookie) && sameSlice(retBytes("Cookie.MarshalData", 0), payload)
//@ ensures cookie-taken-from-the-retry: called("ClientHelloSnapshot.Extension!") ==> sameRef(argAs("ClientHelloSnapshot.Extension!", 0, ClientHelloSnapshot{}), retry) && argAs("ClientHelloSnapshot.Extension!", 1, extension.Type(0)) == extension.TypeCookie
//@ ensures cookie-length-prefix: request.HasCookie && result == nil ==> int(cookie.Data[0])*256 + int(cookie.Data[1]) == len(request.Cookie)
//@ ensures empty-cookie-never-accepted: request.HasCookie && len(request.Cookie) == 0 ==> result != nil
//@ end

//@ func validateRetryClientHello
//@ watch validateRetryCookie! validateRetryKeyShare! retryExtensionsMatch!
//@ ensures legacy-fields-unchanged: result == nil && inb(initial) && inb(retry) ==> old(bytesEq(initial.body[:initial.extensionOffset], retry.body[:retry.extensionOffset]))
//@ ensures cookie-checked: result == nil ==> called("validateRetryCookie!") && retErr("validateRetryCookie!", 0) == nil
//@ ensures cookie-checked-on-the-retry: called("validateRetryCookie!") ==> sameRef(argAs("validateRetryCookie!", 0, ClientHelloSnapshot{}), retry) && sameRef(argAs("validateRetryCookie!", 1, RetryRequest{}), request)
//@ ensures key-share-checked: result == nil ==> called("validateRetryKeyShare!") && retErr("validateRetryKeyShare!", 0) == nil
//@ ensures key-share-checked-on-the-retry: called("validateRetryKeyShare!") ==> sameRef(argAs("validateRetryKeyShare!", 0, ClientHelloSnapshot{}), retry) && sameRef(argAs("validateRetryKeyShare!", 1, RetryRequest{}), request)
//@ ensures other-extensions-compared: result == nil ==> called("retryExtensionsMatch!") && retBool("retryExtensionsMatch!", 0)
//@ ensures extensions-compared-first-against-second: called("retryExtensionsMatch!") ==> sameRef(argAs("retryExtensionsMatch!", 0, ClientHelloSnapshot{}), initial) && sameRef(argAs("retryExtensionsMatch!", 1, ClientHelloSnapshot{}), retry) && sameRef(argAs("retryExtensionsMatch!", 2, RetryRequest{}), request)
//@ end

//@ func ValidateClientHelloRetry
//@ watch validateRetryClientHello!
//@ ensures needs-both-offers: result == nil ==> len(initial.body) != 0 && len(retry.body) != 0
//@ ensures needs-a-validated-request: result == nil ==> request.valid
//@ ensures retry-rules-applied: result == nil ==> called("validateRetryClientHello!") && retErr("validateRetryClientHello!", 0) == nil
//@ ensures retry-rules-applied-to-these-offers: called("validateRetryClientHello!") ==> sameRef(argAs("validateRetryClientHello!", 0, ClientHelloSnapshot{}), initial) && sameRef(argAs("validateRetryClientHello!", 1, ClientHelloSnapshot{}), retry) && sameRef(argAs("validateRetryClientHello!", 2, RetryRequest{}), request)
//@ end
