//go:build verif

// C11 contracts for package negotiation (comment-only; read by /verif/vc).
package negotiation

// RFC 5246 7.4.1.4 / RFC 9147: a response extension must have been offered, unless explicitly
// allowed (cookie in a HelloRetryRequest, renegotiation_info after the SCSV).
// The step fact proved per element: the scan moves past an extension only if
// offer.Offered(type) or allowed(type) returned true for the type that this very
// extension reported. A nil result means the scan moved past every element.

// The allowed callback is a predicate on the extension type (the only one in the tree is the
// closure in ValidateServerHelloResponse); it is assumed not to modify program state.
//@ assume-pure param.allowed

//@ func ValidateResponseExtensions
//@ watch Value.ExtensionType ClientHelloSnapshot.Offered allowed
//@ requires no-nil-values: forall(0, len(values), func(i int) bool { return !isNil(values[i]) })
//@ ensures scanned-all: result == nil ==> ncalls("Value.ExtensionType") == len(values)
//@ ensures last-accepted: result == nil && len(values) > 0 ==> retBool("ClientHelloSnapshot.Offered", 0) || (allowed != nil && called("allowed") && retBool("allowed", 0))
//@ loop #1: one-query-per-element: ncalls("Value.ExtensionType") == idx && ncalls("ClientHelloSnapshot.Offered") == idx
//@ loop #1: no-nil-values: forall(0, len(values), func(i int) bool { return !isNil(values[i]) })
//@ loop #1: element-queried: idx > 0 ==> sameRef(argAny("Value.ExtensionType", 0), values[idx-1])
//@ loop #1: type-checked-is-type-reported: idx > 0 ==> argAs("ClientHelloSnapshot.Offered", 1, extension.Type(0)) == retAs("Value.ExtensionType", 0, extension.Type(0))
//@ loop #1: accepted: idx > 0 ==> retBool("ClientHelloSnapshot.Offered", 0) || (allowed != nil && called("allowed") && retBool("allowed", 0)
//@    && argAs("allowed", 0, extension.Type(0)) == retAs("Value.ExtensionType", 0, extension.Type(0)))
//@ end

// RFC 5764 4.1.1: the profile the server selected must be one the client offered; "the SRTP profile
// comes from both lists": the client accepts a selection only when the profile is also in its own
// configured list (localProfiles), whatever the ClientHello on the wire offered.
//@ func ValidateSRTPSelection
//@ ensures selection-in-local-policy: result1 == nil && result0.ProtectionProfile != 0 ==> exists(0, len(localProfiles), func(i int) bool { return localProfiles[i] == result0.ProtectionProfile })
//@ end
