//go:build verif

// C13 support for package ciphersuite (comment-only; read by /verif/vc).
package ciphersuite

// Suite lookup by ID is opaque to the cookie-exchange step contracts.

//@ func ForID
//@ noinline
//@ end
