//go:build verif

// C09: DTLS 1.3 per-record nonce (RFC 9147 4 / RFC 8446 5.3): the 64-bit record sequence number is
// left-padded to iv_length and XORed with the write IV. Distinct sequence numbers give distinct nonces
// under one traffic key. Comment-only; read by /verif/vc.
package ciphersuite

//@ func recordNonce13
//@ ensures iv-length-checked: len(iv) != 12 ==> result1 != nil && isNil(result0)
//@ ensures ok: len(iv) == 12 ==> result1 == nil && len(result0) == 12
//@ ensures fresh-nonce: result1 == nil ==> fresh(result0)
//@ ensures prefix-is-iv: result1 == nil ==> forall(0, 4, func(j int) bool { return result0[j] == iv[j] })
//@ ensures suffix-is-iv-xor-sequence: result1 == nil ==> result0[4] == iv[4] ^ byte(sequenceNumber >> 56) && result0[5] == iv[5] ^ byte(sequenceNumber >> 48) && result0[6] == iv[6] ^ byte(sequenceNumber >> 40) && result0[7] == iv[7] ^ byte(sequenceNumber >> 32) && result0[8] == iv[8] ^ byte(sequenceNumber >> 24) && result0[9] == iv[9] ^ byte(sequenceNumber >> 16) && result0[10] == iv[10] ^ byte(sequenceNumber >> 8) && result0[11] == iv[11] ^ byte(sequenceNumber >> 0)
//@ ensures iv-unchanged: forall(0, len(iv), func(j int) bool { return iv[j] == old(iv[j]) })
//@ loop #1: shape: len(nonce) == 12 && len(iv) == 12 && !sameArray(nonce, iv) && fresh(nonce)
//@ loop #1: iv-unchanged: iv[0] == old(iv[0]) && iv[1] == old(iv[1]) && iv[2] == old(iv[2]) && iv[3] == old(iv[3]) && iv[4] == old(iv[4]) && iv[5] == old(iv[5]) && iv[6] == old(iv[6]) && iv[7] == old(iv[7]) && iv[8] == old(iv[8]) && iv[9] == old(iv[9]) && iv[10] == old(iv[10]) && iv[11] == old(iv[11])
//@ loop #1: prefix-is-iv: nonce[0] == iv[0] && nonce[1] == iv[1] && nonce[2] == iv[2] && nonce[3] == iv[3]
//@ loop #1: done: (i > 0 ==> nonce[4] == iv[4] ^ byte(sequenceNumber >> 56)) && (i > 1 ==> nonce[5] == iv[5] ^ byte(sequenceNumber >> 48)) && (i > 2 ==> nonce[6] == iv[6] ^ byte(sequenceNumber >> 40)) && (i > 3 ==> nonce[7] == iv[7] ^ byte(sequenceNumber >> 32)) && (i > 4 ==> nonce[8] == iv[8] ^ byte(sequenceNumber >> 24)) && (i > 5 ==> nonce[9] == iv[9] ^ byte(sequenceNumber >> 16)) && (i > 6 ==> nonce[10] == iv[10] ^ byte(sequenceNumber >> 8)) && (i > 7 ==> nonce[11] == iv[11] ^ byte(sequenceNumber >> 0))
//@ loop #1: todo: (i <= 0 ==> nonce[4] == iv[4]) && (i <= 1 ==> nonce[5] == iv[5]) && (i <= 2 ==> nonce[6] == iv[6]) && (i <= 3 ==> nonce[7] == iv[7]) && (i <= 4 ==> nonce[8] == iv[8]) && (i <= 5 ==> nonce[9] == iv[9]) && (i <= 6 ==> nonce[10] == iv[10]) && (i <= 7 ==> nonce[11] == iv[11])
//@ end

// seal: the AEAD is keyed with the nonce computed from this protection's IV and the caller's sequence number.
//@ func recordTrafficProtection13.seal
//@ watch AEAD.Seal recordNonce13 UnifiedHeader.Marshal
//@ ensures sealed-at-most-once: ncalls("AEAD.Seal") <= 1
//@ ensures sealed-on-success: result1 == nil ==> ncalls("AEAD.Seal") == 1
//@ ensures nonce-from-iv-and-sequence: called("AEAD.Seal") ==> called("recordNonce13") && retErr("recordNonce13", 1) == nil && sameSlice(argBytes("AEAD.Seal", 2), retBytes("recordNonce13", 0))
//@ ensures nonce-inputs: called("recordNonce13") ==> sameSlice(argBytes("recordNonce13", 0), r.iv) && argU64("recordNonce13", 1) == sequenceNumber
//@ ensures aad-is-header: called("AEAD.Seal") ==> called("UnifiedHeader.Marshal") && sameSlice(argBytes("AEAD.Seal", 4), retBytes("UnifiedHeader.Marshal", 0))
//@ ensures nonce-error-rejected: called("recordNonce13") && retErr("recordNonce13", 1) != nil ==> result1 != nil && !called("AEAD.Seal")
//@ end
