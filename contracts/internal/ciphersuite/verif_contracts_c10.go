//go:build verif

// C10: DTLS 1.3 record protection keys and sequence-number encryption (RFC 8446 7.3, RFC 9147 4.2.3), and the
// TLS 1.2 key-block parameters of every DTLS 1.2 suite (RFC 5246 6.3 / appendix C, RFC 5288, RFC 6655, RFC 7905).
// HKDF, AES and ChaCha20 are opaque; the clauses fix what is handed to them. Comment-only; read by /verif/vc.
package ciphersuite

// RFC 8446 7.3:    [sender]_write_key = HKDF-Expand-Label(Secret, "key", "", key_length)
//                  [sender]_write_iv  = HKDF-Expand-Label(Secret, "iv", "", iv_length)      (iv_length = 12)
// RFC 9147 4.2.3:  [sender]_sn_key    = HKDF-Expand-Label(Secret, "sn", "", key_length)
//@ func deriveRecordTrafficKeys13
//@ watch HkdfExpandLabel
//@ ensures all-three-derived: result1 == nil ==> ncalls("HkdfExpandLabel") == 3
//@ ensures at-most-three: ncalls("HkdfExpandLabel") <= 3
//@ ensures keyed-by-traffic-secret: always("HkdfExpandLabel", "sameSlice(argBytes(\"HkdfExpandLabel\", 1), trafficSecret)")
//@ ensures empty-context: always("HkdfExpandLabel", "len(argBytes(\"HkdfExpandLabel\", 3)) == 0")
//@ ensures key-first: always("HkdfExpandLabel", "ncalls(\"HkdfExpandLabel\") == 1 ==> argAs(\"HkdfExpandLabel\", 2, \"\") == \"key\" && argInt(\"HkdfExpandLabel\", 4) == keyLen")
//@ ensures iv-second: always("HkdfExpandLabel", "ncalls(\"HkdfExpandLabel\") == 2 ==> argAs(\"HkdfExpandLabel\", 2, \"\") == \"iv\" && argInt(\"HkdfExpandLabel\", 4) == 12")
//@ ensures sn-third: always("HkdfExpandLabel", "ncalls(\"HkdfExpandLabel\") == 3 ==> argAs(\"HkdfExpandLabel\", 2, \"\") == \"sn\" && argInt(\"HkdfExpandLabel\", 4) == keyLen")
//@ ensures sn-key-is-third-output: result1 == nil ==> sameSlice(result0.sequenceNumberKey, retBytes("HkdfExpandLabel", 0))
//@ ensures positive-key-length: keyLen <= 0 ==> result1 != nil && !called("HkdfExpandLabel")
//@ end

// ---------------------------------------------------------------------------------------------------------
// DTLS 1.2 suites: key_block parameters (RFC 5246 6.3: MAC keys, then write keys, then IVs; lengths per suite)
// and which half of the key block keys which direction (the client writes with client_write_*, RFC 5246 6.3).
//@ define KEYS(x) retAs("prf.GenerateEncryptionKeys", 0, &prf.EncryptionKeys{})
//@ define KDFARGS(ms, cr, sr) (ncalls("prf.GenerateEncryptionKeys") == 1 && sameSlice(argBytes("prf.GenerateEncryptionKeys", 0), ms) && sameSlice(argBytes("prf.GenerateEncryptionKeys", 1), cr) && sameSlice(argBytes("prf.GenerateEncryptionKeys", 2), sr))
//@ define KDFLENS(m, k, i) (argInt("prf.GenerateEncryptionKeys", 3) == m && argInt("prf.GenerateEncryptionKeys", 4) == k && argInt("prf.GenerateEncryptionKeys", 5) == i)

// AES-GCM (RFC 5288 3): no MAC key; salt (implicit nonce part) of 4 bytes.

//@ func TLSEcdheEcdsaWithAes128GcmSha256.init
//@ watch prf.GenerateEncryptionKeys ciphersuite.NewGCM
//@ requires lengths: 0 <= prfMacLen && prfMacLen <= 1024 && 0 <= prfKeyLen && prfKeyLen <= 1024 && 0 <= prfIvLen && prfIvLen <= 1024
//@ ensures key-block-inputs: KDFARGS(masterSecret, clientRandom, serverRandom) && KDFLENS(prfMacLen, prfKeyLen, prfIvLen)
//@ ensures cipher-at-most-once: ncalls("ciphersuite.NewGCM") <= 1
//@ ensures key-block-error-propagated: retErr("prf.GenerateEncryptionKeys", 1) != nil ==> result != nil && !called("ciphersuite.NewGCM")
//@ ensures client-writes-with-client-keys: called("ciphersuite.NewGCM") && isClient ==> (sameSlice(argBytes("ciphersuite.NewGCM", 0), KEYS(0).ClientWriteKey) && sameSlice(argBytes("ciphersuite.NewGCM", 1), KEYS(0).ClientWriteIV) && sameSlice(argBytes("ciphersuite.NewGCM", 2), KEYS(0).ServerWriteKey) && sameSlice(argBytes("ciphersuite.NewGCM", 3), KEYS(0).ServerWriteIV))
//@ ensures server-writes-with-server-keys: called("ciphersuite.NewGCM") && !isClient ==> (sameSlice(argBytes("ciphersuite.NewGCM", 0), KEYS(0).ServerWriteKey) && sameSlice(argBytes("ciphersuite.NewGCM", 1), KEYS(0).ServerWriteIV) && sameSlice(argBytes("ciphersuite.NewGCM", 2), KEYS(0).ClientWriteKey) && sameSlice(argBytes("ciphersuite.NewGCM", 3), KEYS(0).ClientWriteIV))
//@ end

// TLS_*_WITH_AES_128_GCM_SHA256 (RFC 5288 / RFC 5289): 16-byte key, 4-byte salt, no MAC key.
//@ func TLSEcdheEcdsaWithAes128GcmSha256.Init
//@ watch TLSEcdheEcdsaWithAes128GcmSha256.init
//@ ensures delegated-once: ncalls("TLSEcdheEcdsaWithAes128GcmSha256.init") == 1 && result == retErr("TLSEcdheEcdsaWithAes128GcmSha256.init", 0)
//@ ensures inputs: sameSlice(argBytes("TLSEcdheEcdsaWithAes128GcmSha256.init", 1), masterSecret) && sameSlice(argBytes("TLSEcdheEcdsaWithAes128GcmSha256.init", 2), clientRandom) && sameSlice(argBytes("TLSEcdheEcdsaWithAes128GcmSha256.init", 3), serverRandom) && argBool("TLSEcdheEcdsaWithAes128GcmSha256.init", 4) == isClient
//@ ensures lengths-aes-128-gcm: argInt("TLSEcdheEcdsaWithAes128GcmSha256.init", 5) == 0 && argInt("TLSEcdheEcdsaWithAes128GcmSha256.init", 6) == 16 && argInt("TLSEcdheEcdsaWithAes128GcmSha256.init", 7) == 4
//@ end

// TLS_*_WITH_AES_256_GCM_SHA384 (RFC 5288 / RFC 5289): 32-byte key, 4-byte salt, no MAC key.
//@ func TLSEcdheEcdsaWithAes256GcmSha384.Init
//@ watch TLSEcdheEcdsaWithAes128GcmSha256.init
//@ ensures delegated-once: ncalls("TLSEcdheEcdsaWithAes128GcmSha256.init") == 1 && result == retErr("TLSEcdheEcdsaWithAes128GcmSha256.init", 0)
//@ ensures inputs: sameSlice(argBytes("TLSEcdheEcdsaWithAes128GcmSha256.init", 1), masterSecret) && sameSlice(argBytes("TLSEcdheEcdsaWithAes128GcmSha256.init", 2), clientRandom) && sameSlice(argBytes("TLSEcdheEcdsaWithAes128GcmSha256.init", 3), serverRandom) && argBool("TLSEcdheEcdsaWithAes128GcmSha256.init", 4) == isClient
//@ ensures lengths-aes-256-gcm: argInt("TLSEcdheEcdsaWithAes128GcmSha256.init", 5) == 0 && argInt("TLSEcdheEcdsaWithAes128GcmSha256.init", 6) == 32 && argInt("TLSEcdheEcdsaWithAes128GcmSha256.init", 7) == 4
//@ end

// ChaCha20-Poly1305 (RFC 7905 2): 32-byte key, 12-byte write IV, no MAC key.

//@ func TLSEcdheEcdsaWithChacha20Poly1305Sha256.init
//@ watch prf.GenerateEncryptionKeys ciphersuite.NewChaCha20Poly1305
//@ requires lengths: 0 <= prfMacLen && prfMacLen <= 1024 && 0 <= prfKeyLen && prfKeyLen <= 1024 && 0 <= prfIvLen && prfIvLen <= 1024
//@ ensures key-block-inputs: KDFARGS(masterSecret, clientRandom, serverRandom) && KDFLENS(prfMacLen, prfKeyLen, prfIvLen)
//@ ensures cipher-at-most-once: ncalls("ciphersuite.NewChaCha20Poly1305") <= 1
//@ ensures key-block-error-propagated: retErr("prf.GenerateEncryptionKeys", 1) != nil ==> result != nil && !called("ciphersuite.NewChaCha20Poly1305")
//@ ensures client-writes-with-client-keys: called("ciphersuite.NewChaCha20Poly1305") && isClient ==> (sameSlice(argBytes("ciphersuite.NewChaCha20Poly1305", 0), KEYS(0).ClientWriteKey) && sameSlice(argBytes("ciphersuite.NewChaCha20Poly1305", 1), KEYS(0).ClientWriteIV) && sameSlice(argBytes("ciphersuite.NewChaCha20Poly1305", 2), KEYS(0).ServerWriteKey) && sameSlice(argBytes("ciphersuite.NewChaCha20Poly1305", 3), KEYS(0).ServerWriteIV))
//@ ensures server-writes-with-server-keys: called("ciphersuite.NewChaCha20Poly1305") && !isClient ==> (sameSlice(argBytes("ciphersuite.NewChaCha20Poly1305", 0), KEYS(0).ServerWriteKey) && sameSlice(argBytes("ciphersuite.NewChaCha20Poly1305", 1), KEYS(0).ServerWriteIV) && sameSlice(argBytes("ciphersuite.NewChaCha20Poly1305", 2), KEYS(0).ClientWriteKey) && sameSlice(argBytes("ciphersuite.NewChaCha20Poly1305", 3), KEYS(0).ClientWriteIV))
//@ end

//@ func TLSEcdheEcdsaWithChacha20Poly1305Sha256.Init
//@ watch TLSEcdheEcdsaWithChacha20Poly1305Sha256.init
//@ ensures delegated-once: ncalls("TLSEcdheEcdsaWithChacha20Poly1305Sha256.init") == 1 && result == retErr("TLSEcdheEcdsaWithChacha20Poly1305Sha256.init", 0)
//@ ensures inputs: sameSlice(argBytes("TLSEcdheEcdsaWithChacha20Poly1305Sha256.init", 1), masterSecret) && sameSlice(argBytes("TLSEcdheEcdsaWithChacha20Poly1305Sha256.init", 2), clientRandom) && sameSlice(argBytes("TLSEcdheEcdsaWithChacha20Poly1305Sha256.init", 3), serverRandom) && argBool("TLSEcdheEcdsaWithChacha20Poly1305Sha256.init", 4) == isClient
//@ ensures lengths-chacha20-poly1305: argInt("TLSEcdheEcdsaWithChacha20Poly1305Sha256.init", 5) == 0 && argInt("TLSEcdheEcdsaWithChacha20Poly1305Sha256.init", 6) == 32 && argInt("TLSEcdheEcdsaWithChacha20Poly1305Sha256.init", 7) == 12
//@ end

// AES-CCM (RFC 6655 3 / RFC 7251): as AES-GCM: no MAC key, 4-byte salt; the key length comes from the concrete suite.
//@ func AesCcm.Init
//@ watch prf.GenerateEncryptionKeys ciphersuite.NewCCM
//@ requires lengths: 0 <= prfKeyLen && prfKeyLen <= 1024
//@ ensures key-block-inputs: KDFARGS(masterSecret, clientRandom, serverRandom) && KDFLENS(0, prfKeyLen, 4)
//@ ensures cipher-at-most-once: ncalls("ciphersuite.NewCCM") <= 1
//@ ensures key-block-error-propagated: retErr("prf.GenerateEncryptionKeys", 1) != nil ==> result != nil && !called("ciphersuite.NewCCM")
//@ ensures client-writes-with-client-keys: called("ciphersuite.NewCCM") && isClient ==> sameSlice(argBytes("ciphersuite.NewCCM", 1), KEYS(0).ClientWriteKey) && sameSlice(argBytes("ciphersuite.NewCCM", 2), KEYS(0).ClientWriteIV) && sameSlice(argBytes("ciphersuite.NewCCM", 3), KEYS(0).ServerWriteKey) && sameSlice(argBytes("ciphersuite.NewCCM", 4), KEYS(0).ServerWriteIV)
//@ ensures server-writes-with-server-keys: called("ciphersuite.NewCCM") && !isClient ==> sameSlice(argBytes("ciphersuite.NewCCM", 1), KEYS(0).ServerWriteKey) && sameSlice(argBytes("ciphersuite.NewCCM", 2), KEYS(0).ServerWriteIV) && sameSlice(argBytes("ciphersuite.NewCCM", 3), KEYS(0).ClientWriteKey) && sameSlice(argBytes("ciphersuite.NewCCM", 4), KEYS(0).ClientWriteIV)
//@ ensures tag-length-of-suite: called("ciphersuite.NewCCM") ==> argAs("ciphersuite.NewCCM", 0, c.cryptoCCMTagLen) == c.cryptoCCMTagLen
//@ end

//@ func Aes128Ccm.Init
//@ watch AesCcm.Init
//@ ensures delegated-once: ncalls("AesCcm.Init") == 1 && result == retErr("AesCcm.Init", 0)
//@ ensures inputs: sameSlice(argBytes("AesCcm.Init", 1), masterSecret) && sameSlice(argBytes("AesCcm.Init", 2), clientRandom) && sameSlice(argBytes("AesCcm.Init", 3), serverRandom) && argBool("AesCcm.Init", 4) == isClient
//@ ensures key-length-aes-128: argInt("AesCcm.Init", 5) == 16
//@ end

//@ func Aes256Ccm.Init
//@ watch AesCcm.Init
//@ ensures delegated-once: ncalls("AesCcm.Init") == 1 && result == retErr("AesCcm.Init", 0)
//@ ensures inputs: sameSlice(argBytes("AesCcm.Init", 1), masterSecret) && sameSlice(argBytes("AesCcm.Init", 2), clientRandom) && sameSlice(argBytes("AesCcm.Init", 3), serverRandom) && argBool("AesCcm.Init", 4) == isClient
//@ ensures key-length-aes-256: argInt("AesCcm.Init", 5) == 32
//@ end

// CBC suites (RFC 5246 6.2.3.2, appendix C): HMAC key of the MAC algorithm's size, AES key; the per-record IV is explicit,
// so the IV part of the key block is not wire-visible and not constrained here.
// TLS_ECDHE_*_WITH_AES_256_CBC_SHA (RFC 8422): HMAC-SHA1 key 20, AES-256 key 32.
//@ func TLSEcdheEcdsaWithAes256CbcSha.Init
//@ watch prf.GenerateEncryptionKeys ciphersuite.NewCBC
//@ ensures key-block-inputs: KDFARGS(masterSecret, clientRandom, serverRandom)
//@ ensures mac-and-key-lengths: argInt("prf.GenerateEncryptionKeys", 3) == 20 && argInt("prf.GenerateEncryptionKeys", 4) == 32
//@ ensures cipher-at-most-once: ncalls("ciphersuite.NewCBC") <= 1
//@ ensures key-block-error-propagated: retErr("prf.GenerateEncryptionKeys", 1) != nil ==> result != nil && !called("ciphersuite.NewCBC")
//@ ensures client-writes-with-client-keys: called("ciphersuite.NewCBC") && isClient ==> sameSlice(argBytes("ciphersuite.NewCBC", 0), KEYS(0).ClientWriteKey) && sameSlice(argBytes("ciphersuite.NewCBC", 1), KEYS(0).ClientWriteIV) && sameSlice(argBytes("ciphersuite.NewCBC", 2), KEYS(0).ClientMACKey) && sameSlice(argBytes("ciphersuite.NewCBC", 3), KEYS(0).ServerWriteKey) && sameSlice(argBytes("ciphersuite.NewCBC", 4), KEYS(0).ServerWriteIV) && sameSlice(argBytes("ciphersuite.NewCBC", 5), KEYS(0).ServerMACKey)
//@ ensures server-writes-with-server-keys: called("ciphersuite.NewCBC") && !isClient ==> sameSlice(argBytes("ciphersuite.NewCBC", 0), KEYS(0).ServerWriteKey) && sameSlice(argBytes("ciphersuite.NewCBC", 1), KEYS(0).ServerWriteIV) && sameSlice(argBytes("ciphersuite.NewCBC", 2), KEYS(0).ServerMACKey) && sameSlice(argBytes("ciphersuite.NewCBC", 3), KEYS(0).ClientWriteKey) && sameSlice(argBytes("ciphersuite.NewCBC", 4), KEYS(0).ClientWriteIV) && sameSlice(argBytes("ciphersuite.NewCBC", 5), KEYS(0).ClientMACKey)
//@ end

// TLS_PSK_WITH_AES_128_CBC_SHA256 (RFC 5487): HMAC-SHA256 key 32, AES-128 key 16.
//@ func TLSPskWithAes128CbcSha256.Init
//@ watch prf.GenerateEncryptionKeys ciphersuite.NewCBC
//@ ensures key-block-inputs: KDFARGS(masterSecret, clientRandom, serverRandom)
//@ ensures mac-and-key-lengths: argInt("prf.GenerateEncryptionKeys", 3) == 32 && argInt("prf.GenerateEncryptionKeys", 4) == 16
//@ ensures cipher-at-most-once: ncalls("ciphersuite.NewCBC") <= 1
//@ ensures key-block-error-propagated: retErr("prf.GenerateEncryptionKeys", 1) != nil ==> result != nil && !called("ciphersuite.NewCBC")
//@ ensures client-writes-with-client-keys: called("ciphersuite.NewCBC") && isClient ==> sameSlice(argBytes("ciphersuite.NewCBC", 0), KEYS(0).ClientWriteKey) && sameSlice(argBytes("ciphersuite.NewCBC", 1), KEYS(0).ClientWriteIV) && sameSlice(argBytes("ciphersuite.NewCBC", 2), KEYS(0).ClientMACKey) && sameSlice(argBytes("ciphersuite.NewCBC", 3), KEYS(0).ServerWriteKey) && sameSlice(argBytes("ciphersuite.NewCBC", 4), KEYS(0).ServerWriteIV) && sameSlice(argBytes("ciphersuite.NewCBC", 5), KEYS(0).ServerMACKey)
//@ ensures server-writes-with-server-keys: called("ciphersuite.NewCBC") && !isClient ==> sameSlice(argBytes("ciphersuite.NewCBC", 0), KEYS(0).ServerWriteKey) && sameSlice(argBytes("ciphersuite.NewCBC", 1), KEYS(0).ServerWriteIV) && sameSlice(argBytes("ciphersuite.NewCBC", 2), KEYS(0).ServerMACKey) && sameSlice(argBytes("ciphersuite.NewCBC", 3), KEYS(0).ClientWriteKey) && sameSlice(argBytes("ciphersuite.NewCBC", 4), KEYS(0).ClientWriteIV) && sameSlice(argBytes("ciphersuite.NewCBC", 5), KEYS(0).ClientMACKey)
//@ end

// TLS_ECDHE_PSK_WITH_AES_128_CBC_SHA256 (RFC 5489): HMAC-SHA256 key 32, AES-128 key 16.
//@ func TLSEcdhePskWithAes128CbcSha256.Init
//@ watch prf.GenerateEncryptionKeys ciphersuite.NewCBC
//@ ensures key-block-inputs: KDFARGS(masterSecret, clientRandom, serverRandom)
//@ ensures mac-and-key-lengths: argInt("prf.GenerateEncryptionKeys", 3) == 32 && argInt("prf.GenerateEncryptionKeys", 4) == 16
//@ ensures cipher-at-most-once: ncalls("ciphersuite.NewCBC") <= 1
//@ ensures key-block-error-propagated: retErr("prf.GenerateEncryptionKeys", 1) != nil ==> result != nil && !called("ciphersuite.NewCBC")
//@ ensures client-writes-with-client-keys: called("ciphersuite.NewCBC") && isClient ==> sameSlice(argBytes("ciphersuite.NewCBC", 0), KEYS(0).ClientWriteKey) && sameSlice(argBytes("ciphersuite.NewCBC", 1), KEYS(0).ClientWriteIV) && sameSlice(argBytes("ciphersuite.NewCBC", 2), KEYS(0).ClientMACKey) && sameSlice(argBytes("ciphersuite.NewCBC", 3), KEYS(0).ServerWriteKey) && sameSlice(argBytes("ciphersuite.NewCBC", 4), KEYS(0).ServerWriteIV) && sameSlice(argBytes("ciphersuite.NewCBC", 5), KEYS(0).ServerMACKey)
//@ ensures server-writes-with-server-keys: called("ciphersuite.NewCBC") && !isClient ==> sameSlice(argBytes("ciphersuite.NewCBC", 0), KEYS(0).ServerWriteKey) && sameSlice(argBytes("ciphersuite.NewCBC", 1), KEYS(0).ServerWriteIV) && sameSlice(argBytes("ciphersuite.NewCBC", 2), KEYS(0).ServerMACKey) && sameSlice(argBytes("ciphersuite.NewCBC", 3), KEYS(0).ClientWriteKey) && sameSlice(argBytes("ciphersuite.NewCBC", 4), KEYS(0).ClientWriteIV) && sameSlice(argBytes("ciphersuite.NewCBC", 5), KEYS(0).ClientMACKey)
//@ end

// ---------------------------------------------------------------------------------------------------------
// DTLS 1.3 record sequence number encryption (RFC 9147 4.2.3): the on-the-wire sequence number (16 or 8 bits) is
// XORed with the leading bytes of the mask; mask = AES-ECB(sn_key, ciphertext[0..15]) for the AES suites and
// ChaCha20(sn_key, counter = ciphertext[0..3], nonce = ciphertext[4..15]) for ChaCha20-Poly1305.
//@ func applySequenceNumberMask13
//@ ensures nil-header-rejected: header == nil ==> result != nil
//@ ensures sixteen-bit-xor-two-mask-bytes: header != nil && old(header.SeqBit) && len(mask) >= 2 ==> result == nil
//@    && header.SequenceNumber == old(header.SequenceNumber) ^ (uint16(mask[0])<<8 | uint16(mask[1]))
//@ ensures eight-bit-xor-one-mask-byte: header != nil && !old(header.SeqBit) && len(mask) >= 1 ==> result == nil
//@    && header.SequenceNumber == (old(header.SequenceNumber) ^ uint16(mask[0])) & 0x00ff
//@ ensures short-mask-rejected: header != nil && (len(mask) == 0 || (old(header.SeqBit) && len(mask) < 2)) ==> result != nil && header.SequenceNumber == old(header.SequenceNumber)
//@ ensures rest-of-header-kept: header != nil ==> header.SeqBit == old(header.SeqBit) && header.LengthBit == old(header.LengthBit) && header.Length == old(header.Length) && header.EpochLow == old(header.EpochLow) && sameSlice(header.ConnectionID, old(header.ConnectionID))
//@ end

//@ func recordSequenceNumberMaskAES13
//@ watch aes.NewCipher Block.Encrypt
//@ ensures sample-of-16-needed: len(encryptedRecord) < 16 ==> result1 != nil && !called("aes.NewCipher") && !called("Block.Encrypt")
//@ ensures keyed-by-sn-key: called("aes.NewCipher") ==> ncalls("aes.NewCipher") == 1 && sameSlice(argBytes("aes.NewCipher", 0), sequenceNumberKey)
//@ ensures one-block-encrypted: result1 == nil ==> ncalls("Block.Encrypt") == 1 && sameRef(argAny("Block.Encrypt", 0), retAny("aes.NewCipher", 0))
//@ ensures sample-is-first-16-ciphertext-bytes: called("Block.Encrypt") ==> sameArray(argBytes("Block.Encrypt", 2), encryptedRecord) && offsetOf(argBytes("Block.Encrypt", 2)) == offsetOf(encryptedRecord) && len(argBytes("Block.Encrypt", 2)) == 16
//@ ensures mask-is-cipher-output: result1 == nil ==> sameSlice(result0, argBytes("Block.Encrypt", 1)) && len(result0) == 16 && fresh(result0)
//@ end

//@ func recordSequenceNumberMaskChaCha20Poly1305TLS13
//@ watch chacha20.NewUnauthenticatedCipher Cipher.SetCounter Cipher.XORKeyStream littleEndian.Uint32
//@ ensures sample-of-16-needed: len(encryptedRecord) < 16 ==> result1 != nil && !called("chacha20.NewUnauthenticatedCipher")
//@ ensures keyed-by-sn-key: called("chacha20.NewUnauthenticatedCipher") ==> ncalls("chacha20.NewUnauthenticatedCipher") == 1 && sameSlice(argBytes("chacha20.NewUnauthenticatedCipher", 0), sequenceNumberKey)
//@ ensures nonce-is-ciphertext-4-to-15: called("chacha20.NewUnauthenticatedCipher") ==> sameArray(argBytes("chacha20.NewUnauthenticatedCipher", 1), encryptedRecord)
//@    && offsetOf(argBytes("chacha20.NewUnauthenticatedCipher", 1)) == offsetOf(encryptedRecord) + 4 && len(argBytes("chacha20.NewUnauthenticatedCipher", 1)) == 12
//@ ensures counter-is-ciphertext-0-to-3-little-endian: result1 == nil ==> ncalls("Cipher.SetCounter") == 1 && ncalls("littleEndian.Uint32") == 1
//@    && argAs("Cipher.SetCounter", 1, uint32(0)) == retAs("littleEndian.Uint32", 0, uint32(0))
//@    && sameArray(argBytes("littleEndian.Uint32", 1), encryptedRecord) && offsetOf(argBytes("littleEndian.Uint32", 1)) == offsetOf(encryptedRecord) && len(argBytes("littleEndian.Uint32", 1)) == 4
//@ ensures counter-set-on-that-cipher-before-keystream: result1 == nil ==> argAs("Cipher.SetCounter", 0, &chacha20.Cipher{}) == retAs("chacha20.NewUnauthenticatedCipher", 0, &chacha20.Cipher{})
//@    && argAs("Cipher.XORKeyStream", 0, &chacha20.Cipher{}) == retAs("chacha20.NewUnauthenticatedCipher", 0, &chacha20.Cipher{}) && calledBefore("Cipher.SetCounter", "Cipher.XORKeyStream")
//@ ensures mask-is-one-keystream-block: result1 == nil ==> ncalls("Cipher.XORKeyStream") == 1 && sameSlice(result0, argBytes("Cipher.XORKeyStream", 1)) && sameSlice(argBytes("Cipher.XORKeyStream", 2), result0) && len(result0) == 64 && fresh(result0)
//@ end

// Which key/IV/sn-key and which mask function make up a DTLS 1.3 record protection.
//@ define RK(x) retAs("deriveRecordTrafficKeys13", 0, recordTrafficKeys13{})
//@ func newAESGCMRecordTrafficProtection13
//@ watch deriveRecordTrafficKeys13 aes.NewCipher cipher.NewGCM
//@ ensures keys-derived-from-traffic-secret: ncalls("deriveRecordTrafficKeys13") == 1 && sameSlice(argBytes("deriveRecordTrafficKeys13", 1), trafficSecret) && argInt("deriveRecordTrafficKeys13", 2) == keyLen
//@ ensures aes-keyed-by-write-key: called("aes.NewCipher") ==> retErr("deriveRecordTrafficKeys13", 1) == nil && sameSlice(argBytes("aes.NewCipher", 0), RK(0).key)
//@ ensures gcm-over-that-cipher: called("cipher.NewGCM") ==> sameRef(argAny("cipher.NewGCM", 0), retAny("aes.NewCipher", 0))
//@ ensures protection-parts: result1 == nil ==> result0 != nil && sameRef(result0.aead, retAny("cipher.NewGCM", 0)) && sameSlice(result0.iv, RK(0).iv) && sameSlice(result0.sequenceNumberKey, RK(0).sequenceNumberKey)
//@ end

//@ func newChaCha20Poly1305RecordTrafficProtection13
//@ watch deriveRecordTrafficKeys13 chacha20poly1305.New
//@ ensures keys-derived-from-traffic-secret: ncalls("deriveRecordTrafficKeys13") == 1 && sameSlice(argBytes("deriveRecordTrafficKeys13", 1), trafficSecret) && argInt("deriveRecordTrafficKeys13", 2) == 32
//@ ensures aead-keyed-by-write-key: called("chacha20poly1305.New") ==> retErr("deriveRecordTrafficKeys13", 1) == nil && sameSlice(argBytes("chacha20poly1305.New", 0), RK(0).key)
//@ ensures protection-parts: result1 == nil ==> result0 != nil && sameRef(result0.aead, retAny("chacha20poly1305.New", 0)) && sameSlice(result0.iv, RK(0).iv) && sameSlice(result0.sequenceNumberKey, RK(0).sequenceNumberKey)
//@ end

// RFC 8446 B.4 / RFC 5116: AES_128_GCM has a 16-byte key, AES_256_GCM a 32-byte key (IV 12 for all TLS 1.3 AEADs).
//@ func NewTLSAes128GcmSha256
//@ ensures aes-128: result != nil && result.keyLen == 16 && result.id == TLS_AES_128_GCM_SHA256
//@ end

//@ func NewTLSAes256GcmSha384
//@ ensures aes-256: result != nil && result.keyLen == 32 && result.id == TLS_AES_256_GCM_SHA384
//@ end

//@ func tlsAESGCMCipherSuite.NewRecordProtection
//@ watch newAESGCMRecordTrafficProtection13
//@ ensures delegated-once: ncalls("newAESGCMRecordTrafficProtection13") == 1
//@ ensures from-traffic-secret-with-suite-key-length: sameSlice(argBytes("newAESGCMRecordTrafficProtection13", 1), trafficSecret) && argInt("newAESGCMRecordTrafficProtection13", 2) == c.keyLen
//@ end

//@ func TLSChacha20Poly1305Sha256.NewRecordProtection
//@ watch newChaCha20Poly1305RecordTrafficProtection13
//@ ensures delegated-once: ncalls("newChaCha20Poly1305RecordTrafficProtection13") == 1
//@ ensures from-traffic-secret: sameSlice(argBytes("newChaCha20Poly1305RecordTrafficProtection13", 1), trafficSecret)
//@ end

// RFC 9147 4: encrypted_record = AEAD-Encrypt(write_key, nonce, additional_data = the record header as sent,
// plaintext = DTLSInnerPlaintext{content, type, zeros}); the header announces sequence number and length, and the length is
// that of the AEAD output. (verif_contracts_c09.go states the nonce and that the AAD is the marshalled header; same watch names.)
//@ define INNER(x) argAs("InnerPlaintext.Marshal", 0, &recordlayer.InnerPlaintext{})
//@ func recordTrafficProtection13.seal
//@ watch AEAD.Seal recordNonce13 UnifiedHeader.Marshal InnerPlaintext.Marshal AEAD.Overhead
//@ ensures inner-plaintext-is-content-and-type: called("InnerPlaintext.Marshal") ==> sameSlice(INNER(0).Content, plaintext) && INNER(0).RealType == contentType && INNER(0).Zeros == 0
//@ ensures inner-plaintext-is-sealed: called("AEAD.Seal") ==> ncalls("InnerPlaintext.Marshal") == 1 && sameSlice(argBytes("AEAD.Seal", 3), retBytes("InnerPlaintext.Marshal", 0)) && isNil(argBytes("AEAD.Seal", 1))
//@ ensures header-announces-length-and-sequence: result1 == nil ==> result0.Header.SeqBit && result0.Header.LengthBit && result0.Header.Length == uint16(len(retBytes("InnerPlaintext.Marshal", 0)) + retInt("AEAD.Overhead", 0))
//@ ensures header-rest-kept: result1 == nil ==> result0.Header.SequenceNumber == header.SequenceNumber && result0.Header.EpochLow == header.EpochLow && sameSlice(result0.Header.ConnectionID, header.ConnectionID)
//@ ensures record-is-aead-output: result1 == nil ==> sameSlice(result0.EncryptedRecord, retBytes("AEAD.Seal", 0))
//@ ensures plaintext-limit: len(plaintext) > 16384 ==> result1 != nil && !called("AEAD.Seal")
//@ end
