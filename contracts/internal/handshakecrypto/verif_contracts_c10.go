//go:build verif

// C10: the content covered by the ServerKeyExchange signature (RFC 8422 5.4, RFC 5246 7.4.3):
//
//	ClientHello.random(32) || ServerHello.random(32) || ServerECDHParams
//	ServerECDHParams = curve_type(1) = named_curve(3) || NamedCurve(2, big-endian) || ECPoint: length(1) || point
//
// Comment-only; read by /verif/vc.
package handshakecrypto

//@ func ValueKeyMessage
//@ ensures length: len(result) == len(clientRandom) + len(serverRandom) + 4 + len(publicKey)
//@ ensures fresh-buffer: fresh(result)
//@ ensures client-random-first: forall(0, len(clientRandom), func(i int) bool { return result[i] == old(clientRandom[i]) })
//@ ensures server-random-second: forall(0, len(serverRandom), func(i int) bool { return result[len(clientRandom)+i] == old(serverRandom[i]) })
//@ ensures curve-type-named-curve: result[len(clientRandom)+len(serverRandom)] == 3
//@ ensures named-curve-big-endian: result[len(clientRandom)+len(serverRandom)+1] == byte(uint16(namedCurve) >> 8) && result[len(clientRandom)+len(serverRandom)+2] == byte(uint16(namedCurve))
//@ ensures point-length: result[len(clientRandom)+len(serverRandom)+3] == byte(len(publicKey))
//@ ensures point-first-byte: len(publicKey) > 0 ==> result[len(clientRandom)+len(serverRandom)+4] == old(publicKey[0])
//@ ensures point-last-byte: len(publicKey) > 0 ==> result[len(clientRandom)+len(serverRandom)+3+len(publicKey)] == old(publicKey[len(publicKey)-1])
// (the whole point, byte for byte, is provable but takes z3 about 27 s of CPU: four chained appends; the first and the last
//  byte of the point together with the exact total length are stated instead)
//@ end
