//go:build verif

// Contracts for package handshakecrypto: signature and chain verification are summarised (trusted
// to implement their standards: "returns nil" is the credential check the callers rely on).
package handshakecrypto

//@ func VerifyCertificateVerify
//@ noinline
//@ end

// RFC 5280 4.2.1.12 / RFC 5246 7.4.6: a certificate is a *client* credential only if its chain validates for the
// purpose clientAuth against the configured client CAs (crypto/x509 checks the purpose named in
// VerifyOptions.KeyUsages and defaults to serverAuth when the list is empty); a server chain is validated for
// the configured server name and the default purpose serverAuth. crypto/x509 Certificate.Verify itself is trusted;
// what is decided here is which question it is asked, about which certificate, and that success needs its verdict.
//@ define VOPTS() argAs("Certificate.Verify", 1, x509.VerifyOptions{})
//@ define LEAF() argAs("Certificate.Verify", 0, (*x509.Certificate)(nil))
//@ define PARSED() retAs("loadCerts", 0, []*x509.Certificate(nil))

// Assumption (trusted): loadCerts parses every presented certificate in order; x509.ParseCertificate returns a
// non-nil certificate whenever it returns no error (crypto/x509).
//@ func loadCerts
//@ noinline
//@ trusted
//@ ensures parsed-all: result1 == nil ==> len(result0) == len(rawCertificates) && len(result0) > 0 && forall(0, len(result0), func(i int) bool { return result0[i] != nil })
//@ ensures nothing-presented-is-an-error: len(rawCertificates) == 0 ==> result1 != nil
//@ end
//@ func VerifyClientCert
//@ noinline
//@ watch Certificate.Verify loadCerts
//@ ensures leaf-is-the-first-presented: called("Certificate.Verify") ==> sameSlice(argAs("loadCerts", 0, rawCertificates), rawCertificates) && LEAF() == PARSED()[0]
//@ ensures nothing-presented-rejected: len(rawCertificates) == 0 ==> err != nil
//@ ensures chain-checked-for-client-auth: called("Certificate.Verify") ==> len(VOPTS().KeyUsages) == 1 && VOPTS().KeyUsages[0] == x509.ExtKeyUsageClientAuth
//@ ensures chain-checked-against-configured-roots: called("Certificate.Verify") ==> VOPTS().Roots == roots
//@ ensures success-needs-chain-verdict: err == nil ==> ncalls("Certificate.Verify") == 1 && retErr("Certificate.Verify", 1) == nil
//@ ensures failure-returns-no-chain: err != nil ==> len(chains) == 0
//@ end

//@ func VerifyServerCert
//@ noinline
//@ watch Certificate.Verify loadCerts
//@ ensures leaf-is-the-first-presented: called("Certificate.Verify") ==> sameSlice(argAs("loadCerts", 0, rawCertificates), rawCertificates) && LEAF() == PARSED()[0]
//@ ensures nothing-presented-rejected: len(rawCertificates) == 0 ==> err != nil
//@ ensures chain-checked-for-server-name: called("Certificate.Verify") ==> VOPTS().DNSName == serverName
//@ ensures chain-checked-for-server-auth: called("Certificate.Verify") ==> len(VOPTS().KeyUsages) == 0 || (len(VOPTS().KeyUsages) == 1 && VOPTS().KeyUsages[0] == x509.ExtKeyUsageServerAuth)
//@ ensures chain-checked-against-configured-roots: called("Certificate.Verify") ==> VOPTS().Roots == roots
//@ ensures success-needs-chain-verdict: err == nil ==> ncalls("Certificate.Verify") == 1 && retErr("Certificate.Verify", 1) == nil
//@ ensures failure-returns-no-chain: err != nil ==> len(chains) == 0
//@ end

//@ func VerifyKeySignature
//@ noinline
//@ end

//@ func ValueKeyMessage
//@ noinline
//@ end

// The check behind VerifyKeySignature / VerifyCertificateVerify. The primitives (ecdsa.Verify, ed25519.Verify,
// rsa.Verify*) are assumed unforgeable *for a non-trivial digest*; what is decided here is that each is only asked
// under the announced scheme of its own key type and never over an empty digest, and that success needs its verdict.
// (Before fix 113d509 an ECDSA key was verified under the announced scheme ed25519 over an empty digest: forgeable.)
//@ func verifyCertificateSignature
//@ watch ecdsa.Verify ed25519.Verify rsa.VerifyPKCS1v15 rsa.VerifyPSS x509.ParseCertificate
//@ ensures no-certificate-rejected: len(rawCertificates) == 0 ==> result != nil
//@ ensures leaf-key-is-used: called("x509.ParseCertificate") ==> sameSlice(argBytes("x509.ParseCertificate", 0), rawCertificates[0])
//@ ensures ecdsa-only-under-ecdsa-scheme: called("ecdsa.Verify") ==> signatureAlgorithm == signature.ECDSA
//@ ensures ecdsa-digest-not-empty: called("ecdsa.Verify") ==> len(argBytes("ecdsa.Verify", 1)) > 0
//@ ensures ed25519-only-under-ed25519-scheme: called("ed25519.Verify") ==> signatureAlgorithm == signature.Ed25519
//@ ensures ed25519-over-the-message: called("ed25519.Verify") ==> sameSlice(argBytes("ed25519.Verify", 1), message) && sameSlice(argBytes("ed25519.Verify", 2), remoteKeySignature)
//@ ensures rsa-only-under-rsa-scheme: called("rsa.VerifyPKCS1v15") ==> signatureAlgorithm == signature.RSA
//@ ensures rsa-digest-not-empty: called("rsa.VerifyPKCS1v15") ==> len(argBytes("rsa.VerifyPKCS1v15", 2)) > 0
//@ ensures pss-only-under-pss-scheme: called("rsa.VerifyPSS") ==> signatureAlgorithm.IsPSS()
//@ ensures pss-digest-not-empty: called("rsa.VerifyPSS") ==> len(argBytes("rsa.VerifyPSS", 2)) > 0
//@ ensures success-needs-a-verdict: result == nil ==> (called("ecdsa.Verify") && retBool("ecdsa.Verify", 0)) || (called("ed25519.Verify") && retBool("ed25519.Verify", 0))
//@    || (called("rsa.VerifyPKCS1v15") && retErr("rsa.VerifyPKCS1v15", 0) == nil) || (called("rsa.VerifyPSS") && retErr("rsa.VerifyPSS", 0) == nil)
//@ ensures one-primitive: ncalls("ecdsa.Verify") + ncalls("ed25519.Verify") + ncalls("rsa.VerifyPKCS1v15") + ncalls("rsa.VerifyPSS") <= 1
//@ end
