//go:build verif

// Contracts for package handshakecrypto: signature and chain verification are summarised (trusted
// to implement their standards: "returns nil" is the credential check the callers rely on).
package handshakecrypto

//@ func VerifyCertificateVerify
//@ noinline
//@ end

//@ func VerifyClientCert
//@ noinline
//@ end

//@ func VerifyServerCert
//@ noinline
//@ end

//@ func VerifyKeySignature
//@ noinline
//@ end

//@ func ValueKeyMessage
//@ noinline
//@ end
