//go:build verif

// Contracts for package handshakecrypto: signature and chain verification are summarised (trusted
// to implement their standards: "returns nil" is the credential check the callers rely on).
package handshakecrypto

//@ func VerifyCertificateVerify
//@ noinline
//@ end

//@ func VerifyClientCert
//@ noinline
//@ end

//@ func VerifyServerCert
//@ noinline
//@ end

//@ func VerifyKeySignature
//@ noinline
//@ end

//@ func ValueKeyMessage
//@ noinline
//@ end

// The check behind VerifyKeySignature / VerifyCertificateVerify. The primitives (ecdsa.Verify, ed25519.Verify,
// rsa.Verify*) are assumed unforgeable *for a non-trivial digest*; what is decided here is that each is only asked
// under the announced scheme of its own key type and never over an empty digest, and that success needs its verdict.
// (Before fix 113d509 an ECDSA key was verified under the announced scheme ed25519 over an empty digest: forgeable.)
//@ func verifyCertificateSignature
//@ watch ecdsa.Verify ed25519.Verify rsa.VerifyPKCS1v15 rsa.VerifyPSS x509.ParseCertificate
//@ ensures no-certificate-rejected: len(rawCertificates) == 0 ==> result != nil
//@ ensures leaf-key-is-used: called("x509.ParseCertificate") ==> sameSlice(argBytes("x509.ParseCertificate", 0), rawCertificates[0])
//@ ensures ecdsa-only-under-ecdsa-scheme: called("ecdsa.Verify") ==> signatureAlgorithm == signature.ECDSA
//@ ensures ecdsa-digest-not-empty: called("ecdsa.Verify") ==> len(argBytes("ecdsa.Verify", 1)) > 0
//@ ensures ed25519-only-under-ed25519-scheme: called("ed25519.Verify") ==> signatureAlgorithm == signature.Ed25519
//@ ensures ed25519-over-the-message: called("ed25519.Verify") ==> sameSlice(argBytes("ed25519.Verify", 1), message) && sameSlice(argBytes("ed25519.Verify", 2), remoteKeySignature)
//@ ensures rsa-only-under-rsa-scheme: called("rsa.VerifyPKCS1v15") ==> signatureAlgorithm == signature.RSA
//@ ensures rsa-digest-not-empty: called("rsa.VerifyPKCS1v15") ==> len(argBytes("rsa.VerifyPKCS1v15", 2)) > 0
//@ ensures pss-only-under-pss-scheme: called("rsa.VerifyPSS") ==> signatureAlgorithm.IsPSS()
//@ ensures pss-digest-not-empty: called("rsa.VerifyPSS") ==> len(argBytes("rsa.VerifyPSS", 2)) > 0
//@ ensures success-needs-a-verdict: result == nil ==> (called("ecdsa.Verify") && retBool("ecdsa.Verify", 0)) || (called("ed25519.Verify") && retBool("ed25519.Verify", 0))
//@    || (called("rsa.VerifyPKCS1v15") && retErr("rsa.VerifyPKCS1v15", 0) == nil) || (called("rsa.VerifyPSS") && retErr("rsa.VerifyPSS", 0) == nil)
//@ ensures one-primitive: ncalls("ecdsa.Verify") + ncalls("ed25519.Verify") + ncalls("rsa.VerifyPKCS1v15") + ncalls("rsa.VerifyPSS") <= 1
//@ end
