//go:build verif

// C03 contracts for package dtlshandshake: the DTLS 1.3 protected peer flight
// (Certificate / CertificateVerify / Finished), RFC 8446 4.4 / RFC 9147 5.
package dtlshandshake

// User-supplied verification callbacks do not modify the library's handshake state.
//@ assume-pure HandshakeConfig.VerifyPeerCertificate
//@ assume-pure HandshakeConfig.VerifyConnection

// Transcript bookkeeping and the Finished MAC computation are separate components (C04); the flight
// steps below only depend on what they do with the answers.
//@ func appendParsedInboundHandshake
//@ noinline
//@ end

//@ func verifyPeerFinished
//@ noinline
//@ end

//@ func verifyPeerCertificateVerify
//@ noinline
//@ end

//@ define verifiesClientChain(p) (p == dtlsconfig.VerifyClientCertIfGiven || p == dtlsconfig.RequireAndVerifyClientCert)
//@ define requiresClientCert(p) (p == dtlsconfig.RequireAnyClientCert || p == dtlsconfig.RequireAndVerifyClientCert)

// Server identity (client side): unless verification was explicitly disabled the presented chain is
// verified against the configured roots and server name, and the application's verifier (if any) accepted.
//@ func protectedHandshakeFlight.verifyServerIdentity
//@ watch VerifyServerCert! HandshakeConfig.VerifyPeerCertificate!
//@ requires args: f != nil && f.cfg != nil
//@ ensures server-chain-verified: result == nil && !old(f.cfg.InsecureSkipVerify) ==> called("VerifyServerCert!") && retErr("VerifyServerCert!", 1) == nil
//@ ensures server-chain-args: called("VerifyServerCert!") ==> sameSlice(argAs("VerifyServerCert!", 0, f.peerCertificates), old(f.peerCertificates)) && argAs("VerifyServerCert!", 1, f.cfg.RootCAs) == old(f.cfg.RootCAs) && argAs("VerifyServerCert!", 2, f.cfg.ServerName) == old(f.cfg.ServerName)
//@ ensures app-verifier-consulted: result == nil && old(f.cfg.VerifyPeerCertificate) != nil ==> called("HandshakeConfig.VerifyPeerCertificate!") && retErr("HandshakeConfig.VerifyPeerCertificate!", 0) == nil
//@ ensures app-verifier-sees-presented-chain: called("HandshakeConfig.VerifyPeerCertificate!") ==> sameSlice(argAs("HandshakeConfig.VerifyPeerCertificate!", 0, f.peerCertificates), old(f.peerCertificates))
//@ ensures flags-untouched: f.hasCertificateVerify == old(f.hasCertificateVerify) && f.hasFinished == old(f.hasFinished) && sameSlice(f.peerCertificates, old(f.peerCertificates))
//@ end

// Peer identity. Server side (isClient: the peer is the client): the configured client-authentication
// policy (crypto/tls ClientAuthType semantics) decides whether the chain must verify against ClientCAs:
// VerifyClientCertIfGiven and RequireAndVerifyClientCert both do.
//@ func protectedHandshakeFlight.verifyPeerIdentity
//@ watch VerifyClientCert! HandshakeConfig.VerifyPeerCertificate! protectedHandshakeFlight.verifyServerIdentity!
//@ requires args: f != nil && f.cfg != nil
//@ ensures client-chain-verified-by-policy: result == nil && isClient && verifiesClientChain(old(f.cfg.ClientAuth)) ==> called("VerifyClientCert!") && retErr("VerifyClientCert!", 1) == nil
//@ ensures client-chain-args: called("VerifyClientCert!") ==> sameSlice(argAs("VerifyClientCert!", 0, f.peerCertificates), old(f.peerCertificates)) && argAs("VerifyClientCert!", 1, f.cfg.ClientCAs) == old(f.cfg.ClientCAs)
//@ ensures client-app-verifier-consulted: result == nil && isClient && old(f.cfg.VerifyPeerCertificate) != nil ==> called("HandshakeConfig.VerifyPeerCertificate!") && retErr("HandshakeConfig.VerifyPeerCertificate!", 0) == nil
//@ ensures server-identity-delegated: !isClient ==> called("protectedHandshakeFlight.verifyServerIdentity!") && result == retErr("protectedHandshakeFlight.verifyServerIdentity!", 0)
//@ ensures flags-untouched: f.hasCertificateVerify == old(f.hasCertificateVerify) && f.hasFinished == old(f.hasFinished) && sameSlice(f.peerCertificates, old(f.peerCertificates))
//@ end

// CertificateVerify: proof of possession over this transcript with the presented chain, then the
// identity check; only then is the certificate marked as verified.
//@ func protectedHandshakeFlight.processCertificateVerify
//@ watch verifyPeerCertificateVerify! protectedHandshakeFlight.verifyPeerIdentity!
//@ requires args: f != nil && f.cfg != nil && item != nil && parsedHandshake != nil
//@ ensures marked-only-after-both-checks: f.hasCertificateVerify && !old(f.hasCertificateVerify) ==> called("verifyPeerCertificateVerify!") && retErr("verifyPeerCertificateVerify!", 0) == nil && called("protectedHandshakeFlight.verifyPeerIdentity!") && retErr("protectedHandshakeFlight.verifyPeerIdentity!", 0) == nil
//@ ensures needs-certificate: f.hasCertificateVerify && !old(f.hasCertificateVerify) ==> old(f.hasCertificate) && len(old(f.peerCertificates)) != 0
//@ ensures possession-of-presented-chain: called("verifyPeerCertificateVerify!") ==> sameSlice(argAs("verifyPeerCertificateVerify!", 3, f.peerCertificates), old(f.peerCertificates)) && argAs("verifyPeerCertificateVerify!", 0, f.transcript) == old(f.transcript) && argAs("verifyPeerCertificateVerify!", 2, verify) == verify && argBool("verifyPeerCertificateVerify!", 4) == old(item.IsClient)
//@ ensures identity-for-the-same-side: called("protectedHandshakeFlight.verifyPeerIdentity!") ==> argBool("protectedHandshakeFlight.verifyPeerIdentity!", 1) == old(item.IsClient)
//@ ensures success-marks: result == nil ==> f.hasCertificateVerify
//@ end

// Finished: the peer's verify_data is checked against this transcript and this side's handshake
// secret; a presented certificate must have been proved (CertificateVerify); a client certificate the
// policy requires must be present. The flight is marked complete only after that.
//@ func protectedHandshakeFlight.processFinished
//@ watch verifyPeerFinished! protectedHandshakeFlight.verifyConnection!
//@ requires args: f != nil && f.cfg != nil && item != nil && parsedHandshake != nil
//@ ensures finished-verified: result == nil ==> called("verifyPeerFinished!") && retErr("verifyPeerFinished!", 0) == nil
//@ ensures finished-over-this-transcript: called("verifyPeerFinished!") ==> argAs("verifyPeerFinished!", 0, f.transcript) == old(f.transcript) && argAs("verifyPeerFinished!", 1, f.state) == old(f.state) && argAs("verifyPeerFinished!", 3, finished) == finished && argBool("verifyPeerFinished!", 4) == old(item.IsClient)
//@ ensures complete-only-after-finished-verified: f.hasFinished && !old(f.hasFinished) ==> called("verifyPeerFinished!") && retErr("verifyPeerFinished!", 0) == nil
//@ ensures connection-verifier-accepted: f.hasFinished && !old(f.hasFinished) ==> called("protectedHandshakeFlight.verifyConnection!") && retErr("protectedHandshakeFlight.verifyConnection!", 0) == nil
//@ ensures success-marks-complete: result == nil ==> f.hasFinished
//@ ensures certificate-needs-proof-of-possession: result == nil && len(old(f.peerCertificates)) != 0 ==> old(f.hasCertificateVerify)
//@ ensures client-certificate-required-by-policy: result == nil && old(item.IsClient) && requiresClientCert(old(f.cfg.ClientAuth)) ==> len(old(f.peerCertificates)) != 0
//@ ensures no-check-without-credentials: (len(old(f.peerCertificates)) != 0 && !old(f.hasCertificateVerify)) ==> result != nil && !called("verifyPeerFinished!")
//@ ensures server-flight-authenticated: result == nil && !item.IsClient ==> old(f.hasCertificateVerify)
//@ end

// The whole protected flight: it is accepted (transcript replaced, peer certificates published in the
// connection state) only if a Finished was processed - and processFinished marks the flight complete
// only after verifyPeerFinished accepted (above); on any failure the connection state keeps its
// previous peer certificates.
//@ func VerifyAndAppendProtectedHandshakeCacheItems
//@ requires args: state != nil && state.Common != nil && cfg != nil
//@ ensures accepted-only-with-finished: result == nil ==> flight.hasFinished
//@ ensures peer-certificates-from-this-flight: result == nil && len(flight.peerCertificates) != 0 ==> sameSlice(state.PeerCertificates, flight.peerCertificates)
//@ ensures failure-publishes-nothing: result != nil ==> sameSlice(state.PeerCertificates, old(state.PeerCertificates))
//@ end
