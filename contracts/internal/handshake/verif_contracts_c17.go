//go:build verif

// C17 contracts for package dtlshandshake (comment-only; read by /verif/vc).
package dtlshandshake

// ASSUMPTIONS (reported): the flight parser / generator function values obtained from
// flight12.getFlightParser / GetGenerator (and their flight13 twins) are the library's own flight
// handlers; they write handshake state, the handshake cache, protocol messages and byte buffers,
// never the FSM's own bookkeeping or the configuration. The session-store callbacks have no effect
// on program state.
//@ assume-pure ret.flight12.getFlightParser#0 writes github.com/pion/dtls/v3/internal/state. github.com/pion/dtls/v3/internal/flight. github.com/pion/dtls/v3/internal/negotiation. github.com/pion/dtls/v3/internal/ciphersuite. github.com/pion/dtls/v3/pkg/ uint8 []uint8 $alloc
//@ assume-pure ret.flight12.GetGenerator#0 writes github.com/pion/dtls/v3/internal/state. github.com/pion/dtls/v3/internal/flight. github.com/pion/dtls/v3/internal/negotiation. github.com/pion/dtls/v3/internal/ciphersuite. github.com/pion/dtls/v3/pkg/ uint8 []uint8 $alloc
//@ assume-pure ret.flight13.getFlightParser#0 writes github.com/pion/dtls/v3/internal/state. github.com/pion/dtls/v3/internal/flight. github.com/pion/dtls/v3/internal/negotiation. github.com/pion/dtls/v3/internal/ciphersuite. github.com/pion/dtls/v3/pkg/ uint8 []uint8 $alloc
//@ assume-pure ret.flight13.GetGenerator#0 writes github.com/pion/dtls/v3/internal/state. github.com/pion/dtls/v3/internal/flight. github.com/pion/dtls/v3/internal/negotiation. github.com/pion/dtls/v3/internal/ciphersuite. github.com/pion/dtls/v3/pkg/ uint8 []uint8 $alloc
//@ assume-pure HandshakeConfig.DelSession

// The FSM's Conn is the library's own adapter (dtls.handshakeConn, the only implementation).
//@ define ownConn(c) typeIs(c, "github.com/pion/dtls/v3.handshakeConn")

//@ func fsm12.finish
//@ watch Conn.WritePackets recv:Conn.RecvHandshake
//@ requires args: s != nil && s.state != nil && s.state.Common != nil && ownConn(c) && !isNil(ctx)
//@ ensures client-never-resends: old(s.state.Common.IsClient) ==> result0 != StateSending
//@ ensures outcomes: result0 == StateFinished || result0 == StateSending || result0 == StateErrored
//@ ensures sends-nothing-itself: !called("Conn.WritePackets")
//@ ensures server-resends-only-after-receive: result0 == StateSending ==> called("recv:Conn.RecvHandshake") && !old(s.state.Common.IsClient)
//@ ensures one-event-per-step: ncalls("recv:Conn.RecvHandshake") <= 1
//@ end

// SENDING: one WritePackets call for the buffered flight, then WAITING (or FINISHED after the last
// flight). No loop, no second send.

//@ func fsm12.send
//@ watch Conn.WritePackets
//@ requires args: s != nil && ownConn(c) && !isNil(ctx)
//@ ensures sends-once: ncalls("Conn.WritePackets") == 1
//@ ensures outcomes: result0 == StateWaiting || result0 == StateFinished || result0 == StateErrored
//@ ensures write-error-stops: retErr("Conn.WritePackets", 1) != nil ==> result0 == StateErrored
//@ ensures interval-untouched: s.retransmitInterval == old(s.retransmitInterval) && s.retransmit == old(s.retransmit)
//@ end

// PREPARING: the retransmit flag of the buffered flight is the one GetGenerator reports for the
// current flight, so a cookie request (Flight2) is never put on the timer.

//@ func fsm12.prepare
//@ watch GetGenerator Conn.WritePackets
//@ requires args: s != nil && s.state != nil && s.state.Common != nil && s.cfg != nil && !isNil(s.cfg.Log) && ownConn(conn) && !isNil(ctx)
//@ ensures flag-from-generator: result0 == StateSending ==> s.retransmit == retBool("GetGenerator", 1)
//@ ensures cookie-request-not-on-timer: result0 == StateSending && old(s.currentFlight) == dtlsflight12.Flight2 ==> !s.retransmit
//@ ensures sends-nothing-itself: !called("Conn.WritePackets")
//@ ensures outcomes: result0 == StateSending || result0 == StateErrored
//@ ensures interval-untouched: s.retransmitInterval == old(s.retransmitInterval)
//@ end

// WAITING (RFC 6347 4.2.4): the flight is re-sent only when the retransmit timer fires, through
// handleRetransmitTimeout (which applies the backoff law and refuses non-retransmittable flights);
// a received event never leads to SENDING directly. The interval is only ever reset to the
// configured initial value or changed by the timer law.

//@ define ivOK(x) (x > 0 && x <= 4611686018427387903)

//@ func fsm12.wait
//@ watch handleRetransmitTimeout handleWaitCancellation Parse Conn.WritePackets recv:Conn.RecvHandshake
// (The channel returned by the interface call conn.RecvHandshake() has no stable source-level name;
// the engine calls it value.t3 in wait and value.t0 in finish.)
//@ define lastEvent() retAs("recv:Conn.RecvHandshake", 0, RecvHandshakeState{})
//@ requires args: s != nil && s.state != nil && s.state.Common != nil && s.cfg != nil && !isNil(s.cfg.Log) && ownConn(conn) && !isNil(ctx)
//@ requires interval-range: ivOK(s.retransmitInterval) && ivOK(s.cfg.InitialRetransmitInterval)
//@ ensures resend-only-by-timer: result0 == StateSending ==> called("handleRetransmitTimeout") && old(s.retransmit)
//@ ensures non-retransmittable-never-resent: !old(s.retransmit) ==> result0 != StateSending
//@ ensures silence-doubles: result0 == StateSending && !called("Parse") && !s.cfg.DisableRetransmitBackoff ==> s.retransmitInterval == min(2*old(s.retransmitInterval), 60000000000)
//@ ensures silence-constant-without-backoff: result0 == StateSending && !called("Parse") && s.cfg.DisableRetransmitBackoff ==> s.retransmitInterval == min(old(s.retransmitInterval), 60000000000)
//@ ensures timer-without-resend-keeps-interval: result0 == StateWaiting ==> called("handleRetransmitTimeout") && !old(s.retransmit)
//@ ensures no-event-no-reset: result0 == StateWaiting && !called("Parse") ==> s.retransmitInterval == old(s.retransmitInterval)
// A retransmitted flight from the peer must not restart the backoff (pion/dtls#758): as long as every received event
// was a retransmission, the interval is the one the step started with.
//@ ensures retransmitted-events-keep-interval: always("recv:Conn.RecvHandshake", "lastEvent().IsRetransmit") && !called("handleRetransmitTimeout") && !called("handleWaitCancellation") ==> s.retransmitInterval == old(s.retransmitInterval)
//@ ensures interval-changes-only-on-event: !called("recv:Conn.RecvHandshake") && !called("handleRetransmitTimeout") && !called("handleWaitCancellation") ==> s.retransmitInterval == old(s.retransmitInterval)
//@ ensures new-data-restores-initial: called("recv:Conn.RecvHandshake") && !lastEvent().IsRetransmit && !called("handleRetransmitTimeout") && !called("handleWaitCancellation") ==> s.retransmitInterval == s.cfg.InitialRetransmitInterval
//@ ensures sends-nothing-itself: !called("Conn.WritePackets")
//@ ensures progress-needs-event: (result0 == StatePreparing || result0 == StateFinished) ==> called("Parse")
//@ ensures interval-stays-in-range: result0 != StateErrored ==> s.retransmitInterval > 0
//@ loop #1: frame: s.cfg == old(s.cfg) && s.cfg != nil && s.state != nil && !isNil(s.cfg.Log) && s.retransmit == old(s.retransmit)
//@ loop #1: config-kept: s.cfg.InitialRetransmitInterval == old(s.cfg.InitialRetransmitInterval) && s.cfg.DisableRetransmitBackoff == old(s.cfg.DisableRetransmitBackoff)
//@ loop #1: interval-initial-or-unchanged: s.retransmitInterval == old(s.retransmitInterval) || s.retransmitInterval == s.cfg.InitialRetransmitInterval
//@ loop #1: no-event-no-reset: !called("Parse") ==> s.retransmitInterval == old(s.retransmitInterval)
//@ loop #1: no-event-yet: !called("recv:Conn.RecvHandshake") ==> s.retransmitInterval == old(s.retransmitInterval) && !called("Parse")
//@ loop #1: last-event-law: called("recv:Conn.RecvHandshake") && !lastEvent().IsRetransmit ==> s.retransmitInterval == s.cfg.InitialRetransmitInterval
//@ loop #1: only-retransmits-keep-interval: always("recv:Conn.RecvHandshake", "lastEvent().IsRetransmit") ==> s.retransmitInterval == old(s.retransmitInterval)
//@ loop #1: timer-not-yet: !called("handleRetransmitTimeout") && !called("handleWaitCancellation") && !called("Conn.WritePackets")
//@ end

// DTLS 1.3 (RFC 9147 5.8): after a received event the current flight is re-sent only for a cause -
// an empty ACK, partial ACK progress, or the peer's retransmission - and only while the flight is
// still retransmittable; the backoff law is handleRetransmitTimeout's. A fully acknowledged flight
// stops the timer.

//@ func fsm13.transitionAfterACK
//@ watch handleRetransmitTimeout
//@ requires args: s != nil && s.cfg != nil
//@ requires interval-range: ivOK(s.retransmitInterval)
//@ ensures resend-has-cause: result0.state == StateSending ==> result.Empty || len(result.Messages) != 0 || peerRetransmit
//@ ensures resend-only-if-retransmittable: result0.state == StateSending ==> old(s.retransmit) && called("handleRetransmitTimeout")
//@ ensures no-cause-no-resend: !result.Empty && len(result.Messages) == 0 && !peerRetransmit ==> result0.state == StateWaiting && s.retransmitInterval == old(s.retransmitInterval) && !called("handleRetransmitTimeout")
//@ ensures fully-acked-stops-timer: len(result.Messages) != 0 && len(old(s.flightACK.pending)) == 0 ==> !s.retransmit && result0.state != StateSending && s.retransmitInterval == old(s.retransmitInterval)
//@ ensures backoff-doubles: result0.state == StateSending && !s.cfg.DisableRetransmitBackoff ==> s.retransmitInterval == min(2*old(s.retransmitInterval), 60000000000)
//@ ensures backoff-off: result0.state == StateSending && s.cfg.DisableRetransmitBackoff ==> s.retransmitInterval == min(old(s.retransmitInterval), 60000000000)
//@ ensures no-resend-keeps-interval: result0.state != StateSending ==> s.retransmitInterval == old(s.retransmitInterval)
//@ ensures outcomes: result0.state == StateSending || result0.state == StateWaiting || result0.state == StateFinished
//@ ensures no-flight-change: result0.nextFlight == 0 && !result0.retainPendingRecv
//@ end

// A duplicate of the peer's previous flight (it did not get our final flight): ACK it, then the
// same timer law decides whether the final flight goes out again.

//@ func fsm13.handlePreviousFlightRetransmit
//@ watch sendACK fsm13.transitionAfterACK handleRetransmitTimeout
//@ requires args: s != nil && s.cfg != nil && s.state != nil && s.state.Common != nil && ownConn(conn) && !isNil(ctx)
//@ requires interval-range: ivOK(s.retransmitInterval)
//@ ensures acks-first: result1 == nil ==> calledBefore("sendACK", "fsm13.transitionAfterACK")
//@ ensures ack-failure-stops: result1 != nil ==> result0.state == 0 && !called("fsm13.transitionAfterACK")
//@ ensures resend-by-timer-law: result0.state == StateSending ==> called("fsm13.transitionAfterACK")
//@ ensures no-resend-keeps-interval: result1 == nil && result0.state != StateSending ==> s.retransmitInterval == old(s.retransmitInterval)
//@ ensures treated-as-peer-retransmit: result1 == nil ==> argBool("fsm13.transitionAfterACK", 2)
//@ end

// One received event (DTLS 1.3): the interval is restored to the configured initial value only
// for an event that is not a retransmission; a retransmitted event leaves it to the timer law.

//@ func fsm13.handleReceivedFlight
//@ watch handleRetransmitTimeout fsm13.transitionAfterACK fsm13.handlePreviousFlightRetransmit fsm13.parseReceivedFlight
//@ requires args: s != nil && s.cfg != nil && s.state != nil && s.state.Common != nil && ownConn(conn) && !isNil(ctx)
//@ requires interval-range: ivOK(s.retransmitInterval) && ivOK(s.cfg.InitialRetransmitInterval)
//@ ensures retransmission-does-not-reset: received.IsRetransmit && result1 == nil && result0.state != StateSending && !called("fsm13.parseReceivedFlight") ==> s.retransmitInterval == old(s.retransmitInterval)
// [dropped: demanded more than the property - a new ACK that triggers an immediate resend of the rest of the flight
//  restores the initial interval and then applies the timer law once (2*initial); split into the two clauses below]
//   ensures new-data-restores-initial: !received.IsRetransmit && result1 == nil && !called("fsm13.parseReceivedFlight") ==> s.retransmitInterval == s.cfg.InitialRetransmitInterval
//@ ensures new-data-without-resend-restores-initial: !received.IsRetransmit && result1 == nil && result0.state != StateSending && !called("fsm13.parseReceivedFlight") ==> s.retransmitInterval == s.cfg.InitialRetransmitInterval
//@ ensures new-data-with-resend-restarts-backoff: !received.IsRetransmit && result1 == nil && result0.state == StateSending && !called("fsm13.parseReceivedFlight") && !s.cfg.DisableRetransmitBackoff ==> s.retransmitInterval == min(2*s.cfg.InitialRetransmitInterval, 60000000000)
//@ ensures resend-by-timer-law: result0.state == StateSending && result1 == nil && !called("fsm13.parseReceivedFlight") ==> called("fsm13.transitionAfterACK") || called("fsm13.handlePreviousFlightRetransmit")
//@ ensures ack-only-event-is-not-peer-retransmit: !received.HasHandshake && len(received.ACKs) != 0 ==> called("fsm13.transitionAfterACK") && !argBool("fsm13.transitionAfterACK", 2) && !called("fsm13.parseReceivedFlight")
//@ ensures duplicate-final-flight: received.HasHandshake && received.IsRetransmit && old(s.currentFlight) == dtlsflight13.Flight5 && (len(received.ACKs) == 0) ==> called("fsm13.handlePreviousFlightRetransmit") && !called("fsm13.parseReceivedFlight")
//@ end

// Post-handshake flights (KeyUpdate, NewSessionTicket): same backoff law on each timer expiry.

//@ func postHandshake.retransmitPostHandshakeFlight
//@ watch Conn.WritePackets Time.Add
//@ requires args: p != nil && flight != nil && ownConn(conn) && !isNil(ctx)
//@ requires interval-range: ivOK(flight.RetransmitInterval)
//@ ensures sends-once: ncalls("Conn.WritePackets") == 1
//@ ensures backoff-doubles: result == nil && !disableRetransmitBackoff ==> flight.RetransmitInterval == min(2*old(flight.RetransmitInterval), 60000000000)
//@ ensures backoff-off: result == nil && disableRetransmitBackoff ==> flight.RetransmitInterval == old(flight.RetransmitInterval)
//@ ensures cap-60s: result == nil && !disableRetransmitBackoff ==> flight.RetransmitInterval <= 60000000000 && flight.RetransmitInterval > 0
//@ ensures failed-write-keeps-interval: result != nil ==> flight.RetransmitInterval == old(flight.RetransmitInterval)
// The next deadline is "now + the (doubled, capped) interval": time.Time is opaque, so the law is stated on the one
// time.Time.Add call whose result is stored as the deadline.
//@ ensures deadline-computed-once: result == nil ==> ncalls("Time.Add") == 1
//@ ensures deadline-uses-backed-off-interval: result == nil ==> argAs("Time.Add", 1, flight.RetransmitInterval) == flight.RetransmitInterval
//@ ensures deadline-from-now: result == nil ==> argAs("Time.Add", 0, now) == now
//@ ensures deadline-stored: result == nil ==> flight.NextRetransmit == retAs("Time.Add", 0, now)
//@ ensures failed-write-keeps-deadline: result != nil ==> flight.NextRetransmit == old(flight.NextRetransmit) && !called("Time.Add")
//@ end
