//go:build verif

// C17 contracts for package dtlshandshake (comment-only; read by /verif/vc).
package dtlshandshake

// ASSUMPTIONS (reported): the flight parser / generator function values obtained from
// flight12.getFlightParser / GetGenerator (and their flight13 twins) are the library's own flight
// handlers; they write handshake state, the handshake cache, protocol messages and byte buffers,
// never the FSM's own bookkeeping or the configuration. The session-store callbacks have no effect
// on program state.
//@ assume-pure ret.flight12.getFlightParser#0 writes github.com/pion/dtls/v3/internal/state. github.com/pion/dtls/v3/internal/flight. github.com/pion/dtls/v3/internal/negotiation. github.com/pion/dtls/v3/internal/ciphersuite. github.com/pion/dtls/v3/pkg/ uint8 []uint8 $alloc
//@ assume-pure ret.flight12.GetGenerator#0 writes github.com/pion/dtls/v3/internal/state. github.com/pion/dtls/v3/internal/flight. github.com/pion/dtls/v3/internal/negotiation. github.com/pion/dtls/v3/internal/ciphersuite. github.com/pion/dtls/v3/pkg/ uint8 []uint8 $alloc
//@ assume-pure ret.flight13.getFlightParser#0 writes github.com/pion/dtls/v3/internal/state. github.com/pion/dtls/v3/internal/flight. github.com/pion/dtls/v3/internal/negotiation. github.com/pion/dtls/v3/internal/ciphersuite. github.com/pion/dtls/v3/pkg/ uint8 []uint8 $alloc
//@ assume-pure ret.flight13.GetGenerator#0 writes github.com/pion/dtls/v3/internal/state. github.com/pion/dtls/v3/internal/flight. github.com/pion/dtls/v3/internal/negotiation. github.com/pion/dtls/v3/internal/ciphersuite. github.com/pion/dtls/v3/pkg/ uint8 []uint8 $alloc
//@ assume-pure HandshakeConfig.DelSession

// The FSM's Conn is the library's own adapter (dtls.handshakeConn, the only implementation).
//@ define ownConn(c) typeIs(c, "github.com/pion/dtls/v3.handshakeConn")

//@ func fsm12.finish
//@ watch Conn.WritePackets recv:Conn.RecvHandshake
//@ requires args: s != nil && s.state != nil && s.state.Common != nil && ownConn(c) && !isNil(ctx)
//@ ensures client-never-resends: old(s.state.Common.IsClient) ==> result0 != StateSending
//@ ensures outcomes: result0 == StateFinished || result0 == StateSending || result0 == StateErrored
//@ ensures sends-nothing-itself: !called("Conn.WritePackets")
//@ ensures server-resends-only-after-receive: result0 == StateSending ==> called("recv:Conn.RecvHandshake") && !old(s.state.Common.IsClient)
//@ ensures one-event-per-step: ncalls("recv:Conn.RecvHandshake") <= 1
//@ end

// SENDING: one WritePackets call for the buffered flight, then WAITING (or FINISHED after the last
// flight). No loop, no second send.

//@ func fsm12.send
//@ watch Conn.WritePackets
//@ requires args: s != nil && ownConn(c) && !isNil(ctx)
//@ ensures sends-once: ncalls("Conn.WritePackets") == 1
//@ ensures outcomes: result0 == StateWaiting || result0 == StateFinished || result0 == StateErrored
//@ ensures write-error-stops: retErr("Conn.WritePackets", 1) != nil ==> result0 == StateErrored
//@ ensures interval-untouched: s.retransmitInterval == old(s.retransmitInterval) && s.retransmit == old(s.retransmit)
//@ end

// PREPARING: the retransmit flag of the buffered flight is the one GetGenerator reports for the
// current flight, so a cookie request (Flight2) is never put on the timer.

//@ func fsm12.prepare
//@ watch GetGenerator Conn.WritePackets
//@ requires args: s != nil && s.state != nil && s.state.Common != nil && s.cfg != nil && !isNil(s.cfg.Log) && ownConn(conn) && !isNil(ctx)
//@ ensures flag-from-generator: result0 == StateSending ==> s.retransmit == retBool("GetGenerator", 1)
//@ ensures cookie-request-not-on-timer: result0 == StateSending && old(s.currentFlight) == dtlsflight12.Flight2 ==> !s.retransmit
//@ ensures sends-nothing-itself: !called("Conn.WritePackets")
//@ ensures outcomes: result0 == StateSending || result0 == StateErrored
//@ ensures interval-untouched: s.retransmitInterval == old(s.retransmitInterval)
//@ end

// WAITING (RFC 6347 4.2.4): the flight is re-sent only when the retransmit timer fires, through
// handleRetransmitTimeout (which applies the backoff law and refuses non-retransmittable flights);
// a received event never leads to SENDING directly. The interval is only ever reset to the
// configured initial value or changed by the timer law.

//@ define ivOK(x) (x > 0 && x <= 4611686018427387903)

//@ func fsm12.wait
//@ watch handleRetransmitTimeout handleWaitCancellation Parse Conn.WritePackets recv:Conn.RecvHandshake time.NewTimer
// (The channel returned by the interface call conn.RecvHandshake() has no stable source-level name;
// the engine calls it value.t3 in wait and value.t0 in finish.)
//@ define lastEvent() retAs("recv:Conn.RecvHandshake", 0, RecvHandshakeState{})
//@ requires args: s != nil && s.state != nil && s.state.Common != nil && s.cfg != nil && !isNil(s.cfg.Log) && ownConn(conn) && !isNil(ctx)
//@ requires interval-range: ivOK(s.retransmitInterval) && ivOK(s.cfg.InitialRetransmitInterval)
//@ ensures resend-only-by-timer: result0 == StateSending ==> called("handleRetransmitTimeout") && old(s.retransmit)
//@ ensures non-retransmittable-never-resent: !old(s.retransmit) ==> result0 != StateSending
//@ ensures silence-doubles: result0 == StateSending && !called("Parse") && !s.cfg.DisableRetransmitBackoff ==> s.retransmitInterval == min(2*old(s.retransmitInterval), 60000000000)
//@ ensures silence-constant-without-backoff: result0 == StateSending && !called("Parse") && s.cfg.DisableRetransmitBackoff ==> s.retransmitInterval == min(old(s.retransmitInterval), 60000000000)
//@ ensures timer-without-resend-keeps-interval: result0 == StateWaiting ==> called("handleRetransmitTimeout") && !old(s.retransmit)
//@ ensures no-event-no-reset: result0 == StateWaiting && !called("Parse") ==> s.retransmitInterval == old(s.retransmitInterval)
// A retransmitted flight from the peer must not restart the backoff (pion/dtls#758): as long as every received event
// was a retransmission, the interval is the one the step started with.
//@ ensures retransmitted-events-keep-interval: always("recv:Conn.RecvHandshake", "lastEvent().IsRetransmit") && !called("handleRetransmitTimeout") && !called("handleWaitCancellation") ==> s.retransmitInterval == old(s.retransmitInterval)
//@ ensures interval-changes-only-on-event: !called("recv:Conn.RecvHandshake") && !called("handleRetransmitTimeout") && !called("handleWaitCancellation") ==> s.retransmitInterval == old(s.retransmitInterval)
//@ ensures new-data-restores-initial: called("recv:Conn.RecvHandshake") && !lastEvent().IsRetransmit && !called("handleRetransmitTimeout") && !called("handleWaitCancellation") ==> s.retransmitInterval == s.cfg.InitialRetransmitInterval
// The retransmit timer of the step is armed once, with the current (backed-off) interval, and the timer law is
// applied to the flight's own retransmit flag.
//@ ensures timer-armed-with-current-interval: ncalls("time.NewTimer") == 1 && argAs("time.NewTimer", 0, s.retransmitInterval) == old(s.retransmitInterval)
//@ ensures timer-law-on-flight-flag: called("handleRetransmitTimeout") ==> argBool("handleRetransmitTimeout", 0) == old(s.retransmit)
//@ ensures sends-nothing-itself: !called("Conn.WritePackets")
//@ ensures progress-needs-event: (result0 == StatePreparing || result0 == StateFinished) ==> called("Parse")
//@ ensures interval-stays-in-range: result0 != StateErrored ==> s.retransmitInterval > 0
//@ loop #1: frame: s.cfg == old(s.cfg) && s.cfg != nil && s.state != nil && !isNil(s.cfg.Log) && s.retransmit == old(s.retransmit)
//@ loop #1: config-kept: s.cfg.InitialRetransmitInterval == old(s.cfg.InitialRetransmitInterval) && s.cfg.DisableRetransmitBackoff == old(s.cfg.DisableRetransmitBackoff)
//@ loop #1: interval-initial-or-unchanged: s.retransmitInterval == old(s.retransmitInterval) || s.retransmitInterval == s.cfg.InitialRetransmitInterval
//@ loop #1: no-event-no-reset: !called("Parse") ==> s.retransmitInterval == old(s.retransmitInterval)
//@ loop #1: no-event-yet: !called("recv:Conn.RecvHandshake") ==> s.retransmitInterval == old(s.retransmitInterval) && !called("Parse")
//@ loop #1: last-event-law: called("recv:Conn.RecvHandshake") && !lastEvent().IsRetransmit ==> s.retransmitInterval == s.cfg.InitialRetransmitInterval
//@ loop #1: only-retransmits-keep-interval: always("recv:Conn.RecvHandshake", "lastEvent().IsRetransmit") ==> s.retransmitInterval == old(s.retransmitInterval)
//@ loop #1: timer-armed: ncalls("time.NewTimer") == 1 && argAs("time.NewTimer", 0, s.retransmitInterval) == old(s.retransmitInterval)
//@ loop #1: timer-not-yet: !called("handleRetransmitTimeout") && !called("handleWaitCancellation") && !called("Conn.WritePackets")
//@ end

// DTLS 1.3 (RFC 9147 5.8): after a received event the current flight is re-sent only for a cause -
// an empty ACK, partial ACK progress, or the peer's retransmission - and only while the flight is
// still retransmittable; the backoff law is handleRetransmitTimeout's. A fully acknowledged flight
// stops the timer.

//@ func fsm13.transitionAfterACK
//@ watch handleRetransmitTimeout
//@ requires args: s != nil && s.cfg != nil
//@ requires interval-range: ivOK(s.retransmitInterval)
//@ ensures resend-has-cause: result0.state == StateSending ==> result.Empty || len(result.Messages) != 0 || peerRetransmit
//@ ensures resend-only-if-retransmittable: result0.state == StateSending ==> old(s.retransmit) && called("handleRetransmitTimeout")
//@ ensures no-cause-no-resend: !result.Empty && len(result.Messages) == 0 && !peerRetransmit ==> result0.state == StateWaiting && s.retransmitInterval == old(s.retransmitInterval) && !called("handleRetransmitTimeout")
//@ ensures fully-acked-stops-timer: len(result.Messages) != 0 && len(old(s.flightACK.pending)) == 0 ==> !s.retransmit && result0.state != StateSending && s.retransmitInterval == old(s.retransmitInterval)
//@ ensures backoff-doubles: result0.state == StateSending && !s.cfg.DisableRetransmitBackoff ==> s.retransmitInterval == min(2*old(s.retransmitInterval), 60000000000)
//@ ensures backoff-off: result0.state == StateSending && s.cfg.DisableRetransmitBackoff ==> s.retransmitInterval == min(old(s.retransmitInterval), 60000000000)
//@ ensures no-resend-keeps-interval: result0.state != StateSending ==> s.retransmitInterval == old(s.retransmitInterval)
//@ ensures outcomes: result0.state == StateSending || result0.state == StateWaiting || result0.state == StateFinished
//@ ensures no-flight-change: result0.nextFlight == 0 && !result0.retainPendingRecv
//@ end

// A duplicate of the peer's previous flight (it did not get our final flight): ACK it, then the
// same timer law decides whether the final flight goes out again.

//@ func fsm13.handlePreviousFlightRetransmit
//@ watch sendACK fsm13.transitionAfterACK handleRetransmitTimeout
//@ requires args: s != nil && s.cfg != nil && s.state != nil && ownConn(conn) && !isNil(ctx)
//@ requires interval-range: ivOK(s.retransmitInterval)
//@ ensures acks-first: result1 == nil ==> calledBefore("sendACK", "fsm13.transitionAfterACK")
//@ ensures ack-failure-stops: result1 != nil ==> result0.state == 0 && !called("fsm13.transitionAfterACK")
//@ ensures resend-by-timer-law: result0.state == StateSending ==> called("fsm13.transitionAfterACK")
//@ ensures no-resend-keeps-interval: result1 == nil && result0.state != StateSending ==> s.retransmitInterval == old(s.retransmitInterval)
//@ ensures treated-as-peer-retransmit: result1 == nil ==> argBool("fsm13.transitionAfterACK", 2)
//@ end

// WAITING (DTLS 1.3, RFC 9147 5.8): the retransmit timer of the step is armed once with the current (backed-off)
// interval; the flight goes out again only through the timer law (timer expiry) or the per-event law of
// handleReceivedFlight (ACK progress / peer retransmission, which itself goes through handleRetransmitTimeout);
// total silence doubles the interval up to 60 s.

//@ func recvHandshakeLease.release
//@ noinline
//@ end

//@ func fsm13.wait
// ("name!": only the calls made by wait itself - handleReceivedFlight applies the timer law too, inside)
//@ watch handleRetransmitTimeout! handleWaitCancellation! fsm13.handleReceivedFlight time.NewTimer recv:Conn.RecvHandshake
//@ requires args: s != nil && s.cfg != nil && s.state != nil && ownConn(conn) && !isNil(ctx)
//@ requires interval-range: ivOK(s.retransmitInterval) && ivOK(s.cfg.InitialRetransmitInterval)
//@ ensures w-timer-armed-with-current-interval: ncalls("time.NewTimer") == 1 && argAs("time.NewTimer", 0, s.retransmitInterval) == old(s.retransmitInterval)
//@ ensures w-resend-only-by-a-law: result0 == StateSending ==> called("handleRetransmitTimeout!") || called("fsm13.handleReceivedFlight")
//@ ensures w-silence-doubles: !called("fsm13.handleReceivedFlight") && result0 == StateSending && !s.cfg.DisableRetransmitBackoff ==> s.retransmitInterval == min(2*old(s.retransmitInterval), 60000000000)
//@ ensures w-silence-constant-without-backoff: !called("fsm13.handleReceivedFlight") && result0 == StateSending && s.cfg.DisableRetransmitBackoff ==> s.retransmitInterval == min(old(s.retransmitInterval), 60000000000)
//@ ensures w-silent-resend-needs-flag: !called("fsm13.handleReceivedFlight") && result0 == StateSending ==> called("handleRetransmitTimeout!") && old(s.retransmit)
//@ ensures w-silent-non-retransmittable-never-resent: !called("fsm13.handleReceivedFlight") && !old(s.retransmit) ==> result0 != StateSending
//@ ensures w-timer-law-on-flight-flag: called("handleRetransmitTimeout!") && !called("fsm13.handleReceivedFlight") ==> argBool("handleRetransmitTimeout!", 0) == old(s.retransmit)
//@ ensures w-interval-changes-only-on-event: !called("fsm13.handleReceivedFlight") && !called("handleRetransmitTimeout!") && !called("handleWaitCancellation!") ==> s.retransmitInterval == old(s.retransmitInterval)
//@ ensures w-progress-needs-event: (result0 == StatePreparing || result0 == StateFinished) ==> called("fsm13.handleReceivedFlight")
//@ ensures w-one-timer-expiry: ncalls("handleRetransmitTimeout!") <= 1
//@ ensures w-timer-expiry-ends-step: called("handleRetransmitTimeout!") ==> result0 == StateSending || result0 == StateWaiting
//@ loop #1: frame: s.cfg == old(s.cfg) && s.state == old(s.state) && s.cfg.InitialRetransmitInterval == old(s.cfg.InitialRetransmitInterval) && s.cfg.DisableRetransmitBackoff == old(s.cfg.DisableRetransmitBackoff)
//@ loop #1: interval-in-range: ivOK(s.retransmitInterval)
//@ loop #1: timer-armed: ncalls("time.NewTimer") == 1 && argAs("time.NewTimer", 0, s.retransmitInterval) == old(s.retransmitInterval)
//@ loop #1: no-event-yet: !called("fsm13.handleReceivedFlight") ==> s.retransmitInterval == old(s.retransmitInterval) && s.retransmit == old(s.retransmit)
//@ loop #1: timer-not-yet: !called("handleRetransmitTimeout!") && !called("handleWaitCancellation!")
//@ end

// One received event (DTLS 1.3): the interval is restored to the configured initial value only
// for an event that is not a retransmission; a retransmitted event leaves it to the timer law.

// Parsing the received flight and moving on to the next flight are other properties' business (C03/C04/C13); here
// they are opaque steps that do not touch the FSM's timer bookkeeping (inferred write sets).
//@ func handshakeContext.parseReceivedFlight
//@ noinline
//@ end

// Moving on to the next flight never yields WAITING or SENDING: the FSM prepares the next flight or finishes.
//@ func handshakeContext.advanceAfterReceivedFlight
//@ ensures next-is-preparing-or-finished: result1 == nil ==> result0.state == StatePreparing || result0.state == StateFinished
//@ ensures error-is-zero-transition: result1 != nil ==> result0.state == StateErrored
//@ end

//@ func fsm13.handleReceivedFlight
//@ watch handleRetransmitTimeout fsm13.transitionAfterACK fsm13.handlePreviousFlightRetransmit handshakeContext.parseReceivedFlight handshakeContext.advanceAfterReceivedFlight
//@ requires args: s != nil && s.cfg != nil && s.state != nil && ownConn(conn) && !isNil(ctx)
//@ requires interval-range: ivOK(s.retransmitInterval) && ivOK(s.cfg.InitialRetransmitInterval)
// What a WAITING outcome leaves behind (the step loop of fsm13.wait goes on with it): same configuration and state
// objects, an interval in range. (s.state.Common != nil is not carried: conn.WritePackets may lazily set it.)
//@ ensures waiting-keeps-frame: result1 == nil && result0.state == StateWaiting ==> s.cfg == old(s.cfg) && s.state == old(s.state)
//@    && s.cfg.InitialRetransmitInterval == old(s.cfg.InitialRetransmitInterval) && s.cfg.DisableRetransmitBackoff == old(s.cfg.DisableRetransmitBackoff)
//@ ensures waiting-keeps-interval-in-range: result1 == nil && result0.state == StateWaiting ==> ivOK(s.retransmitInterval)
//@ ensures retransmission-does-not-reset: received.IsRetransmit && result1 == nil && result0.state != StateSending && !called("handshakeContext.parseReceivedFlight") ==> s.retransmitInterval == old(s.retransmitInterval)
// [dropped: demanded more than the property - a new ACK that triggers an immediate resend of the rest of the flight
//  restores the initial interval and then applies the timer law once (2*initial); split into the two clauses below]
//   ensures new-data-restores-initial: !received.IsRetransmit && result1 == nil && !called("handshakeContext.parseReceivedFlight") ==> s.retransmitInterval == s.cfg.InitialRetransmitInterval
//@ ensures new-data-without-resend-restores-initial: !received.IsRetransmit && result1 == nil && result0.state != StateSending && !called("handshakeContext.parseReceivedFlight") ==> s.retransmitInterval == s.cfg.InitialRetransmitInterval
//@ ensures new-data-with-resend-restarts-backoff: !received.IsRetransmit && result1 == nil && result0.state == StateSending && !called("handshakeContext.parseReceivedFlight") && !s.cfg.DisableRetransmitBackoff ==> s.retransmitInterval == min(2*s.cfg.InitialRetransmitInterval, 60000000000)
//@ ensures resend-by-timer-law: result0.state == StateSending && result1 == nil && !called("handshakeContext.parseReceivedFlight") ==> called("fsm13.transitionAfterACK") || called("fsm13.handlePreviousFlightRetransmit")
// The same laws on every path, including the ones through the flight parser and the step to the next flight (h3):
// parsing / advancing never touch the interval. (Needs the write set of conn.HandleQueuedPackets to be known: see the
// replay-marker assumption in contracts/verif_contracts_c20.go.)
//@ ensures retransmission-never-resets: received.IsRetransmit && result1 == nil && result0.state != StateSending ==> s.retransmitInterval == old(s.retransmitInterval)
//@ ensures new-data-always-restores-initial: !received.IsRetransmit && result1 == nil && result0.state != StateSending ==> s.retransmitInterval == s.cfg.InitialRetransmitInterval
//@ ensures new-data-resend-always-restarts-backoff: !received.IsRetransmit && result1 == nil && result0.state == StateSending && !s.cfg.DisableRetransmitBackoff ==> s.retransmitInterval == min(2*s.cfg.InitialRetransmitInterval, 60000000000)
//@ ensures resend-always-by-timer-law: result0.state == StateSending && result1 == nil ==> called("fsm13.transitionAfterACK") || called("fsm13.handlePreviousFlightRetransmit") || called("handshakeContext.advanceAfterReceivedFlight")
//@ ensures interval-only-initial-or-timer-law: !called("handleRetransmitTimeout") && !called("fsm13.transitionAfterACK") && !called("fsm13.handlePreviousFlightRetransmit")
//@    ==> s.retransmitInterval == old(s.retransmitInterval) || (!received.IsRetransmit && s.retransmitInterval == s.cfg.InitialRetransmitInterval)
//@ ensures parsed-flight-retransmit-flag: called("handshakeContext.parseReceivedFlight") && called("fsm13.transitionAfterACK") ==> argBool("fsm13.transitionAfterACK", 2) == received.IsRetransmit
//@ ensures ack-only-event-is-not-peer-retransmit: !received.HasHandshake && len(received.ACKs) != 0 ==> called("fsm13.transitionAfterACK") && !argBool("fsm13.transitionAfterACK", 2) && !called("handshakeContext.parseReceivedFlight")
//@ ensures duplicate-final-flight: received.HasHandshake && received.IsRetransmit && old(s.currentFlight) == dtlsflight13.Flight5 && (len(received.ACKs) == 0) ==> called("fsm13.handlePreviousFlightRetransmit") && !called("handshakeContext.parseReceivedFlight")
//@ end

// Post-handshake flights (KeyUpdate, NewSessionTicket): same backoff law on each timer expiry.

//@ func postHandshake.retransmitPostHandshakeFlight
//@ watch Conn.WritePackets Time.Add
//@ requires args: p != nil && flight != nil && ownConn(conn) && !isNil(ctx)
//@ requires interval-range: ivOK(flight.RetransmitInterval)
//@ ensures sends-once: ncalls("Conn.WritePackets") == 1
//@ ensures backoff-doubles: result == nil && !disableRetransmitBackoff ==> flight.RetransmitInterval == min(2*old(flight.RetransmitInterval), 60000000000)
//@ ensures backoff-off: result == nil && disableRetransmitBackoff ==> flight.RetransmitInterval == old(flight.RetransmitInterval)
//@ ensures cap-60s: result == nil && !disableRetransmitBackoff ==> flight.RetransmitInterval <= 60000000000 && flight.RetransmitInterval > 0
//@ ensures failed-write-keeps-interval: result != nil ==> flight.RetransmitInterval == old(flight.RetransmitInterval)
// The next deadline is "now + the (doubled, capped) interval": time.Time is opaque, so the law is stated on the one
// time.Time.Add call whose result is stored as the deadline.
//@ ensures deadline-computed-once: result == nil ==> ncalls("Time.Add") == 1
//@ ensures deadline-uses-backed-off-interval: result == nil ==> argAs("Time.Add", 1, flight.RetransmitInterval) == flight.RetransmitInterval
//@ ensures deadline-from-now: result == nil ==> argAs("Time.Add", 0, now) == now
//@ ensures deadline-stored: result == nil ==> flight.NextRetransmit == retAs("Time.Add", 0, now)
//@ ensures failed-write-keeps-deadline: result != nil ==> flight.NextRetransmit == old(flight.NextRetransmit) && !called("Time.Add")
//@ ensures flights-map-kept: sameRef(p.flights, old(p.flights)) && forallKey(p.flights, func(k postHandshakeFlightID) bool { return old(hasKey(p.flights, k)) && p.flights[k] == old(p.flights[k]) })
//@ ensures other-flights-keep-interval: forallKey(p.flights, func(k postHandshakeFlightID) bool { return p.flights[k] != flight ==> p.flights[k].RetransmitInterval == old(p.flights[k].RetransmitInterval) })
//@ end

// Timer expiry: only flights whose own deadline has passed (not after `now`) are sent again, each through the backoff
// law above with the caller's clock value and backoff switch.
//@ define RPF(k, e) argAs("postHandshake.retransmitPostHandshakeFlight", k, e)
//@ define FLIGHTS_IV(p) forallKey(p.flights, func(k postHandshakeFlightID) bool { return p.flights[k] != nil && ivOK(p.flights[k].RetransmitInterval) })

//@ func postHandshake.retransmitPostHandshake
//@ watch postHandshake.retransmitPostHandshakeFlight Time.After
//@ requires args: p != nil && ownConn(conn) && !isNil(ctx)
//@ requires flights-intervals: FLIGHTS_IV(p)
//@ ensures only-expired-flights-resent: always("postHandshake.retransmitPostHandshakeFlight", "called(\"Time.After\") && !retBool(\"Time.After\", 0)")
//@ ensures deadline-compared-with-now: always("Time.After", "argAs(\"Time.After\", 1, now) == now")
//@ ensures clock-and-switch-passed-on: always("postHandshake.retransmitPostHandshakeFlight", "RPF(4, now) == now && RPF(5, disableRetransmitBackoff) == disableRetransmitBackoff")
//@ ensures flights-intervals-kept: FLIGHTS_IV(p)
//@ ensures error-stops: result != nil ==> sameRef(result, retErr("postHandshake.retransmitPostHandshakeFlight", 0))
//@ ensures nothing-expired-nothing-sent: !called("Time.After") ==> !called("postHandshake.retransmitPostHandshakeFlight")
//@ loop #1: frame: sameRef(p.flights, old(p.flights)) && FLIGHTS_IV(p)
//@ loop #1: only-expired-flights-resent: always("postHandshake.retransmitPostHandshakeFlight", "called(\"Time.After\") && !retBool(\"Time.After\", 0)")
//@ loop #1: deadline-compared-with-now: always("Time.After", "argAs(\"Time.After\", 1, now) == now")
//@ loop #1: clock-and-switch-passed-on: always("postHandshake.retransmitPostHandshakeFlight", "RPF(4, now) == now && RPF(5, disableRetransmitBackoff) == disableRetransmitBackoff")
//@ loop #1: all-ok-so-far: called("postHandshake.retransmitPostHandshakeFlight") ==> isNil(retErr("postHandshake.retransmitPostHandshakeFlight", 0))
//@ loop #1: nothing-expired-nothing-sent: !called("Time.After") ==> !called("postHandshake.retransmitPostHandshakeFlight")
//@ end

// First transmission of a reliable post-handshake flight: the interval starts at the configured initial value and the
// first deadline is "time of sending + that interval"; exactly one transmission.

//@ define KUF17() retAs("postHandshake.buildKeyUpdateFlight", 0, flight)
//@ define NSF17() retAs("postHandshake.prepareNewSessionTicket", 0, flight)

//@ func postHandshake.startKeyUpdate
//@ watch Conn.WritePackets postHandshake.buildKeyUpdateFlight Time.Add time.Now
//@ ensures timer-starts-at-configured-interval: result == nil ==> KUF17().RetransmitInterval == p.initialRetransmitInterval
//@ ensures timer-armed-once: result == nil ==> ncalls("Time.Add") == 1 && ncalls("time.Now") == 1
//@ ensures timer-deadline-is-now-plus-interval: result == nil ==> argAs("Time.Add", 1, p.initialRetransmitInterval) == KUF17().RetransmitInterval
//@    && argAs("Time.Add", 0, flight.NextRetransmit) == retAs("time.Now", 0, flight.NextRetransmit)
//@ ensures timer-deadline-stored: result == nil ==> KUF17().NextRetransmit == retAs("Time.Add", 0, flight.NextRetransmit)
//@ ensures timer-armed-after-send: result == nil ==> calledBefore("Conn.WritePackets", "time.Now")
//@ ensures timer-failed-send-arms-nothing: result != nil ==> !called("Time.Add")
//@ end

//@ func postHandshake.startNewSessionTicket
//@ watch Conn.WritePackets postHandshake.prepareNewSessionTicket Time.Add time.Now
//@ requires args: p != nil && p.state != nil && ownConn(conn)
//@ ensures timer-starts-at-configured-interval: result == nil ==> NSF17().RetransmitInterval == p.initialRetransmitInterval
//@ ensures timer-armed-once: result == nil ==> ncalls("Time.Add") == 1 && ncalls("time.Now") == 1
//@ ensures timer-deadline-is-now-plus-interval: result == nil ==> argAs("Time.Add", 1, p.initialRetransmitInterval) == NSF17().RetransmitInterval
//@    && argAs("Time.Add", 0, flight.NextRetransmit) == retAs("time.Now", 0, flight.NextRetransmit)
//@ ensures timer-deadline-stored: result == nil ==> NSF17().NextRetransmit == retAs("Time.Add", 0, flight.NextRetransmit)
//@ ensures timer-sends-once: ncalls("Conn.WritePackets") <= 1 && (result == nil ==> ncalls("Conn.WritePackets") == 1)
//@ ensures timer-failed-send-arms-nothing: result != nil ==> !called("Time.Add")
//@ ensures timer-flight-registered: result == nil ==> NSF17() != nil && p.flights[NSF17().ID] == NSF17()
//@ ensures state-kept: p.state == old(p.state)
//@ end

// Every registered flight keeps an interval in (0, 2^62): new flights start at the configured interval (range assumption
// of the property), retransmitPostHandshakeFlight doubles with the 60 s cap.

//@ func postHandshake.startKeyUpdate
//@ requires timer-flights-intervals: FLIGHTS_IV(p) && ivOK(p.initialRetransmitInterval)
//@ ensures timer-flights-intervals-kept: FLIGHTS_IV(p)
//@ end

//@ func postHandshake.startNewSessionTicket
//@ requires timer-flights-intervals: FLIGHTS_IV(p) && ivOK(p.initialRetransmitInterval)
//@ ensures timer-flights-intervals-kept: FLIGHTS_IV(p)
//@ end

//@ func postHandshake.startPostHandshakeCommand
//@ requires timer-flights-intervals: FLIGHTS_IV(p) && ivOK(p.initialRetransmitInterval)
//@ ensures timer-flights-intervals-kept: FLIGHTS_IV(p)
//@ ensures timer-config-kept: p.initialRetransmitInterval == old(p.initialRetransmitInterval)
//@ end

//@ func postHandshake.startQueuedPostHandshake
//@ requires timer-flights-intervals: FLIGHTS_IV(p) && ivOK(p.initialRetransmitInterval)
//@ ensures timer-flights-intervals-kept: FLIGHTS_IV(p)
//@ ensures timer-config-kept: p.initialRetransmitInterval == old(p.initialRetransmitInterval)
//@ loop #1: timer-flights-intervals: FLIGHTS_IV(p)
//@ loop #1: timer-config-kept: p.initialRetransmitInterval == old(p.initialRetransmitInterval)
//@ end

// FINISHED (DTLS 1.3): one event per step. Reliable post-handshake flights are sent again only when the timer armed by
// nextTimer fires, through retransmitPostHandshake with the timer's clock value and the configured backoff switch; a
// received event or a queued command never triggers a retransmission by itself.

//@ func postHandshake.nextTimer
//@ noinline
//@ end

//@ func postHandshake.initialize
//@ noinline
//@ end

// TIMEW() is only a type witness (time.Time) for argAs/retAs.
//@ define TIMEW() s.postHandshake.flights[postHandshakeFlightID{}].NextRetransmit
//@ func fsm13.finish
//@ watch postHandshake.retransmitPostHandshake postHandshake.handlePostHandshakeReceive postHandshake.startQueuedPostHandshake postHandshake.nextTimer recv:Conn.RecvHandshake recv:postHandshake.nextTimer#1
//@ requires args: s != nil && s.cfg != nil && s.postHandshake != nil && s.postHandshake.state != nil && ownConn(conn) && !isNil(ctx)
//@ requires flights: FLIGHTS(s.postHandshake) && FLIGHTS_IV(s.postHandshake) && ivOK(s.postHandshake.initialRetransmitInterval)
//@ ensures f-resend-only-on-timer: called("postHandshake.retransmitPostHandshake") ==> called("recv:postHandshake.nextTimer#1") && !called("recv:Conn.RecvHandshake") && !called("postHandshake.handlePostHandshakeReceive")
//@ ensures f-resend-at-most-once: ncalls("postHandshake.retransmitPostHandshake") <= 1
//@ ensures f-timer-clock-and-switch: called("postHandshake.retransmitPostHandshake") ==> argBool("postHandshake.retransmitPostHandshake", 4) == s.cfg.DisableRetransmitBackoff
//@ ensures f-timer-clock: called("postHandshake.retransmitPostHandshake") ==> argAs("postHandshake.retransmitPostHandshake", 3, TIMEW()) == retAs("recv:postHandshake.nextTimer#1", 0, TIMEW())
//@ ensures f-received-goes-to-handler: called("recv:Conn.RecvHandshake") ==> called("postHandshake.handlePostHandshakeReceive") && !called("postHandshake.retransmitPostHandshake")
//@ ensures f-queue-started-before-waiting: calledBefore("postHandshake.startQueuedPostHandshake", "postHandshake.nextTimer") || !called("postHandshake.nextTimer")
//@ ensures f-timer-from-nextTimer: called("recv:postHandshake.nextTimer#1") ==> called("postHandshake.nextTimer")
//@ ensures f-one-event-per-step: ncalls("recv:Conn.RecvHandshake") <= 1 && ncalls("postHandshake.handlePostHandshakeReceive") <= 1
//@ ensures f-outcomes: result0 == StateFinished || result0 == StateErrored
//@ ensures f-errors-stop: result1 != nil ==> result0 == StateErrored
//@ end
