//go:build verif

// C17 contracts for package dtlshandshake (comment-only; read by /verif/vc).
package dtlshandshake

// The FSM's Conn is the library's own adapter (dtls.handshakeConn, the only implementation).
//@ define ownConn(c) typeIs(c, "github.com/pion/dtls/v3.handshakeConn")

//@ func fsm12.finish
//@ watch handshakeConn.WritePackets
//@ requires args: s != nil && s.state != nil && s.state.Common != nil && ownConn(c) && !isNil(ctx)
//@ ensures client-never-resends: old(s.state.Common.IsClient) ==> result0 != StateSending
//@ ensures outcomes: result0 == StateFinished || result0 == StateSending || result0 == StateErrored
//@ ensures sends-nothing-itself: !called("handshakeConn.WritePackets")
//@ end

// SENDING: one WritePackets call for the buffered flight, then WAITING (or FINISHED after the last
// flight). No loop, no second send.

//@ func fsm12.send
//@ watch Conn.WritePackets
//@ requires args: s != nil && ownConn(c) && !isNil(ctx)
//@ ensures sends-once: ncalls("Conn.WritePackets") == 1
//@ ensures outcomes: result0 == StateWaiting || result0 == StateFinished || result0 == StateErrored
//@ ensures write-error-stops: retErr("Conn.WritePackets", 1) != nil ==> result0 == StateErrored
//@ ensures interval-untouched: s.retransmitInterval == old(s.retransmitInterval) && s.retransmit == old(s.retransmit)
//@ end

// PREPARING: the retransmit flag of the buffered flight is the one GetGenerator reports for the
// current flight, so a cookie request (Flight2) is never put on the timer.

//@ func fsm12.prepare
//@ watch GetGenerator Conn.WritePackets
//@ requires args: s != nil && s.state != nil && s.state.Common != nil && s.cfg != nil && !isNil(s.cfg.Log) && ownConn(conn) && !isNil(ctx)
//@ ensures flag-from-generator: result0 == StateSending ==> s.retransmit == retBool("GetGenerator", 1)
//@ ensures cookie-request-not-on-timer: result0 == StateSending && old(s.currentFlight) == dtlsflight12.Flight2 ==> !s.retransmit
//@ ensures sends-nothing-itself: !called("Conn.WritePackets")
//@ ensures outcomes: result0 == StateSending || result0 == StateErrored
//@ ensures interval-untouched: s.retransmitInterval == old(s.retransmitInterval)
//@ end

// WAITING (RFC 6347 4.2.4): the flight is re-sent only when the retransmit timer fires, through
// handleRetransmitTimeout (which applies the backoff law and refuses non-retransmittable flights);
// a received event never leads to SENDING directly. The interval is only ever reset to the
// configured initial value or changed by the timer law.

//@ define ivOK(x) (x > 0 && x <= 4611686018427387903)

//@ func fsm12.wait
//@ watch handleRetransmitTimeout handleWaitCancellation Parse Conn.WritePackets
//@ requires args: s != nil && s.state != nil && s.state.Common != nil && s.cfg != nil && !isNil(s.cfg.Log) && ownConn(conn) && !isNil(ctx)
//@ requires interval-range: ivOK(s.retransmitInterval) && ivOK(s.cfg.InitialRetransmitInterval)
//@ ensures resend-only-by-timer: result0 == StateSending ==> called("handleRetransmitTimeout") && old(s.retransmit)
//@ ensures non-retransmittable-never-resent: !old(s.retransmit) ==> result0 != StateSending
//@ ensures silence-doubles: result0 == StateSending && !called("Parse") && !s.cfg.DisableRetransmitBackoff ==> s.retransmitInterval == min(2*old(s.retransmitInterval), 60000000000)
//@ ensures silence-constant-without-backoff: result0 == StateSending && !called("Parse") && s.cfg.DisableRetransmitBackoff ==> s.retransmitInterval == min(old(s.retransmitInterval), 60000000000)
//@ ensures timer-without-resend-keeps-interval: result0 == StateWaiting ==> called("handleRetransmitTimeout") && !old(s.retransmit)
//@ ensures no-event-no-reset: result0 == StateWaiting && !called("Parse") ==> s.retransmitInterval == old(s.retransmitInterval)
//@ ensures sends-nothing-itself: !called("Conn.WritePackets")
//@ ensures progress-needs-event: (result0 == StatePreparing || result0 == StateFinished) ==> called("Parse")
//@ ensures interval-stays-in-range: result0 != StateErrored ==> s.retransmitInterval > 0
//@ loop #1: frame: s.cfg == old(s.cfg) && s.cfg != nil && s.state != nil && s.state.Common != nil && !isNil(s.cfg.Log) && s.retransmit == old(s.retransmit)
//@ loop #1: config-kept: s.cfg.InitialRetransmitInterval == old(s.cfg.InitialRetransmitInterval) && s.cfg.DisableRetransmitBackoff == old(s.cfg.DisableRetransmitBackoff)
//@ loop #1: interval-initial-or-unchanged: s.retransmitInterval == old(s.retransmitInterval) || s.retransmitInterval == s.cfg.InitialRetransmitInterval
//@ loop #1: no-event-no-reset: !called("Parse") ==> s.retransmitInterval == old(s.retransmitInterval)
//@ loop #1: timer-not-yet: !called("handleRetransmitTimeout") && !called("handleWaitCancellation") && !called("Conn.WritePackets")
//@ end
