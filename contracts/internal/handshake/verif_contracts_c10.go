//go:build verif

// C10: DTLS 1.3 key schedule as wired by the handshake (RFC 8446 7.1, 4.4.3, 4.4.4 with the RFC 9147 5.9 label
// prefix added inside keyschedule.HkdfExpandLabel). HKDF/HMAC are opaque; the clauses fix which secret keys
// each derivation, the label, the context and the output length, and the byte layout of the CertificateVerify
// signing input. Comment-only; read by /verif/vc.
package dtlshandshake

// Derive-Secret(Secret, Label, Messages) = HKDF-Expand-Label(Secret, Label, Transcript-Hash(Messages), Hash.length)
//@ func deriveTrafficSecret
//@ watch HkdfExpandLabel hashFunc
//@ ensures expand-at-most-once: ncalls("HkdfExpandLabel") <= 1
//@ ensures result-is-expand-output: result1 == nil ==> ncalls("HkdfExpandLabel") == 1 && sameSlice(result0, retBytes("HkdfExpandLabel", 0)) && retErr("HkdfExpandLabel", 1) == nil
//@ ensures keyed-by-base-secret: called("HkdfExpandLabel") ==> sameSlice(argBytes("HkdfExpandLabel", 1), baseSecret)
//@ ensures label-passed-on: called("HkdfExpandLabel") ==> argAs("HkdfExpandLabel", 2, label) == label
//@ ensures context-is-transcript-hash: called("HkdfExpandLabel") ==> sameSlice(argBytes("HkdfExpandLabel", 3), transcriptHash)
//@ ensures length-is-hash-length: called("HkdfExpandLabel") ==> argInt("HkdfExpandLabel", 4) == len(transcriptHash) && argInt("HkdfExpandLabel", 4) == len(baseSecret)
//@ end

// RFC 8446 7.1:  client_handshake_traffic_secret = Derive-Secret(Handshake Secret, "c hs traffic", ClientHello...ServerHello)
//                server_handshake_traffic_secret = Derive-Secret(Handshake Secret, "s hs traffic", ClientHello...ServerHello)
//                Master Secret descends from the same Handshake Secret.
//@ func deriveHandshakeKeySchedule
//@ watch deriveHandshakeSecret deriveTrafficSecret deriveMasterSecret hashFunc
//@ ensures handshake-secret-from-key-agreement: called("deriveHandshakeSecret") ==> sameSlice(argBytes("deriveHandshakeSecret", 1), keyAgreementSecret)
//@ ensures all-derived: result1 == nil ==> ncalls("deriveHandshakeSecret") == 1 && ncalls("deriveTrafficSecret") == 2 && ncalls("deriveMasterSecret") == 1
//@ ensures traffic-keyed-by-handshake-secret: always("deriveTrafficSecret", "called(\"deriveHandshakeSecret\") && sameSlice(argBytes(\"deriveTrafficSecret\", 1), retBytes(\"deriveHandshakeSecret\", 0))")
//@ ensures traffic-context-is-transcript-hash: always("deriveTrafficSecret", "sameSlice(argBytes(\"deriveTrafficSecret\", 3), transcriptHash)")
//@ ensures client-label-first: always("deriveTrafficSecret", "ncalls(\"deriveTrafficSecret\") == 1 ==> argAs(\"deriveTrafficSecret\", 2, \"\") == \"c hs traffic\"")
//@ ensures server-label-second: always("deriveTrafficSecret", "ncalls(\"deriveTrafficSecret\") == 2 ==> argAs(\"deriveTrafficSecret\", 2, \"\") == \"s hs traffic\"")
//@ ensures at-most-two-traffic-secrets: ncalls("deriveTrafficSecret") <= 2
//@ ensures server-secret-is-second: result1 == nil ==> sameSlice(result0.HandshakeTrafficSecrets.Server, retBytes("deriveTrafficSecret", 0))
//@ ensures master-from-handshake-secret: called("deriveMasterSecret") ==> sameSlice(argBytes("deriveMasterSecret", 1), retBytes("deriveHandshakeSecret", 0))
//@ ensures master-returned: result1 == nil ==> sameSlice(result0.MasterSecret, retBytes("deriveMasterSecret", 0))
//@ end

// RFC 8446 7.1:  client_application_traffic_secret_0 = Derive-Secret(Master Secret, "c ap traffic", ClientHello...server Finished)
//                server_application_traffic_secret_0 = Derive-Secret(Master Secret, "s ap traffic", ClientHello...server Finished)
//@ func deriveApplicationTrafficSecrets
//@ watch deriveTrafficSecret
//@ ensures both-derived: result1 == nil ==> ncalls("deriveTrafficSecret") == 2
//@ ensures at-most-two: ncalls("deriveTrafficSecret") <= 2
//@ ensures keyed-by-master-secret: always("deriveTrafficSecret", "sameSlice(argBytes(\"deriveTrafficSecret\", 1), masterSecret)")
//@ ensures context-is-transcript-hash: always("deriveTrafficSecret", "sameSlice(argBytes(\"deriveTrafficSecret\", 3), transcriptHash)")
//@ ensures client-label-first: always("deriveTrafficSecret", "ncalls(\"deriveTrafficSecret\") == 1 ==> argAs(\"deriveTrafficSecret\", 2, \"\") == \"c ap traffic\"")
//@ ensures server-label-second: always("deriveTrafficSecret", "ncalls(\"deriveTrafficSecret\") == 2 ==> argAs(\"deriveTrafficSecret\", 2, \"\") == \"s ap traffic\"")
//@ ensures server-secret-is-second: result1 == nil ==> sameSlice(result0.Server, retBytes("deriveTrafficSecret", 0))
//@ end

// RFC 8446 7.1 / 7.5:  exporter_master_secret = Derive-Secret(Master Secret, "exp master", ClientHello...server Finished)
//@ func deriveExporterMasterSecret
//@ watch deriveTrafficSecret
//@ ensures once: ncalls("deriveTrafficSecret") == 1
//@ ensures label: argAs("deriveTrafficSecret", 2, "") == "exp master"
//@ ensures inputs: sameSlice(argBytes("deriveTrafficSecret", 1), masterSecret) && sameSlice(argBytes("deriveTrafficSecret", 3), transcriptHash)
//@ ensures result: sameSlice(result0, retBytes("deriveTrafficSecret", 0)) && result1 == retErr("deriveTrafficSecret", 1)
//@ end

// RFC 8446 7.1:  resumption_master_secret = Derive-Secret(Master Secret, "res master", ClientHello...client Finished)
//@ func deriveResumptionMasterSecret
//@ watch deriveTrafficSecret
//@ ensures once: ncalls("deriveTrafficSecret") == 1
//@ ensures label: argAs("deriveTrafficSecret", 2, "") == "res master"
//@ ensures inputs: sameSlice(argBytes("deriveTrafficSecret", 1), masterSecret) && sameSlice(argBytes("deriveTrafficSecret", 3), transcriptHash)
//@ ensures result: sameSlice(result0, retBytes("deriveTrafficSecret", 0)) && result1 == retErr("deriveTrafficSecret", 1)
//@ end

// RFC 8446 7.1:  Master Secret = HKDF-Extract(salt = Derive-Secret(Handshake Secret, "derived", ""), IKM = 0^Hash.length)
// (that the IKM bytes are zero is not stated: HKDF-Extract is summarised by a byte-heap havoc before the event can be read)
//@ func deriveMasterSecret
//@ watch keyschedule.HkdfExtract keyschedule.DeriveSecret hashFunc
//@ ensures derive-at-most-once: ncalls("keyschedule.DeriveSecret") <= 1 && ncalls("keyschedule.HkdfExtract") <= 1
//@ ensures derived-from-handshake-secret: called("keyschedule.DeriveSecret") ==> sameSlice(argBytes("keyschedule.DeriveSecret", 1), handshakeSecret)
//@ ensures derived-label: called("keyschedule.DeriveSecret") ==> argAs("keyschedule.DeriveSecret", 2, "") == "derived"
//@ ensures derived-over-empty-transcript: called("keyschedule.DeriveSecret") ==> isNil(argAny("keyschedule.DeriveSecret", 3))
//@ ensures salt-is-derived-secret: called("keyschedule.HkdfExtract") ==> called("keyschedule.DeriveSecret") && retErr("keyschedule.DeriveSecret", 1) == nil
//@    && sameSlice(argBytes("keyschedule.HkdfExtract", 1), retBytes("keyschedule.DeriveSecret", 0))
//@ ensures ikm-has-hash-length: called("keyschedule.HkdfExtract") ==> len(argBytes("keyschedule.HkdfExtract", 2)) == len(handshakeSecret) && fresh(argBytes("keyschedule.HkdfExtract", 2))
//@ ensures result-is-extract: result1 == nil ==> called("keyschedule.HkdfExtract") && sameSlice(result0, retBytes("keyschedule.HkdfExtract", 0))
//@ end

// RFC 8446 4.4.4:  finished_key = HKDF-Expand-Label(BaseKey, "finished", "", Hash.length)
//@ func finishedKey
//@ watch HkdfExpandLabel hashFunc
//@ ensures expand-at-most-once: ncalls("HkdfExpandLabel") <= 1
//@ ensures result-is-expand-output: result1 == nil ==> called("HkdfExpandLabel") && sameSlice(result0, retBytes("HkdfExpandLabel", 0))
//@ ensures keyed-by-base-key: called("HkdfExpandLabel") ==> sameSlice(argBytes("HkdfExpandLabel", 1), baseKey)
//@ ensures label-finished: called("HkdfExpandLabel") ==> argAs("HkdfExpandLabel", 2, "") == "finished"
//@ ensures empty-context: called("HkdfExpandLabel") ==> len(argBytes("HkdfExpandLabel", 3)) == 0
//@ ensures length-is-hash-length: called("HkdfExpandLabel") ==> argInt("HkdfExpandLabel", 4) == hashSize
//@ end

// RFC 8446 4.4.4:  verify_data = HMAC(finished_key, Transcript-Hash(Handshake Context, Certificate*, CertificateVerify*))
//@ func finishedVerifyData
//@ watch finishedKey hmac.New Hash.Write! Hash.Sum! hashFunc
//@ ensures finished-key-from-base-key: called("finishedKey") ==> sameSlice(argBytes("finishedKey", 1), baseKey)
//@ ensures hmac-keyed-by-finished-key: called("hmac.New") ==> ncalls("hmac.New") == 1 && called("finishedKey") && retErr("finishedKey", 1) == nil && sameSlice(argBytes("hmac.New", 1), retBytes("finishedKey", 0))
//@ ensures hmac-over-transcript-hash: result1 == nil ==> ncalls("Hash.Write!") == 1 && sameSlice(argBytes("Hash.Write!", 1), transcriptHash) && sameRef(argAny("Hash.Write!", 0), retAny("hmac.New", 0))
//@ ensures result-is-mac: result1 == nil ==> ncalls("Hash.Sum!") == 1 && sameRef(argAny("Hash.Sum!", 0), retAny("hmac.New", 0)) && sameSlice(result0, retBytes("Hash.Sum!", 0)) && calledBefore("Hash.Write!", "Hash.Sum!")
//@ ensures nothing-appended-to: called("Hash.Sum!") ==> isNil(argBytes("Hash.Sum!", 1))
//@ end

// RFC 8446 4.4.3: the content covered by the CertificateVerify signature is 64 octets 0x20, the context string
// ("TLS 1.3, server CertificateVerify" / "TLS 1.3, client CertificateVerify"), a single 0 byte, the transcript hash.
//@ func certificateVerifyInput
//@ ensures length: len(result) == 64 + 33 + 1 + len(transcriptHash)
//@ ensures padding: forall(0, 64, func(j int) bool { return result[j] == 0x20 })
//@ ensures server-context: !isClient ==> forall(0, 33, func(j int) bool { return result[64+j] == "TLS 1.3, server CertificateVerify"[j] })
//@ ensures client-context: isClient ==> forall(0, 33, func(j int) bool { return result[64+j] == "TLS 1.3, client CertificateVerify"[j] })
//@ ensures separator: result[97] == 0
//@ ensures transcript-hash-last: forall(0, len(transcriptHash), func(j int) bool { return result[98+j] == transcriptHash[j] })
//@ ensures input-kept: forall(0, len(transcriptHash), func(j int) bool { return transcriptHash[j] == old(transcriptHash[j]) })
//@ loop i: filled: len(out) == 64 && fresh(out) && forall(0, i, func(j int) bool { return out[j] == 0x20 })
//@ loop i: input-kept: forall(0, len(transcriptHash), func(j int) bool { return transcriptHash[j] == old(transcriptHash[j]) })
//@ end

// RFC 8446 7.1:  Early Secret = HKDF-Extract(salt = 0, IKM = PSK = 0^Hash.length when no PSK is in use)
//                Handshake Secret = HKDF-Extract(salt = Derive-Secret(Early Secret, "derived", ""), IKM = (EC)DHE)
// (the C07 file states the second extraction; here: the first one and what keys Derive-Secret)
//@ func deriveHandshakeSecret
//@ watch keyschedule.HkdfExtract keyschedule.DeriveSecret hashFunc
//@ ensures early-secret-no-salt-zero-length-ikm: always("keyschedule.HkdfExtract", "ncalls(\"keyschedule.HkdfExtract\") == 1 ==> isNil(argBytes(\"keyschedule.HkdfExtract\", 1)) && len(argBytes(\"keyschedule.HkdfExtract\", 2)) == hashSize && !sameArray(argBytes(\"keyschedule.HkdfExtract\", 2), keyAgreementSecret)")
//@ ensures derived-keyed-by-early-secret: always("keyschedule.DeriveSecret", "ncalls(\"keyschedule.HkdfExtract\") == 1 && retErr(\"keyschedule.HkdfExtract\", 1) == nil && sameSlice(argBytes(\"keyschedule.DeriveSecret\", 1), retBytes(\"keyschedule.HkdfExtract\", 0))")
//@ ensures derived-over-empty-transcript: called("keyschedule.DeriveSecret") ==> isNil(argAny("keyschedule.DeriveSecret", 3))
//@ ensures derive-once: ncalls("keyschedule.DeriveSecret") <= 1 && ncalls("keyschedule.HkdfExtract") <= 2
//@ end

// The signing / MAC inputs are computed over the hash of the current transcript, for the side that signs.
//@ func CertificateVerifyInputFromTranscript
//@ watch Transcript.SnapshotHash certificateVerifyInput
//@ ensures no-transcript-refused: transcript == nil ==> result1 != nil && !called("certificateVerifyInput")
//@ ensures over-current-transcript-hash: called("certificateVerifyInput") ==> ncalls("Transcript.SnapshotHash") == 1 && retErr("Transcript.SnapshotHash", 1) == nil
//@    && sameSlice(argBytes("certificateVerifyInput", 1), retBytes("Transcript.SnapshotHash", 0)) && argBool("certificateVerifyInput", 0) == isClient
//@ ensures result-is-that-input: result1 == nil ==> ncalls("certificateVerifyInput") == 1 && sameSlice(result0, retBytes("certificateVerifyInput", 0))
//@ end

//@ func FinishedVerifyDataFromTranscript
//@ watch Transcript.SnapshotHash finishedVerifyData
//@ ensures no-transcript-refused: transcript == nil ==> result1 != nil && !called("finishedVerifyData")
//@ ensures over-current-transcript-hash: called("finishedVerifyData") ==> ncalls("Transcript.SnapshotHash") == 1 && retErr("Transcript.SnapshotHash", 1) == nil
//@    && sameSlice(argBytes("finishedVerifyData", 2), retBytes("Transcript.SnapshotHash", 0)) && sameSlice(argBytes("finishedVerifyData", 1), baseKey)
//@ ensures result-is-that-mac: result1 == nil ==> ncalls("finishedVerifyData") == 1 && sameSlice(result0, retBytes("finishedVerifyData", 0)) && retErr("finishedVerifyData", 1) == nil
//@ end

// RFC 8446 4.4.4: the received verify_data is compared (in constant time) with the locally computed one.
//@ func verifyFinishedData
//@ watch finishedVerifyData hmac.Equal
//@ ensures computed-from-same-inputs: ncalls("finishedVerifyData") == 1 && sameSlice(argBytes("finishedVerifyData", 1), baseKey) && sameSlice(argBytes("finishedVerifyData", 2), transcriptHash)
//@ ensures accepted-only-if-equal: result == nil ==> ncalls("hmac.Equal") == 1 && retBool("hmac.Equal", 0) && retErr("finishedVerifyData", 1) == nil
//@ ensures compared-with-received: called("hmac.Equal") ==> sameSlice(argBytes("hmac.Equal", 0), retBytes("finishedVerifyData", 0)) && sameSlice(argBytes("hmac.Equal", 1), verifyData)
//@ end
