//go:build verif

// Contracts for package handshake (internal FSM; comment-only; read by /verif/vc).
package dtlshandshake

// RFC 6347 4.2.4.1 timer law. 60 s = 60e9 ns. The interval is positive and below 2^62 ns
// (about 146 years), so doubling cannot overflow int64.

//@ func handleRetransmitTimeout
//@ requires ptrs: retransmitInterval != nil && cfg != nil
//@ requires range: *retransmitInterval > 0 && *retransmitInterval <= 4611686018427387903
//@ ensures no-timer-resend: !retransmit ==> result == StateWaiting && *retransmitInterval == old(*retransmitInterval)
//@ ensures resend: retransmit ==> result == StateSending
//@ ensures backoff-doubles: retransmit && !cfg.DisableRetransmitBackoff ==> *retransmitInterval == min(2*old(*retransmitInterval), 60000000000)
//@ ensures backoff-off: retransmit && cfg.DisableRetransmitBackoff ==> *retransmitInterval == min(old(*retransmitInterval), 60000000000)
//@ ensures cap-60s: retransmit ==> *retransmitInterval <= 60000000000 && *retransmitInterval > 0
//@ end

//@ func handleWaitCancellation
//@ requires ptrs: retransmitInterval != nil && cfg != nil
//@ ensures reset: *retransmitInterval == cfg.InitialRetransmitInterval
//@ ensures errored: result0 == StateErrored && result1 == err
//@ end
