//go:build verif

// C07: DTLS 1.3 key schedule inputs (RFC 8446 7.1). The handshake secret, from which every
// handshake/application traffic key and the exporter secret descend, must be extracted from the
// (EC)DHE shared secret; an empty shared secret would make all of them computable from the
// cleartext hellos. Comment-only; read by /verif/vc.
package dtlshandshake

// Handshake Secret = HKDF-Extract(Derive-Secret(Early Secret, "derived", ""), (EC)DHE)
//@ func deriveHandshakeSecret
//@ watch keyschedule.HkdfExtract keyschedule.DeriveSecret
//@ ensures empty-key-agreement-rejected: len(keyAgreementSecret) == 0 ==> result1 != nil && isNil(result0)
//@ ensures empty-key-agreement-nothing-derived: len(keyAgreementSecret) == 0 ==> !called("keyschedule.HkdfExtract") && !called("keyschedule.DeriveSecret")
//@ ensures ikm-is-key-agreement-secret: result1 == nil ==> ncalls("keyschedule.HkdfExtract") == 2 && sameSlice(argBytes("keyschedule.HkdfExtract", 2), keyAgreementSecret)
//@ ensures salt-is-derived-secret: result1 == nil ==> called("keyschedule.DeriveSecret") && retErr("keyschedule.DeriveSecret", 1) == nil
//@    && sameSlice(argBytes("keyschedule.HkdfExtract", 1), retBytes("keyschedule.DeriveSecret", 0))
//@ ensures derived-label: called("keyschedule.DeriveSecret") ==> argAs("keyschedule.DeriveSecret", 2, derivedSecretLabel) == "derived"
//@ ensures result-is-extract: result1 == nil ==> retErr("keyschedule.HkdfExtract", 1) == nil && sameSlice(result0, retBytes("keyschedule.HkdfExtract", 0))
//@ ensures extract-order: called("keyschedule.DeriveSecret") ==> calledBefore("keyschedule.DeriveSecret", "keyschedule.HkdfExtract") || ncalls("keyschedule.HkdfExtract") == 1
//@ end

// C07, DTLS 1.3 application data (RFC 9147 4.1: epoch 0 is unprotected, 1/2 are early/handshake keys; application data
// is sent under the current write epoch): every queued application record is stamped with the connection's current
// *local (write)* epoch before the batch is handed to the record writer, and the batch written is the one stamped.
//@ func postHandshake.writeApplicationData
// (inline and without requires: the caller startPostHandshakeCommand (C20) keeps seeing the body; the nil-safety of
// the queued packets is not claimed here, a stamped packet is one the loop body dereferenced)
//@ inline
//@ watch postHandshakeCommand.Write
//@ loop #1: stamped-so-far: forall(0, idx, func(i int) bool { return command.Packets[i].Record.Header.Epoch == old(p.state.Common.LocalEpoch()) })
//@ loop #1: frame: p.state == old(p.state) && p.state.Common == old(p.state.Common) && p.state.Common.LocalEpoch() == old(p.state.Common.LocalEpoch())
//@ ensures written-once: ncalls("postHandshakeCommand.Write") == 1
//@ ensures written-batch-is-the-stamped-one: sameSlice(argAs("postHandshakeCommand.Write", 1, command.Packets), command.Packets)
//@ ensures stamped-with-write-epoch: atCall("postHandshakeCommand.Write", forall(0, len(command.Packets), func(i int) bool { return command.Packets[i].Record.Header.Epoch == old(p.state.Common.LocalEpoch()) }))
//@ end
