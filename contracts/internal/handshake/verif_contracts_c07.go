//go:build verif

// C07: DTLS 1.3 key schedule inputs (RFC 8446 7.1). The handshake secret, from which every
// handshake/application traffic key and the exporter secret descend, must be extracted from the
// (EC)DHE shared secret; an empty shared secret would make all of them computable from the
// cleartext hellos. Comment-only; read by /verif/vc.
package dtlshandshake

// Handshake Secret = HKDF-Extract(Derive-Secret(Early Secret, "derived", ""), (EC)DHE)
//@ func deriveHandshakeSecret
//@ watch keyschedule.HkdfExtract keyschedule.DeriveSecret
//@ ensures empty-key-agreement-rejected: len(keyAgreementSecret) == 0 ==> result1 != nil && isNil(result0)
//@ ensures empty-key-agreement-nothing-derived: len(keyAgreementSecret) == 0 ==> !called("keyschedule.HkdfExtract") && !called("keyschedule.DeriveSecret")
//@ ensures ikm-is-key-agreement-secret: result1 == nil ==> ncalls("keyschedule.HkdfExtract") == 2 && sameSlice(argBytes("keyschedule.HkdfExtract", 2), keyAgreementSecret)
//@ ensures salt-is-derived-secret: result1 == nil ==> called("keyschedule.DeriveSecret") && retErr("keyschedule.DeriveSecret", 1) == nil
//@    && sameSlice(argBytes("keyschedule.HkdfExtract", 1), retBytes("keyschedule.DeriveSecret", 0))
//@ ensures derived-label: called("keyschedule.DeriveSecret") ==> argAs("keyschedule.DeriveSecret", 2, derivedSecretLabel) == "derived"
//@ ensures result-is-extract: result1 == nil ==> retErr("keyschedule.HkdfExtract", 1) == nil && sameSlice(result0, retBytes("keyschedule.HkdfExtract", 0))
//@ ensures extract-order: called("keyschedule.DeriveSecret") ==> calledBefore("keyschedule.DeriveSecret", "keyschedule.HkdfExtract") || ncalls("keyschedule.HkdfExtract") == 1
//@ end
