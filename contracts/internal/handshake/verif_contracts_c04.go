//go:build verif

// C04 contracts for package dtlshandshake: the DTLS 1.3 Finished check (RFC 8446 4.4.4, RFC 9147 5).
// A handshake completes only if the peer's Finished.verify_data equals, over its whole length,
//
//	HMAC(finished_key(sender's handshake traffic secret), Transcript-Hash(messages so far))
//
// computed by this endpoint over its own transcript. Chain:
//
//	processFinished (C03 file) -> verifyPeerFinished -> VerifyFinishedDataFromTranscript -> verifyFinishedData.
package dtlshandshake

//@ define EXPECTED() retBytes("finishedVerifyData", 0)

// RFC 8446 4.4.4: "Recipients of Finished messages MUST verify that the contents are correct": the
// received verify_data is the whole locally computed MAC, not a prefix of it, and not longer.
//@ func verifyFinishedData
//@ watch finishedVerifyData hmac.Equal
//@ ensures c04-whole-mac-compared: result == nil ==> called("finishedVerifyData") && len(verifyData) == len(EXPECTED())
//@ ensures c04-received-equals-expected: result == nil ==> called("finishedVerifyData") && bytesEq(verifyData, EXPECTED())
//@ ensures c04-mismatch-rejected: called("hmac.Equal") && !retBool("hmac.Equal", 0) ==> result != nil
//@ ensures c04-no-mac-no-success: called("finishedVerifyData") && retErr("finishedVerifyData", 1) != nil ==> result != nil && !called("hmac.Equal")
//@ ensures c04-mac-computed-before-compare: called("hmac.Equal") ==> calledBefore("finishedVerifyData", "hmac.Equal")
//@ ensures c04-inputs-kept: sameSlice(argBytes("finishedVerifyData", 1), baseKey) && sameSlice(argBytes("finishedVerifyData", 2), transcriptHash)
//@ end

// The MAC is checked over the hash of the current transcript of this endpoint, with the caller's base key
// and the received verify_data; no transcript, no success.
//@ func VerifyFinishedDataFromTranscript
//@ watch Transcript.SnapshotHash verifyFinishedData!
//@ ensures c04-no-transcript-refused: transcript == nil ==> result != nil && !called("verifyFinishedData!")
//@ ensures c04-verified: result == nil ==> ncalls("verifyFinishedData!") == 1 && retErr("verifyFinishedData!", 0) == nil
//@ ensures c04-over-current-transcript-hash: called("verifyFinishedData!") ==> ncalls("Transcript.SnapshotHash") == 1 && retErr("Transcript.SnapshotHash", 1) == nil
//@    && argAs("Transcript.SnapshotHash", 0, transcript) == transcript
//@    && sameSlice(argBytes("verifyFinishedData!", 2), retBytes("Transcript.SnapshotHash", 0))
//@ ensures c04-key-and-received-data: called("verifyFinishedData!") ==> sameSlice(argBytes("verifyFinishedData!", 1), baseKey) && sameSlice(argBytes("verifyFinishedData!", 3), verifyData)
//@ ensures c04-hash-failure-refused: called("Transcript.SnapshotHash") && retErr("Transcript.SnapshotHash", 1) != nil ==> result != nil && !called("verifyFinishedData!")
//@ ensures c04-verdict-returned: called("verifyFinishedData!") ==> result == retErr("verifyFinishedData!", 0)
//@ end

// RFC 8446 4.4.4: the base key of the client's Finished is client_handshake_traffic_secret, of the
// server's Finished server_handshake_traffic_secret (isClient: the Finished was sent by the client).
//@ func verifyPeerFinished
//@ watch ServerHandshakeFinishedBaseKey ClientHandshakeFinishedBaseKey VerifyFinishedDataFromTranscript!
//@ ensures c04-verified: result == nil ==> ncalls("VerifyFinishedDataFromTranscript!") == 1 && retErr("VerifyFinishedDataFromTranscript!", 0) == nil
//@ ensures c04-verdict-returned: called("VerifyFinishedDataFromTranscript!") ==> result == retErr("VerifyFinishedDataFromTranscript!", 0)
//@ ensures c04-this-transcript-and-received-data: called("VerifyFinishedDataFromTranscript!") ==> argAs("VerifyFinishedDataFromTranscript!", 2, transcript) == transcript
//@    && sameSlice(argBytes("VerifyFinishedDataFromTranscript!", 3), old(finished.VerifyData))
//@ ensures c04-client-finished-keyed-by-client-secret: called("VerifyFinishedDataFromTranscript!") && isClient ==> called("ClientHandshakeFinishedBaseKey") && retErr("ClientHandshakeFinishedBaseKey", 1) == nil
//@    && sameSlice(argBytes("VerifyFinishedDataFromTranscript!", 1), retBytes("ClientHandshakeFinishedBaseKey", 0))
//@ ensures c04-server-finished-keyed-by-server-secret: called("VerifyFinishedDataFromTranscript!") && !isClient ==> called("ServerHandshakeFinishedBaseKey") && retErr("ServerHandshakeFinishedBaseKey", 1) == nil
//@    && !called("ClientHandshakeFinishedBaseKey") && sameSlice(argBytes("VerifyFinishedDataFromTranscript!", 1), retBytes("ServerHandshakeFinishedBaseKey", 0))
//@ ensures c04-secrets-of-this-connection: (called("ClientHandshakeFinishedBaseKey") ==> argAs("ClientHandshakeFinishedBaseKey", 0, state) == state)
//@    && (called("ServerHandshakeFinishedBaseKey") ==> argAs("ServerHandshakeFinishedBaseKey", 0, state) == state)
//@ ensures c04-no-state-no-success: state == nil || cipherSuite == nil ==> result != nil && !called("VerifyFinishedDataFromTranscript!")
//@ end

// The base keys are the handshake traffic secrets of the key schedule, per side; an absent secret is refused.
//@ func ClientHandshakeFinishedBaseKey
//@ ensures c04-client-secret: result1 == nil ==> state != nil && sameSlice(result0, old(state.KeySchedule.HandshakeTraffic.Client)) && len(result0) != 0
//@ ensures c04-absent-refused: state == nil || len(old(state.KeySchedule.HandshakeTraffic.Client)) == 0 ==> result1 != nil
//@ end

//@ func ServerHandshakeFinishedBaseKey
//@ ensures c04-server-secret: result1 == nil ==> state != nil && sameSlice(result0, old(state.KeySchedule.HandshakeTraffic.Server)) && len(result0) != 0
//@ ensures c04-absent-refused: state == nil || len(old(state.KeySchedule.HandshakeTraffic.Server)) == 0 ==> result1 != nil
//@ end
