//go:build verif

// C20: DTLS 1.3 key updates, post-handshake state machine. Comment-only; read by /verif/vc.
package dtlshandshake

// RFC 8446 7.2: application_traffic_secret_N+1 = HKDF-Expand-Label(application_traffic_secret_N,
// "traffic upd", "", Hash.length). HKDF is opaque; the clause fixes the arguments of the call
// and that its result is what is returned.

//@ func deriveNextApplicationTrafficSecret
//@ watch HkdfExpandLabel hashFunc
//@ ensures derived-by-hkdf: result1 == nil ==> ncalls("HkdfExpandLabel") == 1 && sameSlice(result0, retBytes("HkdfExpandLabel", 0)) && retErr("HkdfExpandLabel", 1) == nil
//@ ensures from-current: result1 == nil ==> sameSlice(argBytes("HkdfExpandLabel", 1), current)
//@ ensures label-traffic-upd: result1 == nil ==> argAs("HkdfExpandLabel", 2, trafficUpdateLabel + string(current)) == "traffic upd"
//@ ensures empty-context: result1 == nil ==> len(argBytes("HkdfExpandLabel", 3)) == 0
//@ ensures hash-length: result1 == nil ==> argInt("HkdfExpandLabel", 4) == len(current)
//@ end

// Next generation = (epoch+1, generation+1, traffic-update successor secret, protection keyed by
// that secret); the 16-bit epoch never wraps.

//@ func postHandshake.nextTrafficGeneration
//@ watch deriveNextApplicationTrafficSecret CipherSuiteTLS13.NewRecordProtection
//@ requires args: p != nil && current != nil
//@ requires state-common: p.state != nil ==> p.state.Common != nil
//@ ensures epoch-overflow: current.Epoch == 65535 ==> result0 == nil && sameRef(result1, dtlserrors.ErrEpochOverflow)
//@ ensures error-no-generation: result1 != nil ==> result0 == nil
//@ ensures epoch-successor: result1 == nil ==> result0 != nil && result0.Epoch == current.Epoch + 1 && result0.Epoch > current.Epoch
//@ ensures generation-successor: result1 == nil ==> result0.Generation == current.Generation + 1
//@ ensures secret-is-successor: result1 == nil ==> ncalls("deriveNextApplicationTrafficSecret") == 1 && retErr("deriveNextApplicationTrafficSecret", 1) == nil
//@    && sameSlice(result0.Secret, retBytes("deriveNextApplicationTrafficSecret", 0))
//@ ensures successor-of-current: result1 == nil ==> sameSlice(argBytes("deriveNextApplicationTrafficSecret", 1), current.Secret)
//@ ensures protection-from-secret: result1 == nil ==> ncalls("CipherSuiteTLS13.NewRecordProtection") == 1 && retErr("CipherSuiteTLS13.NewRecordProtection", 1) == nil
//@    && sameRef(result0.Protection, retAs("CipherSuiteTLS13.NewRecordProtection", 0, result0.Protection)) && sameSlice(argBytes("CipherSuiteTLS13.NewRecordProtection", 1), result0.Secret)
//@ ensures current-unchanged: current.Epoch == old(current.Epoch) && current.Generation == old(current.Generation)
//@ ensures current-secret-unchanged: bytesEq(current.Secret, old(current.Secret))
//@ ensures fresh-object: result1 == nil ==> result0 != current
//@ end

// UpdateKeys reports success only after the peer acknowledged the KeyUpdate AND the pending write
// generation was committed: the flight's completion receives nil only if there was nothing to
// commit or the commit callback returned nil; the commit is attempted at most once, with the
// flight's pending generation; the flight is removed in every case.

//@ define FL(p, id) p.flights[id]

// The completion's signal is a context.CancelFunc: it only wakes the waiter.
//@ assume-pure postHandshakeCompletion.signal

//@ func postHandshakeCompletion.complete
//@ noinline
//@ end

//@ func postHandshake.completePostHandshakeFlight
//@ watch CommitLocalKeyUpdate postHandshakeCompletion.complete
//@ requires args: p != nil
//@ requires conn-impl: typeIs(conn, "github.com/pion/dtls/v3.handshakeConn")
//@ requires flights-real: forallKey(p.flights, func(k postHandshakeFlightID) bool { return allocated(p.flights[k]) })
//@ ensures unknown-flight-ignored: old(FL(p, id)) == nil ==> result == nil && !called("postHandshakeCompletion.complete") && !called("CommitLocalKeyUpdate")
//@ ensures completed-once: old(FL(p, id)) != nil ==> ncalls("postHandshakeCompletion.complete") == 1
//@    && argAs("postHandshakeCompletion.complete", 0, p.flights[id].Completion) == old(FL(p, id).Completion)
//@ ensures completion-gets-result: old(FL(p, id)) != nil ==> sameRef(argErr("postHandshakeCompletion.complete", 1), result)
//@ ensures success-needs-commit: old(FL(p, id)) != nil && isNil(argErr("postHandshakeCompletion.complete", 1))
//@    ==> old(FL(p, id).PendingWrite) == nil || (called("CommitLocalKeyUpdate") && isNil(retErr("CommitLocalKeyUpdate", 0)))
//@ ensures commit-at-most-once: ncalls("CommitLocalKeyUpdate") <= 1
//@ ensures commit-only-pending: called("CommitLocalKeyUpdate") ==> old(FL(p, id)) != nil && old(FL(p, id).PendingWrite) != nil
//@ ensures commit-the-pending: called("CommitLocalKeyUpdate") ==> argAs("CommitLocalKeyUpdate", 1, p.flights[id].PendingWrite) == old(FL(p, id).PendingWrite)
//@ ensures commit-before-completion: called("CommitLocalKeyUpdate") ==> calledBefore("CommitLocalKeyUpdate", "postHandshakeCompletion.complete")
//@ ensures commit-error-propagates: called("CommitLocalKeyUpdate") ==> sameRef(result, retErr("CommitLocalKeyUpdate", 0))
//@ ensures no-commit-no-error: old(FL(p, id)) != nil && old(FL(p, id).PendingWrite) == nil ==> result == nil && !called("CommitLocalKeyUpdate")
//@ ensures flight-removed: !hasKey(p.flights, id)
//@ ensures other-flights-kept: forallKey(p.flights, func(k postHandshakeFlightID) bool { return old(hasKey(p.flights, k)) && p.flights[k] == old(p.flights[k]) })
//@ end

// applyACK reports a flight as completed only when none of its fragments is still pending.
// FLIGHTS(p): every registered flight is a real object stored under its own ID.

//@ define FLIGHTS(p) forallKey(p.flights, func(k postHandshakeFlightID) bool { return allocated(p.flights[k]) && p.flights[k].ID == k })
//@ define FLIGHTS_KEPT(p) (sameRef(p.flights, old(p.flights)) && len(p.flights) == old(len(p.flights)) && forallKey(p.flights, func(k postHandshakeFlightID) bool {
//@    return old(hasKey(p.flights, k)) && p.flights[k] == old(p.flights[k]) && old(allocated(p.flights[k])) && p.flights[k].ID == k }))
//@ define DONE(p, id) (hasKey(p.flights, id) && len(p.flights[id].PendingFragments) == 0)

//@ func postHandshake.applyACK
//@ requires args: p != nil
//@ requires flights: FLIGHTS(p)
//@ ensures only-fully-acked: forall(0, len(result), func(i int) bool { return DONE(p, result[i]) })
//@ ensures flights-kept: sameRef(p.flights, old(p.flights)) && len(p.flights) == old(len(p.flights))
//@    && forallKey(p.flights, func(k postHandshakeFlightID) bool { return old(hasKey(p.flights, k)) && p.flights[k] == old(p.flights[k]) })
//@ ensures pending-only-shrinks: forallKey(p.flights, func(k postHandshakeFlightID) bool { return len(p.flights[k].PendingFragments) <= old(len(p.flights[k].PendingFragments)) })
//@ loop #1: flights-kept: FLIGHTS_KEPT(p)
//@ loop #1: completed-done: completed != nil && forallKey(completed, func(id postHandshakeFlightID) bool { return DONE(p, id) })
//@ loop #1: pending-only-shrinks: forallKey(p.flights, func(k postHandshakeFlightID) bool { return len(p.flights[k].PendingFragments) <= old(len(p.flights[k].PendingFragments)) })
//@ loop #2: flights-kept: FLIGHTS_KEPT(p) && flight != nil
//@ loop #2: completed-done: completed != nil && forallKey(completed, func(id postHandshakeFlightID) bool { return DONE(p, id) })
//@ loop #2: pending-only-shrinks: forallKey(p.flights, func(k postHandshakeFlightID) bool { return len(p.flights[k].PendingFragments) <= old(len(p.flights[k].PendingFragments)) })
// loop 3 appends flight IDs (a struct type) to a local slice: the engine havocs the ID field heaps of
// all objects there (engine limit), so "stored under its own ID" is not carried through this loop.
//@ loop #3: flights-map-kept: sameRef(p.flights, old(p.flights)) && len(p.flights) == old(len(p.flights))
//@ loop #3: flights-objects-kept: forallKey(p.flights, func(k postHandshakeFlightID) bool { return old(hasKey(p.flights, k)) && p.flights[k] == old(p.flights[k]) && old(allocated(p.flights[k])) })
//@ loop #3: pending-only-shrinks: forallKey(p.flights, func(k postHandshakeFlightID) bool { return len(p.flights[k].PendingFragments) <= old(len(p.flights[k].PendingFragments)) })
//@ loop #3: out-done: forall(0, len(out), func(i int) bool { return DONE(p, out[i]) })
//@ loop #3: completed-done: forallKey(completed, func(id postHandshakeFlightID) bool { return DONE(p, id) })
//@ end

// A peer KeyUpdate is honoured only when it arrived under the current read epoch, which is also
// the authorised remote epoch; then exactly one new read generation (the successor of the current
// one) is installed - the write direction is untouched, the previous read generation is retained by
// Install - and the authorised remote epoch advances by one. Queued records are only released
// afterwards. Anything else changes neither keys nor epoch.

// TGW() is only a type witness (*dtlsstate.TrafficGeneration) for argAs/retAs; it is never evaluated.
//@ define TGW() p.flights[postHandshakeFlightID{}].PendingWrite
//@ define CUR() argAs("postHandshake.nextTrafficGeneration", 1, TGW())
//@ define NEXT() retAs("postHandshake.nextTrafficGeneration", 0, TGW())

//@ func postHandshake.handleKeyUpdate
//@ watch TrafficKeyState.Install Common.SetRemoteEpoch postHandshake.nextTrafficGeneration Notify HandleQueuedPackets TrafficKeyState.CurrentRead postHandshake.queueRequiredKeyUpdateResponse
//@ requires args: p != nil && p.state != nil && p.state.Common != nil && message != nil
//@ requires conn-impl: typeIs(conn, "github.com/pion/dtls/v3.handshakeConn")
//@ requires suite-payload: isNil(p.state.Common.CipherSuite) || nonNilPayload(p.state.Common.CipherSuite)
//@ ensures no-keys-no-update: old(p.state.TrafficKeys) == nil ==> result != nil && !called("TrafficKeyState.Install") && !called("Common.SetRemoteEpoch")
//@ ensures install-needs-authorised-epoch: called("TrafficKeyState.Install") ==> old(p.state.Common.RemoteEpoch()) == epoch
//@ ensures install-needs-current-epoch: called("TrafficKeyState.Install") ==> called("postHandshake.nextTrafficGeneration")
//@    && CUR() == retAs("TrafficKeyState.CurrentRead", 0, TGW()) && retBool("TrafficKeyState.CurrentRead", 1) && old(CUR().Epoch) == epoch
//@ ensures wrong-epoch-alert: old(p.state.TrafficKeys) != nil && called("TrafficKeyState.CurrentRead") && retBool("TrafficKeyState.CurrentRead", 1)
//@    && old(p.state.Common.RemoteEpoch()) != epoch && !isNil(old(retAs("TrafficKeyState.CurrentRead", 0, TGW()).Protection))
//@    ==> called("Notify") && !called("TrafficKeyState.Install") && !called("Common.SetRemoteEpoch")
//@ ensures derive-once: ncalls("postHandshake.nextTrafficGeneration") <= 1
//@ ensures install-once-before-release: !called("HandleQueuedPackets") ==> ncalls("TrafficKeyState.Install") <= 1 && ncalls("Common.SetRemoteEpoch") <= 1
//@ ensures install-read-only: called("TrafficKeyState.Install") ==> argAs("TrafficKeyState.Install", 1, TGW()) == nil
//@    && argAs("TrafficKeyState.Install", 2, TGW()) == NEXT() && NEXT() != nil
//@    && argAs("TrafficKeyState.Install", 0, p.state.TrafficKeys) == old(p.state.TrafficKeys)
//@ ensures derivation-error-no-install: called("postHandshake.nextTrafficGeneration") && retErr("postHandshake.nextTrafficGeneration", 1) != nil
//@    ==> !called("TrafficKeyState.Install") && !called("Common.SetRemoteEpoch") && sameRef(result, retErr("postHandshake.nextTrafficGeneration", 1))
// Composition (not a single clause): the generation handed to Install is the result of
// nextTrafficGeneration(current) (clause install-read-only), whose own contract gives epoch+1 /
// generation+1 / successor secret; current is the CurrentRead generation whose epoch equals both the
// record's epoch and the authorised remote epoch (install-needs-*). Neither next.Epoch nor the
// argument of SetRemoteEpoch can be stated at the final return: HandleQueuedPackets is opaque with
// write set "*" and may itself call SetRemoteEpoch (ChangeCipherSpec handling in conn.go); only the
// last call of a name is observable (engine limit, reported).
//@ ensures authorise-only-after-install: called("Common.SetRemoteEpoch") && !called("TrafficKeyState.Install") ==> called("HandleQueuedPackets") || called("Notify")
//@ ensures install-then-authorise: called("TrafficKeyState.Install") ==> calledBefore("TrafficKeyState.Install", "Common.SetRemoteEpoch")
//@ ensures release-queued-after: called("HandleQueuedPackets") ==> calledBefore("Common.SetRemoteEpoch", "HandleQueuedPackets") && sameRef(result, retErr("HandleQueuedPackets", 0))
//@ ensures response-queued-first: called("TrafficKeyState.Install") ==> calledBefore("postHandshake.queueRequiredKeyUpdateResponse", "TrafficKeyState.Install")
//@    && argAs("postHandshake.queueRequiredKeyUpdateResponse", 1, message.RequestUpdate) == old(message.RequestUpdate)
//@ end

//@ func postHandshake.queueRequiredKeyUpdateResponse
//@ noinline
//@ end

// UpdateKeys reports success only after the peer acknowledged the update: the only place that may hand nil to a
// completion of a reliable command is completePostHandshakeFlight (above, after applyACK reported the flight as fully
// acknowledged). Starting a queued command (first transmission) never completes it, except with the error that
// stopped it (or the cancellation error of a command that was withdrawn before it started).

// ASSUMPTION (reported): the write callback of an application-data command (in the library always the closure of
// fsm13.WriteApplicationData, which only calls conn.WritePackets) writes sequence numbers, byte buffers, flight
// packets and protocol messages - not the post-handshake bookkeeping, the state object's identity or the suite.
//@ assume-pure postHandshakeCommand.Write writes github.com/pion/dtls/v3/internal/state.Common$LocalSequenceNumber uint64 []uint64 uint8 []uint8 github.com/pion/dtls/v3/internal/flight. github.com/pion/dtls/v3/pkg/ $alloc

// (engine-level typing fact: the negotiated suite is never an interface holding a nil pointer)
//@ define SUITE_OK(p) (p.state.Common != nil ==> isNil(p.state.Common.CipherSuite) || nonNilPayload(p.state.Common.CipherSuite))
//@ define CERR() argErr("postHandshakeCompletion.complete!", 1)
//@ define WITHDRAWN() (retBool("canceledPostHandshakeCommand", 1) && sameRef(CERR(), retErr("canceledPostHandshakeCommand", 0)))
//@ define STARTFAILED() (called("postHandshake.startPostHandshakeCommand") && sameRef(CERR(), retErr("postHandshake.startPostHandshakeCommand", 0)))

//@ func canceledPostHandshakeCommand
//@ ensures canceled-is-an-error: result1 ==> !isNil(result0)
//@ ensures not-canceled-no-error: !result1 ==> isNil(result0)
//@ end

// Dispatch: a KeyUpdate command is only handed to startKeyUpdate; the only command kind whose start may complete
// it is application data (writeApplicationData reports the write result, no acknowledgement is involved).
//@ func postHandshake.startPostHandshakeCommand
//@ watch postHandshakeCompletion.complete! postHandshake.startKeyUpdate postHandshake.startNewSessionTicket postHandshake.writeApplicationData
//@ requires args: p != nil && p.state != nil
//@ requires conn-impl: typeIs(conn, "github.com/pion/dtls/v3.handshakeConn")
//@ requires suite-payload: SUITE_OK(p)
//@ ensures key-update-goes-to-startKeyUpdate: command.Kind == commandSendKeyUpdate ==> ncalls("postHandshake.startKeyUpdate") == 1
//@    && sameRef(result, retErr("postHandshake.startKeyUpdate", 0)) && !called("postHandshake.writeApplicationData") && !called("postHandshake.startNewSessionTicket")
//@ ensures key-update-command-passed-on: called("postHandshake.startKeyUpdate") ==> command.Kind == commandSendKeyUpdate
//@    && argAs("postHandshake.startKeyUpdate", 3, command).Completion == command.Completion
//@    && argAs("postHandshake.startKeyUpdate", 3, command).KeyUpdate.Request == command.KeyUpdate.Request
//@ ensures only-application-data-completes-at-start: called("postHandshake.writeApplicationData") ==> command.Kind == commandSendApplicationData
//@ ensures no-own-completion: !called("postHandshakeCompletion.complete!")
//@ ensures frame: p.state == old(p.state)
//@ ensures frame-suite: SUITE_OK(p)
//@ ensures unknown-kind-fails: command.Kind > commandSendApplicationData ==> result != nil
//@ ensures unimplemented-kinds-fail: command.Kind == commandSendNewConnectionID || command.Kind == commandSendRequestConnectionID ==> sameRef(result, dtlserrors.ErrNotImplemented)
//@ end

//@ func postHandshake.startNewSessionTicket
//@ noinline
//@ end

// First transmission of a KeyUpdate: the flight is registered with the caller's completion and the successor
// write generation as *pending*; nothing is completed and no key is switched here.
//@ define KUF() retAs("postHandshake.buildKeyUpdateFlight", 0, p.flights[postHandshakeFlightID{}])

//@ func postHandshake.startKeyUpdate
//@ watch postHandshakeCompletion.complete Conn.WritePackets postHandshake.buildKeyUpdateFlight postHandshake.nextTrafficGeneration TrafficKeyState.CurrentWrite CommitLocalKeyUpdate TrafficKeyState.Install
//@ requires args: p != nil && p.state != nil
//@ requires conn-impl: typeIs(conn, "github.com/pion/dtls/v3.handshakeConn")
//@ requires suite-payload: SUITE_OK(p)
//@ ensures transmission-does-not-complete: !called("postHandshakeCompletion.complete")
//@ ensures keys-not-switched-at-send: !called("CommitLocalKeyUpdate") && !called("TrafficKeyState.Install")
//@ ensures sends-at-most-once: ncalls("Conn.WritePackets") <= 1
//@ ensures success-sent: result == nil ==> ncalls("Conn.WritePackets") == 1 && isNil(retErr("Conn.WritePackets", 1))
//@ ensures success-registers-flight: result == nil ==> KUF() != nil && p.flights[KUF().ID] == KUF()
//@ ensures flight-carries-completion: result == nil ==> KUF().Completion == command.Completion
//@ ensures flight-carries-next-write-generation: result == nil ==> KUF().PendingWrite != nil
//@    && KUF().PendingWrite == retAs("postHandshake.nextTrafficGeneration", 0, TGW())
//@    && argAs("postHandshake.nextTrafficGeneration", 1, TGW()) == retAs("TrafficKeyState.CurrentWrite", 0, TGW())
//@ ensures failure-registers-nothing: result != nil ==> len(p.flights) == old(len(p.flights))
//@ end

//@ func postHandshake.startQueuedPostHandshake
//@ watch postHandshakeCompletion.complete! postHandshake.startPostHandshakeCommand canceledPostHandshakeCommand
//@ requires args: p != nil && p.state != nil
//@ requires conn-impl: typeIs(conn, "github.com/pion/dtls/v3.handshakeConn")
//@ requires suite-payload: SUITE_OK(p)
//@ ensures start-never-reports-success: always("postHandshakeCompletion.complete!", "!isNil(CERR())")
//@ ensures completes-only-failed-or-withdrawn: always("postHandshakeCompletion.complete!", "WITHDRAWN() || STARTFAILED()")
//@ ensures start-error-stops: result != nil ==> sameRef(result, retErr("postHandshake.startPostHandshakeCommand", 0))
//@ ensures start-error-reported: result != nil ==> called("postHandshakeCompletion.complete!") && sameRef(CERR(), result)
//@ loop #1: frame: p.state == old(p.state)
//@ loop #1: frame-suite: SUITE_OK(p)
//@ loop #1: start-never-reports-success: always("postHandshakeCompletion.complete!", "!isNil(CERR())")
//@ loop #1: completes-only-failed-or-withdrawn: always("postHandshakeCompletion.complete!", "WITHDRAWN() || STARTFAILED()")
//@ loop #1: started-ok: called("postHandshake.startPostHandshakeCommand") ==> isNil(retErr("postHandshake.startPostHandshakeCommand", 0))
//@ end
