//go:build verif

// C20: DTLS 1.3 key updates, post-handshake state machine. Comment-only; read by /verif/vc.
package dtlshandshake

// RFC 8446 7.2: application_traffic_secret_N+1 = HKDF-Expand-Label(application_traffic_secret_N,
// "traffic upd", "", Hash.length). HKDF is opaque; the clause fixes the arguments of the call
// and that its result is what is returned.

//@ func deriveNextApplicationTrafficSecret
//@ watch HkdfExpandLabel hashFunc
//@ ensures derived-by-hkdf: result1 == nil ==> ncalls("HkdfExpandLabel") == 1 && sameSlice(result0, retBytes("HkdfExpandLabel", 0)) && retErr("HkdfExpandLabel", 1) == nil
//@ ensures from-current: result1 == nil ==> sameSlice(argBytes("HkdfExpandLabel", 1), current)
//@ ensures label-traffic-upd: result1 == nil ==> argAs("HkdfExpandLabel", 2, trafficUpdateLabel + string(current)) == "traffic upd"
//@ ensures empty-context: result1 == nil ==> len(argBytes("HkdfExpandLabel", 3)) == 0
//@ ensures hash-length: result1 == nil ==> argInt("HkdfExpandLabel", 4) == len(current)
//@ end

// The derivation is used by contract (non-ghost part: an error carries no secret).
//@ func deriveNextApplicationTrafficSecret
//@ ensures no-secret-on-error: result1 != nil ==> isNil(result0)
//@ end

// Next generation = (epoch+1, generation+1, traffic-update successor secret, protection keyed by
// that secret); the 16-bit epoch never wraps.

//@ func postHandshake.nextTrafficGeneration
//@ watch deriveNextApplicationTrafficSecret NewRecordProtection
//@ requires args: p != nil && current != nil
//@ requires suite-payload: p.state != nil && p.state.Common != nil ==> isNil(p.state.Common.CipherSuite) || nonNilPayload(p.state.Common.CipherSuite)
//@ requires state-common: p.state != nil ==> p.state.Common != nil
//@ ensures epoch-overflow: current.Epoch == 65535 ==> result0 == nil && sameRef(result1, dtlserrors.ErrEpochOverflow)
//@ ensures error-no-generation: result1 != nil ==> result0 == nil
//@ ensures epoch-successor: result1 == nil ==> result0 != nil && result0.Epoch == current.Epoch + 1 && result0.Epoch > current.Epoch
//@ ensures generation-successor: result1 == nil ==> result0.Generation == current.Generation + 1
//@ ensures secret-is-successor: result1 == nil ==> ncalls("deriveNextApplicationTrafficSecret") == 1 && retErr("deriveNextApplicationTrafficSecret", 1) == nil
//@    && sameSlice(result0.Secret, retBytes("deriveNextApplicationTrafficSecret", 0))
//@ ensures successor-of-current: result1 == nil ==> sameSlice(argBytes("deriveNextApplicationTrafficSecret", 1), current.Secret)
//@ ensures protection-from-secret: result1 == nil ==> ncalls("NewRecordProtection") == 1 && retErr("NewRecordProtection", 1) == nil
//@    && sameRef(result0.Protection, retAs("NewRecordProtection", 0, result0.Protection)) && sameSlice(argBytes("NewRecordProtection", 1), result0.Secret)
//@ ensures current-unchanged: current.Epoch == old(current.Epoch) && current.Generation == old(current.Generation)
//@ ensures current-secret-unchanged: bytesEq(current.Secret, old(current.Secret))
//@ ensures dbg-secret-hdr: sameSlice(current.Secret, old(current.Secret))
//@ ensures fresh-object: result1 == nil ==> result0 != current
//@ end

// UpdateKeys reports success only after the peer acknowledged the KeyUpdate AND the pending write
// generation was committed: the flight's completion receives nil only if there was nothing to
// commit or the commit callback returned nil; the commit is attempted at most once, with the
// flight's pending generation; the flight is removed in every case.

//@ define FL(p, id) p.flights[id]

// The completion's signal is a context.CancelFunc: it only wakes the waiter.
//@ assume-pure postHandshakeCompletion.signal

//@ func postHandshakeCompletion.complete
//@ noinline
//@ end

//@ func postHandshake.completePostHandshakeFlight
//@ watch CommitLocalKeyUpdate postHandshakeCompletion.complete
//@ requires args: p != nil
//@ requires conn-impl: typeIs(conn, "github.com/pion/dtls/v3.handshakeConn")
//@ requires flights-real: forallKey(p.flights, func(k postHandshakeFlightID) bool { return allocated(p.flights[k]) })
//@ ensures unknown-flight-ignored: old(FL(p, id)) == nil ==> result == nil && !called("postHandshakeCompletion.complete") && !called("CommitLocalKeyUpdate")
//@ ensures completed-once: old(FL(p, id)) != nil ==> ncalls("postHandshakeCompletion.complete") == 1
//@    && argAs("postHandshakeCompletion.complete", 0, p.flights[id].Completion) == old(FL(p, id).Completion)
//@ ensures completion-gets-result: old(FL(p, id)) != nil ==> sameRef(argErr("postHandshakeCompletion.complete", 1), result)
//@ ensures success-needs-commit: old(FL(p, id)) != nil && isNil(argErr("postHandshakeCompletion.complete", 1))
//@    ==> old(FL(p, id).PendingWrite) == nil || (called("CommitLocalKeyUpdate") && isNil(retErr("CommitLocalKeyUpdate", 0)))
//@ ensures commit-at-most-once: ncalls("CommitLocalKeyUpdate") <= 1
//@ ensures commit-only-pending: called("CommitLocalKeyUpdate") ==> old(FL(p, id)) != nil && old(FL(p, id).PendingWrite) != nil
//@ ensures commit-the-pending: called("CommitLocalKeyUpdate") ==> argAs("CommitLocalKeyUpdate", 1, p.flights[id].PendingWrite) == old(FL(p, id).PendingWrite)
//@ ensures commit-before-completion: called("CommitLocalKeyUpdate") ==> calledBefore("CommitLocalKeyUpdate", "postHandshakeCompletion.complete")
//@ ensures commit-error-propagates: called("CommitLocalKeyUpdate") ==> sameRef(result, retErr("CommitLocalKeyUpdate", 0))
//@ ensures no-commit-no-error: old(FL(p, id)) != nil && old(FL(p, id).PendingWrite) == nil ==> result == nil && !called("CommitLocalKeyUpdate")
//@ ensures flight-removed: !hasKey(p.flights, id)
//@ ensures other-flights-kept: forallKey(p.flights, func(k postHandshakeFlightID) bool { return old(hasKey(p.flights, k)) && p.flights[k] == old(p.flights[k]) })
//@ end

// applyACK reports a flight as completed only when none of its fragments is still pending.
// FLIGHTS(p): every registered flight is a real object stored under its own ID.

//@ define FLIGHTS(p) forallKey(p.flights, func(k postHandshakeFlightID) bool { return allocated(p.flights[k]) && p.flights[k].ID == k })
//@ define DONE(p, id) (hasKey(p.flights, id) && len(p.flights[id].PendingFragments) == 0)

//@ func postHandshake.applyACK
//@ requires args: p != nil
//@ requires flights: FLIGHTS(p)
//@ ensures only-fully-acked: forall(0, len(result), func(i int) bool { return DONE(p, result[i]) })
//@ ensures flights-kept: sameRef(p.flights, old(p.flights)) && len(p.flights) == old(len(p.flights)) && FLIGHTS(p)
//@ ensures pending-only-shrinks: forallKey(p.flights, func(k postHandshakeFlightID) bool { return len(p.flights[k].PendingFragments) <= old(len(p.flights[k].PendingFragments)) })
//@ loop #1: flights-kept: sameRef(p.flights, old(p.flights)) && len(p.flights) == old(len(p.flights)) && FLIGHTS(p)
//@ loop #1: completed-done: completed != nil && forallKey(completed, func(id postHandshakeFlightID) bool { return DONE(p, id) })
//@ loop #1: pending-only-shrinks: forallKey(p.flights, func(k postHandshakeFlightID) bool { return len(p.flights[k].PendingFragments) <= old(len(p.flights[k].PendingFragments)) })
//@ loop #2: flights-kept: sameRef(p.flights, old(p.flights)) && len(p.flights) == old(len(p.flights)) && FLIGHTS(p) && flight != nil
//@ loop #2: completed-done: completed != nil && forallKey(completed, func(id postHandshakeFlightID) bool { return DONE(p, id) })
//@ loop #2: pending-only-shrinks: forallKey(p.flights, func(k postHandshakeFlightID) bool { return len(p.flights[k].PendingFragments) <= old(len(p.flights[k].PendingFragments)) })
//@ loop #3: out-done: forall(0, len(out), func(i int) bool { return DONE(p, out[i]) })
//@ loop #3: completed-done: forallKey(completed, func(id postHandshakeFlightID) bool { return DONE(p, id) })
//@ end
