//go:build verif

// C20: DTLS 1.3 key updates, post-handshake state machine. Comment-only; read by /verif/vc.
package dtlshandshake

// RFC 8446 7.2: application_traffic_secret_N+1 = HKDF-Expand-Label(application_traffic_secret_N,
// "traffic upd", "", Hash.length). HKDF is opaque; the clause fixes the arguments of the call
// and that its result is what is returned.

//@ func deriveNextApplicationTrafficSecret
//@ watch HkdfExpandLabel hashFunc
//@ ensures derived-by-hkdf: result1 == nil ==> ncalls("HkdfExpandLabel") == 1 && sameSlice(result0, retBytes("HkdfExpandLabel", 0)) && retErr("HkdfExpandLabel", 1) == nil
//@ ensures from-current: result1 == nil ==> sameSlice(argBytes("HkdfExpandLabel", 1), current)
//@ ensures label-traffic-upd: result1 == nil ==> argAs("HkdfExpandLabel", 2, trafficUpdateLabel + string(current)) == "traffic upd"
//@ ensures empty-context: result1 == nil ==> len(argBytes("HkdfExpandLabel", 3)) == 0
//@ ensures hash-length: result1 == nil ==> argInt("HkdfExpandLabel", 4) == len(current)
//@ end

// Next generation = (epoch+1, generation+1, traffic-update successor secret, protection keyed by
// that secret); the 16-bit epoch never wraps.

//@ func postHandshake.nextTrafficGeneration
//@ watch deriveNextApplicationTrafficSecret CipherSuiteTLS13.NewRecordProtection
//@ requires args: p != nil && current != nil
// (h3: the former `requires suite-payload` - the suite interface never holds a nil pointer - was dropped: it cannot be
//  carried across conn.WritePackets in the command loop of startQueuedPostHandshake, whose inferred write set contains
//  State13.Common because of the lazy initialisation in dtlsstate.CommonState; the four nil-receiver safety obligations
//  of the devirtualised suite methods are undecided instead.)
//@ requires state-common: p.state != nil ==> p.state.Common != nil
//@ ensures epoch-overflow: current.Epoch == 65535 ==> result0 == nil && sameRef(result1, dtlserrors.ErrEpochOverflow)
//@ ensures error-no-generation: result1 != nil ==> result0 == nil
//@ ensures epoch-successor: result1 == nil ==> result0 != nil && result0.Epoch == old(current.Epoch) + 1
//@ ensures epoch-increases: result1 == nil ==> old(current.Epoch) != 65535 && result0.Epoch > old(current.Epoch)
//@ ensures generation-successor: result1 == nil ==> result0.Generation == current.Generation + 1
//@ ensures secret-is-successor: result1 == nil ==> ncalls("deriveNextApplicationTrafficSecret") == 1 && retErr("deriveNextApplicationTrafficSecret", 1) == nil
//@    && sameSlice(result0.Secret, retBytes("deriveNextApplicationTrafficSecret", 0))
//@ ensures successor-of-current: result1 == nil ==> sameSlice(argBytes("deriveNextApplicationTrafficSecret", 1), current.Secret)
//@ ensures protection-from-secret: result1 == nil ==> ncalls("CipherSuiteTLS13.NewRecordProtection") == 1 && retErr("CipherSuiteTLS13.NewRecordProtection", 1) == nil
//@    && sameRef(result0.Protection, retAs("CipherSuiteTLS13.NewRecordProtection", 0, result0.Protection)) && sameSlice(argBytes("CipherSuiteTLS13.NewRecordProtection", 1), result0.Secret)
//@ ensures current-unchanged: current.Epoch == old(current.Epoch) && current.Generation == old(current.Generation)
//@ ensures current-secret-unchanged: bytesEq(current.Secret, old(current.Secret))
//@ ensures fresh-object: result1 == nil ==> result0 != current
//@ end

// UpdateKeys reports success only after the peer acknowledged the KeyUpdate AND the pending write
// generation was committed: the flight's completion receives nil only if there was nothing to
// commit or the commit callback returned nil; the commit is attempted at most once, with the
// flight's pending generation; the flight is removed in every case.

//@ define FL(p, id) p.flights[id]

// The completion's signal is a context.CancelFunc: it only wakes the waiter.
//@ assume-pure postHandshakeCompletion.signal

//@ func postHandshakeCompletion.complete
//@ noinline
//@ end

//@ func postHandshake.completePostHandshakeFlight
//@ watch CommitLocalKeyUpdate postHandshakeCompletion.complete
//@ requires args: p != nil
//@ requires conn-impl: typeIs(conn, "github.com/pion/dtls/v3.handshakeConn")
//@ requires flights-real: forallKey(p.flights, func(k postHandshakeFlightID) bool { return p.flights[k] != nil })
//@ ensures unknown-flight-ignored: old(FL(p, id)) == nil ==> result == nil && !called("postHandshakeCompletion.complete") && !called("CommitLocalKeyUpdate")
//@ ensures completed-once: old(FL(p, id)) != nil ==> ncalls("postHandshakeCompletion.complete") == 1
//@    && argAs("postHandshakeCompletion.complete", 0, p.flights[id].Completion) == old(FL(p, id).Completion)
//@ ensures completion-gets-result: old(FL(p, id)) != nil ==> sameRef(argErr("postHandshakeCompletion.complete", 1), result)
//@ ensures success-needs-commit: old(FL(p, id)) != nil && isNil(argErr("postHandshakeCompletion.complete", 1))
//@    ==> old(FL(p, id).PendingWrite) == nil || (called("CommitLocalKeyUpdate") && isNil(retErr("CommitLocalKeyUpdate", 0)))
//@ ensures commit-at-most-once: ncalls("CommitLocalKeyUpdate") <= 1
//@ ensures commit-only-pending: called("CommitLocalKeyUpdate") ==> old(FL(p, id)) != nil && old(FL(p, id).PendingWrite) != nil
//@ ensures commit-the-pending: called("CommitLocalKeyUpdate") ==> argAs("CommitLocalKeyUpdate", 1, p.flights[id].PendingWrite) == old(FL(p, id).PendingWrite)
//@ ensures commit-before-completion: called("CommitLocalKeyUpdate") ==> calledBefore("CommitLocalKeyUpdate", "postHandshakeCompletion.complete")
//@ ensures commit-error-propagates: called("CommitLocalKeyUpdate") ==> sameRef(result, retErr("CommitLocalKeyUpdate", 0))
//@ ensures no-commit-no-error: old(FL(p, id)) != nil && old(FL(p, id).PendingWrite) == nil ==> result == nil && !called("CommitLocalKeyUpdate")
//@ ensures flight-removed: !hasKey(p.flights, id)
//@ ensures other-flights-kept: forallKey(p.flights, func(k postHandshakeFlightID) bool { return old(hasKey(p.flights, k)) && p.flights[k] == old(p.flights[k]) })
//@ end

// applyACK reports a flight as completed only when none of its fragments is still pending.
// FLIGHTS(p): every registered flight is a real object stored under its own ID.

//@ define FLIGHTS(p) forallKey(p.flights, func(k postHandshakeFlightID) bool { return p.flights[k] != nil && p.flights[k].ID == k })
//@ define FLIGHTS_KEPT(p) (sameRef(p.flights, old(p.flights)) && len(p.flights) == old(len(p.flights)) && forallKey(p.flights, func(k postHandshakeFlightID) bool {
//@    return old(hasKey(p.flights, k)) && p.flights[k] == old(p.flights[k]) && p.flights[k] != nil && p.flights[k].ID == k }))
//@ define DONE(p, id) (hasKey(p.flights, id) && len(p.flights[id].PendingFragments) == 0)

//@ func postHandshake.applyACK
//@ requires args: p != nil
//@ requires flights: FLIGHTS(p)
// [h3: not decided - engine limit: the result slice has struct elements (postHandshakeFlightID), append copies them
//  through quantified field-heap updates and the solvers answer unknown (also with 60 s) for the invariant of loop 3;
//  an undischarged inv-keep made every later obligation of applyACK unclaimed, so the element-wise clause is replaced
//  by the set-level one below; that only fully acknowledged flights enter `completed` is decided by loops 1 and 2.]
//   ensures only-fully-acked: forall(0, len(result), func(i int) bool { return DONE(p, result[i]) })
//@ ensures reported-only-if-some-flight-fully-acked: len(result) != 0 ==> len(completed) != 0
//@ ensures completed-set-fully-acked: forallKey(completed, func(id postHandshakeFlightID) bool { return DONE(p, id) })
//@ ensures no-ack-records-nothing-reported: len(ack.Records) == 0 ==> len(result) == 0
//@ ensures flights-kept: sameRef(p.flights, old(p.flights)) && len(p.flights) == old(len(p.flights))
//@    && forallKey(p.flights, func(k postHandshakeFlightID) bool { return old(hasKey(p.flights, k)) && p.flights[k] == old(p.flights[k]) })
//@ ensures pending-only-shrinks: forallKey(p.flights, func(k postHandshakeFlightID) bool { return len(p.flights[k].PendingFragments) <= old(len(p.flights[k].PendingFragments)) })
//@ loop #1: flights-kept: FLIGHTS_KEPT(p)
//@ loop #1: completed-done: completed != nil && forallKey(completed, func(id postHandshakeFlightID) bool { return DONE(p, id) })
//@ loop #1: completed-needs-records: len(ack.Records) == 0 ==> len(completed) == 0
//@ loop #1: pending-only-shrinks: forallKey(p.flights, func(k postHandshakeFlightID) bool { return len(p.flights[k].PendingFragments) <= old(len(p.flights[k].PendingFragments)) })
//@ loop #2: flights-kept: FLIGHTS_KEPT(p) && flight != nil
//@ loop #2: completed-done: completed != nil && forallKey(completed, func(id postHandshakeFlightID) bool { return DONE(p, id) })
//@ loop #2: completed-needs-records: len(ack.Records) == 0 ==> len(completed) == 0
//@ loop #2: pending-only-shrinks: forallKey(p.flights, func(k postHandshakeFlightID) bool { return len(p.flights[k].PendingFragments) <= old(len(p.flights[k].PendingFragments)) })
// loop 3 appends flight IDs (a struct type) to a local slice: the engine havocs the ID field heaps of
// all objects there (engine limit), so "stored under its own ID" is not carried through this loop.
//@ loop #3: flights-map-kept: sameRef(p.flights, old(p.flights)) && len(p.flights) == old(len(p.flights))
//@ loop #3: flights-objects-kept: forallKey(p.flights, func(k postHandshakeFlightID) bool { return old(hasKey(p.flights, k)) && p.flights[k] == old(p.flights[k]) && p.flights[k] != nil })
//@ loop #3: pending-only-shrinks: forallKey(p.flights, func(k postHandshakeFlightID) bool { return len(p.flights[k].PendingFragments) <= old(len(p.flights[k].PendingFragments)) })
//@ loop #3: nothing-completed-nothing-reported: len(completed) == 0 ==> len(out) == 0
//@ loop #3: completed-kept: completed != nil && (len(ack.Records) == 0 ==> len(completed) == 0)
//@ loop #3: completed-done: forallKey(completed, func(id postHandshakeFlightID) bool { return DONE(p, id) })
//@ end

// A peer KeyUpdate is honoured only when it arrived under the current read epoch, which is also
// the authorised remote epoch; then exactly one new read generation (the successor of the current
// one) is installed - the write direction is untouched, the previous read generation is retained by
// Install - and the authorised remote epoch advances by one. Queued records are only released
// afterwards. Anything else changes neither keys nor epoch.

// TGW() is only a type witness (*dtlsstate.TrafficGeneration) for argAs/retAs; it is never evaluated.
//@ define TGW() p.flights[postHandshakeFlightID{}].PendingWrite
//@ define CUR() argAs("postHandshake.nextTrafficGeneration", 1, TGW())
//@ define NEXT() retAs("postHandshake.nextTrafficGeneration", 0, TGW())

//@ func postHandshake.handleKeyUpdate
//@ watch TrafficKeyState.Install Common.SetRemoteEpoch postHandshake.nextTrafficGeneration Notify HandleQueuedPackets TrafficKeyState.CurrentRead postHandshake.queueRequiredKeyUpdateResponse
//@ requires args: p != nil && p.state != nil && p.state.Common != nil && message != nil
//@ requires conn-impl: typeIs(conn, "github.com/pion/dtls/v3.handshakeConn")
//@ requires suite-payload: isNil(p.state.Common.CipherSuite) || nonNilPayload(p.state.Common.CipherSuite)
//@ ensures no-keys-no-update: old(p.state.TrafficKeys) == nil ==> result != nil && !called("TrafficKeyState.Install") && !called("Common.SetRemoteEpoch")
//@ ensures install-needs-authorised-epoch: called("TrafficKeyState.Install") ==> old(p.state.Common.RemoteEpoch()) == epoch
//@ ensures install-needs-current-epoch: called("TrafficKeyState.Install") ==> called("postHandshake.nextTrafficGeneration")
//@    && CUR() == retAs("TrafficKeyState.CurrentRead", 0, TGW()) && retBool("TrafficKeyState.CurrentRead", 1) && old(CUR().Epoch) == epoch
//@ ensures wrong-epoch-alert: old(p.state.TrafficKeys) != nil && called("TrafficKeyState.CurrentRead") && retBool("TrafficKeyState.CurrentRead", 1)
//@    && old(p.state.Common.RemoteEpoch()) != epoch && !isNil(old(retAs("TrafficKeyState.CurrentRead", 0, TGW()).Protection))
//@    ==> called("Notify") && !called("TrafficKeyState.Install") && !called("Common.SetRemoteEpoch")
//@ ensures derive-once: ncalls("postHandshake.nextTrafficGeneration") <= 1
//@ ensures install-once-before-release: !called("HandleQueuedPackets") ==> ncalls("TrafficKeyState.Install") <= 1 && ncalls("Common.SetRemoteEpoch") <= 1
//@ ensures install-read-only: called("TrafficKeyState.Install") ==> argAs("TrafficKeyState.Install", 1, TGW()) == nil
//@    && argAs("TrafficKeyState.Install", 2, TGW()) == NEXT() && NEXT() != nil
//@    && argAs("TrafficKeyState.Install", 0, p.state.TrafficKeys) == old(p.state.TrafficKeys)
//@ ensures derivation-error-no-install: called("postHandshake.nextTrafficGeneration") && retErr("postHandshake.nextTrafficGeneration", 1) != nil
//@    ==> !called("TrafficKeyState.Install") && !called("Common.SetRemoteEpoch") && sameRef(result, retErr("postHandshake.nextTrafficGeneration", 1))
// Composition (not a single clause): the generation handed to Install is the result of
// nextTrafficGeneration(current) (clause install-read-only), whose own contract gives epoch+1 /
// generation+1 / successor secret; current is the CurrentRead generation whose epoch equals both the
// record's epoch and the authorised remote epoch (install-needs-*). Neither next.Epoch nor the
// argument of SetRemoteEpoch can be stated at the final return: HandleQueuedPackets is opaque with
// write set "*" and may itself call SetRemoteEpoch (ChangeCipherSpec handling in conn.go); only the
// last call of a name is observable (engine limit, reported).
//@ ensures authorise-only-after-install: called("Common.SetRemoteEpoch") && !called("TrafficKeyState.Install") ==> called("HandleQueuedPackets") || called("Notify")
//@ ensures install-then-authorise: called("TrafficKeyState.Install") ==> calledBefore("TrafficKeyState.Install", "Common.SetRemoteEpoch")
//@ ensures release-queued-after: called("HandleQueuedPackets") ==> calledBefore("Common.SetRemoteEpoch", "HandleQueuedPackets") && sameRef(result, retErr("HandleQueuedPackets", 0))
//@ ensures response-queued-first: called("TrafficKeyState.Install") ==> calledBefore("postHandshake.queueRequiredKeyUpdateResponse", "TrafficKeyState.Install")
//@    && argAs("postHandshake.queueRequiredKeyUpdateResponse", 1, message.RequestUpdate) == old(message.RequestUpdate)
//@ end

//@ func postHandshake.queueRequiredKeyUpdateResponse
//@ noinline
//@ end

// UpdateKeys reports success only after the peer acknowledged the update: the only place that may hand nil to a
// completion of a reliable command is completePostHandshakeFlight (above, after applyACK reported the flight as fully
// acknowledged). Starting a queued command (first transmission) never completes it, except with the error that
// stopped it (or the cancellation error of a command that was withdrawn before it started).

// ASSUMPTION (reported): the write callback of an application-data command (in the library always the closure of
// fsm13.WriteApplicationData, which only calls conn.WritePackets) writes sequence numbers, byte buffers, flight
// packets, protocol messages and state-package objects - not the post-handshake state machine's own bookkeeping.
//@ assume-pure postHandshakeCommand.Write writes github.com/pion/dtls/v3/internal/state. github.com/pion/dtls/v3/internal/flight. github.com/pion/dtls/v3/internal/ciphersuite. github.com/pion/dtls/v3/pkg/ uint64 []uint64 uint8 []uint8 $alloc

//@ define CERR() argErr("postHandshakeCompletion.complete!", 1)
//@ define WITHDRAWN() (retBool("canceledPostHandshakeCommand", 1) && sameRef(CERR(), retErr("canceledPostHandshakeCommand", 0)))
//@ define STARTFAILED() (called("postHandshake.startPostHandshakeCommand") && sameRef(CERR(), retErr("postHandshake.startPostHandshakeCommand", 0)))

//@ func canceledPostHandshakeCommand
//@ ensures canceled-is-an-error: result1 ==> !isNil(result0)
//@ ensures not-canceled-no-error: !result1 ==> isNil(result0)
//@ end

// Dispatch: a KeyUpdate command is only handed to startKeyUpdate; the only command kind whose start may complete
// it is application data (writeApplicationData reports the write result, no acknowledgement is involved).
//@ func postHandshake.startPostHandshakeCommand
//@ watch postHandshakeCompletion.complete! postHandshake.startKeyUpdate postHandshake.startNewSessionTicket postHandshake.writeApplicationData
//@ requires args: p != nil && p.state != nil
//@ requires conn-impl: typeIs(conn, "github.com/pion/dtls/v3.handshakeConn")
//@ ensures key-update-goes-to-startKeyUpdate: command.Kind == commandSendKeyUpdate ==> ncalls("postHandshake.startKeyUpdate") == 1
//@    && sameRef(result, retErr("postHandshake.startKeyUpdate", 0)) && !called("postHandshake.writeApplicationData") && !called("postHandshake.startNewSessionTicket")
//@ ensures key-update-command-passed-on: called("postHandshake.startKeyUpdate") ==> command.Kind == commandSendKeyUpdate
//@    && argAs("postHandshake.startKeyUpdate", 3, command).Completion == command.Completion
//@    && argAs("postHandshake.startKeyUpdate", 3, command).KeyUpdate.Request == command.KeyUpdate.Request
//@ ensures only-application-data-completes-at-start: called("postHandshake.writeApplicationData") ==> command.Kind == commandSendApplicationData
//@ ensures no-own-completion: !called("postHandshakeCompletion.complete!")
//@ ensures frame: p.state == old(p.state)
//@ requires flights-wf: FLIGHTS(p)
//@ ensures flights-wf-kept: FLIGHTS(p)
//@ ensures unknown-kind-fails: command.Kind > commandSendApplicationData ==> result != nil
//@ ensures unimplemented-kinds-fail: command.Kind == commandSendNewConnectionID || command.Kind == commandSendRequestConnectionID ==> sameRef(result, dtlserrors.ErrNotImplemented)
//@ end

// First transmission of a KeyUpdate: the flight is registered with the caller's completion and the successor
// write generation as *pending*; nothing is completed and no key is switched here.
//@ define KUF() retAs("postHandshake.buildKeyUpdateFlight", 0, p.flights[postHandshakeFlightID{}])

//@ func postHandshake.startKeyUpdate
//@ watch postHandshakeCompletion.complete Conn.WritePackets postHandshake.buildKeyUpdateFlight postHandshake.nextTrafficGeneration TrafficKeyState.CurrentWrite CommitLocalKeyUpdate TrafficKeyState.Install
//@ requires args: p != nil && p.state != nil
//@ requires conn-impl: typeIs(conn, "github.com/pion/dtls/v3.handshakeConn")
//@ ensures transmission-does-not-complete: !called("postHandshakeCompletion.complete")
//@ ensures keys-not-switched-at-send: !called("CommitLocalKeyUpdate") && !called("TrafficKeyState.Install")
//@ ensures sends-at-most-once: ncalls("Conn.WritePackets") <= 1
//@ ensures success-sent: result == nil ==> ncalls("Conn.WritePackets") == 1 && isNil(retErr("Conn.WritePackets", 1))
//@ ensures success-registers-flight: result == nil ==> KUF() != nil && p.flights[KUF().ID] == KUF()
//@ ensures flight-carries-completion: result == nil ==> KUF().Completion == command.Completion
//@ ensures flight-carries-next-write-generation: result == nil ==> KUF().PendingWrite != nil
//@    && KUF().PendingWrite == retAs("postHandshake.nextTrafficGeneration", 0, TGW())
//@    && argAs("postHandshake.nextTrafficGeneration", 1, TGW()) == retAs("TrafficKeyState.CurrentWrite", 0, TGW())
//@ ensures failure-registers-nothing: result != nil ==> len(p.flights) == old(len(p.flights))
//@ requires flights-wf: FLIGHTS(p)
//@ ensures flights-wf-kept: FLIGHTS(p)
//@ end

//@ func postHandshake.startNewSessionTicket
//@ requires flights-wf: FLIGHTS(p)
//@ ensures flights-wf-kept: FLIGHTS(p)
//@ end

//@ func postHandshake.startQueuedPostHandshake
//@ watch postHandshakeCompletion.complete! postHandshake.startPostHandshakeCommand canceledPostHandshakeCommand
//@ requires args: p != nil && p.state != nil
//@ requires conn-impl: typeIs(conn, "github.com/pion/dtls/v3.handshakeConn")
//@ ensures start-never-reports-success: always("postHandshakeCompletion.complete!", "!isNil(CERR())")
//@ ensures completes-only-failed-or-withdrawn: always("postHandshakeCompletion.complete!", "WITHDRAWN() || STARTFAILED()")
//@ ensures last-completion-failed: called("postHandshakeCompletion.complete!") ==> !isNil(CERR())
//@ ensures state-kept: p.state == old(p.state)
//@ ensures start-error-stops: result != nil ==> sameRef(result, retErr("postHandshake.startPostHandshakeCommand", 0))
//@ ensures start-error-reported: result != nil ==> called("postHandshakeCompletion.complete!") && sameRef(CERR(), result)
//@ requires flights-wf: FLIGHTS(p)
//@ ensures flights-wf-kept: FLIGHTS(p)
//@ loop #1: frame: p.state == old(p.state)
//@ loop #1: last-completion-failed: called("postHandshakeCompletion.complete!") ==> !isNil(CERR())
//@ loop #1: start-never-reports-success: always("postHandshakeCompletion.complete!", "!isNil(CERR())")
//@ loop #1: completes-only-failed-or-withdrawn: always("postHandshakeCompletion.complete!", "WITHDRAWN() || STARTFAILED()")
//@ loop #1: started-ok: called("postHandshake.startPostHandshakeCommand") ==> isNil(retErr("postHandshake.startPostHandshakeCommand", 0))
// (quantified, the most expensive obligations of this function: kept last so that a timeout cannot unclaim the others)
//@ loop #1: flights-wf: FLIGHTS(p)
//@ end

// A received event completes reliable flights only through its ACK records: each completed flight ID was reported by
// applyACK (for the ACK being processed) as fully acknowledged.
//@ define ACKED() retAs("postHandshake.applyACK", 0, []postHandshakeFlightID{})
//@ define CPF_ID() argAs("postHandshake.completePostHandshakeFlight", 2, postHandshakeFlightID{})

//@ func postHandshake.processPostHandshakeMessages
//@ noinline
//@ end

//@ func postHandshake.handlePostHandshakeReceive
//@ watch postHandshake.applyACK postHandshake.completePostHandshakeFlight postHandshake.processPostHandshakeMessages sendACK
//@ requires args: p != nil && p.state != nil
//@ requires conn-impl: typeIs(conn, "github.com/pion/dtls/v3.handshakeConn")
//@ requires flights: FLIGHTS(p)
//@ ensures no-ack-no-completion: len(received.ACKs) == 0 ==> !called("postHandshake.completePostHandshakeFlight") && !called("postHandshake.applyACK")
//@ ensures completion-only-after-ack: called("postHandshake.completePostHandshakeFlight") ==> called("postHandshake.applyACK")
//@ ensures completed-was-reported-acked: always("postHandshake.completePostHandshakeFlight", "called(\"postHandshake.applyACK\") && exists(0, len(ACKED()), func(i int) bool { return ACKED()[i] == CPF_ID() })")
//@ ensures commit-error-stops: called("postHandshake.completePostHandshakeFlight") && !isNil(retErr("postHandshake.completePostHandshakeFlight", 0)) ==> sameRef(result, retErr("postHandshake.completePostHandshakeFlight", 0)) && !called("sendACK")
//@ loop #1: flights: p.state == old(p.state) && FLIGHTS(p)
//@ loop #1: completed-was-reported-acked: always("postHandshake.completePostHandshakeFlight", "called(\"postHandshake.applyACK\") && exists(0, len(ACKED()), func(i int) bool { return ACKED()[i] == CPF_ID() })")
//@ loop #1: ok-so-far: called("postHandshake.completePostHandshakeFlight") ==> isNil(retErr("postHandshake.completePostHandshakeFlight", 0))
//@ loop #1: not-yet: !called("sendACK") && !called("postHandshake.processPostHandshakeMessages")
//@ loop #1: ack-first: called("postHandshake.completePostHandshakeFlight") ==> called("postHandshake.applyACK")
//@ loop #1: none-yet: idx == 0 ==> !called("postHandshake.applyACK") && !called("postHandshake.completePostHandshakeFlight")
//@ loop #2: flights: p.state == old(p.state) && FLIGHTS(p)
//@ loop #2: completed-was-reported-acked: always("postHandshake.completePostHandshakeFlight", "called(\"postHandshake.applyACK\") && exists(0, len(ACKED()), func(i int) bool { return ACKED()[i] == CPF_ID() })")
//@ loop #2: ok-so-far: called("postHandshake.completePostHandshakeFlight") ==> isNil(retErr("postHandshake.completePostHandshakeFlight", 0))
//@ loop #2: not-yet: !called("sendACK") && !called("postHandshake.processPostHandshakeMessages")
//@ loop #2: ack-first: called("postHandshake.applyACK")
//@ end

// Conn.UpdateKeys -> fsm13.UpdateKeys: nil is returned only as the outcome published through the completion that was
// queued with the KeyUpdate command (published by completePostHandshakeFlight after the ACK, see above).
//@ func fsm13.submitPostHandshakeCommand
//@ noinline
//@ end

//@ func fsm13.waitPostHandshakeCompletion
//@ watch postHandshakeCompletion.result Context.Err
//@ requires args: s != nil && completion != nil && !isNil(ctx)
//@ ensures success-only-from-outcome: isNil(result) ==> called("postHandshakeCompletion.result") || called("Context.Err")
//@ ensures outcome-of-this-completion: called("postHandshakeCompletion.result") ==> argAs("postHandshakeCompletion.result", 0, completion) == completion && sameRef(result, retErr("postHandshakeCompletion.result", 0))
//@ ensures outcome-read-once: ncalls("postHandshakeCompletion.result") <= 1
//@ end

//@ func fsm13.UpdateKeys
//@ watch fsm13.submitPostHandshakeCommand fsm13.waitPostHandshakeCompletion newPostHandshakeCompletion
//@ requires args: s != nil && !isNil(ctx)
//@ ensures success-only-after-completion: isNil(result) ==> called("fsm13.waitPostHandshakeCompletion") && sameRef(result, retErr("fsm13.waitPostHandshakeCompletion", 0))
//@ ensures waits-for-the-queued-completion: called("fsm13.waitPostHandshakeCompletion") ==> ncalls("newPostHandshakeCompletion") == 1
//@    && argAs("fsm13.waitPostHandshakeCompletion", 3, s.postHandshake.flights[postHandshakeFlightID{}].Completion) == retAs("newPostHandshakeCompletion", 0, s.postHandshake.flights[postHandshakeFlightID{}].Completion)
//@    && argAs("fsm13.submitPostHandshakeCommand", 2, postHandshakeCommand{}).Completion == retAs("newPostHandshakeCompletion", 0, s.postHandshake.flights[postHandshakeFlightID{}].Completion)
//@ ensures queued-as-key-update: called("fsm13.submitPostHandshakeCommand") ==> argAs("fsm13.submitPostHandshakeCommand", 2, postHandshakeCommand{}).Kind == commandSendKeyUpdate
//@    && argAs("fsm13.submitPostHandshakeCommand", 2, postHandshakeCommand{}).KeyUpdate.Request == request
//@ ensures submit-before-wait: called("fsm13.waitPostHandshakeCompletion") ==> calledBefore("fsm13.submitPostHandshakeCommand", "fsm13.waitPostHandshakeCompletion") && isNil(retErr("fsm13.submitPostHandshakeCommand", 0))
//@ ensures invalid-request-rejected: request != handshake.KeyUpdateNotRequested && request != handshake.KeyUpdateRequested ==> result != nil && !called("fsm13.submitPostHandshakeCommand")
//@ ensures queued-once: ncalls("fsm13.submitPostHandshakeCommand") <= 1 && ncalls("fsm13.waitPostHandshakeCompletion") <= 1
//@ end

// Every KeyUpdate flight consumes one handshake message sequence number (RFC 9147 5.2: message_seq increases by one per
// message): a second KeyUpdate that re-used the number would be ACKed as a retransmission and never switch the peer's keys.
//@ func postHandshake.buildKeyUpdateFlight
//@ inline
//@ requires args: p != nil && p.state != nil
//@ ensures ku-sequence-consumed: result1 == nil ==> p.state.HandshakeSendSequence == old(p.state.HandshakeSendSequence) + 1
//@ ensures ku-carries-the-consumed-number: result1 == nil && old(p.state.HandshakeSendSequence) >= 0 ==> int(result0.ID.MessageSequence) == old(p.state.HandshakeSendSequence)
//@ ensures ku-failure-consumes-nothing: result1 != nil ==> p.state.HandshakeSendSequence == old(p.state.HandshakeSendSequence) && result0 == nil
//@ ensures ku-protected-and-tracked: result1 == nil ==> len(result0.Packets) == 1 && result0.Packets[0].ShouldEncrypt && result0.Packets[0].ShouldTrackACK
//@ ensures ku-sent-under-current-epoch: result1 == nil ==> result0.Epoch == result0.Packets[0].Record.Header.Epoch
//@ end

// ---- round 2 (h3) ----------------------------------------------------------------------------------------------
// Key updates under datagram loss: a lost KeyUpdate is sent again on the timer, restricted to the fragments the peer has
// not acknowledged. The per-packet selection handed to the record layer (Packet.HandshakeFragmentOffsets, "offset ->
// length", internal/flight/types.go) must name exactly pending fragments of that packet's own message: every entry
// offset -> length is the (message_seq, offset, length) of a fragment that is still in flight.PendingFragments. (An
// entry that names no pending fragment selects nothing: the retransmission would be empty and the update could never be
// acknowledged.) Stated as the invariant of the loop that rebuilds the selection; completeness of the enumeration of a
// Go map range is not decided (engine: a map range is an arbitrary enumeration).
//@ func postHandshake.retransmitPostHandshakeFlight
//@ loop #2: c20-selection-names-pending-fragments: forallKey(packet.HandshakeFragmentOffsets, func(k uint32) bool { return !forallKey(flight.PendingFragments, func(f postHandshakeFragment) bool { return !(f.MessageSequence == message.Header.MessageSequence && f.Offset == k && f.Length == packet.HandshakeFragmentOffsets[k]) }) })
//@ end
