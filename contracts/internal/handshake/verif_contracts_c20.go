//go:build verif

// C20: DTLS 1.3 key updates, post-handshake state machine. Comment-only; read by /verif/vc.
package dtlshandshake

// RFC 8446 7.2: application_traffic_secret_N+1 = HKDF-Expand-Label(application_traffic_secret_N,
// "traffic upd", "", Hash.length). HKDF is opaque; the clause fixes the arguments of the call
// and that its result is what is returned.

//@ func deriveNextApplicationTrafficSecret
//@ watch HkdfExpandLabel hashFunc
//@ ensures derived-by-hkdf: result1 == nil ==> ncalls("HkdfExpandLabel") == 1 && sameSlice(result0, retBytes("HkdfExpandLabel", 0)) && retErr("HkdfExpandLabel", 1) == nil
//@ ensures from-current: result1 == nil ==> sameSlice(argBytes("HkdfExpandLabel", 1), current)
//@ ensures label-traffic-upd: result1 == nil ==> argAs("HkdfExpandLabel", 2, trafficUpdateLabel + string(current)) == "traffic upd"
//@ ensures empty-context: result1 == nil ==> len(argBytes("HkdfExpandLabel", 3)) == 0
//@ ensures hash-length: result1 == nil ==> argInt("HkdfExpandLabel", 4) == len(current)
//@ end

// The derivation is used by contract (non-ghost part: an error carries no secret).
//@ func deriveNextApplicationTrafficSecret
//@ ensures no-secret-on-error: result1 != nil ==> isNil(result0)
//@ end

// Next generation = (epoch+1, generation+1, traffic-update successor secret, protection keyed by
// that secret); the 16-bit epoch never wraps.

//@ func postHandshake.nextTrafficGeneration
//@ watch deriveNextApplicationTrafficSecret NewRecordProtection
//@ requires args: p != nil && current != nil
//@ requires suite-payload: p.state != nil && p.state.Common != nil ==> isNil(p.state.Common.CipherSuite) || nonNilPayload(p.state.Common.CipherSuite)
//@ requires state-common: p.state != nil ==> p.state.Common != nil
//@ ensures epoch-overflow: current.Epoch == 65535 ==> result0 == nil && sameRef(result1, dtlserrors.ErrEpochOverflow)
//@ ensures error-no-generation: result1 != nil ==> result0 == nil
//@ ensures epoch-successor: result1 == nil ==> result0 != nil && result0.Epoch == current.Epoch + 1 && result0.Epoch > current.Epoch
//@ ensures generation-successor: result1 == nil ==> result0.Generation == current.Generation + 1
//@ ensures secret-is-successor: result1 == nil ==> ncalls("deriveNextApplicationTrafficSecret") == 1 && retErr("deriveNextApplicationTrafficSecret", 1) == nil
//@    && sameSlice(result0.Secret, retBytes("deriveNextApplicationTrafficSecret", 0))
//@ ensures successor-of-current: result1 == nil ==> sameSlice(argBytes("deriveNextApplicationTrafficSecret", 1), current.Secret)
//@ ensures protection-from-secret: result1 == nil ==> ncalls("NewRecordProtection") == 1 && retErr("NewRecordProtection", 1) == nil
//@    && sameRef(result0.Protection, retAs("NewRecordProtection", 0, result0.Protection)) && sameSlice(argBytes("NewRecordProtection", 1), result0.Secret)
//@ ensures current-unchanged: current.Epoch == old(current.Epoch) && current.Generation == old(current.Generation) && sameSlice(current.Secret, old(current.Secret))
//@ ensures fresh-object: result1 == nil ==> result0 != current
//@ end
