//go:build verif

// C11 contracts for package flight (comment-only; read by /verif/vc).
package flight

// a is the list of the side whose preference order decides, b the other side's list.

//@ func FindMatchingSRTPProfile
//@ ensures in-a: result1 ==> exists(0, len(a), func(i int) bool { return a[i] == result0 })
//@ ensures in-b: result1 ==> exists(0, len(b), func(j int) bool { return b[j] == result0 })
//@ ensures first-in-a: result1 ==> exists(0, len(a), func(i int) bool { return a[i] == result0 &&
//@    forall(0, i, func(k int) bool { return forall(0, len(b), func(j int) bool { return a[k] != b[j] }) }) })
//@ ensures fails-iff-disjoint: !result1 ==> forall(0, len(a), func(i int) bool { return forall(0, len(b), func(j int) bool { return a[i] != b[j] }) })
//@ ensures zero-on-failure: !result1 ==> result0 == 0
//@ loop #1: scanned: forall(0, idx, func(i int) bool { return forall(0, len(b), func(j int) bool { return a[i] != b[j] }) })
//@ end

// Cipher suites are interface values compared by ID(). The lists never contain nil entries
// (they are built by CipherSuiteForID / parseCipherSuites, which drop unknown IDs).

//@ func FindMatchingCipherSuite
//@ requires no-nil-a: forall(0, len(a), func(i int) bool { return !isNil(a[i]) })
//@ requires no-nil-b: forall(0, len(b), func(j int) bool { return !isNil(b[j]) })
//@ ensures in-a: result1 ==> exists(0, len(a), func(i int) bool { return sameRef(a[i], result0) })
//@ ensures nil-on-failure: !result1 ==> isNil(result0)
//@ end
