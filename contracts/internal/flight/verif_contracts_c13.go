//go:build verif

// C13 support for package flight (comment-only; read by /verif/vc).
package flight

// The handshake cache lookup is a separate component; the flight parse steps of C13 only depend on
// what they do with its answer, so they see it as an opaque call (keeps flight0Parse/flight2Parse
// within the tool's reach: minutes -> seconds).

//@ func Cache.FullPullMapItems
//@ noinline
//@ end

//@ func SignatureSchemes
//@ noinline
//@ end
