//go:build verif

package flight

//@ func Cache.fullPullMapCacheItems
//@ ensures probe: !result.Ready || result.Err != nil
//@ end

//@ func Cache.decodeGenericHandshakeItem
//@ ensures probe: result1 != nil
//@ end
