//go:build verif

// C17 support for package flight12 (comment-only; read by /verif/vc).
package flight12

// The FSM step contracts see flight parsing as one opaque step (what it decides is C13/C11/C03
// business; C17 is about when the FSM sends).

//@ func Parse
//@ noinline
//@ end
