//go:build verif

// C11 contracts for package flight12 (comment-only; read by /verif/vc).
package flight12

// Key-exchange group: the peer's (remote) order decides; X25519MLKEM768 (0x11ec = 4588) is not
// usable in DTLS 1.2 and must never be selected even when both sides list it.

//@ define HYBRID() elliptic.X25519MLKEM768

//@ func supportedEllipticCurves
//@ ensures subset: forall(0, len(result), func(k int) bool { return result[k] != HYBRID() && exists(0, len(curves), func(j int) bool { return curves[j] == result[k] }) })
//@ ensures complete: forall(0, len(curves), func(i int) bool { return curves[i] != HYBRID() ==> exists(0, len(result), func(k int) bool { return result[k] == curves[i] }) })
//@ ensures input-kept: forall(0, len(curves), func(i int) bool { return curves[i] == old(curves[i]) })
//@ loop #1: fresh: !sameArray(filtered, curves) && len(filtered) <= idx && cap(filtered) == len(curves)
//@ loop #1: input-kept: forall(0, len(curves), func(i int) bool { return curves[i] == old(curves[i]) })
//@ loop #1: no-hybrid: forall(0, len(filtered), func(k int) bool { return filtered[k] != HYBRID() })
//@ loop #1: subset: forall(0, len(filtered), func(k int) bool { return exists(0, idx, func(j int) bool { return curves[j] == filtered[k] }) })
//@ loop #1: complete: forall(0, idx, func(i int) bool { return curves[i] != HYBRID() ==> exists(0, len(filtered), func(k int) bool { return filtered[k] == curves[i] }) })
//@ end

//@ func selectEllipticCurve
//@ ensures in-remote: result1 ==> exists(0, len(remoteCurves), func(i int) bool { return remoteCurves[i] == result0 })
//@ ensures in-local: result1 ==> exists(0, len(localCurves), func(j int) bool { return localCurves[j] == result0 })
//@ ensures never-hybrid: result1 ==> result0 != elliptic.X25519MLKEM768
//@ ensures first-in-remote: result1 ==> forall(0, len(remoteCurves), func(i int) bool { return exists(0, i+1, func(k int) bool { return remoteCurves[k] == result0 }) ||
//@    remoteCurves[i] == elliptic.X25519MLKEM768 || forall(0, len(localCurves), func(j int) bool { return remoteCurves[i] != localCurves[j] }) })
//@ ensures fails-iff-disjoint: !result1 ==> forall(0, len(remoteCurves), func(i int) bool { return remoteCurves[i] == elliptic.X25519MLKEM768 ||
//@    forall(0, len(localCurves), func(j int) bool { return remoteCurves[i] != localCurves[j] }) })
//@ ensures zero-on-failure: !result1 ==> result0 == 0
//@ loop #1: scanned: forall(0, idx, func(i int) bool { return remoteCurves[i] == HYBRID() || forall(0, len(localCurves), func(j int) bool { return remoteCurves[i] != localCurves[j] }) })
//@ end

// Server, first ClientHello (RFC 5246 7.4.1.2/7.4.1.4, RFC 8422 5.1, RFC 7627 5.3): every negotiated value is
// taken from the intersection of the two sides' lists; when a list the client sent has no common entry
// the server answers with a fatal alert instead of continuing with a default.
//@ assume-pure CipherSuite.ID

//@ func flight0Parse
//@ watch selectEllipticCurve! FindMatchingCipherSuite! Version.Equal!
//@ loop cipherSuites: offered-non-nil: forall(0, len(cipherSuites), func(k int) bool { return !isNil(cipherSuites[k]) })
//@ loop cipherSuites: offered-fresh: fresh(cipherSuites)
//@ loop cipherSuites: local-kept: forall(0, len(cfg.LocalCipherSuites), func(i int) bool { return !isNil(cfg.LocalCipherSuites[i]) })
//@ loop filteredCipherSuites: in-place: sameArray(filteredCipherSuites, cipherSuites) && offsetOf(filteredCipherSuites) == offsetOf(cipherSuites) && len(filteredCipherSuites) <= idx
//@ loop filteredCipherSuites: offered-non-nil: forall(0, len(cipherSuites), func(k int) bool { return !isNil(cipherSuites[k]) })
//@ loop filteredCipherSuites: filtered-non-nil: forall(0, len(filteredCipherSuites), func(k int) bool { return !isNil(filteredCipherSuites[k]) })
//@ loop filteredCipherSuites: offered-fresh: fresh(cipherSuites)
//@ loop filteredCipherSuites: local-kept: forall(0, len(cfg.LocalCipherSuites), func(i int) bool { return !isNil(cfg.LocalCipherSuites[i]) })
//@ ensures no-common-suite-aborts: called("FindMatchingCipherSuite!") && !retBool("FindMatchingCipherSuite!", 1) ==> result0 == 0 && result1 != nil && result1.Level == alert.Fatal && result2 != nil
//@ ensures suite-from-local-list: result0 != 0 ==> called("FindMatchingCipherSuite!") && sameSlice(argAs("FindMatchingCipherSuite!", 1, cfg.LocalCipherSuites), old(cfg.LocalCipherSuites))
//@ ensures no-common-curve-aborts: called("selectEllipticCurve!") && !retBool("selectEllipticCurve!", 1) ==> result0 == 0 && result1 != nil && result1.Level == alert.Fatal && result2 != nil
//@ ensures curve-from-both-lists: called("selectEllipticCurve!") ==> sameSlice(argAs("selectEllipticCurve!", 0, cfg.EllipticCurves), old(cfg.EllipticCurves))
//@ ensures version-is-1-2: result0 != 0 ==> called("Version.Equal!") && retBool("Version.Equal!", 0) && argAs("Version.Equal!", 1, protocol.Version{}).Major == 0xfe && argAs("Version.Equal!", 1, protocol.Version{}).Minor == 0xfd
//@ ensures ems-required: result0 != 0 && old(cfg.ExtendedMasterSecret) == dtlsconfig.RequireExtendedMasterSecret ==> state.ExtendedMasterSecret
//@ ensures curve-is-the-selected-one: result0 != 0 && called("selectEllipticCurve!") ==> state.NamedCurve == retAs("selectEllipticCurve!", 0, state.NamedCurve)
//@ ensures suite-is-the-selected-one: result0 != 0 ==> sameRef(state.CipherSuite, retAs("FindMatchingCipherSuite!", 0, state.CipherSuite))
//@ loop #3: curve-stored: called("selectEllipticCurve!") ==> state.NamedCurve == retAs("selectEllipticCurve!", 0, state.NamedCurve)
//@ loop #3: suite-stored: sameRef(state.CipherSuite, retAs("FindMatchingCipherSuite!", 0, state.CipherSuite)) && state.Common == old(state.Common)
//@ loop #3: curve-ok-so-far: called("selectEllipticCurve!") ==> retBool("selectEllipticCurve!", 1) && sameSlice(argAs("selectEllipticCurve!", 0, cfg.EllipticCurves), old(cfg.EllipticCurves))
//@ loop #3: config-kept: sameSlice(cfg.EllipticCurves, old(cfg.EllipticCurves))
//@ end

// Extended master secret (RFC 7627 5.2/5.3): a side configured to require it does not install keys
// for, or accept the Finished of, an abbreviated handshake that did not negotiate it. Stated as a
// precondition of the two resumption steps, so that it is proved at their call sites in the hello
// parsers, in the state in which the call is made.
//@ func handleResumption
//@ requires ems-policy: cfg.ExtendedMasterSecret == dtlsconfig.RequireExtendedMasterSecret ==> state.ExtendedMasterSecret
//@ end

//@ func handleHelloResume
//@ requires ems-policy: cfg.ExtendedMasterSecret == dtlsconfig.RequireExtendedMasterSecret ==> state.ExtendedMasterSecret
//@ ensures negotiation-untouched: state.ExtendedMasterSecret == old(state.ExtendedMasterSecret) && state.NamedCurve == old(state.NamedCurve) && sameRef(state.CipherSuite, old(state.CipherSuite))
//@ end

// Client, ServerHello: the server's answers are re-checked against the client's own lists.
//@ func flight3Parse
//@ watch Version.Equal! FindMatchingCipherSuite!
//@ ensures server-version-is-1-2: called("ciphersuite.ForID!") ==> called("Version.Equal!") && retBool("Version.Equal!", 0) && argAs("Version.Equal!", 1, protocol.Version{}).Major == 0xfe && argAs("Version.Equal!", 1, protocol.Version{}).Minor == 0xfd
//@ ensures suite-not-offered-aborts: called("FindMatchingCipherSuite!") && !retBool("FindMatchingCipherSuite!", 1) ==> next == 0 && dtlsAlert != nil && err != nil
//@ ensures suite-checked-against-own-list: called("handleResumption!") || (next == Flight5 && called("ciphersuite.ForID!")) ==> called("FindMatchingCipherSuite!") && retBool("FindMatchingCipherSuite!", 1) && sameSlice(argAs("FindMatchingCipherSuite!", 1, cfg.LocalCipherSuites), old(cfg.LocalCipherSuites))
//@ end

// Server, abbreviated handshake (RFC 7301 3.2): the ALPN answer on the resumption ServerHello is decided
// from the server's own configured list and the list the client offered - the same decision function
// as on a full handshake; no common protocol is answered with a fatal no_application_protocol alert.
//@ func flight4bGenerate
//@ watch ALPNProtocolSelection! NegotiateSRTP!
//@ requires args: state != nil && cache != nil && cfg != nil && state.Common != nil && state.CipherSuite != nil
//@ ensures alpn-from-both-lists: called("ALPNProtocolSelection!") ==> sameSlice(argAs("ALPNProtocolSelection!", 0, cfg.SupportedProtocols), old(cfg.SupportedProtocols)) && sameSlice(argAs("ALPNProtocolSelection!", 1, state.PeerSupportedProtocols), old(state.PeerSupportedProtocols))
//@ ensures alpn-no-overlap-aborts: called("ALPNProtocolSelection!") && retErr("ALPNProtocolSelection!", 1) != nil ==> result0 == nil && result1 != nil && result1.Level == alert.Fatal && result1.Description == alert.NoApplicationProtocol && result2 != nil
//@ ensures srtp-from-own-profiles: called("NegotiateSRTP!") ==> sameSlice(argAs("NegotiateSRTP!", 1, cfg.LocalSRTPProtectionProfiles), old(cfg.LocalSRTPProtectionProfiles))
//@ ensures srtp-failure-aborts: called("NegotiateSRTP!") && retErr("NegotiateSRTP!", 1) != nil ==> result0 == nil && result2 != nil
//@ ensures alpn-always-decided: result2 == nil && result1 == nil ==> ncalls("ALPNProtocolSelection!") == 1
//@ end

// Client, ServerKeyExchange (RFC 5246 7.4.3 / 7.4.1.4.1): the (hash, signature) pair the server signed with must be
// one of the pairs this client allows (cfg.LocalSignatureSchemes): clause initializeCipherSuite/post:scheme-pair-offered
// in verif_contracts_c03.go; initializeCipherSuite is in the verify list of C11 as well. (A second statement in the
// negative form - no list entry matches both components ==> VerifyKeySignature is never called and the handshake
// aborts - is discharged by the solvers only in 8-30 s on the returns after the chain check: not stated.)
