//go:build verif

// Contracts for package flight12: transcript integrity gates (C04).
package flight12

// RFC 5246 7.4.9: the client completes only after comparing the server's Finished.verify_data with
// PRF(master_secret, "server finished", Hash(handshake_messages)) over its own view of all handshake
// messages through the client's Finished.
//@ func flight5Parse
//@ watch Cache.FullPullMapItems Cache.PullAndMerge! prf.VerifyDataServer! bytes.Equal! handshakeRulesThroughClientFinished!
//@ requires args: state != nil && cache != nil && cfg != nil && state.Common != nil && state.CipherSuite != nil && cfg.Log != nil && conn != nil
//@ ensures server-finished-compared: result0 == Flight5 ==> called("bytes.Equal!") && retBool("bytes.Equal!", 0)
//@ ensures compared-with-prf-output: called("bytes.Equal!") ==> sameSlice(argBytes("bytes.Equal!", 0), retBytes("prf.VerifyDataServer!", 0))
//@ ensures prf-keyed-by-master-secret: called("prf.VerifyDataServer!") ==> sameSlice(argBytes("prf.VerifyDataServer!", 0), old(state.MasterSecret))
//@ ensures prf-over-merged-transcript: called("prf.VerifyDataServer!") ==> sameSlice(argBytes("prf.VerifyDataServer!", 1), retBytes("Cache.PullAndMerge!", 0))
//@ ensures transcript-through-client-finished: called("Cache.PullAndMerge!") ==> called("handshakeRulesThroughClientFinished!") && calledBefore("handshakeRulesThroughClientFinished!", "Cache.PullAndMerge!")
//@ ensures no-success-on-mismatch: called("bytes.Equal!") && !retBool("bytes.Equal!", 0) ==> result0 == 0 && result1 != nil && result2 != nil
//@ ensures transcript-list-is-the-constructors: called("Cache.PullAndMerge!") ==> sameSlice(RULES(), CFRULES()) && argAs("handshakeRulesThroughClientFinished!", 0, uint16(0)) == old(cfg.InitialEpoch)
//@ ensures transcript-ten-messages: called("Cache.PullAndMerge!") ==> len(RULES()) == 10
//@ ensures transcript-m0-client-hello: always("Cache.PullAndMerge!", "len(RULES()) == 10 && RULE(RULES()[0], handshake.TypeClientHello, cfg.InitialEpoch, true)")
//@ ensures transcript-m1-server-hello: always("Cache.PullAndMerge!", "len(RULES()) == 10 && RULE(RULES()[1], handshake.TypeServerHello, cfg.InitialEpoch, false)")
//@ ensures transcript-m2-server-certificate: always("Cache.PullAndMerge!", "len(RULES()) == 10 && RULE(RULES()[2], handshake.TypeCertificate, cfg.InitialEpoch, false)")
//@ ensures transcript-m3-server-key-exchange: always("Cache.PullAndMerge!", "len(RULES()) == 10 && RULE(RULES()[3], handshake.TypeServerKeyExchange, cfg.InitialEpoch, false)")
//@ ensures transcript-m4-certificate-request: always("Cache.PullAndMerge!", "len(RULES()) == 10 && RULE(RULES()[4], handshake.TypeCertificateRequest, cfg.InitialEpoch, false)")
//@ ensures transcript-m5-server-hello-done: always("Cache.PullAndMerge!", "len(RULES()) == 10 && RULE(RULES()[5], handshake.TypeServerHelloDone, cfg.InitialEpoch, false)")
//@ ensures transcript-m6-client-certificate: always("Cache.PullAndMerge!", "len(RULES()) == 10 && RULE(RULES()[6], handshake.TypeCertificate, cfg.InitialEpoch, true)")
//@ ensures transcript-m7-client-key-exchange: always("Cache.PullAndMerge!", "len(RULES()) == 10 && RULE(RULES()[7], handshake.TypeClientKeyExchange, cfg.InitialEpoch, true)")
//@ ensures transcript-m8-certificate-verify: always("Cache.PullAndMerge!", "len(RULES()) == 10 && RULE(RULES()[8], handshake.TypeCertificateVerify, cfg.InitialEpoch, true)")
//@ ensures transcript-m9-client-finished: always("Cache.PullAndMerge!", "len(RULES()) == 10 && RULE(RULES()[9], handshake.TypeFinished, cfg.InitialEpoch+1, true)")
//@ ensures failure-is-fatal: result0 == 0 && result1 != nil ==> result1.Level == alert.Fatal
//@ end

// User-supplied configuration callbacks do not modify the library's handshake state.
//@ assume-pure HandshakeConfig.VerifyConnection
//@ assume-pure HandshakeConfig.VerifyPeerCertificate
//@ assume-pure HandshakeConfig.LocalPSKCallback
//@ assume-pure HandshakeConfig.WriteKeyLog
//@ assume-pure HandshakeConfig.SetSession
//@ assume-pure HandshakeConfig.GetSession
//@ assume-pure HandshakeConfig.DelSession
//@ assume-pure HandshakeConfig.CustomCipherSuites
// Cipher suite descriptors are immutable: these observers are pure functions of the suite object.
//@ assume-pure CipherSuite.AuthenticationType
//@ assume-pure CipherSuite.KeyExchangeAlgorithm
//@ define anonymous(state) (state.CipherSuite.AuthenticationType() == ciphersuite.AuthenticationTypeAnonymous)
//@ define RULES() argAs("Cache.PullAndMerge!", 1, []dtlsflight.HandshakeCachePullRule(nil))
//@ define CFRULES() retAs("handshakeRulesThroughClientFinished!", 0, []dtlsflight.HandshakeCachePullRule(nil))
//@ define CKRULES() retAs("handshakeRulesThroughClientKeyExchange!", 0, []dtlsflight.HandshakeCachePullRule(nil))
//@ define RULE(r, typ, ep, cli) (r.Typ == typ && r.Epoch == ep && r.IsClient == cli && !r.Optional)

// RFC 5246 7.4.8 / 7.4.9: handshake_messages is every handshake message sent or received, in order,
// starting at ClientHello: ClientHello(c) ServerHello(s) Certificate(s) ServerKeyExchange(s)
// CertificateRequest(s) ServerHelloDone(s) Certificate(c) ClientKeyExchange(c) [CertificateVerify(c)
// Finished(c, next epoch)]. Each list element is spelled out: type, epoch, sender, not optional.
//@ func handshakeRulesThroughClientKeyExchange
//@ ensures eight-messages: len(result) == 8
//@ ensures exact-capacity: cap(result) == 8 && offsetOf(result) == 0
//@ ensures m0-client-hello: RULE(result[0], handshake.TypeClientHello, epoch, true)
//@ ensures m1-server-hello: RULE(result[1], handshake.TypeServerHello, epoch, false)
//@ ensures m2-server-certificate: RULE(result[2], handshake.TypeCertificate, epoch, false)
//@ ensures m3-server-key-exchange: RULE(result[3], handshake.TypeServerKeyExchange, epoch, false)
//@ ensures m4-certificate-request: RULE(result[4], handshake.TypeCertificateRequest, epoch, false)
//@ ensures m5-server-hello-done: RULE(result[5], handshake.TypeServerHelloDone, epoch, false)
//@ ensures m6-client-certificate: RULE(result[6], handshake.TypeCertificate, epoch, true)
//@ ensures m7-client-key-exchange: RULE(result[7], handshake.TypeClientKeyExchange, epoch, true)
//@ ensures fresh-list: fresh(result)
//@ end

//@ func handshakeRulesThroughClientFinished
//@ ensures ten-messages: len(result) == 10
//@ ensures m0-client-hello: RULE(result[0], handshake.TypeClientHello, epoch, true)
//@ ensures m1-server-hello: RULE(result[1], handshake.TypeServerHello, epoch, false)
//@ ensures m2-server-certificate: RULE(result[2], handshake.TypeCertificate, epoch, false)
//@ ensures m3-server-key-exchange: RULE(result[3], handshake.TypeServerKeyExchange, epoch, false)
//@ ensures m4-certificate-request: RULE(result[4], handshake.TypeCertificateRequest, epoch, false)
//@ ensures m5-server-hello-done: RULE(result[5], handshake.TypeServerHelloDone, epoch, false)
//@ ensures m6-client-certificate: RULE(result[6], handshake.TypeCertificate, epoch, true)
//@ ensures m7-client-key-exchange: RULE(result[7], handshake.TypeClientKeyExchange, epoch, true)
//@ ensures m8-certificate-verify: RULE(result[8], handshake.TypeCertificateVerify, epoch, true)
//@ ensures m9-client-finished: RULE(result[9], handshake.TypeFinished, epoch+1, true)
//@ ensures fresh-list: fresh(result)
//@ end

// Abbreviated handshake, server side (RFC 5246 7.4.9 / 7.3): the client's Finished is compared with
// PRF(master_secret, "client finished", Hash(ClientHello, ServerHello, server Finished)).
//@ func flight4bParse
//@ watch Cache.FullPullMapItems Cache.PullAndMerge! prf.VerifyDataClient! bytes.Equal!
//@ requires args: state != nil && cache != nil && cfg != nil && state.Common != nil && state.CipherSuite != nil
//@ ensures client-finished-compared: result0 == Flight4b ==> called("bytes.Equal!") && retBool("bytes.Equal!", 0)
//@ ensures compared-with-prf-output: called("bytes.Equal!") ==> sameSlice(argBytes("bytes.Equal!", 0), retBytes("prf.VerifyDataClient!", 0))
//@ ensures prf-keyed-by-master-secret: called("prf.VerifyDataClient!") ==> sameSlice(argBytes("prf.VerifyDataClient!", 0), old(state.MasterSecret))
//@ ensures prf-over-merged-transcript: called("prf.VerifyDataClient!") ==> sameSlice(argBytes("prf.VerifyDataClient!", 1), retBytes("Cache.PullAndMerge!", 0))
//@ ensures transcript: called("Cache.PullAndMerge!") ==> len(RULES()) == 3
//@    && RULE(RULES()[0], handshake.TypeClientHello, old(cfg.InitialEpoch), true)
//@    && RULE(RULES()[1], handshake.TypeServerHello, old(cfg.InitialEpoch), false)
//@    && RULE(RULES()[2], handshake.TypeFinished, old(cfg.InitialEpoch)+1, false)
//@ ensures no-success-on-mismatch: called("bytes.Equal!") && !retBool("bytes.Equal!", 0) ==> result0 == 0 && result1 != nil && result2 != nil
//@ end

// Abbreviated handshake, client side: the server's Finished is compared with
// PRF(master_secret, "server finished", Hash(ClientHello, ServerHello)) before flight 5b is generated.
//@ func handleResumption
//@ watch Cache.FullPullMapItems Cache.PullAndMerge! prf.VerifyDataServer! bytes.Equal! State12.InitCipherSuite
//@ requires args: state != nil && cache != nil && cfg != nil && state.Common != nil && c != nil
//@ ensures server-finished-compared: result0 == Flight5b ==> called("bytes.Equal!") && retBool("bytes.Equal!", 0)
//@ ensures compared-with-prf-output: called("bytes.Equal!") ==> sameSlice(argBytes("bytes.Equal!", 0), retBytes("prf.VerifyDataServer!", 0))
//@ ensures prf-over-merged-transcript: called("prf.VerifyDataServer!") ==> sameSlice(argBytes("prf.VerifyDataServer!", 1), retBytes("Cache.PullAndMerge!", 0))
//@ ensures transcript-two-messages: called("Cache.PullAndMerge!") ==> len(RULES()) == 2
// [not checkable at the success return: the contents of the rule array passed to PullAndMerge
//  (ClientHello, ServerHello) are read in the post-state and the engine loses them after the later
//  MarshalFixed/WriteKeyLog steps; the same clause is proved for flight4bParse where nothing follows]
//   ensures transcript: called("Cache.PullAndMerge!") ==> RULE(RULES()[0], handshake.TypeClientHello, RULES()[1].Epoch, true)
//      && RULE(RULES()[1], handshake.TypeServerHello, RULES()[0].Epoch, false)
//@ ensures success-shape: result0 != 0 ==> result0 == Flight5b && result1 == nil && result2 == nil
//@ ensures alert-is-fatal: result1 != nil ==> result1.Level == alert.Fatal && result0 == 0
//@ ensures keys-installed-first: result0 == Flight5b ==> called("State12.InitCipherSuite") && retErr("State12.InitCipherSuite", 0) == nil
//@ ensures no-success-on-mismatch: called("bytes.Equal!") && !retBool("bytes.Equal!", 0) ==> result0 == 0 && result1 != nil && result2 != nil
//@ end

// Full handshake, server side. C04: the client's Finished is compared with
// PRF(master_secret, "client finished", Hash(handshake messages through CertificateVerify)).
// C03: the configured client-authentication policy (RFC 5246 7.4.6 / crypto/tls ClientAuthType) decides
// which credential the client must have presented and proved before the server moves on to flight 6.
//@ func flight4Parse
//@ watch Cache.FullPullMapItems Cache.PullAndMerge! prf.VerifyDataClient! bytes.Equal! VerifyCertificateVerify! VerifyClientCert! handshakeRulesThroughClientKeyExchange!
//@ requires args: state != nil && cache != nil && cfg != nil && state.Common != nil && state.CipherSuite != nil && conn != nil && cfg.Log != nil
//@ ensures client-finished-compared: result0 == Flight6 ==> called("bytes.Equal!") && retBool("bytes.Equal!", 0)
//@ ensures compared-with-prf-output: called("bytes.Equal!") ==> sameSlice(argBytes("bytes.Equal!", 0), retBytes("prf.VerifyDataClient!", 0))
//@ ensures prf-over-merged-transcript: called("prf.VerifyDataClient!") ==> sameSlice(argBytes("prf.VerifyDataClient!", 1), retBytes("Cache.PullAndMerge!", 0))
//@ ensures no-success-on-mismatch: called("bytes.Equal!") && !retBool("bytes.Equal!", 0) ==> result0 == 0 && result1 != nil && result2 != nil
// The first eight rules of both transcripts are the constructor's list (contract above); what this function
// adds is checked here: which list reaches which check, with which epoch, and the ninth element.
// [engine limit: element-wise clauses about append(<constructor result>, x) cost > 10 s per return site in this
//  function (27 return sites), so the copy of the first eight elements by append is not re-proved here]
//@ ensures transcript-eight-or-nine-messages: always("Cache.PullAndMerge!", "len(RULES()) == 8 || len(RULES()) == 9")
//@ ensures transcript-of-eight-is-the-constructors-list: always("Cache.PullAndMerge!", "len(RULES()) == 8 ==> sameSlice(RULES(), CKRULES())")
//@ ensures transcript-m8-certificate-verify: always("Cache.PullAndMerge!", "len(RULES()) == 9 ==> RULE(RULES()[8], handshake.TypeCertificateVerify, cfg.InitialEpoch, true)")
//@ ensures finished-transcript-nine-messages: called("bytes.Equal!") ==> len(RULES()) == 9
//@ ensures transcript-lists-start-from-the-constructor: always("Cache.PullAndMerge!", "calledBefore(\"handshakeRulesThroughClientKeyExchange!\", \"Cache.PullAndMerge!\") && ncalls(\"handshakeRulesThroughClientKeyExchange!\") == ncalls(\"Cache.PullAndMerge!\")")
//@ ensures transcript-epoch-is-the-initial-epoch: always("Cache.PullAndMerge!", "argAs(\"handshakeRulesThroughClientKeyExchange!\", 0, uint16(0)) == cfg.InitialEpoch")
//@ ensures prf-keyed-by-master-secret: called("prf.VerifyDataClient!") ==> sameSlice(argBytes("prf.VerifyDataClient!", 0), state.MasterSecret)
//@ ensures certificate-verify-over-transcript-through-client-key-exchange: always("VerifyCertificateVerify!", "len(RULES()) == 8 && sameSlice(argBytes(\"VerifyCertificateVerify!\", 0), retBytes(\"Cache.PullAndMerge!\", 0))")
//@ ensures policy-require-any: result0 == Flight6 && !anonymous(state) && cfg.ClientAuth == dtlsconfig.RequireAnyClientCert ==> state.PeerCertificates != nil
//@ ensures policy-verify-if-given: result0 == Flight6 && !anonymous(state) && cfg.ClientAuth == dtlsconfig.VerifyClientCertIfGiven ==> state.PeerCertificates == nil || state.PeerCertificatesVerified
//@ ensures policy-require-and-verify: result0 == Flight6 && !anonymous(state) && cfg.ClientAuth == dtlsconfig.RequireAndVerifyClientCert ==> state.PeerCertificates != nil && state.PeerCertificatesVerified
//@ ensures certificate-needs-proof-of-possession: result0 == Flight6 && called("VerifyCertificateVerify!") ==> retErr("VerifyCertificateVerify!", 0) == nil
//@ ensures chain-verified-means-verified: called("VerifyClientCert!") && result0 == Flight6 ==> retErr("VerifyClientCert!", 1) == nil
//@ end
