//go:build verif

// C13 contracts for package flight12 (comment-only; read by /verif/vc).
package flight12

// RFC 6347 4.2.1 / 3.2.1: a HelloVerifyRequest (Flight2) is sent only in direct response to a
// ClientHello and is never put on the retransmission timer.

//@ func GetGenerator
//@ ensures cookie-request-not-retransmitted: f == Flight2 ==> !retransmit
//@ ensures cookie-request-has-generator: f == Flight2 ==> ok && gen != nil
//@ ensures known-flights: ok == (f >= Flight0 && f <= Flight6)
//@ ensures unknown-flight: !ok ==> gen == nil && !retransmit
//@ ensures awaiting-flights-retransmit: ok && f != Flight2 ==> retransmit
//@ end

// The cookie request itself: exactly one packet, a plaintext HelloVerifyRequest carrying the
// issued cookie (state.Cookie) - no ServerHello, certificate or key exchange.

//@ define HS(p) p.Record.Content.(*handshake.Handshake)
//@ define HVR(p) HS(p).Message.(*handshake.MessageHelloVerifyRequest)

//@ func flight2Generate
//@ requires state: state != nil
//@ ensures exactly-one-packet: len(result0) == 1 && result1 == nil && result2 == nil
//@ ensures packet-present: result0[0] != nil && result0[0].Record != nil
//@ ensures is-handshake-record: typeIs(result0[0].Record.Content, "*github.com/pion/dtls/v3/pkg/protocol/handshake.Handshake") && HS(result0[0]) != nil
//@ ensures is-hello-verify-request: typeIs(HS(result0[0]).Message, "*github.com/pion/dtls/v3/pkg/protocol/handshake.MessageHelloVerifyRequest") && HVR(result0[0]) != nil
//@ ensures carries-issued-cookie: sameSlice(HVR(result0[0]).Cookie, state.Cookie) && sameSlice(state.Cookie, old(state.Cookie))
//@ ensures plaintext: !result0[0].ShouldEncrypt
//@ ensures restarts-send-sequence: state.HandshakeSendSequence == 0
//@ end

// Issuing the cookie (server start): with hello verification on, a fresh 20-byte cookie filled by
// crypto/rand.Read. (Call-event ghosts see only the last call; the server random drawn afterwards by
// Random.Populate is the second rand.Read, so the cookie facts are stated for ncalls == 1.)

//@ func flight0Generate
//@ watch rand.Read
//@ requires args: state != nil && state.Common != nil && cfg != nil
//@ ensures cookie-issued: !cfg.InsecureSkipHelloVerify && result2 == nil ==> len(state.Cookie) == 20 && fresh(state.Cookie)
//@ ensures cookie-random: !cfg.InsecureSkipHelloVerify ==> called("rand.Read") && (ncalls("rand.Read") == 1 ==> sameSlice(argBytes("rand.Read", 0), state.Cookie))
//@ ensures rand-failure-aborts: !cfg.InsecureSkipHelloVerify && ncalls("rand.Read") == 1 && retErr("rand.Read", 1) != nil ==> result2 != nil
//@ ensures second-draw-is-the-server-random: !cfg.InsecureSkipHelloVerify ==> ncalls("rand.Read") <= 2
//@ ensures sends-nothing: result0 == nil && result1 == nil
//@ end

// Server start (Flight0): with hello verification enabled the answer to a first ClientHello is the
// cookie request (Flight2) or, for a session the store knows, the abbreviated Flight4b - never the
// full ServerHello/Certificate flight (Flight4) directly.

// The session-store lookup is a user callback; it is assumed not to modify handshake state.
//@ assume-pure HandshakeConfig.GetSession

//@ func handleHelloResume
//@ watch HandshakeConfig.GetSession
//@ requires args: state != nil && cfg != nil
//@ ensures outcomes: result0 == 0 || result0 == next || result0 == Flight4b
//@ ensures resume-needs-known-session: result0 == Flight4b && next != Flight4b ==> called("HandshakeConfig.GetSession") && retErr("HandshakeConfig.GetSession", 2) == nil && !isNil(retBytes("HandshakeConfig.GetSession", 0))
//@ ensures resume-needs-session-id: result0 == Flight4b && next != Flight4b ==> len(sessionID) > 0 && old(cfg.HasSessionStore)
//@ ensures failure-has-alert: result0 == 0 && next != 0 ==> result1 != nil && result2 != nil
//@ end

//@ func flight0Parse
//@ watch ClientHelloSnapshots.Reset! ClientHelloSnapshots.RecordWire!
//@ requires args: state != nil && cache != nil && cfg != nil && state.Common != nil && cfg.Log != nil
//@ requires suites: forall(0, len(cfg.LocalCipherSuites), func(i int) bool { return !isNil(cfg.LocalCipherSuites[i]) })
//@ ensures cookie-first: !old(cfg.InsecureSkipHelloVerify) ==> result0 == 0 || result0 == Flight2 || result0 == Flight4b
//@ ensures never-full-flight-unverified: !old(cfg.InsecureSkipHelloVerify) ==> result0 != Flight4
//@ ensures outcomes: result0 == 0 || result0 == Flight2 || result0 == Flight4 || result0 == Flight4b
// The reference offer for the later cookie check is this ClientHello: older offers are dropped (Reset) before
// the wire bytes are recorded, exactly once, and a ClientHello that cannot be recorded does not advance.
// [engine limit: calledBefore() is not provable after a loop - the event clock is havocked without bound at loop
//  headers and clock+1 may wrap - so the order is stated with always(): at the RecordWire call Reset had happened]
//@ ensures first-hello-recorded-afresh: always("ClientHelloSnapshots.RecordWire!", "called(\"ClientHelloSnapshots.Reset!\")")
//@ ensures first-hello-recorded-once: result0 != 0 ==> ncalls("ClientHelloSnapshots.RecordWire!") == 1 && retErr("ClientHelloSnapshots.RecordWire!", 0) == nil
//@ end

// Cookie check (Flight2): the server moves on to the ServerHello flight (Flight4) only after the
// validator accepted the second ClientHello against the issued cookie.

//@ define VARG(k) argAs("ValidateHelloVerifyRequestResponse", k, negotiation.ClientHelloSnapshot{})

//@ func flight2Parse
//@ watch ValidateHelloVerifyRequestResponse
//@ requires args: state != nil && cache != nil && cfg != nil && state.Common != nil && cfg.Log != nil
//@ requires suites: forall(0, len(cfg.LocalCipherSuites), func(i int) bool { return !isNil(cfg.LocalCipherSuites[i]) })
//@ ensures outcomes: result0 == 0 || result0 == Flight2 || result0 == Flight4 || result0 == Flight4b
//@ ensures cookie-verified: !old(cfg.InsecureSkipHelloVerify) && result0 == Flight4 ==> called("ValidateHelloVerifyRequestResponse") && retErr("ValidateHelloVerifyRequestResponse", 0) == nil
//@ ensures first-hello-is-the-reference: !old(cfg.InsecureSkipHelloVerify) && result0 == Flight4 ==> sameRef(VARG(0), state.RemoteClientHelloSnapshots.Initial())
//@ ensures latest-hello-is-validated: !old(cfg.InsecureSkipHelloVerify) && result0 == Flight4 ==> sameRef(VARG(1), state.RemoteClientHelloSnapshots.Current())
//@ ensures reference-is-the-recorded-first-hello: !old(cfg.InsecureSkipHelloVerify) && result0 == Flight4 && old(state.RemoteClientHelloSnapshots.Initial().Valid()) ==> sameRef(VARG(0), old(state.RemoteClientHelloSnapshots.Initial()))
//@ ensures checked-against-issued-cookie: !old(cfg.InsecureSkipHelloVerify) && result0 == Flight4 ==> sameSlice(argBytes("ValidateHelloVerifyRequestResponse", 2), state.Cookie)
//@ end
