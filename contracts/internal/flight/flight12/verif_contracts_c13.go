//go:build verif

// C13 contracts for package flight12 (comment-only; read by /verif/vc).
package flight12

// RFC 6347 4.2.1 / 3.2.1: a HelloVerifyRequest (Flight2) is sent only in direct response to a
// ClientHello and is never put on the retransmission timer.

//@ func GetGenerator
//@ ensures cookie-request-not-retransmitted: f == Flight2 ==> !retransmit
//@ ensures cookie-request-has-generator: f == Flight2 ==> ok && gen != nil
//@ ensures known-flights: ok == (f >= Flight0 && f <= Flight6)
//@ ensures unknown-flight: !ok ==> gen == nil && !retransmit
//@ ensures awaiting-flights-retransmit: ok && f != Flight2 ==> retransmit
//@ end
