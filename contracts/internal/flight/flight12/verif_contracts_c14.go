//go:build verif

// C14 contracts for package flight12 (comment-only; read by /verif/vc).
package flight12

// Client, ServerHello (RFC 5246 7.3 / 7.4.1.3): the abbreviated handshake is taken only when the server
// echoed the non-empty session ID this client offered; otherwise the handshake is a full one, the
// stored master secret is forgotten and the stale store entry is removed.
// The client's resumption step is entered only for a session this client offered (a non-empty
// session ID that the ServerHello echoed byte for byte): precondition, proved at the call site in
// flight3Parse in the state in which the call is made.
//@ func handleResumption
//@ requires offered-session: len(state.SessionID) > 0
//@ end

//@ func flight3Parse
//@ watch HandshakeConfig.DelSession
//@ ensures resumed-outcome-is-the-finished-check: called("handleResumption!") ==> next == retAs("handleResumption!", 0, Flight5b) && err == retErr("handleResumption!", 2)
//@ ensures full-handshake-forgets-stored-secret: next == Flight5 && called("ciphersuite.ForID!") ==> len(state.MasterSecret) == 0
//@ ensures full-handshake-drops-offered-session: next == Flight5 && called("ciphersuite.ForID!") && old(cfg.HasSessionStore) && len(old(state.SessionID)) > 0 ==> called("HandshakeConfig.DelSession") && sameSlice(argBytes("HandshakeConfig.DelSession", 0), old(state.SessionID))
//@ end

// Server, ClientHello with a session ID (RFC 5246 7.3): the store is asked for exactly the offered ID;
// the abbreviated handshake is keyed from the secret the store returned for it (and from nothing
// else), with keys installed before Flight4b; when the store does not know the ID the stored secret
// of this connection is left alone and the full handshake goes on.
//@ func handleHelloResume
//@ watch HandshakeConfig.GetSession State12.InitCipherSuite
//@ ensures lookup-by-offered-id: called("HandshakeConfig.GetSession") ==> sameSlice(argBytes("HandshakeConfig.GetSession", 0), sessionID)
//@ ensures resumed-with-stored-secret: result0 == Flight4b && next != Flight4b ==> sameSlice(state.MasterSecret, retBytes("HandshakeConfig.GetSession", 1)) && sameSlice(state.SessionID, sessionID)
//@ ensures keys-from-stored-secret: result0 == Flight4b && next != Flight4b ==> called("State12.InitCipherSuite") && retErr("State12.InitCipherSuite", 0) == nil && calledBefore("HandshakeConfig.GetSession", "State12.InitCipherSuite")
//@ ensures not-resumed-keeps-secret: result0 == next && next != Flight4b && next != 0 ==> sameSlice(state.MasterSecret, old(state.MasterSecret)) && !called("State12.InitCipherSuite")
//@ ensures lookup-failure-is-fatal: called("HandshakeConfig.GetSession") && retErr("HandshakeConfig.GetSession", 2) != nil ==> result0 == 0 && result1 != nil && result1.Level == alert.Fatal
//@ end

// [NOT CLAIMED - seeded change C14/E is missed] "a session authenticated with a client certificate is never stored for
// resumption" (flight4Parse sets state.SessionID = nil when a Certificate is presented, and SetSession is guarded by
// len(state.SessionID) > 0): between the two points flight4Parse calls a dozen callees whose inferred write sets include the
// State12 fields, so the engine cannot carry "SessionID is still nil" to the guard. Needs frame clauses on those callees.

// "A resumed session yields fresh record keys (new randoms)": the server draws its hello random in every handshake it
// starts, whatever the hello-verification setting - a constant server random makes the key block of a resumed session a
// function of the client's random alone.
//@ func flight0Generate
//@ watch Random.Populate
//@ ensures server-random-always-drawn: result2 == nil ==> ncalls("Random.Populate") == 1
//@ ensures server-random-is-the-states: called("Random.Populate") ==> argAs("Random.Populate", 0, &state.Common.LocalRandom) == &state.Common.LocalRandom
//@ ensures draw-failure-aborts: called("Random.Populate") && retErr("Random.Populate", 0) != nil ==> result2 != nil
//@ end

// "... and then each verifies the other's Finished" (RFC 5246 7.3, figure 2): in the abbreviated handshake the server
// sends its Finished first (flight 4b) and must still receive and verify the client's Finished (flight 5b); so
// flight 4b is never a flight after whose transmission the handshake is complete. The only flights that end a
// handshake by being sent are the server's flight 6 (full handshake) and the client's flight 5b (abbreviated);
// the only flights that wait for the peer's last flight are the client's 5 and the server's 4b.
//@ func Flight.IsLastSendFlight
//@ ensures server-still-verifies-client-finished-after-4b: f == Flight4b ==> !result
//@ ensures only-the-closing-flights: result ==> f == Flight6 || f == Flight5b
//@ ensures closing-flights-end-the-handshake: f == Flight6 || f == Flight5b ==> result
//@ end

//@ func Flight.IsLastRecvFlight
//@ ensures waits-for-peer-finished: result == (f == Flight5 || f == Flight4b)
//@ end
