//go:build verif

// Contracts for package flight12: peer authentication gates (C03).
package flight12

//@ assume-pure CipherSuite.IsInitialized
//@ define certSuite(state) (old(state.CipherSuite.AuthenticationType()) == ciphersuite.AuthenticationTypeCertificate)

// Client side of the full handshake: keys are installed (CipherSuite.Init) only after, for certificate
// suites, the ServerKeyExchange signature verified under the leaf key over this handshake's randoms and
// ECDH parameters, the chain verified against the configured roots and server name (unless explicitly
// disabled), and the application's own verifier (if configured) accepted.
//@ func initializeCipherSuite
//@ watch VerifyKeySignature! VerifyServerCert! ValueKeyMessage! CipherSuite.Init! HandshakeConfig.VerifyPeerCertificate! HandshakeConfig.VerifyConnection!
//@ requires args: state != nil && cache != nil && cfg != nil && state.Common != nil && state.CipherSuite != nil && handshakeKeyExchange != nil
//@ ensures key-signature-verified: result1 == nil && !old(state.CipherSuite.IsInitialized()) && certSuite(state) ==> called("VerifyKeySignature!") && retErr("VerifyKeySignature!", 0) == nil
//@ ensures signature-over-this-handshake: called("VerifyKeySignature!") ==> sameSlice(argBytes("VerifyKeySignature!", 0), retBytes("ValueKeyMessage!", 0)) && sameSlice(argBytes("VerifyKeySignature!", 1), old(handshakeKeyExchange.Signature))
//@ ensures key-message-binds-parameters: called("ValueKeyMessage!") ==> sameSlice(argBytes("ValueKeyMessage!", 2), old(handshakeKeyExchange.PublicKey)) && argAs("ValueKeyMessage!", 3, old(handshakeKeyExchange.NamedCurve)) == old(handshakeKeyExchange.NamedCurve)
//@ ensures signature-by-presented-chain: called("VerifyKeySignature!") ==> sameSlice(argAs("VerifyKeySignature!", 4, state.PeerCertificates), old(state.PeerCertificates))
//@ ensures chain-verified: result1 == nil && !old(state.CipherSuite.IsInitialized()) && certSuite(state) && !old(cfg.InsecureSkipVerify) ==> called("VerifyServerCert!") && retErr("VerifyServerCert!", 1) == nil
//@ ensures chain-args: called("VerifyServerCert!") ==> sameSlice(argAs("VerifyServerCert!", 0, state.PeerCertificates), old(state.PeerCertificates)) && argAs("VerifyServerCert!", 1, old(cfg.RootCAs)) == old(cfg.RootCAs) && argAs("VerifyServerCert!", 2, old(cfg.ServerName)) == old(cfg.ServerName)
//@ ensures app-verifier-accepted: result1 == nil && called("HandshakeConfig.VerifyPeerCertificate!") ==> retErr("HandshakeConfig.VerifyPeerCertificate!", 0) == nil
//@ ensures app-verifier-consulted: result1 == nil && !old(state.CipherSuite.IsInitialized()) && certSuite(state) && old(cfg.VerifyPeerCertificate) != nil ==> called("HandshakeConfig.VerifyPeerCertificate!")
//@ ensures no-keys-before-verification: called("CipherSuite.Init!") && certSuite(state) ==> calledBefore("VerifyKeySignature!", "CipherSuite.Init!") && retErr("VerifyKeySignature!", 0) == nil
//@ ensures no-keys-before-chain: called("CipherSuite.Init!") && certSuite(state) && !old(cfg.InsecureSkipVerify) ==> calledBefore("VerifyServerCert!", "CipherSuite.Init!") && retErr("VerifyServerCert!", 1) == nil
//@ ensures failure-has-alert: result1 != nil ==> result0 != nil && result0.Level == alert.Fatal
//@ end
