//go:build verif

// Contracts for package flight12: peer authentication gates (C03).
package flight12

//@ assume-pure CipherSuite.IsInitialized
//@ define certSuite(state) (old(state.CipherSuite.AuthenticationType()) == ciphersuite.AuthenticationTypeCertificate)

// Client side of the full handshake: keys are installed (CipherSuite.Init) only after, for certificate
// suites, the ServerKeyExchange signature verified under the leaf key over this handshake's randoms and
// ECDH parameters, the chain verified against the configured roots and server name (unless explicitly
// disabled), and the application's own verifier (if configured) accepted.
//@ func initializeCipherSuite
//@ watch VerifyKeySignature! VerifyServerCert! ValueKeyMessage! CipherSuite.Init! HandshakeConfig.VerifyPeerCertificate! HandshakeConfig.VerifyConnection!
//@ requires args: state != nil && cache != nil && cfg != nil && state.Common != nil && state.CipherSuite != nil && handshakeKeyExchange != nil
//@ ensures key-signature-verified: result1 == nil && !old(state.CipherSuite.IsInitialized()) && certSuite(state) ==> called("VerifyKeySignature!") && retErr("VerifyKeySignature!", 0) == nil
//@ ensures signature-over-this-handshake: called("VerifyKeySignature!") ==> sameSlice(argBytes("VerifyKeySignature!", 0), retBytes("ValueKeyMessage!", 0)) && sameSlice(argBytes("VerifyKeySignature!", 1), old(handshakeKeyExchange.Signature))
//@ ensures key-message-binds-parameters: called("ValueKeyMessage!") ==> sameSlice(argBytes("ValueKeyMessage!", 2), old(handshakeKeyExchange.PublicKey)) && argAs("ValueKeyMessage!", 3, old(handshakeKeyExchange.NamedCurve)) == old(handshakeKeyExchange.NamedCurve)
// (Engine limit: stated for the return that follows a rejected signature. On the later returns the solvers
// do not find the witness index of the offered pair - `unknown`, flaky - although the same fact holds there:
// VerifyKeySignature is called at one place only, right after the scan of the offered pairs.)
//@ ensures scheme-pair-offered: called("VerifyKeySignature!") && retErr("VerifyKeySignature!", 0) != nil ==> exists(0, len(old(cfg.LocalSignatureSchemes)), func(i int) bool { return old(cfg.LocalSignatureSchemes[i].Hash) == old(handshakeKeyExchange.HashAlgorithm) && old(cfg.LocalSignatureSchemes[i].Signature) == old(handshakeKeyExchange.SignatureAlgorithm) })
//@ ensures signature-under-announced-scheme: called("VerifyKeySignature!") ==> argAs("VerifyKeySignature!", 2, handshakeKeyExchange.HashAlgorithm) == old(handshakeKeyExchange.HashAlgorithm) && argAs("VerifyKeySignature!", 3, handshakeKeyExchange.SignatureAlgorithm) == old(handshakeKeyExchange.SignatureAlgorithm)
//@ ensures signature-by-presented-chain: called("VerifyKeySignature!") ==> sameSlice(argAs("VerifyKeySignature!", 4, state.PeerCertificates), old(state.PeerCertificates))
//@ ensures chain-verified: result1 == nil && !old(state.CipherSuite.IsInitialized()) && certSuite(state) && !old(cfg.InsecureSkipVerify) ==> called("VerifyServerCert!") && retErr("VerifyServerCert!", 1) == nil
//@ ensures chain-args: called("VerifyServerCert!") ==> sameSlice(argAs("VerifyServerCert!", 0, state.PeerCertificates), old(state.PeerCertificates)) && argAs("VerifyServerCert!", 1, old(cfg.RootCAs)) == old(cfg.RootCAs) && argAs("VerifyServerCert!", 2, old(cfg.ServerName)) == old(cfg.ServerName)
//@ ensures app-verifier-accepted: result1 == nil && called("HandshakeConfig.VerifyPeerCertificate!") ==> retErr("HandshakeConfig.VerifyPeerCertificate!", 0) == nil
//@ ensures app-verifier-consulted: result1 == nil && !old(state.CipherSuite.IsInitialized()) && certSuite(state) && old(cfg.VerifyPeerCertificate) != nil ==> called("HandshakeConfig.VerifyPeerCertificate!")
//@ ensures no-keys-before-verification: called("CipherSuite.Init!") && certSuite(state) ==> calledBefore("VerifyKeySignature!", "CipherSuite.Init!") && retErr("VerifyKeySignature!", 0) == nil
//@ ensures no-keys-before-chain: called("CipherSuite.Init!") && certSuite(state) && !old(cfg.InsecureSkipVerify) ==> calledBefore("VerifyServerCert!", "CipherSuite.Init!") && retErr("VerifyServerCert!", 1) == nil
//@ ensures failure-has-alert: result1 != nil ==> result0 != nil && result0.Level == alert.Fatal
//@ end

//@ func handleServerKeyExchange
//@ requires args: state != nil && cfg != nil && keyExchangeMessage != nil && state.Common != nil
//@ ensures alert-is-fatal: result0 != nil ==> result0.Level == alert.Fatal && result1 != nil
//@ ensures success-has-no-alert: result1 == nil ==> result0 == nil
//@ ensures chain-untouched: sameSlice(state.PeerCertificates, old(state.PeerCertificates)) && sameRef(state.CipherSuite, old(state.CipherSuite))
//@ end

// Client, after ServerHello..ServerHelloDone: with a certificate cipher suite the handshake only moves
// on to flight 5 if the server presented a certificate chain (RFC 5246 7.4.2); a resumed session is
// accepted only through handleResumption (C14); a client that requires extended master secret never
// moves on without it (C11).
//@ func flight3Parse
//@ watch handleResumption! ciphersuite.ForID!
//@ requires args: state != nil && cache != nil && cfg != nil && state.Common != nil && conn != nil && cfg.Log != nil
//@ requires suites: forall(0, len(cfg.LocalCipherSuites), func(i int) bool { return cfg.LocalCipherSuites[i] != nil })
//@ ensures server-cert-mandatory: next == Flight5 && state.CipherSuite != nil && state.CipherSuite.AuthenticationType() == ciphersuite.AuthenticationTypeCertificate ==> typeIs(serverFlightPull.Messages[handshake.TypeCertificate], "*github.com/pion/dtls/v3/pkg/protocol/handshake.MessageCertificate")
//@ ensures resumption-only-via-finished-check: next == Flight5b ==> called("handleResumption!") && retAs("handleResumption!", 0, Flight5b) == Flight5b && retErr("handleResumption!", 2) == nil
//@ ensures ems-required: next == Flight5 && old(cfg.ExtendedMasterSecret) == dtlsconfig.RequireExtendedMasterSecret && called("ciphersuite.ForID!") ==> state.ExtendedMasterSecret
//@ ensures failure-is-fatal: dtlsAlert != nil ==> dtlsAlert.Level == alert.Fatal && next == 0
//@ end
