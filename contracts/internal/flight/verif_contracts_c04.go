//go:build verif

// Contracts for package flight (handshake cache): summarised, verified on their own.
package flight

//@ func Cache.FullPullMapItems
//@ noinline
//@ end

//@ func Cache.FullPullMapOneOfItems
//@ noinline
//@ end

//@ func Cache.PullAndMerge
//@ noinline
//@ end

//@ func Cache.SessionHash
//@ noinline
//@ end

//@ func CommitSRTP
//@ noinline
//@ end
