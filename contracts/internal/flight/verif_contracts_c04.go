//go:build verif

// Contracts for package flight (handshake cache): summarised, verified on their own.
package flight

//@ func Cache.FullPullMapItems
//@ noinline
//@ end

//@ func Cache.FullPullMapOneOfItems
//@ noinline
//@ end

//@ func Cache.PullAndMerge
//@ noinline
//@ end

//@ func Cache.SessionHash
//@ noinline
//@ end

//@ func CommitSRTP
//@ noinline
//@ end

// The transcript uses, for every rule, the LAST matching message (highest message sequence: the ClientHello that carries the
// cookie, not the first one). Inner loop: after k cache entries the candidate is at least as late as every matching entry seen.
//@ define PMATCH(c, r) (c.Typ == r.Typ && c.IsClient == r.IsClient && c.Epoch == r.Epoch)
//@ func Cache.Pull
//@ requires entries: forall(0, len(h.cache), func(k int) bool { return h.cache[k] != nil })
//@ ensures one-slot-per-rule: len(result) == len(rules)
//@ loop #1: slots: len(out) == len(rules) && sameSlice(h.cache, old(h.cache))
//@ loop #2: slots: len(out) == len(rules) && 0 <= i && i < len(rules) && sameSlice(h.cache, old(h.cache))
//@ loop #2: latest-so-far: forall(0, idx, func(k int) bool { return PMATCH(h.cache[k], r) ==> out[i] != nil && out[i].MessageSequence >= h.cache[k].MessageSequence })
//@ end
