//go:build verif

// C13 contracts for package flight13 (comment-only; read by /verif/vc).
package flight13

// RFC 9147 5.1: a HelloRetryRequest (Flight2) is stateless on the server side and is never
// retransmitted by a timer.

//@ func GetGenerator
//@ ensures cookie-request-not-retransmitted: f == Flight2 ==> !retransmit
//@ ensures cookie-request-has-generator: f == Flight2 ==> ok && gen != nil
//@ ensures known-flights: ok == (f >= Flight0 && f <= Flight5)
//@ ensures unknown-flight: !ok ==> gen == nil && !retransmit
//@ ensures awaiting-flights-retransmit: ok && f != Flight2 ==> retransmit
//@ end

// The session-store / cipher-suite callbacks are user code; assumed not to modify handshake state.
//@ assume-pure HandshakeConfig.CustomCipherSuites
//@ assume-pure handshakeContext.inboundHandshakeHandler

// Issuing the cookie (server start, RFC 9147 5.1): with hello verification on, a fresh 20-byte cookie
// filled by crypto/rand.Read; a failing random source aborts. (The second rand.Read is the server random.)

//@ func flight0Generate
//@ watch rand.Read
//@ requires args: flightCtx != nil && flightCtx.state != nil && flightCtx.state.Common != nil && flightCtx.cfg != nil
//@ ensures cookie-issued: !old(flightCtx.cfg.InsecureSkipHelloVerify) && result2 == nil ==> len(flightCtx.state.Cookie) == 20 && fresh(flightCtx.state.Cookie)
//@ ensures cookie-random: !old(flightCtx.cfg.InsecureSkipHelloVerify) ==> called("rand.Read") && (ncalls("rand.Read") == 1 ==> sameSlice(argBytes("rand.Read", 0), flightCtx.state.Cookie))
//@ ensures rand-failure-aborts: !old(flightCtx.cfg.InsecureSkipHelloVerify) && ncalls("rand.Read") == 1 && retErr("rand.Read", 1) != nil ==> result2 != nil
//@ ensures second-draw-is-the-server-random: !old(flightCtx.cfg.InsecureSkipHelloVerify) ==> ncalls("rand.Read") <= 2
//@ ensures sends-nothing: result0 == nil && result1 == nil
//@ end

// Server start (Flight0): with hello verification enabled the only answer to a first ClientHello is the
// HelloRetryRequest flight (Flight2), never the ServerHello flight (Flight4).

//@ func flight0Parse
//@ watch ClientHelloSnapshots.Reset! ClientHelloSnapshots.RecordWire!
//@ requires args: flightCtx != nil && flightCtx.state != nil && flightCtx.state.Common != nil && flightCtx.cache != nil && flightCtx.cfg != nil && flightCtx.cfg.Log != nil
//@ requires suites: forall(0, len(flightCtx.cfg.LocalCipherSuites), func(i int) bool { return !isNil(flightCtx.cfg.LocalCipherSuites[i]) })
//@ loop cipherSuites: offered-non-nil: forall(0, len(cipherSuites), func(k int) bool { return !isNil(cipherSuites[k]) })
//@ loop cipherSuites: offered-fresh: fresh(cipherSuites)
//@ loop cipherSuites: local-kept: forall(0, len(cfg.LocalCipherSuites), func(i int) bool { return !isNil(cfg.LocalCipherSuites[i]) })
//@ ensures cookie-first: !old(flightCtx.cfg.InsecureSkipHelloVerify) ==> result0 == 0 || result0 == Flight2
//@ ensures outcomes: result0 == 0 || result0 == Flight2 || result0 == Flight4
//@ ensures first-hello-recorded-afresh: always("ClientHelloSnapshots.RecordWire!", "called(\"ClientHelloSnapshots.Reset!\")")
//@ ensures first-hello-recorded-once: result0 != 0 ==> ncalls("ClientHelloSnapshots.RecordWire!") == 1 && retErr("ClientHelloSnapshots.RecordWire!", 0) == nil
//@ end

// Retry check (Flight2): the server moves on to the ServerHello flight (Flight4) only after
// ValidateClientHelloRetry accepted the second ClientHello against the first one and the
// HelloRetryRequest (cookie, selected group) that this server sent.

//@ define VARG13(k) argAs("ValidateClientHelloRetry!", k, negotiation.ClientHelloSnapshot{})

// Extension processing, key-share computation and the inbound-handshake hook are separate steps; the retry
// gate only depends on their failing or not, so they are opaque here (results unknown, inferred write sets).
//@ func processClientHelloExtensions
//@ noinline
//@ end

//@ func generateClientKeyShareSecret
//@ noinline
//@ end

//@ func selectClientKeyShare
//@ noinline
//@ end

//@ func matchingClientKeyShare
//@ noinline
//@ end

//@ func handshakeContext.handleInboundHandshake
//@ noinline
//@ end

//@ func flight2Parse
//@ watch ValidateClientHelloRetry!
//@ requires args: flightCtx != nil && flightCtx.state != nil && flightCtx.state.Common != nil && flightCtx.cache != nil && flightCtx.cfg != nil && flightCtx.cfg.Log != nil
//@ ensures outcomes: result0 == 0 || result0 == Flight4
//@ ensures retry-verified: result0 == Flight4 ==> called("ValidateClientHelloRetry!") && retErr("ValidateClientHelloRetry!", 0) == nil
//@ ensures first-hello-is-the-reference: result0 == Flight4 ==> sameRef(VARG13(0), flightCtx.state.RemoteClientHelloSnapshots.Initial())
//@ ensures latest-hello-is-validated: result0 == Flight4 ==> sameRef(VARG13(1), flightCtx.state.RemoteClientHelloSnapshots.Current())
//@ ensures reference-is-the-recorded-first-hello: result0 == Flight4 && old(flightCtx.state.RemoteClientHelloSnapshots.Initial().Valid()) ==> sameRef(VARG13(0), old(flightCtx.state.RemoteClientHelloSnapshots.Initial()))
//@ ensures checked-against-the-sent-request: result0 == Flight4 ==> sameRef(argAs("ValidateClientHelloRetry!", 2, negotiation.RetryRequest{}), old(flightCtx.state.HelloRetryRequest))
//@ end
