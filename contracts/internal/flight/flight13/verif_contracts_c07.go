//go:build verif

// C07: DTLS 1.3 handshake messages after ServerHello are built as packets that request record
// protection at the handshake epoch (RFC 9147 5.1/6.1: epoch 2). Comment-only; read by /verif/vc.
package flight13

//@ func HandshakePacket
//@ ensures protected: result != nil && result.ShouldEncrypt
//@ ensures handshake-epoch: result.Record != nil && result.Record.Header.Epoch == 2
//@ ensures carries-message: typeIs(result.Record.Content, "*github.com/pion/dtls/v3/pkg/protocol/handshake.Handshake") && sameRef(result.Record.Content.(*handshake.Handshake).Message, message)
//@ ensures fresh-packet: fresh(result) && fresh(result.Record)
//@ end

//@ func CertificateVerifyPacket
//@ ensures protected: result != nil && result.ShouldEncrypt
//@ ensures handshake-epoch: result.Record != nil && result.Record.Header.Epoch == 2
//@ end
