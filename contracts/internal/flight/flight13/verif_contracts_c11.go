//go:build verif

// C11 (DTLS 1.3): the CertificateVerify signature scheme is chosen among the schemes BOTH sides allow.
package flight13

//@ func flight4Generate
//@ watch slices.Contains SelectSignatureScheme13
//@ ensures scheme-filtered-by-own-policy: always("slices.Contains", "sameSlice(argAs(\"slices.Contains\", 0, cfg.LocalSignatureSchemes), cfg.LocalSignatureSchemes)")
//@ end
