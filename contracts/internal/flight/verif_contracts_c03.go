//go:build verif

// C03 support for package flight (comment-only; read by /verif/vc).
package flight

// Assumption (trusted, not verified here): an entry of the Messages map returned by the handshake
// cache is a message decoded by handshake.Handshake.Unmarshal, i.e. a non-nil pointer to a freshly
// allocated message struct - never a typed nil (decodeHandshakeItem stores what Unmarshal built).
// The flight parsers rely on this when they dereference `pull.Messages[T].(*handshake.MessageX)`.
// Stated per message type (ground facts; a forallKey over the map slows every caller down).
//@ define DECODED(m, t) (isNil(m[t]) || nonNilPayload(m[t]))

//@ func Cache.FullPullMapItems
//@ trusted
//@ ensures messages-decoded: DECODED(result.Messages, handshake.TypeClientHello) && DECODED(result.Messages, handshake.TypeCertificate) && DECODED(result.Messages, handshake.TypeServerKeyExchange) && DECODED(result.Messages, handshake.TypeCertificateRequest) && DECODED(result.Messages, handshake.TypeFinished)
//@ end

//@ func Cache.FullPullMapOneOfItems
//@ trusted
//@ ensures messages-decoded: DECODED(result.Messages, handshake.TypeHelloVerifyRequest) && DECODED(result.Messages, handshake.TypeServerHello)
//@ end

// server_name offer: the configured name unless it is an IP address literal (then nothing is offered).
//@ func SNIServerName
//@ watch net.ParseIP
//@ ensures ip-literal-not-offered: called("net.ParseIP") && len(retAs("net.ParseIP", 0, net.IP{})) != 0 ==> result == ""
//@ ensures name-offered-unaltered: called("net.ParseIP") && retAs("net.ParseIP", 0, net.IP{}) == nil ==> result == serverName
//@ ensures parsed-the-name: called("net.ParseIP") && argAs("net.ParseIP", 0, serverName) == serverName
//@ end
