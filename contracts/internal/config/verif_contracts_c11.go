//go:build verif

// C11 contracts for package config (comment-only; read by /verif/vc).
package config

// DTLS versions have the major byte 254 and encode newer versions as numerically smaller minor bytes
// (RFC 6347 4.1: 1.2 = fe fd, RFC 9147 5.3: 1.3 = fe fc). For a local range [minVersion, maxVersion] of
// DTLS versions (dtlsRange) a version v is inside the range iff it is a DTLS version and
// maxVersion.Minor <= v.Minor <= minVersion.Minor. An entry with another major byte is never in range.

//@ define dtlsRange() (minVersion.Major == 254 && maxVersion.Major == 254)
//@ define inRange(v) (v.Major == 254 && v.Minor <= minVersion.Minor && v.Minor >= maxVersion.Minor)

//@ func versionAtLeast
//@ inline
//@ ensures def: minVersion.Major == 254 ==> result == (version.Major == 254 && version.Minor <= minVersion.Minor)
//@ end

//@ func versionAtMost
//@ inline
//@ ensures def: maxVersion.Major == 254 ==> result == (version.Major == 254 && version.Minor >= maxVersion.Minor)
//@ end

// SelectVersion: remote is the peer's list in the peer's preference order. The result is the first
// entry of remote inside the local range; when remote is newest-first (what SupportedVersionsRange
// emits, see its newest-first clause) that is the highest version both sides allow.

//@ define newestFirst(s) forall(0, len(s), func(i int) bool { return forall(i, len(s), func(j int) bool { return s[i].Minor <= s[j].Minor }) })

//@ func SelectVersion
//@ ensures member: result1 ==> exists(0, len(remote), func(i int) bool { return remote[i].Major == result0.Major && remote[i].Minor == result0.Minor })
//@ ensures in-local-range: result1 && dtlsRange() ==> inRange(result0)
//@ ensures first-acceptable: result1 && dtlsRange() ==> exists(0, len(remote), func(i int) bool { return remote[i].Major == result0.Major && remote[i].Minor == result0.Minor &&
//@    forall(0, i, func(k int) bool { return !inRange(remote[k]) }) })
//@ ensures highest-common: result1 && dtlsRange() && newestFirst(remote) ==> forall(0, len(remote), func(i int) bool { return inRange(remote[i]) ==> result0.Minor <= remote[i].Minor })
//@ ensures fails-iff-disjoint: !result1 && dtlsRange() ==> forall(0, len(remote), func(i int) bool { return !inRange(remote[i]) })
//@ ensures zero-on-failure: !result1 ==> result0.Major == 0 && result0.Minor == 0
//@ ensures input-kept: forall(0, len(remote), func(i int) bool { return remote[i].Minor == old(remote[i].Minor) && remote[i].Major == old(remote[i].Major) })
//@ loop #1: scanned: dtlsRange() ==> forall(0, idx, func(i int) bool { return !inRange(remote[i]) })
// A selected version is a DTLS version the local side supports: DTLS versions have Major 254 (RFC 6347 4.1:
// {254, 253}, RFC 9147 5.3: {254, 252}); an entry of the peer's list with another major byte is not a
// version inside the local range whatever its minor byte is. (Refuted before fix 3f69c6d: the comparison
// looked at the minor byte only.)
//@ ensures selected-is-a-dtls-version: result1 && minVersion.Major == 254 && maxVersion.Major == 254 ==> result0.Major == 254
//@ end

// Only DTLS 1.2 (fe fd) and DTLS 1.3 (fe fc) exist for this library.

//@ define is12(v) (v.Major == 254 && v.Minor == 253)
//@ define is13(v) (v.Major == 254 && v.Minor == 252)

//@ func NormalizeProtocolVersionRange
//@ ensures min-supported: is12(result0) || is13(result0)
//@ ensures max-supported: is12(result1) || is13(result1)
//@ ensures min-13-iff: is13(result0) == is13(minVersion)
//@ ensures max-13-iff: is13(result1) == is13(maxVersion)
//@ end

// SupportedVersionsRange: exactly the supported versions inside [minVersion, maxVersion], newest first.

//@ func SupportedVersionsRange
//@ ensures at-most-two: len(result) <= 2
//@ ensures supported-and-in-range: forall(0, len(result), func(k int) bool { return (is12(result[k]) || is13(result[k])) && (dtlsRange() ==> inRange(result[k])) })
//@ ensures nothing-outside-a-dtls-range: !dtlsRange() ==> len(result) == 0
//@ ensures newest-first: forall(0, len(result), func(i int) bool { return forall(i+1, len(result), func(j int) bool { return result[i].Minor < result[j].Minor }) })
//@ ensures has-13: dtlsRange() && 252 <= minVersion.Minor && 252 >= maxVersion.Minor ==> len(result) >= 1 && is13(result[0])
//@ ensures has-12: dtlsRange() && 253 <= minVersion.Minor && 253 >= maxVersion.Minor ==> exists(0, len(result), func(k int) bool { return is12(result[k]) })
//@ loop #1: progress: len(out) <= idx && cap(out) == 2 && len(ordered) == 2
//@ loop #1: ordered-kept: is13(ordered[0]) && is12(ordered[1])
//@ loop #1: out-fresh: disjoint(out, ordered) && offsetOf(ordered) == 0 && offsetOf(out) == 0
//@ loop #1: supported-and-in-range: forall(0, len(out), func(k int) bool { return (is12(out[k]) || is13(out[k])) && (dtlsRange() ==> inRange(out[k])) })
//@ loop #1: nothing-outside-a-dtls-range: !dtlsRange() ==> len(out) == 0
//@ loop #1: only-13-so-far: idx <= 1 ==> forall(0, len(out), func(k int) bool { return is13(out[k]) })
//@ loop #1: newest-first: forall(0, len(out), func(i int) bool { return forall(i+1, len(out), func(j int) bool { return out[i].Minor < out[j].Minor }) })
//@ loop #1: has-13: dtlsRange() && idx >= 1 && 252 <= minVersion.Minor && 252 >= maxVersion.Minor ==> len(out) >= 1 && is13(out[0])
//@ loop #1: has-12: dtlsRange() && idx >= 2 && 253 <= minVersion.Minor && 253 >= maxVersion.Minor ==> exists(0, len(out), func(k int) bool { return is12(out[k]) })
//@ end
