//go:build verif

// C15 (connection-ID routing at the listener): contracts for package udp (comment-only; read by /verif/vc).
package udp

// RFC 9146 6: "a listener routes such datagrams to the owning connection whatever their source address".
// With a datagram router configured (connection IDs in use) every datagram is first offered to the router;
// when the router extracts an identifier that names a live connection, that connection receives the
// datagram - the source address is consulted only when the router yields nothing.

// The router and the accept filter are caller-supplied pure functions of the datagram.
//@ assume-pure listener.datagramRouter
//@ assume-pure listener.acceptFilter

//@ define ROUTED() (called("listener.datagramRouter") && retBool("listener.datagramRouter", 1))
//@ define RID() retAs("listener.datagramRouter", 0, "")

//@ func listener.getConn
//@ watch listener.datagramRouter listener.acceptFilter listener.newPacketConn
//@ requires args: l != nil && l.conns != nil && raddr != nil
//@ ensures router-always-consulted: l.datagramRouter != nil ==> called("listener.datagramRouter")
//@ ensures router-sees-the-datagram: called("listener.datagramRouter") ==> sameSlice(argBytes("listener.datagramRouter", 0), buf)
//@ ensures router-consulted-once: ncalls("listener.datagramRouter") <= 1
//@ ensures routed-by-id-whatever-the-source: ROUTED() && old(hasKey(l.conns, RID())) ==> result1 && result2 == nil && result0 == old(l.conns[RID()])
//@ ensures id-route-creates-nothing: ROUTED() && old(hasKey(l.conns, RID())) ==> !called("listener.newPacketConn") && len(l.conns) == old(len(l.conns))
//@ ensures no-router-no-consult: l.datagramRouter == nil ==> !called("listener.datagramRouter")
//@ ensures unlocked: !held("listener.connLock")
//@ end

// The identifier under which getConn finds a connection is registered by the connection's own first outgoing
// datagram that carries one (the ServerHello with the connection_id extension): the map entry for that identifier
// is this connection, and an identifier is established at most once.
//@ assume-pure listener.connIdentifier

//@ func PacketConn.WriteTo
//@ watch listener.connIdentifier
//@ requires args: c != nil && c.listener != nil && c.listener.conns != nil && c.listener.pConn != nil && c.writeDeadline != nil && addr != nil && c.raddr != nil
//@ ensures identifier-sees-the-datagram: called("listener.connIdentifier") ==> sameSlice(argBytes("listener.connIdentifier", 0), payload)
// (engine limit: the final (*net.UDPConn).WriteTo is an unmodelled library call that havocs the whole heap, so
// "conns[id] == c after WriteTo" cannot be stated as a postcondition; only the call events are.)
//@ ensures identifier-consulted-at-most-once: ncalls("listener.connIdentifier") <= 1
//@ ensures unlocked: !held("listener.connLock")
//@ end
