//go:build verif

// C12 / C08 contracts for package fragmentbuffer (comment-only; read by /verif/vc).
package fragmentbuffer

// Representation invariant: the cache and every per-sequence offset map exist, and no stored
// entry is nil.

//@ define wfmaps(f) (f.cache != nil && forallU16(func(s uint16) bool { return hasKey(f.cache, s) ==> f.cache[s] != nil && f.cache[s].fragmentByOffset != nil }))
//@ define wffrags(f) forallU16(func(s uint16) bool { return hasKey(f.cache, s) ==> forallU32(func(o uint32) bool { return hasKey(f.cache[s].fragmentByOffset, o) ==> allocated(f.cache[s].fragmentByOffset[o]) && allocated(&f.cache[s].fragmentByOffset[o].data) }) })
//@ define wfkeys(f) forallU16(func(s uint16) bool { return hasKey(f.cache, s) ==> s >= f.currentMessageSequenceNumber })
//@ define FRAG(f, s, o) f.cache[s].fragmentByOffset[o]
//@ define wfdata(f) forallU16(func(s uint16) bool { return hasKey(f.cache, s) ==> forallU32(func(o uint32) bool { return hasKey(f.cache[s].fragmentByOffset, o) ==>
//@     FRAG(f, s, o).handshakeHeader.FragmentOffset == o && o <= 0xFFFFFF && FRAG(f, s, o).handshakeHeader.FragmentLength <= 0xFFFFFF && FRAG(f, s, o).handshakeHeader.Length <= 0xFFFFFF && len(FRAG(f, s, o).data) == int(FRAG(f, s, o).handshakeHeader.FragmentLength) }) })
//@ define wf(f) (f != nil && wfmaps(f) && wffrags(f))
//@ define wf2(f) (wfkeys(f) && wfdata(f))
// Buffering limits (C08): fragmentBufferMaxSize = 2000000 bytes, fragmentBufferMaxCount = 1000 fragments; one more datagram
// (at most 8192 bytes, i.e. at most 682 fragments) may be accepted below the limit.
//@ define capwf(f) (0 <= f.totalBufferSize && f.totalBufferSize < fragmentBufferMaxSize + 8192 && 0 <= f.totalFragmentCount && f.totalFragmentCount < fragmentBufferMaxCount + 683)

//@ func New
//@ ensures wf: wf(result)
//@ ensures empty: len(result.cache) == 0 && result.currentMessageSequenceNumber == 0 && result.totalBufferSize == 0 && result.totalFragmentCount == 0
//@ end

// Pop surfaces a message only when an entry for the current sequence number exists, the stored
// fragment lengths add up to the message length and a fragment at offset 0 exists; it then removes
// exactly that entry and advances the cursor by exactly one (so a message is surfaced at most once and
// in sequence order). A nil result changes nothing.

//@ define CUR(f) f.currentMessageSequenceNumber
//@ define ENTRY(f) f.cache[f.currentMessageSequenceNumber]
//@ define U24(s, i) (uint32(s[i])<<16 | uint32(s[(i)+1])<<8 | uint32(s[(i)+2]))

//@ func FragmentBuffer.Pop
//@ invariant wf: wf(f)
//@ invariant wf-keys: wfkeys(f)
//@ invariant wf-data: wfdata(f)
//@ ensures absent-gives-nil: !old(hasKey(f.cache, CUR(f))) ==> content == nil
//@ ensures incomplete-gives-nil: old(hasKey(f.cache, CUR(f))) && old(ENTRY(f).fragmentsLength != ENTRY(f).handshakeLength) ==> content == nil
//@ ensures no-first-fragment-gives-nil: old(hasKey(f.cache, CUR(f))) && !old(hasKey(ENTRY(f).fragmentByOffset, 0)) ==> content == nil
//@ ensures nil-changes-nothing: content == nil ==> epoch == 0 && CUR(f) == old(CUR(f)) && f.totalBufferSize == old(f.totalBufferSize) && f.totalFragmentCount == old(f.totalFragmentCount)
//@     && sameRef(f.cache, old(f.cache)) && len(f.cache) == old(len(f.cache))
//@ ensures nil-keeps-entries: content == nil ==> forallU16(func(s uint16) bool { return hasKey(f.cache, s) == old(hasKey(f.cache, s)) && f.cache[s] == old(f.cache[s]) })
//@ ensures success-advances-by-one: content != nil ==> CUR(f) == old(CUR(f)) + 1
//@ ensures success-removes-entry: content != nil ==> old(hasKey(f.cache, CUR(f))) && !hasKey(f.cache, old(CUR(f))) && len(f.cache) == old(len(f.cache)) - 1
//@ ensures success-keeps-others: content != nil ==> forallU16(func(s uint16) bool { return s != old(CUR(f)) ==> hasKey(f.cache, s) == old(hasKey(f.cache, s)) && f.cache[s] == old(f.cache[s]) })
//@ ensures success-was-complete: content != nil ==> old(ENTRY(f).fragmentsLength == ENTRY(f).handshakeLength) && old(hasKey(ENTRY(f).fragmentByOffset, 0))
//@ ensures success-size: content != nil ==> len(content) == 12 + int(old(ENTRY(f).handshakeLength))
//@ ensures success-releases-budget: content != nil ==> f.totalBufferSize == old(f.totalBufferSize) - int(old(ENTRY(f).fragmentsLength))
//@     && f.totalFragmentCount == old(f.totalFragmentCount) - old(len(ENTRY(f).fragmentByOffset))
//@ ensures success-header: content != nil ==> content[0] == byte(old(ENTRY(f).fragmentByOffset[0].handshakeHeader.Type))
//@     && U24(content, 1) == old(ENTRY(f).fragmentByOffset[0].handshakeHeader.Length) & 0xFFFFFF
//@     && content[4] == byte(old(ENTRY(f).fragmentByOffset[0].handshakeHeader.MessageSequence) >> 8) && content[5] == byte(old(ENTRY(f).fragmentByOffset[0].handshakeHeader.MessageSequence))
//@     && U24(content, 6) == 0 && U24(content, 9) == U24(content, 1)
//@ ensures success-epoch: content != nil ==> epoch == old(ENTRY(f).fragmentByOffset[0].recordLayerHeader.Epoch)
//@ ensures nothing-below-cursor: forallU16(func(s uint16) bool { return s < CUR(f) && CUR(f) != 0 ==> !hasKey(f.cache, s) })
//@ end

// Receiving fragments. A fragment whose message sequence is below the delivery cursor belongs to an
// already delivered message: it is reported as a retransmission and nothing is stored for it (no entry
// below the cursor ever exists). The cursor does not move. Stored fragments are never replaced
// (duplicates are ignored). Buffering accounting: the byte and fragment counters grow by at most what the
// datagram carries.

//@ define SEQ(b) (uint16(b[4])<<8 | uint16(b[5]))

// A datagram of 12..23 bytes carries exactly one fragment (SHORT: every fragment takes at least its 12-byte header;
// S0/O0/L0 are its sequence, offset and length fields as received), and DUP says whether the (sequence, offset) of its first fragment was
// already stored when the call started (DUP). A fragment that is already buffered is ignored: it changes neither the
// per-message byte counter (which Pop compares with the message length) nor the buffer-wide byte/fragment counters
// (which Pop/AdvanceTo decrease by what is stored); a new fragment is counted exactly once.
//@ define FOFF(b) U24(b, 6)
//@ define FLEN(b) U24(b, 9)
//@ define SHORT(b) (len(b) >= 12 && len(b) < 24)
//@ define S0(b) old(SEQ(b))
//@ define O0(b) old(FOFF(b))
//@ define L0(b) old(FLEN(b))
//@ define DUP(f, b) old(hasKey(f.cache, SEQ(b)) && hasKey(f.cache[SEQ(b)].fragmentByOffset, FOFF(b)))

//@ func FragmentBuffer.pushHandshakeFragments
//@ requires wf: wf(f)
//@ requires wf-keys: wfkeys(f)
//@ requires wf-data: wfdata(f)
//@ requires counters-in-range: 0 <= f.totalBufferSize && f.totalBufferSize <= fragmentBufferMaxSize && 0 <= f.totalFragmentCount && f.totalFragmentCount <= fragmentBufferMaxCount
//@ ensures wf: wf(f)
//@ ensures wf-keys: wfkeys(f)
//@ ensures wf-data: wfdata(f)
//@ ensures cursor-kept: CUR(f) == old(CUR(f))
//@ ensures nothing-below-cursor: forallU16(func(s uint16) bool { return s < CUR(f) ==> !hasKey(f.cache, s) })
//@ ensures old-message-is-retransmit: err == nil && len(buf) >= 12 && SEQ(buf) < old(CUR(f)) ==> isRetransmit
//@ ensures ok-is-handshake: err == nil ==> isHandshake
//@ ensures bytes-monotone: f.totalBufferSize >= old(f.totalBufferSize)
//@ ensures bytes-accounted: f.totalBufferSize <= old(f.totalBufferSize) + len(buf)
//@ ensures count-accounted: f.totalFragmentCount >= old(f.totalFragmentCount) && f.totalFragmentCount - old(f.totalFragmentCount) <= len(buf) && 12*(f.totalFragmentCount - old(f.totalFragmentCount)) <= len(buf)
//@ ensures single-duplicate-not-counted: err == nil && SHORT(buf) && DUP(f, buf) ==> f.totalFragmentCount == old(f.totalFragmentCount) && f.totalBufferSize == old(f.totalBufferSize)
//@ ensures single-duplicate-length-kept: err == nil && SHORT(buf) && DUP(f, buf) ==> f.cache[S0(buf)] == old(f.cache[SEQ(buf)]) && f.cache[S0(buf)].fragmentsLength == old(f.cache[SEQ(buf)].fragmentsLength)
//@ ensures single-new-fragment-counted: err == nil && SHORT(buf) && S0(buf) >= old(CUR(f)) && !DUP(f, buf) ==> f.totalFragmentCount == old(f.totalFragmentCount) + 1 && f.totalBufferSize == old(f.totalBufferSize) + int(L0(buf))
//@ ensures single-new-fragment-length: err == nil && SHORT(buf) && S0(buf) >= old(CUR(f)) && !DUP(f, buf) ==> hasKey(f.cache, S0(buf)) && (old(hasKey(f.cache, SEQ(buf))) ==> f.cache[S0(buf)] == old(f.cache[SEQ(buf)]) && f.cache[S0(buf)].fragmentsLength == old(f.cache[SEQ(buf)].fragmentsLength) + L0(buf))
//@     && (!old(hasKey(f.cache, SEQ(buf))) ==> f.cache[S0(buf)].fragmentsLength == L0(buf) && f.cache[S0(buf)].handshakeLength == old(U24(buf, 1)))
//@ ensures single-new-fragment-stored: err == nil && SHORT(buf) && S0(buf) >= old(CUR(f)) && !DUP(f, buf) ==> hasKey(f.cache[S0(buf)].fragmentByOffset, O0(buf))
//@     && len(FRAG(f, S0(buf), O0(buf)).data) == int(L0(buf)) && forall(0, len(FRAG(f, S0(buf), O0(buf)).data), func(i int) bool { return FRAG(f, S0(buf), O0(buf)).data[i] == buf[12+i] })
//@     && FRAG(f, S0(buf), O0(buf)).recordLayerHeader.Epoch == recordLayerHeader.Epoch
//@ loop #1: cursor-kept: CUR(f) == old(CUR(f))
//@ loop #1: consumed: sameArray(buf, old(buf)) && offsetOf(buf) >= offsetOf(old(buf)) && offsetOf(buf) + len(buf) == offsetOf(old(buf)) + len(old(buf))
//@ loop #1: first-seen: offsetOf(buf) > offsetOf(old(buf)) && len(old(buf)) >= 12 && SEQ(old(buf)) < CUR(f) ==> isRetransmit
//@ loop #1: bytes-monotone: f.totalBufferSize >= old(f.totalBufferSize)
//@ loop #1: bytes-bounded: f.totalBufferSize <= old(f.totalBufferSize) + len(old(buf)) && len(buf) <= len(old(buf))
//@ loop #1: bytes-accounted: f.totalBufferSize + len(buf) <= old(f.totalBufferSize) + len(old(buf))
//@ loop #1: count-monotone: f.totalFragmentCount >= old(f.totalFragmentCount)
//@ loop #1: count-bounded: f.totalFragmentCount - old(f.totalFragmentCount) <= len(old(buf))
//@ loop #1: short-datagram: offsetOf(buf) != offsetOf(old(buf)) && len(old(buf)) < 24 ==> len(buf) < 12
//@ loop #1: untouched-before-first: offsetOf(buf) == offsetOf(old(buf)) ==> f.totalFragmentCount == old(f.totalFragmentCount) && f.totalBufferSize == old(f.totalBufferSize)
//@     && (len(old(buf)) >= 12 ==> SEQ(old(buf)) == S0(buf) && FOFF(old(buf)) == O0(buf) && FLEN(old(buf)) == L0(buf) && U24(old(buf), 1) == old(U24(buf, 1)))
//@     && hasKey(f.cache, S0(buf)) == old(hasKey(f.cache, SEQ(buf))) && f.cache[S0(buf)] == old(f.cache[SEQ(buf)])
//@     && (hasKey(f.cache, S0(buf)) ==> f.cache[S0(buf)].fragmentsLength == old(f.cache[SEQ(buf)].fragmentsLength)
//@         && hasKey(f.cache[S0(buf)].fragmentByOffset, O0(buf)) == old(hasKey(f.cache[SEQ(buf)].fragmentByOffset, FOFF(buf))))
//@ loop #1: first-duplicate-not-counted: len(old(buf)) < 24 && offsetOf(buf) != offsetOf(old(buf)) && DUP(f, buf) ==> f.totalFragmentCount == old(f.totalFragmentCount) && f.totalBufferSize == old(f.totalBufferSize)
//@ loop #1: first-duplicate-length-kept: len(old(buf)) < 24 && offsetOf(buf) != offsetOf(old(buf)) && DUP(f, buf) ==> f.cache[S0(buf)] == old(f.cache[SEQ(buf)]) && f.cache[S0(buf)].fragmentsLength == old(f.cache[SEQ(buf)].fragmentsLength)
//@ loop #1: first-new-counted: len(old(buf)) < 24 && offsetOf(buf) != offsetOf(old(buf)) && S0(buf) >= CUR(f) && !DUP(f, buf) ==> f.totalFragmentCount == old(f.totalFragmentCount) + 1 && f.totalBufferSize == old(f.totalBufferSize) + int(L0(buf))
//@ loop #1: first-new-length: len(old(buf)) < 24 && offsetOf(buf) != offsetOf(old(buf)) && S0(buf) >= CUR(f) && !DUP(f, buf) ==> hasKey(f.cache, S0(buf)) && (old(hasKey(f.cache, SEQ(buf))) ==> f.cache[S0(buf)] == old(f.cache[SEQ(buf)]) && f.cache[S0(buf)].fragmentsLength == old(f.cache[SEQ(buf)].fragmentsLength) + L0(buf))
//@     && (!old(hasKey(f.cache, SEQ(buf))) ==> f.cache[S0(buf)].fragmentsLength == L0(buf) && f.cache[S0(buf)].handshakeLength == old(U24(buf, 1)))
//@ loop #1: first-new-stored: len(old(buf)) < 24 && offsetOf(buf) != offsetOf(old(buf)) && S0(buf) >= CUR(f) && !DUP(f, buf) ==> hasKey(f.cache[S0(buf)].fragmentByOffset, O0(buf))
//@     && len(FRAG(f, S0(buf), O0(buf)).data) == int(L0(buf)) && forall(0, len(FRAG(f, S0(buf), O0(buf)).data), func(i int) bool { return FRAG(f, S0(buf), O0(buf)).data[i] == old(buf)[12+i] })
//@     && FRAG(f, S0(buf), O0(buf)).recordLayerHeader.Epoch == recordLayerHeader.Epoch
//@ loop #1: count-accounted: 12*f.totalFragmentCount + len(buf) <= 12*old(f.totalFragmentCount) + len(old(buf))
//@ loop #1: wf: wf(f)
//@ loop #1: wf-keys: wfkeys(f)
//@ loop #1: wf-data: wfdata(f)
//@ end

//@ func FragmentBuffer.Push
//@ invariant wf: wf(f)
//@ invariant wf-keys: wfkeys(f)
//@ invariant wf-data: wfdata(f)
//@ invariant within-limits: capwf(f)
//@ requires datagram-size: len(buf) <= 8192
//@ ensures cursor-kept: CUR(f) == old(CUR(f))
//@ ensures nothing-below-cursor: forallU16(func(s uint16) bool { return s < CUR(f) ==> !hasKey(f.cache, s) })
//@ ensures over-limit-refused: old(f.totalBufferSize) + len(buf) >= fragmentBufferMaxSize || old(f.totalFragmentCount) >= fragmentBufferMaxCount ==> err != nil && !isHandshake
//@ ensures over-limit-changes-nothing: old(f.totalBufferSize) + len(buf) >= fragmentBufferMaxSize || old(f.totalFragmentCount) >= fragmentBufferMaxCount ==> f.totalBufferSize == old(f.totalBufferSize) && f.totalFragmentCount == old(f.totalFragmentCount) && len(f.cache) == old(len(f.cache))
//@ ensures not-handshake-changes-nothing: err == nil && !isHandshake ==> f.totalBufferSize == old(f.totalBufferSize) && f.totalFragmentCount == old(f.totalFragmentCount) && len(f.cache) == old(len(f.cache))
//@ ensures bytes-bounded: f.totalBufferSize >= old(f.totalBufferSize) && (f.totalBufferSize == old(f.totalBufferSize) || f.totalBufferSize < fragmentBufferMaxSize)
//@ ensures count-bounded: f.totalFragmentCount >= old(f.totalFragmentCount) && (f.totalFragmentCount == old(f.totalFragmentCount) || old(f.totalFragmentCount) < fragmentBufferMaxCount)
//@     && f.totalFragmentCount - old(f.totalFragmentCount) <= len(buf) && 12*(f.totalFragmentCount - old(f.totalFragmentCount)) <= len(buf)
//@ ensures accepted-below-limit: isHandshake ==> f.totalBufferSize < fragmentBufferMaxSize
//@ end

// AdvanceTo never moves the cursor backwards; moving it forward discards entries below the new
// cursor only and keeps the others.
// NOT CHECKED (engine limit: a range over a map is an arbitrary, possibly incomplete enumeration, so
// "every key was visited" is not available at loop exit; with these two clauses vc reports a spurious
// `sat`):   ensures wf-keys: wfkeys(f)
//           ensures nothing-below-cursor: forallU16(func(s uint16) bool { return s < CUR(f) ==> !hasKey(f.cache, s) })
// Consequently wfkeys(f), which Push/Pop require, is not re-established after AdvanceTo by this proof.

//@ func FragmentBuffer.AdvanceTo
//@ invariant wf: wf(f)
//@ invariant wf-data: wfdata(f)
//@ ensures never-backwards: messageSequence <= old(CUR(f)) ==> CUR(f) == old(CUR(f)) && len(f.cache) == old(len(f.cache)) && f.totalBufferSize == old(f.totalBufferSize) && f.totalFragmentCount == old(f.totalFragmentCount)
//@ ensures forwards: messageSequence > old(CUR(f)) ==> CUR(f) == messageSequence
//@ ensures others-kept: forallU16(func(s uint16) bool { return s >= CUR(f) ==> hasKey(f.cache, s) == old(hasKey(f.cache, s)) && f.cache[s] == old(f.cache[s]) })
//@ ensures never-grows: len(f.cache) <= old(len(f.cache))
//@ loop #1: wf: wf(f)
//@ loop #1: wf-data: wfdata(f)
//@ loop #1: cursor-kept: CUR(f) == old(CUR(f)) && messageSequence > CUR(f)
//@ loop #1: only-below-removed: forallU16(func(s uint16) bool { return (hasKey(f.cache, s) ==> old(hasKey(f.cache, s))) && (s >= messageSequence ==> hasKey(f.cache, s) == old(hasKey(f.cache, s))) && (hasKey(f.cache, s) ==> f.cache[s] == old(f.cache[s])) })
//@ loop #1: never-grows: len(f.cache) <= old(len(f.cache))
//@ end
