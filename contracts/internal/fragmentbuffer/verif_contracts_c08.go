//go:build verif

// C08 (bounded buffering of handshake fragments): contracts for package fragmentbuffer (comment-only; read by /verif/vc).
// The representation invariants wf/wfkeys/wfdata/capwf are those of verif_contracts_c12.go.
package fragmentbuffer

// "No sequence of datagrams makes an endpoint hold memory beyond its fixed buffering limits": the reassembly
// buffer holds at most fragmentBufferMaxCount fragments and fragmentBufferMaxSize bytes before it refuses
// further datagrams. The limits are on what is *stored* (fragments, bytes), not on the number of distinct
// message sequences: a datagram offered at or above either limit is refused and nothing of it is buffered.

//@ define OVERCOUNT(f) (old(f.totalFragmentCount) >= fragmentBufferMaxCount)
//@ define OVERBYTES(f) (old(f.totalBufferSize) + len(buf) >= fragmentBufferMaxSize)

//@ func FragmentBuffer.Push
//@ ensures c08-fragment-count-limit: OVERCOUNT(f) ==> err != nil && !isHandshake && !isRetransmit
//@ ensures c08-byte-limit: OVERBYTES(f) ==> err != nil && !isHandshake && !isRetransmit
//@ ensures c08-refused-buffers-nothing: OVERCOUNT(f) || OVERBYTES(f) ==> f.totalFragmentCount == old(f.totalFragmentCount) && f.totalBufferSize == old(f.totalBufferSize)
//@    && sameRef(f.cache, old(f.cache)) && len(f.cache) == old(len(f.cache))
//@ ensures c08-refused-keeps-entries: OVERCOUNT(f) || OVERBYTES(f) ==> forallU16(func(s uint16) bool { return hasKey(f.cache, s) == old(hasKey(f.cache, s)) && f.cache[s] == old(f.cache[s]) })
//@ ensures c08-stored-fragments-ceiling: f.totalFragmentCount > old(f.totalFragmentCount) ==> old(f.totalFragmentCount) < fragmentBufferMaxCount && f.totalFragmentCount <= fragmentBufferMaxCount - 1 + len(buf)/12
//@ ensures c08-stored-bytes-ceiling: f.totalBufferSize > old(f.totalBufferSize) ==> f.totalBufferSize < fragmentBufferMaxSize
//@ end
