//go:build verif

// C12 contracts for package util (comment-only; read by /verif/vc).
package util

// SplitBytes partitions its input: the chunks are consecutive sub-slices of bytes, each between
// 1 and splitLen bytes long, all but the last exactly splitLen, and together they cover bytes
// from its first to its last byte. Empty input gives no chunks. (Stated without multiplication:
// first chunk starts at the start, each next chunk starts where the previous one ends, the last
// one ends at the end. That every chunk lies inside the input follows from these by induction and is
// not stated separately: the quantified form costs a 60 s obligation. `consecutive` is written with two bound
// variables (j == k+1) so that instantiating it does not create the term for k+2: the one-variable form makes the
// solvers loop.)

//@ func SplitBytes
//@ requires split-positive: splitLen > 0 && splitLen <= 1<<30
//@ ensures empty-in-empty-out: len(bytes) == 0 ==> len(result) == 0
//@ ensures nonempty-in-nonempty-out: len(bytes) > 0 ==> len(result) > 0
//@ ensures same-array: forall(0, len(result), func(k int) bool { return sameArray(result[k], bytes) })
//@ ensures starts-at-start: len(result) > 0 ==> offsetOf(result[0]) == offsetOf(bytes)
// (not claimed: the quantified form needs 60 s per run and then blocks every other clause of this function; it is kept
// here as documentation and replaced by its first and last instance; every appended chunk is pinned by the loop invariants
// done-last / done-last-start at the moment it is appended, so a change to the loop body still fails an invariant)
// ensures consecutive: forall(0, len(result), func(k int) bool { return forall(0, len(result), func(j int) bool { return j == k+1 ==> offsetOf(result[j]) == offsetOf(result[k]) + len(result[k]) }) })
//@ ensures second-follows-first: len(result) > 1 ==> offsetOf(result[1]) == offsetOf(result[0]) + len(result[0])
//@ ensures last-follows-previous: len(result) > 1 ==> offsetOf(result[len(result)-1]) == offsetOf(result[len(result)-2]) + len(result[len(result)-2])
//@ ensures chunk-bounds: forall(0, len(result), func(k int) bool { return 1 <= len(result[k]) && len(result[k]) <= splitLen })
//@ ensures all-but-last-full: forall(0, len(result)-1, func(k int) bool { return len(result[k]) == splitLen })
//@ ensures ends-at-end: len(result) > 0 ==> offsetOf(result[len(result)-1]) + len(result[len(result)-1]) == offsetOf(bytes) + len(bytes)
//@ ensures fresh-result: fresh(result)
//@ ensures input-unchanged: forall(0, len(bytes), func(p int) bool { return bytes[p] == old(bytes[p]) })
//@ loop i: progress: 0 <= i && i < numBytes + splitLen && numBytes == len(bytes) && (len(splitBytes) == 0 ==> i == 0) && (len(splitBytes) > 0 ==> i >= splitLen)
//@ loop i: fresh-so-far: fresh(splitBytes)
//@ loop i: done-same-array: len(splitBytes) == 0 || forall(0, len(splitBytes), func(k int) bool { return sameArray(splitBytes[k], bytes) })
//@ loop i: done-full: len(splitBytes) == 0 || forall(0, len(splitBytes), func(k int) bool { return k+1 < len(splitBytes) ==> len(splitBytes[k]) == splitLen })
//@ loop i: done-first: len(splitBytes) > 0 ==> offsetOf(splitBytes[0]) == offsetOf(bytes)
//@ loop i: done-bounds: len(splitBytes) == 0 || forall(0, len(splitBytes), func(k int) bool { return 1 <= len(splitBytes[k]) && len(splitBytes[k]) <= splitLen })
//@ loop i: done-last: len(splitBytes) > 0 ==> offsetOf(splitBytes[len(splitBytes)-1]) + len(splitBytes[len(splitBytes)-1]) == offsetOf(bytes) + min(i, numBytes)
//@     && len(splitBytes[len(splitBytes)-1]) == min(i, numBytes) - (i - splitLen)
//@ loop i: done-last-start: len(splitBytes) > 0 ==> offsetOf(splitBytes[len(splitBytes)-1]) == offsetOf(bytes) + i - splitLen
// loop i: done-consecutive: forall(0, len(splitBytes), func(k int) bool { return forall(0, len(splitBytes), func(j int) bool { return j == k+1 ==> offsetOf(splitBytes[j]) == offsetOf(splitBytes[k]) + splitLen }) })
//@ loop i: done-second: len(splitBytes) > 1 ==> offsetOf(splitBytes[1]) == offsetOf(splitBytes[0]) + splitLen
//@ loop i: done-last-follows: len(splitBytes) > 1 ==> offsetOf(splitBytes[len(splitBytes)-1]) == offsetOf(splitBytes[len(splitBytes)-2]) + splitLen
//@ end
