//go:build verif

package util

// CloneByteSlices: nil stays nil, otherwise a fresh outer slice of the same length.
//@ func CloneByteSlices
//@ ensures nil-iff-nil: (result == nil) == (in == nil)
//@ ensures same-length: len(result) == len(in)
//@ end
