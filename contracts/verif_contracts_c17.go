//go:build verif

// C17 support for package dtls (comment-only; read by /verif/vc).
package dtls

// The handshake FSM talks to the connection through the dtlshandshake.Conn interface, whose only
// implementation is handshakeConn. The FSM step contracts of C17 treat these calls as opaque
// (their effects on the connection are other properties' business): what matters is when the FSM
// calls them. (The trivial `ensures` makes the devirtualised call go through the contract path;
// `noinline` alone is not honoured there.)

//@ func handshakeConn.Notify
//@ noinline
//@ ensures opaque: true
//@ end

//@ func handshakeConn.WritePackets
//@ noinline
//@ ensures opaque: true
//@ end

//@ func handshakeConn.RecvHandshake
//@ noinline
//@ ensures opaque: true
//@ end

//@ func handshakeConn.SetLocalEpoch
//@ noinline
//@ ensures opaque: true
//@ end

// Record-number masking callback of the DTLS 1.3 record protection (AES-ECB / ChaCha20 mask):
// computes a mask from its arguments, no effect on program state.
//@ assume-pure recordTrafficProtection13.sequenceNumberMaskFn
