//go:build verif

// Contracts for package dtls: C06 anti-replay, DTLS 1.3 receive path (the DTLS 1.2 path shares its
// functions with C05 and is in verif_contracts_c05.go). Comment-only; read by /verif/vc.
package dtls

// protectedReplayMarker (DTLS 1.3, RFC 9147 4.5.1): same usage protocol as legacyReplayMarker: the
// detector of epoch e is ReplayDetector[e], created on first use with the *configured* window; the record
// is checked exactly once with its own (decrypted) sequence number against the detector of its own
// epoch; a refused record yields no accept closure.
//@ func Conn.protectedReplayMarker
//@ watch replaydetector.New ReplayDetector.Check
//@ requires args: wfConn(c)
//@ requires detector-present: int(epoch) < len(RD(c)) ==> RD(c)[int(epoch)] != nil
//@ ensures check-once: ncalls("ReplayDetector.Check") == 1
//@ ensures checked-own-number: argU64("ReplayDetector.Check", 1) == sequenceNumber
//@ ensures result-is-check: result1 == retBool("ReplayDetector.Check", 1)
//@ ensures refused-no-marker: !result1 ==> result0 == nil
//@ ensures accepted-has-marker: result1 ==> result0 != nil
//@ ensures detector-of-epoch: int(epoch) < len(RD(c)) && sameRef(argAs("ReplayDetector.Check", 0, RD(c)[0]), RD(c)[int(epoch)])
//@ ensures window-from-config: called("replaydetector.New") ==> argAs("replaydetector.New", 0, c.replayProtectionWindow) == c.replayProtectionWindow
//@ ensures own-detector-kept: int(epoch) < len(old(RD(c))) ==> !called("replaydetector.New") && sameRef(RD(c)[int(epoch)], old(RD(c)[int(epoch)]))
//@ ensures never-shrinks: len(RD(c)) >= len(old(RD(c)))
//@ ensures wf-kept: wfConn(c)
//@ loop #1: wf-kept: wfConn(c)
//@ loop #1: same-common: common == CS(c) && common != nil
//@ loop #1: grows: len(common.ReplayDetector) >= len(old(RD(c)))
//@ loop #1: bounded: len(common.ReplayDetector) > len(old(RD(c))) ==> len(common.ReplayDetector) <= int(epoch) + 1
//@ loop #1: last-nonnil: len(common.ReplayDetector) > len(old(RD(c))) ==> common.ReplayDetector[len(common.ReplayDetector)-1] != nil
//@ loop #1: present-untouched: int(epoch) < len(old(RD(c))) ==> !called("replaydetector.New") && sameSlice(common.ReplayDetector, old(RD(c))) && sameRef(common.ReplayDetector[int(epoch)], old(RD(c)[int(epoch)]))
//@ loop #1: window-from-config: called("replaydetector.New") ==> argAs("replaydetector.New", 0, c.replayProtectionWindow) == c.replayProtectionWindow
//@ loop #1: not-checked-yet: !called("ReplayDetector.Check")
//@ end

// bufferHandshakeRecord: a handshake record's replay slot is committed exactly once and only after the
// reassembly buffer accepted the record as a handshake fragment; a record the buffer rejects (decode error)
// or does not recognise as handshake is not committed here.
//@ func Conn.bufferHandshakeRecord
//@ watch param.markPacketAsValid FragmentBuffer.Push
//@ requires args: wfConn(c) && header != nil && markPacketAsValid != nil
//@ ensures commit-at-most-once: ncalls("param.markPacketAsValid") <= 1
//@ ensures pushed-once: ncalls("FragmentBuffer.Push") == 1
//@ ensures rejected-not-committed: retErr("FragmentBuffer.Push", 2) != nil ==> !called("param.markPacketAsValid") && !result2
//@ ensures non-handshake-not-committed: retErr("FragmentBuffer.Push", 2) == nil && !retBool("FragmentBuffer.Push", 0) ==> !called("param.markPacketAsValid") && !result1 && !result2
//@ ensures accepted-committed: retErr("FragmentBuffer.Push", 2) == nil && retBool("FragmentBuffer.Push", 0) ==> ncalls("param.markPacketAsValid") == 1 && result1 && result2 == retBool("param.markPacketAsValid", 0)
//@ loop #1: committed-once: ncalls("param.markPacketAsValid") == 1 && ncalls("FragmentBuffer.Push") == 1 && retErr("FragmentBuffer.Push", 2) == nil && retBool("FragmentBuffer.Push", 0) && isLatestSeqNum == retBool("param.markPacketAsValid", 0)
//@ loop #1: wf-kept: wfConn(c)
//@ end

// RFC 6347 4.1.2.6: "a minimum window size of 32 MUST be supported, but a window size of 64 is preferred and SHOULD be
// employed as the default"; a configured window is used as given.
//@ func effectiveReplayProtectionWindow
//@ ensures default-is-64: replayProtectionWindow <= 0 ==> result == 64
//@ ensures configured-is-used: replayProtectionWindow > 0 ==> result == replayProtectionWindow
//@ end

// RFC 9147 4.2.2: the full record sequence number is the number closest to (highest received + 1) whose low 8 or 16 bits
// are the bits on the wire. A wrong choice fails decryption, i.e. silently drops a reordered record.
//@ func reconstructSequenceNumber
//@ ensures low-bits-16: highest < 1<<48 && (seqBit) ==> result & 0xffff == uint64(partial)
//@ ensures low-bits-8: highest < 1<<48 && (!seqBit) ==> result & 0xff == uint64(partial) & 0xff
//@ ensures not-too-far-ahead-16: highest < 1<<48 && (seqBit && result >= 0x10000) ==> result <= highest + 1 + 0x8000
//@ ensures not-too-far-ahead-8: highest < 1<<48 && (!seqBit && result >= 0x100) ==> result <= highest + 1 + 0x80
//@ ensures not-too-far-behind-16: highest < 1<<48 && (seqBit) ==> result + 0x8000 >= highest + 1
//@ ensures not-too-far-behind-8: highest < 1<<48 && (!seqBit) ==> result + 0x80 >= highest + 1
//@ end

// Configuration of a resumed connection (buildConfig, used by ResumeWithOptions): the defaults (RFC 6347 4.1.2.6: replay
// window 64) are the starting point and what the application configures wins: the defaults are laid down exactly once
// and before any option is applied, so an option (WithReplayProtectionWindow) is never overwritten by a default, and
// without options the window is the default one.
//@ func buildConfig
//@ watch dtlsConfig.applyDefaults Option.applyServer
//@ ensures defaults-once: ncalls("dtlsConfig.applyDefaults") == 1
//@ ensures defaults-before-options: always("Option.applyServer", "called(\"dtlsConfig.applyDefaults\")")
//@ ensures no-options-default-window: len(opts) == 0 && result1 == nil ==> result0 != nil && result0.ReplayProtectionWindow == 64
//@ ensures every-option-applied: result1 == nil ==> ncalls("Option.applyServer") == len(opts)
//@ ensures failed-option-no-config: result1 != nil ==> result0 == nil
//@ loop #1: defaults-first: ncalls("dtlsConfig.applyDefaults") == 1 && always("Option.applyServer", "called(\"dtlsConfig.applyDefaults\")")
//@ loop #1: untouched-before-first-option: cfg != nil && (idx == 0 ==> cfg.ReplayProtectionWindow == 64)
//@ loop #1: applied-so-far: ncalls("Option.applyServer") == idx
//@ end

// an option is an application closure over the configuration under construction: kept opaque
//@ func sharedOption.applyServer
//@ noinline
//@ end
//@ func sharedOption.applyClient
//@ noinline
//@ end

// the same for the builders of Client/Server connections
//@ func buildServerConfig
//@ watch dtlsConfig.applyDefaults ServerOption.applyServer
//@ ensures defaults-once: ncalls("dtlsConfig.applyDefaults") == 1
//@ ensures defaults-before-options: always("ServerOption.applyServer", "called(\"dtlsConfig.applyDefaults\")")
//@ ensures no-options-default-window: len(opts) == 0 && result1 == nil ==> result0 != nil && result0.ReplayProtectionWindow == 64
//@ ensures every-option-applied: result1 == nil ==> ncalls("ServerOption.applyServer") == len(opts)
//@ ensures failed-option-no-config: result1 != nil ==> result0 == nil
//@ loop #1: defaults-first: ncalls("dtlsConfig.applyDefaults") == 1 && always("ServerOption.applyServer", "called(\"dtlsConfig.applyDefaults\")")
//@ loop #1: untouched-before-first-option: cfg != nil && (idx == 0 ==> cfg.ReplayProtectionWindow == 64)
//@ loop #1: applied-so-far: ncalls("ServerOption.applyServer") == idx
//@ end

//@ func buildClientConfig
//@ watch dtlsConfig.applyDefaults ClientOption.applyClient
//@ ensures defaults-once: ncalls("dtlsConfig.applyDefaults") == 1
//@ ensures defaults-before-options: always("ClientOption.applyClient", "called(\"dtlsConfig.applyDefaults\")")
//@ ensures no-options-default-window: len(opts) == 0 && result1 == nil ==> result0 != nil && result0.ReplayProtectionWindow == 64
//@ ensures every-option-applied: result1 == nil ==> ncalls("ClientOption.applyClient") == len(opts)
//@ ensures failed-option-no-config: result1 != nil ==> result0 == nil
//@ loop #1: defaults-first: ncalls("dtlsConfig.applyDefaults") == 1 && always("ClientOption.applyClient", "called(\"dtlsConfig.applyDefaults\")")
//@ loop #1: untouched-before-first-option: cfg != nil && (idx == 0 ==> cfg.ReplayProtectionWindow == 64)
//@ loop #1: applied-so-far: ncalls("ClientOption.applyClient") == idx
//@ end

// RFC 9147 4.2.2 / 4.5.1: the truncated sequence number on the wire is completed against the highest record number
// seen *in the epoch the record was protected in* (a record of a retained older generation is still inside that
// epoch's window); the completed number is what the AEAD opens with and what the replay window is then asked about.
// Completing against another epoch's counter makes reordered records of the old epoch undecryptable (dropped).
//@ func Conn.openCiphertextWithGeneration
//@ watch Conn.highestRemoteSequenceNumber reconstructSequenceNumber RecordProtection13.Open
//@ ensures c06-highest-of-own-epoch: called("Conn.highestRemoteSequenceNumber") ==> argAs("Conn.highestRemoteSequenceNumber", 1, uint16(0)) == generation.Epoch
//@ ensures c06-completed-against-that-highest: called("reconstructSequenceNumber") ==> ncalls("Conn.highestRemoteSequenceNumber") == 1 && argU64("reconstructSequenceNumber", 2) == retU64("Conn.highestRemoteSequenceNumber", 0)
//@ ensures c06-opened-with-completed-number: called("RecordProtection13.Open") ==> ncalls("reconstructSequenceNumber") == 1 && argU64("RecordProtection13.Open", 2) == retU64("reconstructSequenceNumber", 0)
//@ ensures c06-reported-number-is-opened-number: result2 == nil ==> called("RecordProtection13.Open") && result1 == argU64("RecordProtection13.Open", 2)
//@ end

// The option body: the configured window is stored as given (0 selects the default in effectiveReplayProtectionWindow),
// a negative window is refused and leaves the configuration untouched.
//@ func WithReplayProtectionWindow$1
//@ requires args: c != nil
//@ ensures stored-as-given: window >= 0 ==> result == nil && c.ReplayProtectionWindow == window
//@ ensures negative-refused: window < 0 ==> result != nil && c.ReplayProtectionWindow == old(c.ReplayProtectionWindow)
//@ end

// The connection's replay window is the effective window of the configuration (newConnConfigValues above), and the
// MTU likewise.
//@ func newConn
//@ ensures w-replay-window: result != nil && result.replayProtectionWindow == uint(configValues.replayProtectionWindow)
//@ ensures w-mtu: result.maximumTransmissionUnit == configValues.maximumTransmissionUnit
//@ ensures fresh-conn: fresh(result)
//@ end
