//go:build verif

// Configuration wiring (used by C03, C06, C11, C13, C17): every policy the application configures reaches the
// handshake configuration unchanged. A dropped or crossed field silently disables a policy.
package dtls

//@ func newHandshakeConfig
//@ requires args: config != nil
//@ ensures fresh: result != nil
//@ ensures w-client-auth: int(result.ClientAuth) == int(config.ClientAuth)
//@ ensures w-insecure-skip-verify: result.InsecureSkipVerify == config.InsecureSkipVerify
//@ ensures w-root-cas: result.RootCAs == config.RootCAs && result.ClientCAs == config.ClientCAs
//@ ensures w-server-name: result.ServerName == configValues.serverName
//@ ensures w-extended-master-secret: int(result.ExtendedMasterSecret) == int(config.ExtendedMasterSecret)
//@ ensures w-hello-verify: result.InsecureSkipHelloVerify == config.InsecureSkipVerifyHello
//@ ensures w-retransmit-interval: result.InitialRetransmitInterval == configValues.initialRetransmitInterval
//@ ensures w-retransmit-backoff: result.DisableRetransmitBackoff == config.DisableRetransmitBackoff
//@ ensures w-versions: result.MinVersion == configValues.minVersion && result.MaxVersion == configValues.maxVersion
//@ ensures w-suites: sameSlice(result.LocalCipherSuites, configValues.cipherSuites)
//@ ensures w-signature-schemes: sameSlice(result.LocalSignatureSchemes, configValues.signatureSchemes) && sameSlice(result.LocalCertSignatureSchemes, configValues.certificateSignatureSchemes)
//@ ensures w-curves: sameSlice(result.EllipticCurves, configValues.ellipticCurves)
//@ ensures w-srtp: sameSlice(result.LocalSRTPProtectionProfiles, config.SRTPProtectionProfiles) && sameSlice(result.LocalSRTPMasterKeyIdentifier, config.SRTPMasterKeyIdentifier)
//@ ensures w-alpn: sameSlice(result.SupportedProtocols, config.SupportedProtocols)
//@ ensures w-certificates: sameSlice(result.LocalCertificates, config.Certificates)
//@ ensures w-psk-hint: sameSlice(result.LocalPSKIdentityHint, config.PSKIdentityHint)
//@ ensures w-session-store: result.HasSessionStore == !isNil(config.sessionStore)
//@ ensures w-initial-epoch: result.InitialEpoch == 0
//@ ensures w-resume-state: result.ResumeState == resumeState
//@ end

// The name the certificate is verified against is the configured one, unaltered - also when it is an IP address literal
// (which only the server_name extension must not carry, RFC 6066 3): fix 320cd05.
//@ func newConnConfigValues
//@ watch effectiveReplayProtectionWindow
//@ requires args: config != nil
//@ ensures w-server-name-unaltered: result1 == nil ==> result0.serverName == config.ServerName
//@ ensures w-replay-window: result1 == nil ==> called("effectiveReplayProtectionWindow") && argInt("effectiveReplayProtectionWindow", 0) == config.ReplayProtectionWindow && result0.replayProtectionWindow == retInt("effectiveReplayProtectionWindow", 0)
//@ end

// summarised helpers of newConnConfigValues (their results are not what the wiring clauses speak about)
//@ func parseConnSignatureSchemes
//@ noinline
//@ end
//@ func effectiveProtocolVersionRange
//@ noinline
//@ end
//@ func newConnLogger
//@ noinline
//@ end
//@ func effectiveEllipticCurves
//@ noinline
//@ end
