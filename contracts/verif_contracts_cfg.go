//go:build verif

// Configuration wiring (used by C03, C06, C11, C13, C17): every policy the application configures reaches the
// handshake configuration unchanged. A dropped or crossed field silently disables a policy.
package dtls

//@ func newHandshakeConfig
//@ requires args: config != nil
//@ ensures fresh: result != nil
//@ ensures w-client-auth: int(result.ClientAuth) == int(config.ClientAuth)
//@ ensures w-insecure-skip-verify: result.InsecureSkipVerify == config.InsecureSkipVerify
//@ ensures w-root-cas: result.RootCAs == config.RootCAs && result.ClientCAs == config.ClientCAs
//@ ensures w-server-name: result.ServerName == configValues.serverName
//@ ensures w-extended-master-secret: int(result.ExtendedMasterSecret) == int(config.ExtendedMasterSecret)
//@ ensures w-hello-verify: result.InsecureSkipHelloVerify == config.InsecureSkipVerifyHello
//@ ensures w-retransmit-interval: result.InitialRetransmitInterval == configValues.initialRetransmitInterval
//@ ensures w-retransmit-backoff: result.DisableRetransmitBackoff == config.DisableRetransmitBackoff
//@ ensures w-versions: result.MinVersion == configValues.minVersion && result.MaxVersion == configValues.maxVersion
//@ ensures w-suites: sameSlice(result.LocalCipherSuites, configValues.cipherSuites)
//@ ensures w-signature-schemes: sameSlice(result.LocalSignatureSchemes, configValues.signatureSchemes) && sameSlice(result.LocalCertSignatureSchemes, configValues.certificateSignatureSchemes)
//@ ensures w-curves: sameSlice(result.EllipticCurves, configValues.ellipticCurves)
//@ ensures w-srtp: sameSlice(result.LocalSRTPProtectionProfiles, config.SRTPProtectionProfiles) && sameSlice(result.LocalSRTPMasterKeyIdentifier, config.SRTPMasterKeyIdentifier)
//@ ensures w-alpn: sameSlice(result.SupportedProtocols, config.SupportedProtocols)
//@ ensures w-certificates: sameSlice(result.LocalCertificates, config.Certificates)
//@ ensures w-psk-hint: sameSlice(result.LocalPSKIdentityHint, config.PSKIdentityHint)
//@ ensures w-session-store: result.HasSessionStore == !isNil(config.sessionStore)
//@ ensures w-initial-epoch: result.InitialEpoch == 0
//@ ensures w-resume-state: result.ResumeState == resumeState
//@ end
