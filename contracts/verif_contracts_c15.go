//go:build verif

// C15 (connection IDs / peer address migration): contracts for package dtls (comment-only; read by /verif/vc).
package dtls

// RFC 9146 6 / RFC 9853: the address an endpoint sends to changes only after an authentic, *newest* record
// arrived from a new address and - return routability being negotiated - that address answered a fresh
// challenge in time. HandleCandidate is the only place that starts a path challenge; HandleRecord is the only
// place that switches Conn.rAddr.
//
// Scope: the DTLS 1.2 state (has12); the protected RRC record is built by processPacket, whose contract (C07/C09)
// is stated for DTLS 1.2.

//@ func returnRoutabilityConn.HandleCandidate
//@ watch Manager.Start returnRoutabilityConn.WriteRRC Manager.Cancel Manager.Reserve PacketConn.WriteToContext
//@ requires conn: c.conn != nil && wfConn(c.conn) && has12(c.conn) && ctx != nil
//@ requires suite: S12(c.conn).Common.CipherSuite != nil
//@ ensures start-consulted-once: ncalls("Manager.Start") == 1
//@ ensures challenge-only-for-newest-cid-record: argBool("Manager.Start", 1) ==> enabled && hasCID && latest
//@ ensures stale-record-never-challenged: !latest ==> !argBool("Manager.Start", 1) && !called("returnRoutabilityConn.WriteRRC")
//@ ensures no-cid-never-challenged: !hasCID ==> !argBool("Manager.Start", 1) && !called("returnRoutabilityConn.WriteRRC")
//@ ensures not-negotiated-never-challenged: !enabled ==> !argBool("Manager.Start", 1) && !called("returnRoutabilityConn.WriteRRC")
//@ ensures newest-cid-record-is-offered: enabled && hasCID && latest ==> argBool("Manager.Start", 1)
//@ ensures candidate-is-the-source: sameRef(argAs("Manager.Start", 2, addr), addr)
//@ ensures active-is-the-current-peer: sameRef(argAs("Manager.Start", 3, addr), old(c.conn.rAddr))
//@ ensures challenge-only-when-started: called("returnRoutabilityConn.WriteRRC") ==> retBool("Manager.Start", 1) && retErr("Manager.Start", 2) == nil
//@ ensures started-is-challenged: retBool("Manager.Start", 1) && retErr("Manager.Start", 2) == nil ==> called("returnRoutabilityConn.WriteRRC")
//@ ensures at-most-one-challenge: ncalls("returnRoutabilityConn.WriteRRC") <= 1
//@ ensures challenge-goes-to-candidate: called("returnRoutabilityConn.WriteRRC") ==> sameRef(argAs("returnRoutabilityConn.WriteRRC", 2, addr), addr)
//@ ensures challenge-type: called("returnRoutabilityConn.WriteRRC") ==> argAs("returnRoutabilityConn.WriteRRC", 3, protocol.ReturnRoutabilityCheckPathChallenge) == protocol.ReturnRoutabilityCheckPathChallenge
//@ ensures challenge-carries-fresh-cookie: called("returnRoutabilityConn.WriteRRC") ==> argAs("returnRoutabilityConn.WriteRRC", 4, [8]byte{}) == retAs("Manager.Start", 0, [8]byte{})
//@ ensures failed-challenge-cancelled: called("returnRoutabilityConn.WriteRRC") && retErr("returnRoutabilityConn.WriteRRC", 0) != nil ==> called("Manager.Cancel")
//@ ensures cancel-only-after-failed-write: called("Manager.Cancel") ==> called("returnRoutabilityConn.WriteRRC") && retErr("returnRoutabilityConn.WriteRRC", 0) != nil
//@ ensures cancel-names-the-challenge: called("Manager.Cancel") ==> sameRef(argAs("Manager.Cancel", 1, addr), addr) && argAs("Manager.Cancel", 2, [8]byte{}) == retAs("Manager.Start", 0, [8]byte{})
//@ ensures peer-address-unchanged: sameRef(c.conn.rAddr, old(c.conn.rAddr))
//@ end

// Return-routability records (RFC 9853 4): only a path_response that rrc.Manager.HandleResponse accepted for
// this source address and this cookie switches the peer address, and it switches it to that source address;
// a path_challenge is echoed to its source with its own cookie; nothing happens before epoch 1 or without
// the rrc negotiation.
//@ define RRCNEG(c) S12(c.conn).Common.RRCNegotiated
//@ define PCHAL() protocol.ReturnRoutabilityCheckPathChallenge
//@ define PRESP() protocol.ReturnRoutabilityCheckPathResponse

//@ func returnRoutabilityConn.HandleRecord
//@ watch Manager.HandleResponse returnRoutabilityConn.WriteRRC
//@ requires c15-dtls12: has12(c.conn) && S12(c.conn).Common.CipherSuite != nil && ctx != nil
//@ ensures switch-needs-validated-response: !sameRef(c.conn.rAddr, old(c.conn.rAddr)) ==> called("Manager.HandleResponse") && retBool("Manager.HandleResponse", 0)
//@ ensures switch-goes-to-responder: !sameRef(c.conn.rAddr, old(c.conn.rAddr)) ==> sameRef(c.conn.rAddr, addr)
//@ ensures validated-response-switches: called("Manager.HandleResponse") && retBool("Manager.HandleResponse", 0) ==> sameRef(c.conn.rAddr, addr)
//@ ensures response-checked-against-source: called("Manager.HandleResponse") ==> sameRef(argAs("Manager.HandleResponse", 1, addr), addr)
//@ ensures response-checked-against-its-cookie: called("Manager.HandleResponse") ==> argAs("Manager.HandleResponse", 2, [8]byte{}) == old(message.Cookie)
//@ ensures only-path-response-validates: called("Manager.HandleResponse") ==> old(message.MessageType) == PRESP()
//@ ensures validate-at-most-once: ncalls("Manager.HandleResponse") <= 1 && ncalls("returnRoutabilityConn.WriteRRC") <= 1
//@ ensures path-response-is-validated: old(prepared.header.Epoch) != 0 && old(RRCNEG(c)) && old(message.MessageType) == PRESP() ==> called("Manager.HandleResponse")
//@ ensures only-challenge-is-echoed: called("returnRoutabilityConn.WriteRRC") ==> old(message.MessageType) == PCHAL()
//@ ensures challenge-is-echoed: old(prepared.header.Epoch) != 0 && old(RRCNEG(c)) && old(message.MessageType) == PCHAL() ==> called("returnRoutabilityConn.WriteRRC")
//@ ensures echo-goes-to-source: called("returnRoutabilityConn.WriteRRC") ==> sameRef(argAs("returnRoutabilityConn.WriteRRC", 2, addr), addr)
//@ ensures echo-is-a-response: called("returnRoutabilityConn.WriteRRC") ==> argAs("returnRoutabilityConn.WriteRRC", 3, PRESP()) == PRESP()
//@ ensures echo-carries-the-challenge-cookie: called("returnRoutabilityConn.WriteRRC") ==> argAs("returnRoutabilityConn.WriteRRC", 4, [8]byte{}) == old(message.Cookie)
//@ ensures epoch0-ignored: old(prepared.header.Epoch) == 0 ==> !called("Manager.HandleResponse") && !called("returnRoutabilityConn.WriteRRC") && sameRef(c.conn.rAddr, old(c.conn.rAddr))
//@ ensures not-negotiated-ignored: !old(RRCNEG(c)) ==> !called("Manager.HandleResponse") && !called("returnRoutabilityConn.WriteRRC") && sameRef(c.conn.rAddr, old(c.conn.rAddr))
//@ end

// The DTLS 1.2 scope of HandleRecord is inherited by its only caller.
//@ func Conn.handleRecordContent
//@ requires c15-dtls12: has12(c) && (typeIs(content, "*github.com/pion/dtls/v3/pkg/protocol.ReturnRoutabilityCheck") ==> S12(c).Common.CipherSuite != nil)
//@ end

// WriteRRC is the only sender towards a not-yet-validated address: the datagram is a protected record, it is
// charged to the address's amplification budget (rrc.Manager.Reserve, 3x rule) before it is written, and exactly
// the charged bytes go to exactly that address.
//@ func returnRoutabilityConn.WriteRRC
//@ watch Manager.Reserve PacketConn.WriteToContext Conn.processPacket
//@ requires conn: c.conn != nil && wfConn(c.conn) && has12(c.conn) && ctx != nil
//@ requires suite: S12(c.conn).Common.CipherSuite != nil
//@ ensures not-negotiated-nothing-sent: !old(RRCNEG(c)) ==> result != nil && !called("PacketConn.WriteToContext") && !called("Manager.Reserve")
//@ ensures budget-charged-before-send: called("PacketConn.WriteToContext") ==> called("Manager.Reserve") && retErr("Manager.Reserve", 0) == nil && calledBefore("Manager.Reserve", "PacketConn.WriteToContext")
//@ ensures over-budget-not-sent: called("Manager.Reserve") && retErr("Manager.Reserve", 0) != nil ==> !called("PacketConn.WriteToContext") && result != nil
//@ ensures charged-to-destination: called("Manager.Reserve") ==> sameRef(argAs("Manager.Reserve", 1, addr), addr) && sameRef(argAs("Manager.Reserve", 2, addr), old(c.conn.rAddr))
//@ ensures charged-datagram-size: called("Manager.Reserve") ==> argInt("Manager.Reserve", 3) == len(retBytes("Conn.processPacket", 0))
//@ ensures sent-is-the-charged-datagram: called("PacketConn.WriteToContext") ==> sameSlice(argBytes("PacketConn.WriteToContext", 2), retBytes("Conn.processPacket", 0))
//@ ensures sent-to-destination: called("PacketConn.WriteToContext") ==> sameRef(argAs("PacketConn.WriteToContext", 3, addr), addr)
//@ ensures sent-once: ncalls("PacketConn.WriteToContext") <= 1 && ncalls("Manager.Reserve") <= 1 && ncalls("Conn.processPacket") <= 1
//@ ensures record-is-protected: called("Conn.processPacket") ==> argAs("Conn.processPacket", 1, &dtlsflight.Packet{}).ShouldEncrypt
//@ ensures build-failure-not-sent: called("Conn.processPacket") && retErr("Conn.processPacket", 1) != nil ==> !called("PacketConn.WriteToContext") && !called("Manager.Reserve") && result != nil
//@ ensures peer-address-unchanged: sameRef(c.conn.rAddr, old(c.conn.rAddr))
//@ ensures unlocked: !held("Conn.lock") && !held("Conn.writeLock")
//@ end

// RFC 9146 3/4: once the peer asked for a connection ID (a non-empty RemoteConnectionID was negotiated) every
// protected record the endpoint sends is a tls12_cid record that carries exactly that ID.
//@ define PEERCID(c) S12(c).Common.RemoteConnectionID

//@ func Conn.newApplicationDataPacket
//@ ensures c15-wrapped-iff-peer-id-negotiated: is12(c) ==> result.ShouldWrapCID == (len(PEERCID(c)) > 0)
//@ end

//@ func returnRoutabilityConn.WriteRRC
//@ ensures c15-rrc-record-wrapped-iff-peer-id-negotiated: called("Conn.processPacket") && old(S12(c.conn).Common.LocalVersion.Major) == 254 && old(S12(c.conn).Common.LocalVersion.Minor) == 253
//@    ==> argAs("Conn.processPacket", 1, &dtlsflight.Packet{}).ShouldWrapCID == (len(old(PEERCID(c.conn))) > 0)
//@ end

//@ func Conn.processPacket
//@ watch Header.Marshal
//@ ensures c15-cid-record-carries-peer-id: old(pkt.ShouldWrapCID) && result1 == nil && !called("Conn.processProtectedPacket")
//@    ==> pkt.Record.Header.ContentType == protocol.ContentTypeConnectionID && sameSlice(pkt.Record.Header.ConnectionID, old(PEERCID(c)))
//@ ensures c15-cid-header-on-the-wire: old(pkt.ShouldWrapCID) && result1 == nil && !called("Conn.processProtectedPacket")
//@    ==> called("Header.Marshal") && sameSlice(argAs("Header.Marshal", 0, &recordlayer.Header{}).ConnectionID, old(PEERCID(c)))
//@       && argAs("Header.Marshal", 0, &recordlayer.Header{}).ContentType == protocol.ContentTypeConnectionID
//@ end

// Listener-side routing key (RFC 9146 6): the identifier extracted from a datagram has the configured connection-ID
// length
// (which record supplies it is not stated: a leading tls12_cid record with an unparsable header is skipped).
//@ func cidDatagramRouter$1
//@ requires cid-len: size >= 0 && size <= 255
//@ ensures empty-not-routed: len(packet) == 0 ==> !result1
//@ ensures id-has-configured-length: result1 ==> len(result0) == size
//@ ensures no-id-is-empty: !result1 ==> len(result0) == 0
//@ end

//@ func cidDatagramRouter13
//@ requires cid-len: size >= 0 && size <= 255
//@ ensures id-has-configured-length: result1 ==> len(result0) == size
//@ ensures no-id-is-empty: !result1 ==> len(result0) == 0
//@ end

// netError only classifies the error of a failed socket write; it is summarised by its write set (nothing) at its call
// sites. (Inlined, the library model of errors.As does not establish that the target pointer was set, which makes the
// dereference in isOpErrorTemporary a spurious alarm in every caller.)
//@ func netError
//@ noinline
//@ end

// DTLS 1.3 receive side (RFC 9147 9): a ciphertext record that carries a connection ID is accepted only if that ID is
// byte-equal to the endpoint's own; a missing ID is refused when one is expected.
//@ func Conn.unmarshalCiphertextRecord
//@ watch bytes.Equal! Conn.ciphertextCIDPolicy
//@ requires args: wfConn(c) && len(buf) > 0
//@ ensures cid-record-needs-equal-id: result1 == nil && old(buf[0])&recordlayer.UnifiedHeaderCIDBit != 0 ==> called("bytes.Equal!") && retBool("bytes.Equal!", 0)
//@ ensures cid-compared-with-own-id: called("bytes.Equal!") ==> sameSlice(argBytes("bytes.Equal!", 1), result0.Header.ConnectionID)
//@ ensures missing-id-refused-when-expected: called("Conn.ciphertextCIDPolicy") && retBool("Conn.ciphertextCIDPolicy", 0) && old(buf[0])&recordlayer.UnifiedHeaderCIDBit == 0 ==> result1 != nil
//@ ensures unexpected-id-refused: called("Conn.ciphertextCIDPolicy") && retErr("Conn.ciphertextCIDPolicy", 2) == nil && !retBool("Conn.ciphertextCIDPolicy", 1) && old(buf[0])&recordlayer.UnifiedHeaderCIDBit != 0 ==> result1 != nil
//@ end

// Alerts (close_notify included) are protected records too: with a negotiated peer connection ID they must be wrapped
// (content type tls12_cid), otherwise the peer discards them.
//@ func Conn.notify
//@ ensures c15-alert-wrapped-iff-peer-id-negotiated: is12(c) && called("Conn.writePackets!") ==> len(argAs("Conn.writePackets!", 2, []*dtlsflight.Packet{})) == 1
//@    && atCall("Conn.writePackets!", argAs("Conn.writePackets!", 2, []*dtlsflight.Packet{})[0].ShouldWrapCID == (len(PEERCID(c)) > 0))
//@ end

// DTLS 1.2 receive side (RFC 9146 5/6): "an endpoint accepts a protected record only if it carries the endpoint's own
// ID". A tls12_cid record (second result: the record was a connection-ID record) is handed on (third result) only
// after its connection ID was compared byte-wise with the local one and found equal; the same holds for every
// accepted record (an endpoint without a negotiated ID compares with the empty ID).
//@ func Conn.decryptLegacyPacket
//@ watch bytes.Equal
//@ ensures c15-cid-record-carries-own-id: result1 && result2 ==> called("bytes.Equal") && retBool("bytes.Equal", 0) && sameSlice(argBytes("bytes.Equal", 1), header.ConnectionID)
//@ ensures c15-accepted-record-carries-own-id: result2 ==> called("bytes.Equal") && retBool("bytes.Equal", 0)
//@ ensures c15-cid-flag-is-content-type: result2 ==> result1 == (old(header.ContentType) == protocol.ContentTypeConnectionID)
//@ end

// Wiring of the migration machinery in the receive path (RFC 9146 6: "the address ... changes only after an authentic,
// newest record arrived from a new address"): a record becomes a migration candidate only after it was handled without
// error, and HandleCandidate is told the truth about it - the rrc negotiation flag of the association, whether the record
// carried the connection ID, whether the record handler found it the newest, and its source address. The received bytes
// are credited (amplification budget) to the source address with the datagram's size.
// (Scope and the summary of prepareIncomingPacket: see verif_contracts_c08.go.)
//@ func Conn.handleIncomingPacket
//@ watch returnRoutabilityConn.HandleCandidate Conn.handleRecordContent Conn.bufferHandshakeRecord Manager.WrapReplayMarker
//@ ensures c15-candidate-offered-at-most-once: ncalls("returnRoutabilityConn.HandleCandidate") <= 1
//@ ensures c15-candidate-is-the-source: called("returnRoutabilityConn.HandleCandidate") ==> sameRef(argAs("returnRoutabilityConn.HandleCandidate", 5, rAddr), rAddr)
//@ ensures c15-candidate-cid-flag-is-the-records: called("returnRoutabilityConn.HandleCandidate") ==> argBool("returnRoutabilityConn.HandleCandidate", 3) == PREP().originalCID
//@ ensures c15-candidate-enabled-iff-negotiated: called("returnRoutabilityConn.HandleCandidate") ==> argBool("returnRoutabilityConn.HandleCandidate", 2) == old(S12(c).Common.RRCNegotiated)
//@ ensures c15-candidate-newest-as-found-by-handler: called("returnRoutabilityConn.HandleCandidate") && called("Conn.handleRecordContent")
//@    ==> argBool("returnRoutabilityConn.HandleCandidate", 4) == retBool("Conn.handleRecordContent", 0)
//@ ensures c15-candidate-newest-as-found-by-buffering: called("returnRoutabilityConn.HandleCandidate") && !called("Conn.handleRecordContent")
//@    ==> retBool("Conn.bufferHandshakeRecord", 1) && argBool("returnRoutabilityConn.HandleCandidate", 4) == retBool("Conn.bufferHandshakeRecord", 2)
//@ ensures c15-failed-record-is-no-candidate: called("Conn.handleRecordContent") && retErr("Conn.handleRecordContent", 2) != nil ==> !called("returnRoutabilityConn.HandleCandidate")
//@ ensures c15-alerting-record-is-no-candidate: result0.responseAlert != nil ==> !called("returnRoutabilityConn.HandleCandidate")
//@ ensures c15-refused-record-is-no-candidate: !retBool("Conn.prepareIncomingPacket", 1) ==> !called("returnRoutabilityConn.HandleCandidate")
//@ ensures c15-received-bytes-credited-to-source: called("Manager.WrapReplayMarker") ==> sameRef(argAs("Manager.WrapReplayMarker", 2, rAddr), rAddr)
//@    && argInt("Manager.WrapReplayMarker", 3) == len(buf) && argBool("Manager.WrapReplayMarker", 5) == old(S12(c).Common.RRCNegotiated)
//@ ensures c15-counting-marker-is-the-one-committed: called("Conn.handleRecordContent") ==> sameRef(argAs("Conn.handleRecordContent", 3, incomingPacketState{}).markPacketAsValid, retAs("Manager.WrapReplayMarker", 0, PREP().markPacketAsValid))
//@ end
