//go:build verif

// C20: DTLS 1.3 key updates, connection side (conn.go). Comment-only; read by /verif/vc.
package dtls

// The post-handshake state machine sees the commit of a local key update only as a callback of
// the keyUpdateCommitConn interface; its single implementation forwards to commitLocalKeyUpdate,
// which is verified on its own below.
//@ func handshakeConn.CommitLocalKeyUpdate
//@ noinline
//@ ensures wrapper-only: c.conn == old(c.conn)
//@ end
