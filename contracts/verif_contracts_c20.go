//go:build verif

// C20: DTLS 1.3 key updates, connection side (conn.go). Comment-only; read by /verif/vc.
package dtls

// The post-handshake state machine sees the commit of a local key update only as a callback of
// the keyUpdateCommitConn interface; its single implementation forwards to commitLocalKeyUpdate,
// which is verified on its own below.
//@ func handshakeConn.CommitLocalKeyUpdate
//@ noinline
//@ ensures wrapper-only: c.conn == old(c.conn)
//@ end

// The same for the other connection callbacks used while a peer KeyUpdate is processed.
//@ func handshakeConn.Notify
//@ noinline
//@ ensures wrapper-only: c.conn == old(c.conn)
//@ end

//@ func handshakeConn.HandleQueuedPackets
//@ noinline
//@ ensures wrapper-only: c.conn == old(c.conn)
//@ end

// ASSUMPTION (reported; same kind as C05's `param.markPacketAsValid`): the replay-commit closure returned by
// protectedReplayMarker (it calls the replay detector's accept function and updateRemoteSequenceNumber) writes only the
// replay detector and the remote sequence numbers. Without it every function that can reach prepareCiphertextPacket
// (e.g. handshakeConn.HandleQueuedPackets) has the write set "everything".
//@ assume-pure Conn.protectedReplayMarker#0 writes github.com/pion/transport/ uint64 []uint64 github.com/pion/dtls/v3/internal/state.Common$RemoteSequenceNumber

// S13(c): the DTLS 1.3 state object of the connection.
//@ define S13(c) c.state.(*dtlsstate.State13)
//@ define IS13(c) typeIs(c.state, "*github.com/pion/dtls/v3/internal/state.State13")
//@ define TG0() candidates[0]

// commitLocalKeyUpdate: the acknowledged write generation becomes current only if it is the
// successor of the current one (validateNextWriteGeneration, contract in verif_contracts.go); then the
// sending epoch advances by exactly one. On any error neither keys nor epoch change.

//@ func Conn.commitLocalKeyUpdate
//@ watch validateNextWriteGeneration TrafficKeyState.Install Common.SetLocalEpoch TrafficKeyState.CurrentWrite
//@ requires args: c != nil
//@ requires state13: IS13(c) ==> nonNilPayload(c.state) && S13(c).Common != nil
//@ ensures not-dtls13: !IS13(c) ==> result != nil && !called("TrafficKeyState.Install") && !called("Common.SetLocalEpoch")
//@ ensures no-keys: IS13(c) && old(S13(c).TrafficKeys) == nil ==> result != nil && !called("TrafficKeyState.Install") && !called("Common.SetLocalEpoch")
//@ ensures validated: called("TrafficKeyState.Install") || called("Common.SetLocalEpoch") ==> called("validateNextWriteGeneration") && isNil(retErr("validateNextWriteGeneration", 0))
//@ ensures validated-against-current: called("validateNextWriteGeneration") ==> called("TrafficKeyState.CurrentWrite")
//@    && argAs("validateNextWriteGeneration", 0, generation) == retAs("TrafficKeyState.CurrentWrite", 0, generation)
//@    && argAs("validateNextWriteGeneration", 1, generation) == generation
//@    && argAs("validateNextWriteGeneration", 2, generation.Epoch) == old(S13(c).Common.LocalEpoch())
//@ ensures rejected-unchanged: result != nil ==> !called("TrafficKeyState.Install") && !called("Common.SetLocalEpoch")
//@    && (IS13(c) ==> S13(c).Common.LocalEpoch() == old(S13(c).Common.LocalEpoch()))
//@ ensures rejected-is-validation-error: result != nil && called("validateNextWriteGeneration") ==> sameRef(result, retErr("validateNextWriteGeneration", 0))
//@ ensures committed-installs-write-only: result == nil ==> ncalls("TrafficKeyState.Install") == 1
//@    && argAs("TrafficKeyState.Install", 0, S13(c).TrafficKeys) == old(S13(c).TrafficKeys)
//@    && argAs("TrafficKeyState.Install", 1, generation) == generation && argAs("TrafficKeyState.Install", 2, generation) == nil
//@ ensures committed-epoch-plus-one: result == nil ==> generation != nil && old(S13(c).Common.LocalEpoch()) < 65535
//@    && S13(c).Common.LocalEpoch() == old(S13(c).Common.LocalEpoch()) + 1 && S13(c).Common.LocalEpoch() == generation.Epoch
//@ ensures committed-epoch-set-once: result == nil ==> ncalls("Common.SetLocalEpoch") == 1 && calledBefore("TrafficKeyState.Install", "Common.SetLocalEpoch")
//@ ensures remote-epoch-untouched: IS13(c) ==> S13(c).Common.RemoteEpoch() == old(S13(c).Common.RemoteEpoch())
//@ ensures unlocked: !held("Conn.writeLock") && !held("Conn.lock")
//@ end

// openCiphertextRecord: a record is only opened under a read generation whose epoch does not exceed
// the authorised remote epoch (the one advanced by handleKeyUpdate) and whose low two epoch bits are
// the ones on the wire; the epoch returned is that generation's.

//@ func Conn.openCiphertextWithGeneration
//@ noinline
//@ end

//@ func Conn.openCiphertextRecord
//@ watch Conn.readTrafficCandidates Conn.openCiphertextWithGeneration
//@ requires args: c != nil
//@ requires state13: IS13(c) ==> nonNilPayload(c.state) && S13(c).Common != nil
//@ ensures not-dtls13: !IS13(c) ==> result3 != nil
//@ ensures opened-under-authorised-epoch: result3 == nil ==> called("Conn.readTrafficCandidates") && result2 <= retAs("Conn.readTrafficCandidates", 1, result2)
//@ ensures authorised-epoch-is-remote-epoch: result3 == nil ==> retAs("Conn.readTrafficCandidates", 1, result2) == old(S13(c).Common.RemoteEpoch())
//@ ensures opened-with-that-generation: result3 == nil ==> called("Conn.openCiphertextWithGeneration") && isNil(retErr("Conn.openCiphertextWithGeneration", 2))
//@    && argAs("Conn.openCiphertextWithGeneration", 2, TG0()) != nil && argAs("Conn.openCiphertextWithGeneration", 2, TG0()).Epoch == result2
//@    && result1 == retU64("Conn.openCiphertextWithGeneration", 1)
//@ ensures low-bits-match: result3 == nil ==> uint8(result2 & 3) == record.Header.EpochLow
//@ ensures candidates-once: ncalls("Conn.readTrafficCandidates") == 1
//@ loop #1: cands: forall(0, len(candidates), func(i int) bool { return candidates[i] != nil && uint8(candidates[i].Epoch & 3) == record.Header.EpochLow })
//@ loop #1: remote: remoteEpoch == retAs("Conn.readTrafficCandidates", 1, result2) && ncalls("Conn.readTrafficCandidates") == 1
// Retained generations are really tried: the two wire epoch bits can name several retained generations (epoch e and
// e+4); a failure to open under one candidate must not stop the search. Only the last call of a name is observable,
// so the law is stated for the last candidate: if it is authorised and keyed, a record is only rejected after it was
// tried (and failed); and whenever the record is rejected after a try, the error is the one of the last try.
//@ define ELIG(g) (g.Epoch <= remoteEpoch && !isNil(g.Protection))
//@ define LASTGEN() argAs("Conn.openCiphertextWithGeneration", 2, TG0())
//@ ensures last-candidate-tried: result3 != nil && len(candidates) > 0 && ELIG(candidates[len(candidates)-1])
//@    ==> called("Conn.openCiphertextWithGeneration") && LASTGEN() == candidates[len(candidates)-1] && !isNil(retErr("Conn.openCiphertextWithGeneration", 2))
//@ ensures rejected-with-last-error: result3 != nil && called("Conn.openCiphertextWithGeneration") ==> sameRef(result3, retErr("Conn.openCiphertextWithGeneration", 2))
//@ ensures never-tries-unauthorised: called("Conn.openCiphertextWithGeneration") ==> LASTGEN().Epoch <= remoteEpoch
//@ loop #1: tried-prev: idx > 0 && ELIG(candidates[idx-1]) ==> called("Conn.openCiphertextWithGeneration") && LASTGEN() == candidates[idx-1] && !isNil(retErr("Conn.openCiphertextWithGeneration", 2))
//@ loop #1: all-failed: called("Conn.openCiphertextWithGeneration") ==> !isNil(retErr("Conn.openCiphertextWithGeneration", 2)) && sameRef(candidateErr, retErr("Conn.openCiphertextWithGeneration", 2)) && LASTGEN().Epoch <= remoteEpoch && eligible
//@ loop #1: none-tried: !called("Conn.openCiphertextWithGeneration") ==> isNil(candidateErr)
//@ end

// A record of a retained (older) generation is numbered in that generation's epoch: the truncated sequence number is
// completed against the highest number seen in the epoch the record was protected in, not the current read epoch.
//@ func Conn.openCiphertextWithGeneration
//@ watch Conn.highestRemoteSequenceNumber
//@ ensures sequence-completed-in-the-records-epoch: called("Conn.highestRemoteSequenceNumber") ==> argAs("Conn.highestRemoteSequenceNumber", 1, generation.Epoch) == generation.Epoch
//@ end

// ---- round 2 (h3) ----------------------------------------------------------------------------------------------
// Per-epoch record numbering across a key update (RFC 9147 4.2.2 / 4.5.1): the highest record number seen is kept per
// epoch, because the truncated sequence number of a record is completed against the highest number of the epoch the
// record was protected in. A late record of a retained (older) generation must therefore advance the mark of ITS epoch
// only - never the one of the connection's current receive epoch - and with its own sequence number; only a record the
// replay detector reports as the newest of its epoch advances the mark at all.

// The replay detector's accept function (pion/transport) is a library callback: assumed to write only pion/transport objects.
//@ assume-pure freevar.accept writes github.com/pion/transport/

// The mark itself: a per-epoch maximum. After the call the mark of the given epoch covers the number, it is the larger of
// the old mark and the number (a fresh epoch starts from zero). (That no other epoch's mark moves is not claimed: the
// quantified invariants over the slice were too slow to be stable.)
//@ define RSN(c) dtlsstate.CommonState(c.state).RemoteSequenceNumber
//@ func Conn.updateRemoteSequenceNumber
//@ requires args: c != nil && wfState(c)
//@ ensures mark-covers-the-number: int(epoch) < len(RSN(c)) && RSN(c)[int(epoch)] >= sequenceNumber
//@ ensures mark-never-goes-back: int(epoch) < old(len(RSN(c))) && sequenceNumber <= old(RSN(c)[int(epoch)]) ==> RSN(c)[int(epoch)] == old(RSN(c)[int(epoch)])
//@ ensures mark-advances-to-the-number: int(epoch) < old(len(RSN(c))) && sequenceNumber > old(RSN(c)[int(epoch)]) ==> RSN(c)[int(epoch)] == sequenceNumber
//@ ensures fresh-epoch-starts-at-the-number: int(epoch) >= old(len(RSN(c))) ==> RSN(c)[int(epoch)] == sequenceNumber
//@ ensures never-shrinks: len(RSN(c)) >= old(len(RSN(c)))
//@ ensures state-kept: wfState(c)
//@ loop #1: same-common: common == dtlsstate.CommonState(c.state) && common != nil && wfState(c)
//@ loop #1: grows: len(common.RemoteSequenceNumber) >= old(len(RSN(c)))
//@ loop #1: bounded: len(common.RemoteSequenceNumber) > old(len(RSN(c))) ==> len(common.RemoteSequenceNumber) <= int(epoch) + 1
//@ loop #1: own-fresh-mark-zero: int(epoch) >= old(len(RSN(c))) && int(epoch) < len(common.RemoteSequenceNumber) ==> common.RemoteSequenceNumber[int(epoch)] == 0
//@ loop #1: own-old-mark-kept: int(epoch) < old(len(RSN(c))) ==> common.RemoteSequenceNumber[int(epoch)] == old(RSN(c)[int(epoch)])
//@ loop #2: same-common: common == dtlsstate.CommonState(c.state) && common != nil && wfState(c)
//@ loop #2: has-epoch: int(epoch) < len(common.RemoteSequenceNumber) && len(common.RemoteSequenceNumber) >= old(len(RSN(c)))
//@ loop #2: own-old-mark-kept: int(epoch) < old(len(RSN(c))) ==> common.RemoteSequenceNumber[int(epoch)] == old(RSN(c)[int(epoch)])
//@ loop #2: own-fresh-mark-zero: int(epoch) >= old(len(RSN(c))) ==> common.RemoteSequenceNumber[int(epoch)] == 0
//@ end

//@ func Conn.protectedReplayMarker$1
//@ watch accept Conn.updateRemoteSequenceNumber
//@ requires captured: accept != nil && c != nil && wfState(c)
//@ ensures commit-is-the-detectors-verdict: ncalls("accept") == 1 && result == retBool("accept", 0)
//@ ensures newest-advances-mark-once: result ==> ncalls("Conn.updateRemoteSequenceNumber") == 1
//@ ensures not-newest-keeps-mark: !result ==> !called("Conn.updateRemoteSequenceNumber")
//@ ensures mark-of-the-records-own-epoch: called("Conn.updateRemoteSequenceNumber") ==> argAs("Conn.updateRemoteSequenceNumber", 1, epoch) == old(epoch)
//@ ensures mark-is-the-records-own-number: called("Conn.updateRemoteSequenceNumber") ==> argU64("Conn.updateRemoteSequenceNumber", 2) == old(sequenceNumber)
//@ ensures mark-on-this-connection: called("Conn.updateRemoteSequenceNumber") ==> argAs("Conn.updateRemoteSequenceNumber", 0, c) == c
//@ ensures mark-after-commit: called("Conn.updateRemoteSequenceNumber") ==> calledBefore("accept", "Conn.updateRemoteSequenceNumber")
//@ end

// Acknowledgement of received DTLS 1.3 handshake records (RFC 9147 7.1; property: "UpdateKeys returns success only
// after the peer acknowledged the update ... under every loss/duplication/reordering pattern of the KeyUpdate and ACK
// records"): every protected (epoch >= 2) handshake record that the reassembly buffer accepted is queued for
// acknowledgement (exactly one entry; that the entry is the record's own number is not decided: struct-element append,
// engine limit) - a retransmitted KeyUpdate (the peer resends it under a new record number
// when our ACK was lost) just like a new one; otherwise the peer's update can never complete. Records of DTLS 1.2
// connections or of the unprotected epochs are never queued; a refused record queues nothing.
//@ define ACCEPTED_HS() (retErr("FragmentBuffer.Push", 2) == nil && retBool("FragmentBuffer.Push", 0))

// The version test is the code's own comparison of the connection's local version with DTLS 1.3 (Version.Equal); the
// record header is the caller's (not written here).
//@ define IS13REC() (retBool("Version.Equal", 0) && old(header.Epoch) >= 2)

//@ func Conn.bufferHandshakeRecord
//@ watch FragmentBuffer.Push Version.Equal
//@ ensures c20-protected-handshake-record-queued-for-ack: ACCEPTED_HS() && IS13REC() ==> len(c.pendingACKs) == old(len(c.pendingACKs)) + 1
//@ ensures c20-retransmitted-record-acknowledged-too: ACCEPTED_HS() && retBool("FragmentBuffer.Push", 1) && IS13REC() ==> len(c.pendingACKs) == old(len(c.pendingACKs)) + 1 && result0.retransmit
//@ ensures c20-unprotected-or-legacy-not-queued: !IS13REC() ==> len(c.pendingACKs) == old(len(c.pendingACKs))
//@ ensures c20-refused-not-queued: !ACCEPTED_HS() ==> len(c.pendingACKs) == old(len(c.pendingACKs))
//@ ensures c20-version-tested: ACCEPTED_HS() ==> called("Version.Equal")
//@ ensures c20-tested-against-dtls13: ACCEPTED_HS() ==> argAs("Version.Equal", 1, protocol.Version1_3).Major == 0xfe && argAs("Version.Equal", 1, protocol.Version1_3).Minor == 0xfc
//@ ensures c20-unlocked: !held("Conn.lock")
//@ loop #1: c20-unlocked: !held("Conn.lock")
//@ end
