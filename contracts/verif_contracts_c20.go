//go:build verif

// C20: DTLS 1.3 key updates, connection side (conn.go). Comment-only; read by /verif/vc.
package dtls

// The post-handshake state machine sees the commit of a local key update only as a callback of
// the keyUpdateCommitConn interface; its single implementation forwards to commitLocalKeyUpdate,
// which is verified on its own below.
//@ func handshakeConn.CommitLocalKeyUpdate
//@ noinline
//@ ensures wrapper-only: c.conn == old(c.conn)
//@ end

// The same for the other connection callbacks used while a peer KeyUpdate is processed.
//@ func handshakeConn.Notify
//@ noinline
//@ ensures wrapper-only: c.conn == old(c.conn)
//@ end

//@ func handshakeConn.HandleQueuedPackets
//@ noinline
//@ ensures wrapper-only: c.conn == old(c.conn)
//@ end

// S13(c): the DTLS 1.3 state object of the connection.
//@ define S13(c) c.state.(*dtlsstate.State13)
//@ define IS13(c) typeIs(c.state, "*github.com/pion/dtls/v3/internal/state.State13")
//@ define TG0() c.state.(*dtlsstate.State13).TrafficKeys.Read(0)

// commitLocalKeyUpdate: the acknowledged write generation becomes current only if it is the
// successor of the current one (validateNextWriteGeneration, contract in verif_contracts.go); then the
// sending epoch advances by exactly one. On any error neither keys nor epoch change.

//@ func Conn.commitLocalKeyUpdate
//@ watch validateNextWriteGeneration TrafficKeyState.Install Common.SetLocalEpoch TrafficKeyState.CurrentWrite
//@ requires args: c != nil
//@ requires state13: IS13(c) ==> nonNilPayload(c.state) && S13(c).Common != nil
//@ ensures not-dtls13: !IS13(c) ==> result != nil && !called("TrafficKeyState.Install") && !called("Common.SetLocalEpoch")
//@ ensures no-keys: IS13(c) && old(S13(c).TrafficKeys) == nil ==> result != nil && !called("TrafficKeyState.Install") && !called("Common.SetLocalEpoch")
//@ ensures validated: called("TrafficKeyState.Install") || called("Common.SetLocalEpoch") ==> called("validateNextWriteGeneration") && isNil(retErr("validateNextWriteGeneration", 0))
//@ ensures validated-against-current: called("validateNextWriteGeneration") ==> called("TrafficKeyState.CurrentWrite")
//@    && argAs("validateNextWriteGeneration", 0, generation) == retAs("TrafficKeyState.CurrentWrite", 0, generation)
//@    && argAs("validateNextWriteGeneration", 1, generation) == generation
//@    && argAs("validateNextWriteGeneration", 2, generation.Epoch) == old(S13(c).Common.LocalEpoch())
//@ ensures rejected-unchanged: result != nil ==> !called("TrafficKeyState.Install") && !called("Common.SetLocalEpoch")
//@    && (IS13(c) ==> S13(c).Common.LocalEpoch() == old(S13(c).Common.LocalEpoch()))
//@ ensures rejected-is-validation-error: result != nil && called("validateNextWriteGeneration") ==> sameRef(result, retErr("validateNextWriteGeneration", 0))
//@ ensures committed-installs-write-only: result == nil ==> ncalls("TrafficKeyState.Install") == 1
//@    && argAs("TrafficKeyState.Install", 0, S13(c).TrafficKeys) == old(S13(c).TrafficKeys)
//@    && argAs("TrafficKeyState.Install", 1, generation) == generation && argAs("TrafficKeyState.Install", 2, generation) == nil
//@ ensures committed-epoch-plus-one: result == nil ==> generation != nil && old(S13(c).Common.LocalEpoch()) < 65535
//@    && S13(c).Common.LocalEpoch() == old(S13(c).Common.LocalEpoch()) + 1 && S13(c).Common.LocalEpoch() == generation.Epoch
//@ ensures committed-epoch-set-once: result == nil ==> ncalls("Common.SetLocalEpoch") == 1 && calledBefore("TrafficKeyState.Install", "Common.SetLocalEpoch")
//@ ensures remote-epoch-untouched: IS13(c) ==> S13(c).Common.RemoteEpoch() == old(S13(c).Common.RemoteEpoch())
//@ ensures unlocked: !held("Conn.writeLock") && !held("Conn.lock")
//@ end
