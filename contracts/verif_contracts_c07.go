//go:build verif

// Contracts for package dtls: C07 confidentiality (nothing secret leaves unprotected).
package dtls

// Application data handed to Write is always packed as a record that requests encryption, and the
// payload is copied (not aliased) into it.
//@ func Conn.newApplicationDataPacket
//@ requires args: wfConn(c)
//@ ensures should-encrypt: result != nil && result.ShouldEncrypt
//@ ensures record: result.Record != nil && nonNilPayload(result.Record.Content) && typeIs(result.Record.Content, "*github.com/pion/dtls/v3/pkg/protocol.ApplicationData")
//@ ensures payload-copied: bytesEq(result.Record.Content.(*protocol.ApplicationData).Data, payload)
//@ ensures payload-not-aliased: len(payload) > 0 ==> !sameArray(result.Record.Content.(*protocol.ApplicationData).Data, payload)
//@ ensures fresh-packet: fresh(result) && fresh(result.Record)
//@ end

// Write hands data to the record layer only after the handshake has completed successfully.
//@ func Conn.Write
//@ watch Conn.Handshake Conn.writeApplicationData Conn.newApplicationDataPacket
//@ requires args: wfConn(c) && c.writeDeadline != nil
//@ ensures handshake-first: called("Conn.writeApplicationData") ==> called("Conn.Handshake") && retErr("Conn.Handshake", 0) == nil && calledBefore("Conn.Handshake", "Conn.writeApplicationData")
//@ ensures packet-from-constructor: called("Conn.writeApplicationData") ==> called("Conn.newApplicationDataPacket")
//@ ensures one-record-per-write: ncalls("Conn.writeApplicationData") <= 1
//@ end

// contextWithClose starts a goroutine that only reads the Conn and cancels the returned context (assumption).
//@ func Conn.contextWithClose
//@ trusted
//@ ensures wf-kept: old(wfConn(c)) ==> wfConn(c)
//@ ensures results: !isNil(result0) && result1 != nil
//@ end

// Handshake (goroutines, FSM) is not verified here; that it keeps the Conn well-formed is a listed assumption.
//@ func Conn.Handshake
//@ trusted
//@ requires wf: wfConn(c)
//@ ensures wf-kept: wfConn(c)
//@ end

//@ func Conn.writeApplicationData
//@ noinline
//@ end

// DTLS 1.2 emit path: a packet that requests encryption is never returned as marshalled plaintext:
// the bytes returned are the cipher suite's output.
//@ func Conn.processPacket
//@ watch CipherSuite.Encrypt Conn.nextLocalSequenceNumber Conn.processProtectedPacket
//@ requires state12: has12(c)
//@ requires args: pkt != nil && pkt.Record != nil && nonNilPayload(pkt.Record.Content)
//@ requires suite: pkt.ShouldEncrypt ==> S12(c).Common.CipherSuite != nil
//@ ensures encrypt-implies-ciphertext: old(pkt.ShouldEncrypt) && result1 == nil ==> (called("CipherSuite.Encrypt") && retErr("CipherSuite.Encrypt", 1) == nil && sameSlice(result0, retBytes("CipherSuite.Encrypt", 0))) || called("Conn.processProtectedPacket")
//@ ensures header-seq-is-allocated: result1 == nil ==> called("Conn.nextLocalSequenceNumber") && pkt.Record.Header.SequenceNumber == retU64("Conn.nextLocalSequenceNumber", 0)
//@ ensures one-number-per-record: ncalls("Conn.nextLocalSequenceNumber") == 1
//@ end
