//go:build verif

// Contracts for package dtls: C07 confidentiality (nothing secret leaves unprotected).
package dtls

// Application data handed to Write is always packed as a record that requests encryption, and the
// payload is copied (not aliased) into it.
//@ func Conn.newApplicationDataPacket
//@ requires args: wfConn(c)
//@ ensures should-encrypt: result != nil && result.ShouldEncrypt
//@ ensures record: result.Record != nil && nonNilPayload(result.Record.Content) && typeIs(result.Record.Content, "*github.com/pion/dtls/v3/pkg/protocol.ApplicationData")
//@ ensures payload-copied: bytesEq(result.Record.Content.(*protocol.ApplicationData).Data, payload)
//@ ensures payload-not-aliased: len(payload) > 0 ==> !sameArray(result.Record.Content.(*protocol.ApplicationData).Data, payload)
//@ ensures fresh-packet: fresh(result) && fresh(result.Record)
//@ end

// Write hands data to the record layer only after the handshake has completed successfully.
//@ func Conn.Write
//@ watch Conn.Handshake Conn.writeApplicationData Conn.newApplicationDataPacket
//@ requires args: wfConn(c) && c.writeDeadline != nil
//@ ensures handshake-first: called("Conn.writeApplicationData") ==> called("Conn.Handshake") && retErr("Conn.Handshake", 0) == nil && calledBefore("Conn.Handshake", "Conn.writeApplicationData")
//@ ensures packet-from-constructor: called("Conn.writeApplicationData") ==> called("Conn.newApplicationDataPacket")
//@ ensures one-record-per-write: ncalls("Conn.writeApplicationData") <= 1
// (engine limit: the element of the one-packet slice cannot be read back after the call, only its length)
//@ ensures exactly-one-packet: called("Conn.writeApplicationData") ==> len(argAs("Conn.writeApplicationData", 2, []*dtlsflight.Packet(nil))) == 1 && ncalls("Conn.newApplicationDataPacket") == 1
//@ ensures constructed-from-payload: called("Conn.newApplicationDataPacket") ==> sameSlice(argBytes("Conn.newApplicationDataPacket", 1), payload)
//@ end

// contextWithClose starts a goroutine that only reads the Conn and cancels the returned context (assumption).
//@ func Conn.contextWithClose
//@ trusted
//@ ensures wf-kept: old(wfConn(c)) ==> wfConn(c)
//@ ensures results: !isNil(result0) && result1 != nil
//@ end

// Handshake (goroutines, FSM) is not verified here; that it keeps the Conn well-formed is a listed assumption.
//@ func Conn.Handshake
//@ trusted
//@ requires wf: wfConn(c)
//@ ensures wf-kept: wfConn(c)
//@ end

// writeApplicationData: application records go out at the *current* local epoch (DTLS 1.2: every record header
// is stamped with LocalEpoch before the batch is written; that LocalEpoch >= 1 after the handshake is the listed
// FSM assumption), DTLS 1.3 data never reaches the DTLS 1.2 batch writer but the FSM's protected writer.
//@ func Conn.writeApplicationData
//@ watch Conn.writePacketsWithResult! ApplicationDataWriter.WriteApplicationData
//@ requires args: wfConn(c) && forall(0, len(pkts), func(i int) bool { return pkts[i] != nil && pkts[i].Record != nil })
//@ loop #1: current-epoch: epoch == old(CS(c).LocalEpoch()) && !called("Conn.writePacketsWithResult!")
//@ loop #1: wf-kept: wfConn(c)
//@ loop #1: stamped: idx > 0 ==> pkts[idx-1].Record.Header.Epoch == epoch
//@ ensures dtls13-through-protected-writer: old(XV13(CS(c).LocalVersion)) ==> !called("Conn.writePacketsWithResult!")
//@ ensures dtls12-through-batch-writer: !old(XV13(CS(c).LocalVersion)) ==> ncalls("Conn.writePacketsWithResult!") == 1 && !called("ApplicationDataWriter.WriteApplicationData")
//@ ensures same-packets: called("Conn.writePacketsWithResult!") ==> sameSlice(argAs("Conn.writePacketsWithResult!", 2, pkts), pkts)
//@ ensures same-packets-13: called("ApplicationDataWriter.WriteApplicationData") ==> sameSlice(argAs("ApplicationDataWriter.WriteApplicationData", 2, pkts), pkts)
//@ end

// DTLS 1.2 emit path: a packet that requests encryption is never returned as marshalled plaintext:
// the bytes returned are the cipher suite's output.
//@ func Conn.processPacket
//@ watch CipherSuite.Encrypt Conn.nextLocalSequenceNumber Conn.processProtectedPacket
//@ requires state12: has12(c)
//@ requires args: pkt != nil && pkt.Record != nil && nonNilPayload(pkt.Record.Content)
//@ requires suite: pkt.ShouldEncrypt ==> S12(c).Common.CipherSuite != nil
//@ ensures encrypt-implies-ciphertext: old(pkt.ShouldEncrypt) && result1 == nil ==> (called("CipherSuite.Encrypt") && retErr("CipherSuite.Encrypt", 1) == nil && sameSlice(result0, retBytes("CipherSuite.Encrypt", 0))) || called("Conn.processProtectedPacket")
//@ ensures header-seq-is-allocated: result1 == nil ==> called("Conn.nextLocalSequenceNumber") && pkt.Record.Header.SequenceNumber == retU64("Conn.nextLocalSequenceNumber", 0)
//@ ensures one-number-per-record: ncalls("Conn.nextLocalSequenceNumber") == 1
//@ end

// Keying-material exporter (RFC 5705 / RFC 8446 7.5): what is handed to the application is keyed by
// a handshake secret (master_secret in DTLS 1.2, exporter_master_secret in DTLS 1.3), never by a
// value that appears in clear in the handshake (session id, randoms, nil).
//@ define XV13(v) (v.Major == 254 && v.Minor == 252)

//@ func State.ExportKeyingMaterial
//@ watch prf.PHash! exportKeyingMaterial13
//@ requires receiver: s != nil
//@ ensures handshake-in-progress-refused: old(s.localEpoch) == 0 ==> result1 != nil && !called("prf.PHash!") && !called("exportKeyingMaterial13")
//@ ensures context-refused: len(context) != 0 ==> result1 != nil && !called("prf.PHash!") && !called("exportKeyingMaterial13")
//@ ensures exporter-keyed-by-master-secret: called("prf.PHash!") ==> sameSlice(argBytes("prf.PHash!", 0), s.masterSecret)
//@ ensures exporter-output-is-prf: result1 == nil && !XV13(s.version) ==> called("prf.PHash!") && retErr("prf.PHash!", 1) == nil && sameSlice(result0, retBytes("prf.PHash!", 0))
//@ ensures exporter-length: called("prf.PHash!") ==> argInt("prf.PHash!", 2) == length
//@ ensures exporter-prf-once: ncalls("prf.PHash!") <= 1 && ncalls("exportKeyingMaterial13") <= 1
// (engine limit: the contents of append(append([]byte(label), a[:]...), b[:]...) are not tracked, so the
// RFC 5705 seed order client_random || server_random is only stated as a length.)
//@ ensures exporter-seed-length: called("prf.PHash!") ==> len(argBytes("prf.PHash!", 1)) == len(label) + 64
//@ ensures dtls13-exporter-keyed-by-exporter-secret: XV13(s.version) ==> !called("prf.PHash!") && (result1 == nil ==> called("exportKeyingMaterial13"))
//@    && (called("exportKeyingMaterial13") ==> sameSlice(argBytes("exportKeyingMaterial13", 1), s.exporterSecret))
//@ ensures dtls13-exporter-output: XV13(s.version) && result1 == nil ==> sameSlice(result0, retBytes("exportKeyingMaterial13", 0)) && retErr("exportKeyingMaterial13", 1) == nil
//@ ensures dtls13-exporter-label-length: called("exportKeyingMaterial13") ==> argAs("exportKeyingMaterial13", 2, label) == label && argInt("exportKeyingMaterial13", 3) == length
//@ ensures dtls13-no-secret-no-export: XV13(s.version) && len(s.exporterSecret) == 0 ==> result1 != nil
//@ ensures dtls12-not-13-exporter: !XV13(s.version) ==> !called("exportKeyingMaterial13")
//@ ensures secrets-kept: sameSlice(s.masterSecret, old(s.masterSecret)) && sameSlice(s.exporterSecret, old(s.exporterSecret))
//@ end

// RFC 8446 7.5 with an empty context:
// HKDF-Expand-Label(Derive-Secret(exporter_master_secret, label, ""), "exporter", Hash(""), length).
//@ func exportKeyingMaterial13
//@ watch keyschedule.DeriveSecret keyschedule.HkdfExpandLabel!
//@ ensures no-secret-no-export: len(exporterSecret) == 0 ==> result1 != nil && isNil(result0)
//@ ensures no-secret-nothing-derived: len(exporterSecret) == 0 ==> !called("keyschedule.DeriveSecret") && !called("keyschedule.HkdfExpandLabel!")
//@ ensures derive-keyed-by-exporter-secret: called("keyschedule.DeriveSecret") ==> sameSlice(argBytes("keyschedule.DeriveSecret", 1), exporterSecret)
//@ ensures derive-label: called("keyschedule.DeriveSecret") ==> argAs("keyschedule.DeriveSecret", 2, label) == label
//@ ensures derive-error-rejected: called("keyschedule.DeriveSecret") && retErr("keyschedule.DeriveSecret", 1) != nil ==> result1 != nil && !called("keyschedule.HkdfExpandLabel!")
//@ ensures expand-keyed-by-derived: called("keyschedule.HkdfExpandLabel!") ==> called("keyschedule.DeriveSecret") && sameSlice(argBytes("keyschedule.HkdfExpandLabel!", 1), retBytes("keyschedule.DeriveSecret", 0))
//@ ensures expand-label-exporter: called("keyschedule.HkdfExpandLabel!") ==> argAs("keyschedule.HkdfExpandLabel!", 2, label) == "exporter"
//@ ensures expand-length: called("keyschedule.HkdfExpandLabel!") ==> argInt("keyschedule.HkdfExpandLabel!", 4) == length
//@ ensures output-is-expand: result1 == nil ==> called("keyschedule.HkdfExpandLabel!") && retErr("keyschedule.HkdfExpandLabel!", 1) == nil && sameSlice(result0, retBytes("keyschedule.HkdfExpandLabel!", 0))
//@ ensures at-most-once: ncalls("keyschedule.DeriveSecret") <= 1 && ncalls("keyschedule.HkdfExpandLabel!") <= 1
//@ end

// The exported DTLS 1.3 State carries a private copy of the exporter_master_secret of the key schedule.
//@ func generateState13
//@ requires args: internalState != nil && internalState.Common != nil
//@ ensures exporter-secret-copied: result1 == nil ==> bytesEq(result0.exporterSecret, internalState.KeySchedule.ExporterMasterSecret)
//@ ensures exporter-secret-not-aliased: result1 == nil && len(internalState.KeySchedule.ExporterMasterSecret) > 0 ==> !sameArray(result0.exporterSecret, internalState.KeySchedule.ExporterMasterSecret)
//@ ensures version13: result1 == nil ==> XV13(result0.version)
//@ ensures no-master-secret: result1 == nil ==> len(result0.masterSecret) == 0
//@ ensures no-suite-refused: isNil(internalState.Common.CipherSuite) ==> result1 != nil && result0 == nil
//@ end

// RFC 9147 4.2.1 / 6.1: epochs 0 (unprotected) .. 2 (handshake) are never used for application traffic, and a sender
// must not let the 16-bit epoch wrap: a key update is accepted only if the next write epoch is the successor of the
// current one *as an integer*, so that the write epoch can never come back to 0 ("application records never carry
// epoch 0") or to an epoch whose keys were already used.
//@ func validateNextWriteGeneration
//@ ensures c07-next-epoch-not-zero: result == nil ==> next.Epoch != 0
//@ ensures c07-next-epoch-above-current: result == nil ==> uint32(next.Epoch) == uint32(current.Epoch) + 1
//@ ensures c07-last-epoch-refused: current != nil && next != nil && current.Epoch == 65535 ==> result != nil
//@ end
