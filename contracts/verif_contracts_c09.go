//go:build verif

// Contracts for package dtls: C09 nonce uniqueness - lock discipline of the emit path. Sequence numbers
// are allocated (nextLocalSequenceNumber) and records are marshalled/encrypted under c.lock, and the
// whole prepare-then-send of one batch runs under c.writeLock, so numbers reach the wire in allocation
// order for every interleaving of writers. Comment-only; read by /verif/vc.
package dtls

// The records of one batch are built (sequence numbers allocated, headers marshalled, payloads
// encrypted) inside one critical section of c.lock.
//@ func Conn.prepareRecordsTracked
//@ noinline
//@ end

//@ func Conn.prepareRawPacketsTracked
//@ inline
//@ watch Conn.prepareRecordsTracked
//@ ensures locked-while-preparing: always("Conn.prepareRecordsTracked", "held(\"dtls.Conn.lock\")")
//@ ensures prepared-once: ncalls("Conn.prepareRecordsTracked") == 1
//@ ensures unlocked-after: !held("dtls.Conn.lock")
//@ end

//@ func Conn.writePacketsWithResultLocked
//@ watch Conn.prepareRawPacketsTracked PacketConn.WriteToContext
//@ ensures prepared-once: ncalls("Conn.prepareRawPacketsTracked") == 1
//@ ensures prepare-error-nothing-sent: retErr("Conn.prepareRawPacketsTracked", 2) != nil ==> !called("PacketConn.WriteToContext") && result1 != nil
//@ end

//@ func Conn.writePacketsWithResult
//@ watch Conn.writePacketsWithResultLocked
//@ ensures locked-while-writing: always("Conn.writePacketsWithResultLocked", "held(\"dtls.Conn.writeLock\")")
//@ ensures written-once: ncalls("Conn.writePacketsWithResultLocked") == 1
//@ ensures unlocked-after: !held("dtls.Conn.writeLock")
//@ end

// Return-routability messages are a second emit path: the record is numbered and encrypted
// (processPacket) while both c.lock and c.writeLock are held, it always requests encryption, and the
// datagram leaves while c.writeLock is still held, so it cannot overtake or be overtaken by a batch.
//@ define RRCENV(c) (CS(c).RRCNegotiated ==> has12(c) && S12(c).Common.CipherSuite != nil)

//@ func returnRoutabilityConn.WriteRRC
//@ inline
//@ watch Conn.processPacket PacketConn.WriteToContext
//@ requires env: c.conn != nil && wfConn(c.conn) && RRCENV(c.conn)
//@ ensures locked-while-numbering: always("Conn.processPacket", "held(\"dtls.Conn.lock\") && held(\"dtls.Conn.writeLock\")")
//@ ensures sent-under-write-lock: always("PacketConn.WriteToContext", "held(\"dtls.Conn.writeLock\") && !held(\"dtls.Conn.lock\")")
//@ ensures unlocked-after: !held("dtls.Conn.lock") && !held("dtls.Conn.writeLock")
//@ ensures one-record: ncalls("Conn.processPacket") <= 1 && ncalls("PacketConn.WriteToContext") <= 1
//@ ensures always-encrypted: called("Conn.processPacket") ==> argAs("Conn.processPacket", 1, (*dtlsflight.Packet)(nil)).ShouldEncrypt
//@ ensures not-negotiated-nothing-sent: !old(CS(c.conn).RRCNegotiated) ==> result != nil && !called("Conn.processPacket") && !called("PacketConn.WriteToContext")
//@ ensures sent-is-what-was-protected: called("PacketConn.WriteToContext") ==> called("Conn.processPacket") && retErr("Conn.processPacket", 1) == nil && sameSlice(argBytes("PacketConn.WriteToContext", 2), retBytes("Conn.processPacket", 0))
//@ end

// DTLS 1.3 emit path: the record is sealed with the write keys of the record's own epoch and with
// exactly the allocated 64-bit sequence number (which the record protection turns into the nonce,
// internal/ciphersuite recordNonce13); the header carries its low bits.
//@ func Conn.sealRecordContent
//@ watch Conn.writeTrafficGeneration RecordProtection13.Seal
//@ requires env: wfState(c)
//@ ensures keys-of-the-epoch: called("RecordProtection13.Seal") ==> called("Conn.writeTrafficGeneration") && retErr("Conn.writeTrafficGeneration", 1) == nil && argAs("Conn.writeTrafficGeneration", 1, epoch) == epoch
//@ ensures sealed-with-keys-of-the-epoch: called("RecordProtection13.Seal") ==> sameRef(argAs("RecordProtection13.Seal", 0, retAs("Conn.writeTrafficGeneration", 0, (*dtlsstate.TrafficGeneration)(nil)).Protection), retAs("Conn.writeTrafficGeneration", 0, (*dtlsstate.TrafficGeneration)(nil)).Protection)
//@ ensures sealed-with-allocated-number: called("RecordProtection13.Seal") ==> argU64("RecordProtection13.Seal", 2) == seq
//@ ensures header-low-bits: called("RecordProtection13.Seal") ==> argAs("RecordProtection13.Seal", 1, recordlayer.UnifiedHeader{}).SequenceNumber == uint16(seq) && argAs("RecordProtection13.Seal", 1, recordlayer.UnifiedHeader{}).EpochLow == uint8(epoch & 3)
//@ ensures sealed-at-most-once: ncalls("RecordProtection13.Seal") <= 1
//@ ensures sealed-on-success: result1 == nil ==> ncalls("RecordProtection13.Seal") == 1 && retErr("RecordProtection13.Seal", 1) == nil
//@ ensures no-keys-no-record: called("Conn.writeTrafficGeneration") && retErr("Conn.writeTrafficGeneration", 1) != nil ==> result1 != nil && !called("RecordProtection13.Seal")
//@ end

//@ func Conn.writeTrafficGeneration
//@ requires env: wfState(c)
//@ ensures ok-has-protection: result1 == nil ==> result0 != nil && !isNil(result0.Protection)
//@ ensures error-no-generation: result1 != nil ==> result0 == nil
//@ end

// processPacket (further C09 clauses; the base contract is in verif_contracts_c07.go): the number comes from the
// counter of the record's own epoch, the epoch in the emitted header is that epoch, and both protection back
// ends (DTLS 1.2 cipher suite, DTLS 1.3 record protection) are handed exactly the allocated number.
//@ func Conn.processPacket
//@ watch CipherSuite.Encrypt Conn.nextLocalSequenceNumber Conn.processProtectedPacket
//@ ensures number-from-own-epoch: argAs("Conn.nextLocalSequenceNumber", 1, uint16(0)) == old(pkt.Record.Header.Epoch)
//@ ensures epoch-kept: result1 == nil ==> pkt.Record.Header.Epoch == old(pkt.Record.Header.Epoch)
//@ ensures encrypt-sees-this-record: called("CipherSuite.Encrypt") ==> argAs("CipherSuite.Encrypt", 1, pkt.Record) == pkt.Record
//@ ensures protected-with-allocated: called("Conn.processProtectedPacket") ==> argU64("Conn.processProtectedPacket", 2) == retU64("Conn.nextLocalSequenceNumber", 0) && argAs("Conn.processProtectedPacket", 1, pkt) == pkt
//@ ensures overflow-nothing-emitted: retErr("Conn.nextLocalSequenceNumber", 1) != nil ==> result1 != nil && isNil(result0) && !called("CipherSuite.Encrypt") && !called("Conn.processProtectedPacket")
//@ end

// processProtectedPacket (DTLS 1.3): sealed under the record's epoch with the number it was given.
//@ func Conn.processProtectedPacket
//@ watch Conn.sealRecordContent
//@ requires args: pkt != nil && pkt.Record != nil && wfState(c)
//@ ensures sealed-with-given-number: called("Conn.sealRecordContent") ==> argU64("Conn.sealRecordContent", 2) == seq && argAs("Conn.sealRecordContent", 1, uint16(0)) == old(pkt.Record.Header.Epoch)
//@ ensures sealed-at-most-once: ncalls("Conn.sealRecordContent") <= 1
//@ ensures output-is-sealed: result1 == nil ==> called("Conn.sealRecordContent") && sameSlice(result0, retBytes("Conn.sealRecordContent", 0))
//@ end

// processHandshakePacket (further C09 clauses; base contract in verif_contracts.go): every fragment's number is
// drawn from the counter of the packet's own epoch, the emitted headers keep that epoch, and exactly one number
// is consumed per emitted record.
//@ func Conn.processHandshakePacket
//@ watch Conn.nextLocalSequenceNumber CipherSuite.Encrypt
//@ loop rangeindex: number-from-own-epoch: epoch == old(pkt.Record.Header.Epoch) && (ncalls("Conn.nextLocalSequenceNumber") > 0 ==> argAs("Conn.nextLocalSequenceNumber", 1, uint16(0)) == old(pkt.Record.Header.Epoch))
//@ loop rangeindex: one-number-per-record: ncalls("Conn.nextLocalSequenceNumber") == len(rawPackets)
//@ loop rangeindex: bounds: idx >= 0 && idx <= len(handshakeFragments)
//@ ensures one-number-per-emitted-record: result1 == nil && !(old(XV13(S12(c).Common.LocalVersion)) && old(pkt.ShouldEncrypt)) ==> ncalls("Conn.nextLocalSequenceNumber") == len(result0)
//@ end

// DTLS 1.3 writer of protected handshake records (flights, retransmissions, NewSessionTicket, KeyUpdate): every record
// is sealed with a number freshly and *successfully* allocated from the counter of the packet's epoch; when the
// 48-bit space of the epoch is exhausted (RFC 9147 4.2.1 / RFC 6347 4.1: sequence numbers must not wrap) nothing is
// sealed - in particular no record is sealed with the placeholder number 0 of a failed allocation, which would
// reuse the (key, nonce) pair of the epoch's first record.
// (The numbering loop is proved over the State12 representation of the common block, because the allocator's contract
// is stated over it; dtlsstate.CommonState makes the code path identical for State13.)
//@ define NLSN_OK() (called("Conn.nextLocalSequenceNumber") && isNil(retErr("Conn.nextLocalSequenceNumber", 1)))
//@ func Conn.processProtectedHandshakePacketTracked
//@ watch Conn.nextLocalSequenceNumber Conn.sealRecordContent
//@ requires state12: has12(c)
//@ requires args: pkt != nil && pkt.Record != nil && dtlsHandshake != nil && !isNil(dtlsHandshake.Message)
//@ requires mtu: c.maximumTransmissionUnit > 0 && c.maximumTransmissionUnit <= 1<<30
//@ ensures sealed-only-with-allocated-number: always("Conn.sealRecordContent", "called(\"Conn.nextLocalSequenceNumber\") && isNil(retErr(\"Conn.nextLocalSequenceNumber\", 1)) && argU64(\"Conn.sealRecordContent\", 2) == retU64(\"Conn.nextLocalSequenceNumber\", 0)")
//@ ensures sealed-in-packets-epoch: always("Conn.sealRecordContent", "argAs(\"Conn.sealRecordContent\", 1, uint16(0)) == argAs(\"Conn.nextLocalSequenceNumber\", 1, uint16(0))") && always("Conn.nextLocalSequenceNumber", "argAs(\"Conn.nextLocalSequenceNumber\", 1, uint16(0)) == old(pkt.Record.Header.Epoch)")
//@ ensures overflow-nothing-more-emitted: called("Conn.nextLocalSequenceNumber") && !isNil(retErr("Conn.nextLocalSequenceNumber", 1)) ==> result1 != nil && len(result0) == 0
//@ ensures one-number-per-record: result1 == nil ==> ncalls("Conn.nextLocalSequenceNumber") == len(result0) && ncalls("Conn.sealRecordContent") == len(result0)
//@ loop rangeindex: state-kept: has12(c) && pkt.Record != nil && pkt.Record == old(pkt.Record) && epoch == old(pkt.Record.Header.Epoch)
//@ loop rangeindex: bounds: idx >= 0 && idx <= len(handshakeFragments)
//@ loop rangeindex: allocations-succeeded: called("Conn.nextLocalSequenceNumber") ==> isNil(retErr("Conn.nextLocalSequenceNumber", 1))
//@ loop rangeindex: sealed-only-with-allocated-number: always("Conn.sealRecordContent", "called(\"Conn.nextLocalSequenceNumber\") && isNil(retErr(\"Conn.nextLocalSequenceNumber\", 1)) && argU64(\"Conn.sealRecordContent\", 2) == retU64(\"Conn.nextLocalSequenceNumber\", 0)")
//@ loop rangeindex: sealed-in-packets-epoch: always("Conn.sealRecordContent", "argAs(\"Conn.sealRecordContent\", 1, uint16(0)) == argAs(\"Conn.nextLocalSequenceNumber\", 1, uint16(0))") && always("Conn.nextLocalSequenceNumber", "argAs(\"Conn.nextLocalSequenceNumber\", 1, uint16(0)) == old(pkt.Record.Header.Epoch)")
//@ loop rangeindex: one-number-per-record: ncalls("Conn.nextLocalSequenceNumber") == len(rawPackets) && ncalls("Conn.sealRecordContent") == len(rawPackets)
//@ end

// processHandshakePacket (DTLS 1.2), exhaustion of an epoch's 48-bit space (RFC 6347 4.1: "must either abandon the
// association or rehandshake prior to allowing the sequence number to wrap"): after a failed allocation nothing is
// emitted, and a record is only encrypted under a successfully allocated number (never the placeholder 0 of a failure).
//@ func Conn.processHandshakePacket
//@ watch Conn.nextLocalSequenceNumber CipherSuite.Encrypt
//@ loop rangeindex: c09-allocations-succeeded: called("Conn.nextLocalSequenceNumber") ==> isNil(retErr("Conn.nextLocalSequenceNumber", 1))
//@ loop rangeindex: c09-encrypt-after-successful-allocation: always("CipherSuite.Encrypt", "called(\"Conn.nextLocalSequenceNumber\") && isNil(retErr(\"Conn.nextLocalSequenceNumber\", 1))")
//@ ensures c09-overflow-nothing-emitted: !(old(XV13(S12(c).Common.LocalVersion)) && old(pkt.ShouldEncrypt)) && called("Conn.nextLocalSequenceNumber") && !isNil(retErr("Conn.nextLocalSequenceNumber", 1)) ==> result1 != nil && len(result0) == 0
//@ ensures c09-encrypt-after-successful-allocation: always("CipherSuite.Encrypt", "called(\"Conn.nextLocalSequenceNumber\") && isNil(retErr(\"Conn.nextLocalSequenceNumber\", 1))")
//@ end
