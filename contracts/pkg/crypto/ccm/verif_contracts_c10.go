//go:build verif

// C10: wire conformance of AES-CCM records (RFC 6655 3 -> RFC 3610 2.2/2.3). The AEAD output of a CCM / CCM_8 suite is
// only interoperable if the CBC-MAC input is B_0 || l(a) || a || zero padding || m || zero padding and the output is
// CTR(m) || (T xor S_0)[:M]. For tls12_cid records (RFC 9146 5.3) the additional data has 23 + cid_length bytes, i.e. it does
// not fit the first MAC block (2 + 14 bytes): the second and later blocks must continue with a[14], a[15], ...
// The clauses of verif_contracts_c05.go on ccm.tag / ccm.cbcData (every byte of a and m is MACed exactly once, in order)
// are part of C10 as well (props/C10.json lists the functions); this file adds the formatting of B_0, the long-AAD case
// and the assembly of the sealed output. Comment-only; read by /verif/vc.
package ccm

// RFC 3610 2.2: B_0 = flags || nonce N || l(m), flags = 64*Adata + 8*((M-2)/2) + (L-1), l(m) in the last L octets,
// most significant first. B_0 is the first block that is encrypted (X_1 = E(K, B_0)).
// (B_0 is read at the time of the call: Block.Encrypt is summarised by a byte-heap havoc.)
//@ func ccm.tag
//@ watch Block.Encrypt! ccm.cbcData ccm.cbcRound!
//@ ensures c10-b0-encrypted-first: result1 == nil ==> ncalls("Block.Encrypt!") == 1 && sameSlice(argBytes("Block.Encrypt!", 1), argBytes("Block.Encrypt!", 2)) && len(argBytes("Block.Encrypt!", 2)) == 16
//@    && (called("ccm.cbcData") ==> calledBefore("Block.Encrypt!", "ccm.cbcData")) && (called("ccm.cbcRound!") ==> calledBefore("Block.Encrypt!", "ccm.cbcRound!"))
//@ ensures c10-b0-flags-adata: called("Block.Encrypt!") && len(adata) > 0 && c.M & 1 == 0 ==> atCall("Block.Encrypt!", argBytes("Block.Encrypt!", 2)[0] == 64 + 8 * ((c.M - 2) / 2) + (c.L - 1))
//@ ensures c10-b0-flags-no-adata: called("Block.Encrypt!") && len(adata) == 0 && c.M & 1 == 0 ==> atCall("Block.Encrypt!", argBytes("Block.Encrypt!", 2)[0] == 8 * ((c.M - 2) / 2) + (c.L - 1))
//@ ensures c10-b0-nonce: called("Block.Encrypt!") ==> atCall("Block.Encrypt!", forall(0, 15 - int(c.L), func(j int) bool { return argBytes("Block.Encrypt!", 2)[1+j] == nonce[j] }))
//@ ensures c10-b0-message-length: called("Block.Encrypt!") ==> atCall("Block.Encrypt!", forall(0, 8, func(j int) bool { return j >= 8 - int(c.L) ==> argBytes("Block.Encrypt!", 2)[8+j] == byte(uint64(len(plaintext)) >> (8 * uint(7 - j))) }))
//@ ensures c10-message-length-fits: result1 == nil && c.L < 8 ==> uint64(len(plaintext)) < uint64(1) << (8 * uint(c.L))
// RFC 9146 additional data (more than 14 bytes): the MAC continues with a[14:] - all of it, starting exactly there.
//@ ensures c10-long-aad-continues-at-byte-14: result1 == nil && len(adata) > 14 && len(adata) <= 0xfeff && len(plaintext) == 0 ==> ncalls("ccm.cbcData") == 1
//@    && sameArray(argBytes("ccm.cbcData", 2), adata) && offsetOf(argBytes("ccm.cbcData", 2)) == offsetOf(adata) + 14 && len(argBytes("ccm.cbcData", 2)) == len(adata) - 14
//@ ensures c10-long-aad-then-message: result1 == nil && len(adata) > 14 && len(adata) <= 0xfeff && len(plaintext) > 0 ==> ncalls("ccm.cbcData") == 2
//@    && always("ccm.cbcData", "ncalls(\"ccm.cbcData\") == 1 ==> sameArray(argBytes(\"ccm.cbcData\", 2), adata) && offsetOf(argBytes(\"ccm.cbcData\", 2)) == offsetOf(adata) + 14 && len(argBytes(\"ccm.cbcData\", 2)) == len(adata) - 14")
//@ ensures c10-length-block-before-aad-rest: called("ccm.cbcRound!") && called("ccm.cbcData") ==> always("ccm.cbcData", "called(\"ccm.cbcRound!\")")
//@ end

// RFC 3610 2.3: A_i = flags(L-1) || N || counter i; S_0 = E(K, A_0); U = T xor first-M-bytes(S_0); the message is encrypted
// with S_1, S_2, ... (CTR mode starting at counter 1); output = c || U appended to dst.
//@ func ccm.Seal
//@ watch Block.Encrypt! cipher.NewCTR Stream.XORKeyStream ccm.tag
//@ requires wf: wfccm(c)
//@ requires nonce: len(nonce) == 15 - int(c.L)
//@ requires plaintext-fits: len(plaintext) <= c.MaxLength()
//@ ensures c10-tag-over-callers-inputs: ncalls("ccm.tag") == 1 && sameSlice(argBytes("ccm.tag", 1), nonce) && sameSlice(argBytes("ccm.tag", 2), plaintext) && sameSlice(argBytes("ccm.tag", 3), adata)
//@ ensures c10-a0-separate-output: called("Block.Encrypt!") ==> ncalls("Block.Encrypt!") == 1 && len(argBytes("Block.Encrypt!", 2)) == 16 && len(argBytes("Block.Encrypt!", 1)) == 16 && !sameArray(argBytes("Block.Encrypt!", 1), argBytes("Block.Encrypt!", 2))
//@ ensures c10-a0-flags: called("Block.Encrypt!") ==> atCall("Block.Encrypt!", argBytes("Block.Encrypt!", 2)[0] == c.L - 1)
//@ ensures c10-a0-nonce: called("Block.Encrypt!") ==> atCall("Block.Encrypt!", forall(0, 15 - int(c.L), func(j int) bool { return argBytes("Block.Encrypt!", 2)[1+j] == nonce[j] }))
//@ ensures c10-a0-counter-zero: called("Block.Encrypt!") ==> atCall("Block.Encrypt!", forall(16 - int(c.L), 16, func(j int) bool { return argBytes("Block.Encrypt!", 2)[j] == 0 }))
//@ ensures c10-ctr-from-a1: called("cipher.NewCTR") ==> ncalls("cipher.NewCTR") == 1 && sameRef(argAny("cipher.NewCTR", 0), c.b) && sameArray(argBytes("cipher.NewCTR", 1), argBytes("Block.Encrypt!", 2)) && len(argBytes("cipher.NewCTR", 1)) == 16
//@    && calledBefore("Block.Encrypt!", "cipher.NewCTR")
//@ ensures c10-message-encrypted-after-dst: ncalls("Stream.XORKeyStream") == 1 && sameRef(argAny("Stream.XORKeyStream", 0), retAny("cipher.NewCTR", 0)) && sameSlice(argBytes("Stream.XORKeyStream", 2), plaintext)
//@    && sameArray(argBytes("Stream.XORKeyStream", 1), result) && offsetOf(argBytes("Stream.XORKeyStream", 1)) == offsetOf(result) + len(dst)
//@ ensures c10-ctr-counter-one: called("cipher.NewCTR") ==> atCall("cipher.NewCTR", argBytes("cipher.NewCTR", 1)[15] & 1 == 1)
// (only the low bit: the counter block's bytes are havocked by the summary of the preceding Block.Encrypt)
// (not stated: result[len(dst)+len(plaintext)+j] == U[j] - the clause over the final copy stays `unknown` (z3/cvc5, 40 s), even for j == 0;
//  the XOR of T with S_0 is a loop after the Block.Encrypt havoc and cannot be stated either)
//@ ensures c10-output-length: len(result) == len(dst) + len(plaintext) + int(c.M)
//@ end

// Receiving side (RFC 3610 2.5): the same A_0 / S_0 / CTR-from-A_1 key stream is used to recover T and the message, and the
// tag is recomputed over the caller's nonce and additional data (tag-over-callers-aad, verif_contracts_c05.go).
//@ func ccm.Open
//@ watch Block.Encrypt! cipher.NewCTR Stream.XORKeyStream
//@ ensures c10-a0-separate-output: called("Block.Encrypt!") ==> ncalls("Block.Encrypt!") == 1 && len(argBytes("Block.Encrypt!", 2)) == 16 && len(argBytes("Block.Encrypt!", 1)) == 16 && !sameArray(argBytes("Block.Encrypt!", 1), argBytes("Block.Encrypt!", 2))
//@ ensures c10-a0-flags: called("Block.Encrypt!") ==> atCall("Block.Encrypt!", argBytes("Block.Encrypt!", 2)[0] == c.L - 1)
//@ ensures c10-a0-nonce: called("Block.Encrypt!") && len(nonce) == 15 - int(c.L) ==> atCall("Block.Encrypt!", forall(0, 15 - int(c.L), func(j int) bool { return argBytes("Block.Encrypt!", 2)[1+j] == nonce[j] }))
//@ ensures c10-a0-counter-zero: called("Block.Encrypt!") ==> atCall("Block.Encrypt!", forall(16 - int(c.L), 16, func(j int) bool { return argBytes("Block.Encrypt!", 2)[j] == 0 }))
//@ ensures c10-ctr-from-a1: called("cipher.NewCTR") ==> ncalls("cipher.NewCTR") == 1 && sameRef(argAny("cipher.NewCTR", 0), c.b) && sameArray(argBytes("cipher.NewCTR", 1), argBytes("Block.Encrypt!", 2)) && len(argBytes("cipher.NewCTR", 1)) == 16
//@    && calledBefore("Block.Encrypt!", "cipher.NewCTR")
//@ ensures c10-ctr-counter-one: called("cipher.NewCTR") ==> atCall("cipher.NewCTR", argBytes("cipher.NewCTR", 1)[15] & 1 == 1)
//@ ensures c10-ciphertext-without-tag-decrypted: called("Stream.XORKeyStream") ==> ncalls("Stream.XORKeyStream") == 1 && sameRef(argAny("Stream.XORKeyStream", 0), retAny("cipher.NewCTR", 0))
//@    && sameArray(argBytes("Stream.XORKeyStream", 2), ciphertext) && offsetOf(argBytes("Stream.XORKeyStream", 2)) == offsetOf(ciphertext) && len(argBytes("Stream.XORKeyStream", 2)) == len(ciphertext) - int(c.M)
//@    && fresh(argBytes("Stream.XORKeyStream", 1)) && len(argBytes("Stream.XORKeyStream", 1)) == len(ciphertext) - int(c.M)
//@ ensures c10-tag-over-decrypted-message: called("ccm.tag") ==> sameSlice(argBytes("ccm.tag", 2), argBytes("Stream.XORKeyStream", 1))
//@ ensures c10-received-tag-is-ciphertext-suffix: called("subtle.ConstantTimeCompare") ==> fresh(argBytes("subtle.ConstantTimeCompare", 0))
//@ ensures c10-plaintext-appended: result1 == nil ==> len(result0) == len(dst) + len(ciphertext) - int(c.M)
//@ end
