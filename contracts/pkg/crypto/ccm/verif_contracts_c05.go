//go:build verif

// C05: CCM authentication tag (RFC 3610 2.2). The CBC-MAC covers B_0 (flags, nonce, l(m)), then the
// encoded length of the additional data followed by *all* of the additional data (zero padded to a
// block boundary), then all of the message. A record header byte that is not MACed can be altered
// without detection. Comment-only; read by /verif/vc.
package ccm

//@ define wfccm(c) c != nil && !isNil(c.b) && c.M >= 4 && c.M <= 16 && c.L >= 2 && c.L <= 8

// One CBC-MAC step over one 16-byte block. Trusted summary (assumption): cipher.Block.Encrypt(dst, src)
// writes only dst, so the step changes the accumulator and leaves the block it consumed untouched. (The
// engine models Block.Encrypt as a havoc of every byte slice, under which no byte content survives a step.)
//@ func ccm.cbcRound
//@ trusted
//@ requires args: c != nil && !isNil(c.b) && len(mac) >= 16 && len(data) >= 16
//@ requires separate: !sameArray(mac, data)
//@ ensures data-kept: forall(0, 16, func(j int) bool { return data[j] == old(data[j]) })
//@ end

// cbcData feeds every block of data into the MAC: floor(len/16) full blocks and one zero-padded
// block for a remainder; nothing is skipped.
//@ func ccm.cbcData
//@ watch ccm.cbcRound
//@ requires args: c != nil && !isNil(c.b) && len(mac) >= 16 && !sameArray(mac, data)
//@ ensures all-blocks-processed: ncalls("ccm.cbcRound") == (old(len(data)) + 15) / 16
//@ ensures empty-is-noop: old(len(data)) == 0 ==> !called("ccm.cbcRound")
//@ loop #1: progress: ncalls("ccm.cbcRound") * 16 + len(data) == len(old(data)) && len(data) >= 0 && ncalls("ccm.cbcRound") >= 0 && len(mac) >= 16
//@ loop #1: window: sameArray(data, old(data)) && offsetOf(data) + len(data) == offsetOf(old(data)) + len(old(data))
//@ loop #1: full-blocks-in-order: ncalls("ccm.cbcRound") > 0 ==> sameArray(argBytes("ccm.cbcRound", 2), old(data)) && offsetOf(argBytes("ccm.cbcRound", 2)) + 16 == offsetOf(data) && len(argBytes("ccm.cbcRound", 2)) == 16
//@ end

//@ define AADREST(a) (len(a) - min(len(a), 14))

//@ func ccm.tag
//@ inline
//@ watch ccm.cbcData ccm.cbcRound!
//@ requires wf: wfccm(c)
//@ ensures nonce-size-checked: len(nonce) != 15 - int(c.L) ==> result1 != nil
//@ ensures tag-length: result1 == nil ==> len(result0) == int(c.M)
//@ ensures nothing-to-mac: result1 == nil && len(adata) == 0 && len(plaintext) == 0 ==> ncalls("ccm.cbcData") == 0
//@ ensures aad-and-message-macced: result1 == nil && len(adata) > 0 && len(plaintext) > 0 ==> ncalls("ccm.cbcData") == 2
//@ ensures only-aad-macced: result1 == nil && len(adata) > 0 && len(plaintext) == 0 ==> ncalls("ccm.cbcData") == 1
//@ ensures only-message-macced: result1 == nil && len(adata) == 0 && len(plaintext) > 0 ==> ncalls("ccm.cbcData") == 1
//@ ensures message-macced-last: result1 == nil && len(plaintext) > 0 ==> sameSlice(argBytes("ccm.cbcData", 2), plaintext)
//@ ensures aad-rest-macced: result1 == nil && len(adata) > 0 && len(adata) <= 0xfeff && len(plaintext) == 0 ==> sameArray(argBytes("ccm.cbcData", 2), adata)
//@    && len(argBytes("ccm.cbcData", 2)) == AADREST(adata) && offsetOf(argBytes("ccm.cbcData", 2)) == offsetOf(adata) + min(len(adata), 14)
//@ ensures every-mac-input-is-aad-rest-or-message: len(adata) <= 0xfeff ==> always("ccm.cbcData", "sameSlice(argBytes(\"ccm.cbcData\", 2), plaintext) || (sameArray(argBytes(\"ccm.cbcData\", 2), adata) && len(argBytes(\"ccm.cbcData\", 2)) == AADREST(adata) && offsetOf(argBytes(\"ccm.cbcData\", 2)) == offsetOf(adata) + min(len(adata), 14))")
//@ ensures mac-on-accumulator: always("ccm.cbcData", "len(argBytes(\"ccm.cbcData\", 1)) == 16")
// (the block contents are stated at the time of the call: later MAC steps are summarised by a byte-heap havoc)
//@ ensures aad-first-block-called: result1 == nil && len(adata) > 0 ==> ncalls("ccm.cbcRound!") == 1
//@ ensures aad-first-block: len(adata) <= 0xfeff ==> always("ccm.cbcRound!", "len(argBytes(\"ccm.cbcRound!\", 2)) == 16 && argBytes(\"ccm.cbcRound!\", 2)[0] == byte(len(adata) >> 8) && argBytes(\"ccm.cbcRound!\", 2)[1] == byte(len(adata))")
// (not stated: block[2+i] == adata[i] - the byte heap is havocked by the preceding Block.Encrypt, engine limit)
//@ ensures aad-first-block-padding: len(adata) <= 0xfeff ==> always("ccm.cbcRound!", "forall(min(len(adata), 14), 14, func(i int) bool { return argBytes(\"ccm.cbcRound!\", 2)[2+i] == 0 })")
//@ ensures no-aad-no-aad-block: len(adata) == 0 ==> !called("ccm.cbcRound!")
//@ end

// Open (RFC 3610 2.5/2.6): plaintext is released only if the received tag equals the tag recomputed
// over the caller's nonce, the decrypted message and the caller's additional data.
//@ func ccm.Open
//@ watch ccm.tag subtle.ConstantTimeCompare
//@ requires wf: wfccm(c)
//@ ensures short-rejected: len(ciphertext) < int(c.M) ==> result1 != nil && isNil(result0)
//@ ensures authenticated: result1 == nil ==> called("subtle.ConstantTimeCompare") && retInt("subtle.ConstantTimeCompare", 0) == 1
//@ ensures mismatch-rejected: called("subtle.ConstantTimeCompare") && retInt("subtle.ConstantTimeCompare", 0) != 1 ==> result1 != nil && isNil(result0)
//@ ensures compared-with-computed-tag: called("subtle.ConstantTimeCompare") ==> called("ccm.tag") && retErr("ccm.tag", 1) == nil && sameSlice(argBytes("subtle.ConstantTimeCompare", 1), retBytes("ccm.tag", 0))
//@ ensures received-tag-length: called("subtle.ConstantTimeCompare") ==> len(argBytes("subtle.ConstantTimeCompare", 0)) == int(c.M)
//@ ensures tag-over-callers-aad: called("ccm.tag") ==> sameSlice(argBytes("ccm.tag", 3), adata) && sameSlice(argBytes("ccm.tag", 1), nonce)
//@ ensures tag-over-whole-message: called("ccm.tag") ==> len(argBytes("ccm.tag", 2)) == len(ciphertext) - int(c.M)
//@ ensures tag-error-rejected: called("ccm.tag") && retErr("ccm.tag", 1) != nil ==> result1 != nil && isNil(result0)
//@ ensures tag-once: ncalls("ccm.tag") <= 1 && ncalls("subtle.ConstantTimeCompare") <= 1
//@ end
