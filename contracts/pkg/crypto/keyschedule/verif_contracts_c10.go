//go:build verif

// C10: DTLS 1.3 key schedule (RFC 8446 7.1 with the RFC 9147 5.9 label prefix). HKDF-Expand / HKDF-Extract
// are the opaque primitives; the HkdfLabel structure handed to HKDF-Expand is stated byte-exactly.
// Comment-only; read by /verif/vc.
package keyschedule

// RFC 8446 7.1:  HKDF-Expand-Label(Secret, Label, Context, Length) = HKDF-Expand(Secret, HkdfLabel, Length)
//   struct { uint16 length = Length; opaque label<7..255> = "dtls13" + Label (RFC 9147 5.9); opaque context<0..255> = Context; } HkdfLabel;
// The structure is assembled with x/crypto/cryptobyte (trusted to encode AddUint16 as two big-endian bytes and
// AddUint8LengthPrefixed as a one-byte length followed by the content); the clauses fix what is fed to the builder
// and in which order. (Engine limit: the bytes of the finished structure cannot be stated - the nested length-prefixed
// children of cryptobyte are beyond the solvers, all seven byte-layout clauses stayed `unknown` with 20 s.)
//@ define INFO(x) argAs("hkdf.Expand", 2, label)
//@ func HkdfExpandLabel
//@ watch hkdf.Expand Builder.AddUint16 Builder.AddUint8LengthPrefixed Builder.AddBytes Builder.Bytes Hash.Size!
//@ ensures missing-hash-rejected: hash == nil ==> result1 != nil && !called("hkdf.Expand")
//@ ensures expand-at-most-once: ncalls("hkdf.Expand") <= 1
//@ ensures expand-on-success: result1 == nil ==> ncalls("hkdf.Expand") == 1
//@ ensures keyed-by-secret: called("hkdf.Expand") ==> sameSlice(argBytes("hkdf.Expand", 1), secret)
//@ ensures out-length: called("hkdf.Expand") ==> argInt("hkdf.Expand", 3) == length
//@ ensures label-min: called("hkdf.Expand") ==> 7 <= 6 + len(label)
//@ ensures label-max: called("hkdf.Expand") ==> 6 + len(label) <= 255
//@ ensures context-max: called("hkdf.Expand") ==> len(context) <= 255
//@ ensures info-is-built-structure: called("hkdf.Expand") ==> ncalls("Builder.Bytes") == 1 && retErr("Builder.Bytes", 1) == nil && len(INFO(0)) == len(retBytes("Builder.Bytes", 0))
//@ ensures length-field-first: called("hkdf.Expand") ==> ncalls("Builder.AddUint16") == 1 && argAs("Builder.AddUint16", 1, uint16(0)) == uint16(length)
//@    && calledBefore("Builder.AddUint16", "Builder.AddUint8LengthPrefixed")
//@ ensures two-uint8-prefixed-vectors: called("hkdf.Expand") ==> ncalls("Builder.AddUint8LengthPrefixed") == 2 && ncalls("Builder.AddBytes") == 2
//@ ensures label-vector-first: always("Builder.AddBytes", "ncalls(\"Builder.AddBytes\") == 1 ==> ncalls(\"Builder.AddUint8LengthPrefixed\") == 0 && sameSlice(argBytes(\"Builder.AddBytes\", 1), fullLabel)")
// (the bytes of fullLabel are stated at the last event before the first summarised cryptobyte call: the hash size query)
//@ ensures size-queried-before-building: called("Builder.AddBytes") ==> ncalls("Hash.Size!") == 1 && calledBefore("Hash.Size!", "Builder.AddBytes")
//@ ensures label-length: always("Hash.Size!", "len(fullLabel) == 6 + len(label)")
//@ ensures label-has-dtls13-prefix: always("Hash.Size!", "forall(0, 6, func(i int) bool { return fullLabel[i] == \"dtls13\"[i] })")
//@ ensures label-follows-prefix: always("Hash.Size!", "forall(0, len(label), func(i int) bool { return fullLabel[6+i] == label[i] })")
//@ ensures context-vector-second: always("Builder.AddBytes", "ncalls(\"Builder.AddBytes\") == 2 ==> ncalls(\"Builder.AddUint8LengthPrefixed\") == 1 && sameSlice(argBytes(\"Builder.AddBytes\", 1), context)")
//@ ensures result-is-expand-output: called("hkdf.Expand") ==> sameSlice(result0, retBytes("hkdf.Expand", 0)) && result1 == retErr("hkdf.Expand", 1)
//@ end

// RFC 5869 2.2: HKDF-Extract(salt, IKM). Go's hkdf.Extract takes (hash, secret = IKM, salt): the arguments cross over.
// (hkdf.Extract is a generic function; its instance is named `hkdf.Extract[func() hash.Hash]`, which the watch list
// can only match by the suffix "hkdf.Expand".)
//@ func HkdfExtract
//@ watch hkdf.Extract
//@ ensures missing-hash-rejected: hash == nil ==> result1 != nil && !called("hkdf.Extract")
//@ ensures extract-once: hash != nil ==> ncalls("hkdf.Extract") == 1
//@ ensures ikm-is-ikm: called("hkdf.Extract") ==> sameSlice(argBytes("hkdf.Extract", 1), ikm)
//@ ensures salt-is-salt: called("hkdf.Extract") ==> sameSlice(argBytes("hkdf.Extract", 2), salt)
//@ ensures result-is-prk: called("hkdf.Extract") ==> sameSlice(result0, retBytes("hkdf.Extract", 0)) && result1 == retErr("hkdf.Extract", 1)
//@ end

// RFC 8446 7.1: Derive-Secret(Secret, Label, Messages) = HKDF-Expand-Label(Secret, Label, Transcript-Hash(Messages), Hash.length);
// a nil transcript stands for the empty message sequence (a fresh hash object).
//@ func DeriveSecret
//@ watch HkdfExpandLabel Hash.Sum! Hash.Size! param.hash!
//@ ensures missing-hash-rejected: hash == nil ==> result1 != nil && !called("HkdfExpandLabel")
//@ ensures expand-once: hash != nil ==> ncalls("HkdfExpandLabel") == 1
//@ ensures keyed-by-secret: called("HkdfExpandLabel") ==> sameSlice(argBytes("HkdfExpandLabel", 1), secret)
//@ ensures label-passed-on: called("HkdfExpandLabel") ==> argAs("HkdfExpandLabel", 2, label) == label
//@ ensures context-is-transcript-hash: called("HkdfExpandLabel") ==> ncalls("Hash.Sum!") == 1 && sameSlice(argBytes("HkdfExpandLabel", 3), retBytes("Hash.Sum!", 0)) && isNil(argBytes("Hash.Sum!", 1))
//@ ensures given-transcript-hashed: called("HkdfExpandLabel") && !isNil(transcriptHash) ==> sameRef(argAny("Hash.Sum!", 0), transcriptHash) && !called("param.hash!")
//@ ensures empty-transcript-is-fresh-hash: called("HkdfExpandLabel") && isNil(transcriptHash) ==> ncalls("param.hash!") == 1 && sameRef(argAny("Hash.Sum!", 0), retAny("param.hash!", 0))
//@ ensures length-is-hash-length: called("HkdfExpandLabel") ==> ncalls("Hash.Size!") == 1 && argInt("HkdfExpandLabel", 4) == retInt("Hash.Size!", 0) && sameRef(argAny("Hash.Size!", 0), argAny("Hash.Sum!", 0))
//@ ensures result-is-expand-output: called("HkdfExpandLabel") ==> sameSlice(result0, retBytes("HkdfExpandLabel", 0)) && result1 == retErr("HkdfExpandLabel", 1)
//@ end
