//go:build verif

// C07: Derive-Secret is a cryptographic primitive for the DTLS 1.3 exporter: kept opaque (never
// inlined) and observed through its call event. Comment-only; read by /verif/vc.
package keyschedule

//@ func DeriveSecret
//@ noinline
//@ end

//@ func HkdfExtract
//@ noinline
//@ end
