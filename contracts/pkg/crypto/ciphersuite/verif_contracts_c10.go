//go:build verif

// C10: wire conformance of the DTLS 1.2 record protection (RFC 5246 6.2.3, RFC 5288, RFC 6655, RFC 7905, RFC 9146).
// Comment-only; read by /verif/vc.
package ciphersuite

// The cipher constructors are opaque to the suites' Init contracts (internal/ciphersuite): what matters there is
// which part of the key block is handed to them in which role.
//@ func NewGCM
//@ noinline
//@ end

//@ func NewCCM
//@ noinline
//@ end

//@ func NewChaCha20Poly1305
//@ noinline
//@ end

//@ func NewCBC
//@ noinline
//@ end

// CBC.hmac (RFC 5246 6.2.3.1 MAC input) is specified in verif_contracts_c05.go (pseudo header layout, fragment second);
// C10 reuses it (props/C10.json).

// RFC 9146 5.2 (block ciphers, MAC-then-encrypt):
//   MAC(MAC_write_key, seq_num_placeholder(8 x 0xff) || tls12_cid(25) || cid_length(1) || tls12_cid(25) || version(2) || epoch(2)
//       || sequence_number(6) || cid || length_of_DTLSInnerPlaintext(2) || DTLSInnerPlaintext.content || .real_type || .zeros)
// The DTLSInnerPlaintext is covered once.
//@ func CBC.hmacCID
//@ watch hmac.New Hash.Write Hash.Sum Builder.AddUint64 Builder.AddUint8 Builder.AddUint16 Builder.AddUint48 Builder.AddBytes Builder.BytesOrPanic
// The structure is assembled with x/crypto/cryptobyte (trusted to append big-endian integers and raw bytes); the clauses
// fix what is appended in which order. (Engine limit: the 23+len(cid)+len(payload) bytes themselves could not be stated:
// every byte-layout clause over the slice handed to Hash.Write timed out, z3 > 39 s CPU.)
//@ ensures keyed-by-mac-key: called("hmac.New") ==> ncalls("hmac.New") == 1 && sameSlice(argBytes("hmac.New", 1), key)
//@ ensures placeholder-first: always("Builder.AddUint64", "argU64(\"Builder.AddUint64\", 1) == 0xffffffffffffffff && ncalls(\"Builder.AddUint8\") == 0 && ncalls(\"Builder.AddUint16\") == 0 && ncalls(\"Builder.AddUint48\") == 0 && ncalls(\"Builder.AddBytes\") == 0")
//@ ensures tls12-cid-type-second: always("Builder.AddUint8", "ncalls(\"Builder.AddUint8\") == 1 ==> argAs(\"Builder.AddUint8\", 1, uint8(0)) == 25 && ncalls(\"Builder.AddUint64\") == 1")
//@ ensures cid-length-third: always("Builder.AddUint8", "ncalls(\"Builder.AddUint8\") == 2 ==> argAs(\"Builder.AddUint8\", 1, uint8(0)) == byte(len(cid))")
//@ ensures tls12-cid-type-fourth: always("Builder.AddUint8", "ncalls(\"Builder.AddUint8\") == 3 ==> argAs(\"Builder.AddUint8\", 1, uint8(0)) == 25")
//@ ensures version-fifth: always("Builder.AddUint8", "(ncalls(\"Builder.AddUint8\") == 4 ==> argAs(\"Builder.AddUint8\", 1, uint8(0)) == protocolVersion.Major) && (ncalls(\"Builder.AddUint8\") == 5 ==> argAs(\"Builder.AddUint8\", 1, uint8(0)) == protocolVersion.Minor && ncalls(\"Builder.AddUint16\") == 0 && ncalls(\"Builder.AddUint48\") == 0 && ncalls(\"Builder.AddBytes\") == 0)")
//@ ensures epoch-sixth: always("Builder.AddUint16", "ncalls(\"Builder.AddUint16\") == 1 ==> argAs(\"Builder.AddUint16\", 1, uint16(0)) == epoch && ncalls(\"Builder.AddUint8\") == 5 && ncalls(\"Builder.AddUint48\") == 0")
//@ ensures sequence-number-seventh: always("Builder.AddUint48", "argU64(\"Builder.AddUint48\", 1) == sequenceNumber && ncalls(\"Builder.AddUint16\") == 1 && ncalls(\"Builder.AddBytes\") == 0")
//@ ensures cid-eighth: always("Builder.AddBytes", "ncalls(\"Builder.AddBytes\") == 1 ==> sameSlice(argBytes(\"Builder.AddBytes\", 1), cid) && ncalls(\"Builder.AddUint48\") == 1 && ncalls(\"Builder.AddUint16\") == 1")
//@ ensures inner-plaintext-length-ninth: always("Builder.AddUint16", "ncalls(\"Builder.AddUint16\") == 2 ==> argAs(\"Builder.AddUint16\", 1, uint16(0)) == uint16(len(payload)) && ncalls(\"Builder.AddBytes\") == 1")
//@ ensures content-tenth: always("Builder.AddBytes", "ncalls(\"Builder.AddBytes\") == 2 ==> sameSlice(argBytes(\"Builder.AddBytes\", 1), ip.Content) && ncalls(\"Builder.AddUint16\") == 2 && ncalls(\"Builder.AddUint8\") == 5")
//@ ensures real-type-eleventh: always("Builder.AddUint8", "ncalls(\"Builder.AddUint8\") == 6 ==> argAs(\"Builder.AddUint8\", 1, uint8(0)) == byte(ip.RealType) && ncalls(\"Builder.AddBytes\") == 2")
//@ ensures zeros-last: always("Builder.AddBytes", "ncalls(\"Builder.AddBytes\") == 3 ==> len(argBytes(\"Builder.AddBytes\", 1)) == int(ip.Zeros) && fresh(argBytes(\"Builder.AddBytes\", 1)) && ncalls(\"Builder.AddUint8\") == 6")
//@ ensures all-fields-appended: result1 == nil ==> ncalls("Builder.AddUint64") == 1 && ncalls("Builder.AddUint8") == 6 && ncalls("Builder.AddUint16") == 2 && ncalls("Builder.AddUint48") == 1 && ncalls("Builder.AddBytes") == 3
//@ ensures structure-is-mac-input: called("Hash.Write") ==> ncalls("Builder.BytesOrPanic") == 1 && always("Hash.Write", "ncalls(\"Hash.Write\") == 1 ==> sameSlice(argBytes(\"Hash.Write\", 1), retBytes(\"Builder.BytesOrPanic\", 0)) && sameRef(argAny(\"Hash.Write\", 0), retAny(\"hmac.New\", 0))")
//@ ensures result-is-mac: result1 == nil ==> ncalls("Hash.Sum") == 1 && sameRef(argAny("Hash.Sum", 0), retAny("hmac.New", 0)) && isNil(argBytes("Hash.Sum", 1)) && sameSlice(result0, retBytes("Hash.Sum", 0))
//@ ensures inner-plaintext-covered-once: result1 == nil ==> ncalls("Hash.Write") == 1
//@ end

// AES-GCM / AES-CCM records (RFC 5288 3, RFC 6655 3): nonce = write_IV(4, implicit) || explicit_nonce(8); the record carries
// header || explicit_nonce || AEAD output, and the header's length field counts explicit nonce, ciphertext and tag.
// (verif_contracts_c09.go states the explicit part, the payload and which AAD slice is sealed; same watch names.)
//@ func aead.encrypt
//@ watch AEAD.Seal PutUint64! PutUint16! generateAEADAdditionalData generateAEADAdditionalDataCID
//@ ensures implicit-nonce-is-write-iv: always("PutUint64!", "len(nonce) >= 12 && !sameArray(nonce, a.localWriteIV) ==> forall(0, 4, func(i int) bool { return nonce[i] == a.localWriteIV[i] })")
// (antecedent: what the engine cannot know about the sync.Pool buffer - newAEAD's New makes nonceLength = 12 fresh bytes)
//@ ensures explicit-nonce-follows-implicit: always("PutUint64!", "sameArray(argBytes(\"PutUint64!\", 1), nonce) && offsetOf(argBytes(\"PutUint64!\", 1)) == offsetOf(nonce) + 4")
//@ ensures aad-for-this-header-and-plaintext-length: result1 == nil && pkt.Header.ContentType != 25 ==> argAs("generateAEADAdditionalData", 0, &pkt.Header) == &pkt.Header && argInt("generateAEADAdditionalData", 1) == len(raw) - pkt.Header.Size()
//@ ensures aad-cid-for-this-header-and-plaintext-length: result1 == nil && pkt.Header.ContentType == 25 ==> argAs("generateAEADAdditionalDataCID", 0, &pkt.Header) == &pkt.Header && argInt("generateAEADAdditionalDataCID", 1) == len(raw) - pkt.Header.Size()
//@ ensures ciphertext-after-header-and-explicit-nonce: result1 == nil ==> sameArray(argBytes("AEAD.Seal", 1), result0) && offsetOf(argBytes("AEAD.Seal", 1)) == offsetOf(result0) + pkt.Header.Size() + 8 && len(argBytes("AEAD.Seal", 1)) == 0
//@ ensures length-field-counts-nonce-ciphertext-tag: result1 == nil ==> ncalls("PutUint16!") == 1 && argAs("PutUint16!", 2, uint16(0)) == uint16(len(result0) - pkt.Header.Size())
//@    && sameArray(argBytes("PutUint16!", 1), result0) && offsetOf(argBytes("PutUint16!", 1)) == offsetOf(result0) + pkt.Header.Size() - 2 && calledBefore("AEAD.Seal", "PutUint16!")
//@ ensures fresh-record: result1 == nil ==> fresh(result0)
//@ end

// ChaCha20-Poly1305 records (RFC 7905 2): no explicit nonce; the record is header || AEAD output and the length field counts
// ciphertext and tag. (verif_contracts_c09.go states the nonce as the XOR loop's invariant, the payload and the AAD slice.)
//@ func ChaCha20Poly1305.Encrypt
//@ watch AEAD.Seal PutUint16! generateAEADAdditionalData generateAEADAdditionalDataCID
//@ ensures aad-for-this-header-and-plaintext-length: result1 == nil && pkt.Header.ContentType != 25 ==> argAs("generateAEADAdditionalData", 0, &pkt.Header) == &pkt.Header && argInt("generateAEADAdditionalData", 1) == len(raw) - pkt.Header.Size()
//@ ensures aad-cid-for-this-header-and-plaintext-length: result1 == nil && pkt.Header.ContentType == 25 ==> argAs("generateAEADAdditionalDataCID", 0, &pkt.Header) == &pkt.Header && argInt("generateAEADAdditionalDataCID", 1) == len(raw) - pkt.Header.Size()
//@ ensures record-is-header-then-aead-output: result1 == nil ==> len(result0) == pkt.Header.Size() + len(retBytes("AEAD.Seal", 0)) && isNil(argBytes("AEAD.Seal", 1)) && fresh(result0)
//@ ensures length-field-counts-ciphertext-and-tag: result1 == nil ==> ncalls("PutUint16!") == 1 && argAs("PutUint16!", 2, uint16(0)) == uint16(len(retBytes("AEAD.Seal", 0)))
//@    && sameArray(argBytes("PutUint16!", 1), result0) && offsetOf(argBytes("PutUint16!", 1)) == offsetOf(result0) + pkt.Header.Size() - 2 && calledBefore("AEAD.Seal", "PutUint16!")
//@ end

// CBC records (RFC 5246 6.2.3.2, MAC-then-encrypt with an explicit IV; RFC 9146 5.2 for tls12_cid records):
//   record = header || IV(block) || CBC-Encrypt(content || MAC || padding), padding = padding_length+1 bytes of value padding_length,
//   the MAC is computed over the plaintext fragment with this record's epoch / sequence number / type / version.
//@ define PLAIN(s) (sameArray(s, raw) && offsetOf(s) == offsetOf(raw) + pkt.Header.Size() && len(s) == len(raw) - pkt.Header.Size())
//@ func CBC.Encrypt
//@ watch CBC.hmac CBC.hmacCID rand.Read cbcMode.SetIV cbcMode.CryptBlocks PutUint16!
//@ requires args: pkt != nil && c.writeCBC != nil && c.h != nil && len(pkt.Header.ConnectionID) <= 255
//@ requires raw: len(raw) >= pkt.Header.Size() && len(raw) <= 1 << 20
//@ loop #1: padding-bytes: len(padding) == paddingLen && 1 <= paddingLen && paddingLen <= blockSize && paddingLen <= 256 && fresh(padding) && forall(0, i, func(j int) bool { return padding[j] == byte(paddingLen - 1) })
//@ loop #1: header-kept: pkt.Header.Epoch == old(pkt.Header.Epoch) && pkt.Header.SequenceNumber == old(pkt.Header.SequenceNumber) && pkt.Header.ContentType == old(pkt.Header.ContentType)
//@ ensures mac-over-plaintext-with-record-header: called("cbcMode.CryptBlocks") && pkt.Header.ContentType != 25 ==> ncalls("CBC.hmac") == 1 && !called("CBC.hmacCID")
//@    && argAs("CBC.hmac", 1, uint16(0)) == pkt.Header.Epoch && argU64("CBC.hmac", 2) == pkt.Header.SequenceNumber && argAs("CBC.hmac", 3, pkt.Header.ContentType) == pkt.Header.ContentType
//@    && PLAIN(argBytes("CBC.hmac", 5)) && sameSlice(argBytes("CBC.hmac", 6), c.writeMac)
//@ ensures cid-mac-over-plaintext-with-record-header: called("cbcMode.CryptBlocks") && pkt.Header.ContentType == 25 ==> ncalls("CBC.hmacCID") == 1 && !called("CBC.hmac")
//@    && argAs("CBC.hmacCID", 1, uint16(0)) == pkt.Header.Epoch && argU64("CBC.hmacCID", 2) == pkt.Header.SequenceNumber
//@    && PLAIN(argBytes("CBC.hmacCID", 4)) && sameSlice(argBytes("CBC.hmacCID", 5), c.writeMac) && sameSlice(argBytes("CBC.hmacCID", 7), pkt.Header.ConnectionID)
// (the padding bytes are stated as the invariant of the fill loop; restating them at the next event (rand.Read) after the
//  append timed out: z3 > 39 s CPU)
//@ ensures fresh-random-iv-of-block-size: called("cbcMode.CryptBlocks") ==> ncalls("rand.Read") == 1 && len(argBytes("rand.Read", 0)) == blockSize && fresh(argBytes("rand.Read", 0)) && retErr("rand.Read", 1) == nil
//@ ensures iv-set-before-encrypting: called("cbcMode.CryptBlocks") ==> ncalls("cbcMode.SetIV") == 1 && sameSlice(argBytes("cbcMode.SetIV", 1), argBytes("rand.Read", 0)) && calledBefore("rand.Read", "cbcMode.SetIV") && calledBefore("cbcMode.SetIV", "cbcMode.CryptBlocks")
//@ ensures encrypted-in-place-whole-blocks: called("cbcMode.CryptBlocks") ==> ncalls("cbcMode.CryptBlocks") == 1 && sameSlice(argBytes("cbcMode.CryptBlocks", 1), argBytes("cbcMode.CryptBlocks", 2)) && (blockSize == 16 ==> len(argBytes("cbcMode.CryptBlocks", 1)) % 16 == 0)
//@ ensures encrypted-is-content-mac-padding: called("cbcMode.CryptBlocks") ==> len(argBytes("cbcMode.CryptBlocks", 1)) == len(raw) - pkt.Header.Size() + len(mac) + len(padding)
//@ ensures record-is-header-iv-ciphertext: result1 == nil ==> called("cbcMode.CryptBlocks") && len(result0) == pkt.Header.Size() + blockSize + len(argBytes("cbcMode.CryptBlocks", 1))
//@ ensures length-field-counts-iv-and-ciphertext: result1 == nil ==> ncalls("PutUint16!") == 1 && argAs("PutUint16!", 2, uint16(0)) == uint16(len(result0) - pkt.Header.Size()) && sameArray(argBytes("PutUint16!", 1), result0) && offsetOf(argBytes("PutUint16!", 1)) == offsetOf(result0) + pkt.Header.Size() - 2
//@ ensures rand-error-propagated: called("rand.Read") && retErr("rand.Read", 1) != nil ==> result1 != nil && !called("cbcMode.CryptBlocks")
//@ end
