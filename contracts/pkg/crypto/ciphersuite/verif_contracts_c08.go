//go:build verif

// C08 (robustness of the decrypt paths): contracts for package ciphersuite (comment-only; read by /verif/vc).
package ciphersuite

// No protected record, however malformed after decryption, may make a decrypt path panic. The implicit
// bounds obligations of CBC.Decrypt need the padding length in closed form: examinePadding never asks to
// remove more than 256 bytes and never a negative amount, whatever the payload (also the empty one).
//@ func examinePadding
//@ ensures c08-remove-bounded: 0 <= toRemove && toRemove <= 256
//@ ensures c08-good-fits: good == 255 ==> 1 <= toRemove && toRemove <= len(payload)
//@ end
