//go:build verif

// Contracts for package ciphersuite: record authentication (C05) and wire layout of the AEAD inputs (C10).
package ciphersuite

// RFC 5246 6.2.3.3 / RFC 6347 4.1.2.1: additional_data = epoch(2) || sequence_number(6) || type(1) ||
// version(2) || length(2). Every header field that identifies the record is covered.
//@ func generateAEADAdditionalData
//@ requires args: h != nil
//@ ensures length: len(result) == 13
//@ ensures epoch: result[0] == byte(h.Epoch >> 8) && result[1] == byte(h.Epoch)
//@ ensures sequence: result[2] == byte(h.SequenceNumber >> 40) && result[3] == byte(h.SequenceNumber >> 32) && result[4] == byte(h.SequenceNumber >> 24)
//@    && result[5] == byte(h.SequenceNumber >> 16) && result[6] == byte(h.SequenceNumber >> 8) && result[7] == byte(h.SequenceNumber)
//@ ensures content-type: result[8] == byte(h.ContentType)
//@ ensures version: result[9] == h.Version.Major && result[10] == h.Version.Minor
//@ ensures payload-length: result[11] == byte(uint16(payloadLen) >> 8) && result[12] == byte(uint16(payloadLen))
//@ ensures fresh-buffer: fresh(result)
//@ end

// RFC 9146 5.3: seq_num_placeholder(8 x 0xff) || tls12_cid(1) || cid_length(1) || tls12_cid(1) || version(2)
// || epoch(2) || sequence_number(6) || cid || length_of_DTLSInnerPlaintext(2).
//@ func generateAEADAdditionalDataCID
//@ requires args: h != nil && len(h.ConnectionID) <= 255
//@ ensures length: len(result) == 23 + len(h.ConnectionID)
//@ ensures placeholder: forall(0, 8, func(i int) bool { return result[i] == 0xff })
//@ ensures types: result[8] == 25 && result[10] == 25
//@ ensures cid-length: result[9] == byte(len(h.ConnectionID))
//@ ensures version: result[11] == h.Version.Major && result[12] == h.Version.Minor
//@ ensures epoch: result[13] == byte(h.Epoch >> 8) && result[14] == byte(h.Epoch)
//@ ensures sequence: result[15] == byte(h.SequenceNumber >> 40) && result[16] == byte(h.SequenceNumber >> 32) && result[17] == byte(h.SequenceNumber >> 24)
//@    && result[18] == byte(h.SequenceNumber >> 16) && result[19] == byte(h.SequenceNumber >> 8) && result[20] == byte(h.SequenceNumber)
//@ ensures cid: forall(0, len(h.ConnectionID), func(i int) bool { return result[21+i] == h.ConnectionID[i] })
//@ ensures payload-length: result[21+len(h.ConnectionID)] == byte(uint16(payloadLen) >> 8) && result[22+len(h.ConnectionID)] == byte(uint16(payloadLen))
//@ end

// RFC 5246 6.2.3.2: padding check. toRemove = padding_length + 1; good is 255 exactly when the last
// toRemove bytes all equal padding_length and fit in the payload, 0 otherwise.
//@ func examinePadding
//@ ensures empty: len(payload) == 0 ==> toRemove == 0 && good == 0
//@ ensures remove-range: len(payload) > 0 ==> toRemove == int(payload[len(payload)-1]) + 1 && 1 <= toRemove && toRemove <= 256
//@ ensures good-is-flag: good == 0 || good == 255
//@ ensures good-implies-fits: good == 255 ==> toRemove <= len(payload)
//@ ensures good-implies-padding: good == 255 ==> forall(0, toRemove, func(i int) bool { return payload[len(payload)-1-i] == payload[len(payload)-1] })
//@ loop #1: input-kept: paddingLen == payload[len(payload)-1] && len(payload) > 0 && toCheck == min(256, len(payload)) && 0 <= i && i <= toCheck
//@ loop #1: fits: good == 255 ==> int(paddingLen) <= len(payload)-1
//@ loop #1: checked: good == 255 ==> forall(0, i, func(j int) bool { return j <= int(paddingLen) ==> payload[len(payload)-1-j] == paddingLen })
//@ end

// AEAD record opening (RFC 5288 / 6655 / 9146): a record is returned only if the AEAD accepted it, with
// the nonce write_IV[:4] || explicit_nonce taken from the received bytes and the additional data
// computed from the header parsed from the same received bytes.
//@ assume-pure aead.nonceBufferPool

//@ func aead.decrypt
//@ watch AEAD.Open generateAEADAdditionalData generateAEADAdditionalDataCID
//@ requires args: a.remoteAEAD != nil && len(a.remoteWriteIV) >= 4 && len(header.ConnectionID) <= 255
//@ ensures short-rejected: len(in) < 13 ==> result1 != nil
//@ ensures opened-or-ccs: result1 == nil ==> old(in[0]) == 20 || (called("AEAD.Open") && retErr("AEAD.Open", 1) == nil)
//@ ensures ccs-untouched: result1 == nil && old(in[0]) == 20 ==> !called("AEAD.Open")
//@ ensures open-once: ncalls("AEAD.Open") <= 1
//@ ensures aad-from-received-header: called("AEAD.Open") ==> (called("generateAEADAdditionalData") || called("generateAEADAdditionalDataCID"))
//@ ensures aad-is-what-was-built: called("AEAD.Open") && old(in[0]) != 25 ==> sameSlice(argBytes("AEAD.Open", 4), retBytes("generateAEADAdditionalData", 0))
//@ ensures aad-cid-is-what-was-built: called("AEAD.Open") && old(in[0]) == 25 ==> sameSlice(argBytes("AEAD.Open", 4), retBytes("generateAEADAdditionalDataCID", 0))
// the whole record body after the explicit nonce is what is authenticated, and the AAD length field is the
// plaintext length (body minus explicit nonce minus tag)
//@ ensures ciphertext-is-record-body: called("AEAD.Open") && old(in[0]) != 25 ==> sameArray(argBytes("AEAD.Open", 3), in) && offsetOf(argBytes("AEAD.Open", 3)) == offsetOf(in) + 21 && len(argBytes("AEAD.Open", 3)) == len(in) - 21
//@ ensures ciphertext-is-record-body-cid: called("AEAD.Open") && old(in[0]) == 25 ==> sameArray(argBytes("AEAD.Open", 3), in) && offsetOf(argBytes("AEAD.Open", 3)) == offsetOf(in) + 21 + len(header.ConnectionID) && len(argBytes("AEAD.Open", 3)) == len(in) - 21 - len(header.ConnectionID)
//@ ensures aad-length-is-plaintext-length: called("AEAD.Open") && old(in[0]) != 25 ==> argInt("generateAEADAdditionalData", 1) == len(in) - 21 - a.tagLength
//@ ensures aad-length-is-plaintext-length-cid: called("AEAD.Open") && old(in[0]) == 25 ==> argInt("generateAEADAdditionalDataCID", 1) == len(in) - 21 - len(header.ConnectionID) - a.tagLength
//@ ensures open-error-rejected: called("AEAD.Open") && retErr("AEAD.Open", 1) != nil ==> result1 != nil && isNil(result0)
//@ end

// CBC records (RFC 5246 6.2.3.2, MAC-then-encrypt): a record is returned only if the padding check
// succeeded and the MAC computed over the received header fields and the plaintext equals the MAC
// carried in the record; all slice bounds hold for every received length and padding value.
//@ func CBC.Decrypt
//@ watch examinePadding hmac.Equal CBC.hmac CBC.hmacCID
//@ requires args: c.readCBC != nil && c.h != nil && len(header.ConnectionID) <= 255
//@ ensures short-rejected: len(in) < 13 ==> result1 != nil
//@ ensures authenticated: result1 == nil && old(in[0]) != 20 ==> called("hmac.Equal") && retBool("hmac.Equal", 0)
//@ ensures padding-called: result1 == nil && old(in[0]) != 20 ==> called("examinePadding")
//@ ensures padding-checked: result1 == nil && old(in[0]) != 20 ==> retAs("examinePadding", 1, byte(0)) == 255
//@ ensures mac-computed: called("hmac.Equal") ==> called("CBC.hmac") || called("CBC.hmacCID")
//@ ensures mac-compared-is-computed: called("hmac.Equal") && old(in[0]) != 25 ==> sameSlice(argBytes("hmac.Equal", 0), retBytes("CBC.hmac", 0))
//@ ensures ccs-untouched: result1 == nil && old(in[0]) == 20 ==> !called("examinePadding") && sameSlice(result0, in)
//@ end

// RFC 5246 6.2.3.1 / RFC 6347 4.1.2.1: MAC(MAC_write_key, epoch(2) || sequence_number(6) || type(1) || version(2) ||
// length(2) || fragment). Every bit of the 48-bit sequence number is covered: the 13-byte pseudo header is the
// first thing written into the HMAC, the fragment the second. (inline: the clauses use always(), which callers
// under contract cannot import; CBC.Decrypt/Encrypt see the body instead.)
//@ define MACHDR(b) (len(b) == 13 && b[0] == byte(epoch >> 8) && b[1] == byte(epoch) && b[2] == byte(sequenceNumber >> 40) && b[3] == byte(sequenceNumber >> 32) && b[4] == byte(sequenceNumber >> 24) && b[5] == byte(sequenceNumber >> 16) && b[6] == byte(sequenceNumber >> 8) && b[7] == byte(sequenceNumber) && b[8] == byte(contentType) && b[9] == protocolVersion.Major && b[10] == protocolVersion.Minor && b[11] == byte(uint16(len(payload)) >> 8) && b[12] == byte(uint16(len(payload))))
//@ func CBC.hmac
//@ inline
//@ watch Hash.Write hmac.New Hash.Sum
//@ ensures keyed: called("hmac.New") && sameSlice(argBytes("hmac.New", 1), key)
//@ ensures header-then-fragment: result1 == nil ==> ncalls("Hash.Write") == 2 && sameSlice(argBytes("Hash.Write", 1), payload)
//@ ensures mac-input-is-header-or-fragment: always("Hash.Write", "sameSlice(argBytes(\"Hash.Write\", 1), payload) || MACHDR(argBytes(\"Hash.Write\", 1))")
//@ ensures header-written: result1 == nil ==> !always("Hash.Write", "sameSlice(argBytes(\"Hash.Write\", 1), payload)")
//@ ensures result-is-sum: result1 == nil ==> called("Hash.Sum") && sameSlice(result0, retBytes("Hash.Sum", 0))
//@ end

//@ func CBC.hmacCID
//@ noinline
//@ end

// ChaCha20-Poly1305 record opening (RFC 7905): no explicit nonce; the nonce is write_IV XOR (epoch || sequence
// number) of the *received* header, the whole body after the header is authenticated, the AAD is built from the
// received header with the plaintext length (body minus 16-byte tag).
//@ func ChaCha20Poly1305.Decrypt
//@ watch AEAD.Open generateAEADAdditionalData generateAEADAdditionalDataCID
//@ requires args: c.remoteCipher != nil && len(c.remoteWriteIV) == 12 && len(header.ConnectionID) <= 255
//@ loop #1: iv-kept: len(c.remoteWriteIV) == 12 && forall(0, 12, func(j int) bool { return c.remoteWriteIV[j] == old(c.remoteWriteIV[j]) })
//@ loop #1: seq-from-received-bytes: len(in) >= 13 && seq64 == uint64(in[3])<<56 | uint64(in[4])<<48 | uint64(in[5])<<40 | uint64(in[6])<<32 | uint64(in[7])<<24 | uint64(in[8])<<16 | uint64(in[9])<<8 | uint64(in[10])
//@ loop #1: nonce-prefix-is-iv: forall(0, 4, func(j int) bool { return nonce[j] == c.remoteWriteIV[j] })
//@ loop #1: nonce-is-iv-xor-epoch-and-sequence: forall(0, i, func(j int) bool { return nonce[4+j] == c.remoteWriteIV[4+j] ^ byte(seq64 >> (56 - uint(j)*8)) })
//@ loop #1: nonce-rest-is-iv: forall(i, 8, func(j int) bool { return nonce[4+j] == c.remoteWriteIV[4+j] })
//@ ensures short-rejected: len(in) < 13 ==> result1 != nil
//@ ensures opened-or-ccs: result1 == nil ==> old(in[0]) == 20 || (called("AEAD.Open") && retErr("AEAD.Open", 1) == nil)
//@ ensures ccs-untouched: result1 == nil && old(in[0]) == 20 ==> !called("AEAD.Open") && sameSlice(result0, in)
//@ ensures open-once: ncalls("AEAD.Open") <= 1
//@ ensures open-error-rejected: called("AEAD.Open") && retErr("AEAD.Open", 1) != nil ==> result1 != nil && isNil(result0)
//@ ensures nonce-length: called("AEAD.Open") ==> len(argBytes("AEAD.Open", 2)) == 12
//@ ensures aad-is-what-was-built: called("AEAD.Open") && old(in[0]) != 25 ==> sameSlice(argBytes("AEAD.Open", 4), retBytes("generateAEADAdditionalData", 0))
//@ ensures aad-cid-is-what-was-built: called("AEAD.Open") && old(in[0]) == 25 ==> sameSlice(argBytes("AEAD.Open", 4), retBytes("generateAEADAdditionalDataCID", 0))
//@ ensures ciphertext-is-record-body: called("AEAD.Open") && old(in[0]) != 25 ==> sameArray(argBytes("AEAD.Open", 3), in) && offsetOf(argBytes("AEAD.Open", 3)) == offsetOf(in) + 13 && len(argBytes("AEAD.Open", 3)) == len(in) - 13
//@ ensures ciphertext-is-record-body-cid: called("AEAD.Open") && old(in[0]) == 25 ==> sameArray(argBytes("AEAD.Open", 3), in) && offsetOf(argBytes("AEAD.Open", 3)) == offsetOf(in) + 13 + len(header.ConnectionID) && len(argBytes("AEAD.Open", 3)) == len(in) - 13 - len(header.ConnectionID)
//@ ensures aad-length-is-plaintext-length: called("AEAD.Open") && old(in[0]) != 25 ==> argInt("generateAEADAdditionalData", 1) == len(in) - 13 - 16
//@ ensures aad-length-is-plaintext-length-cid: called("AEAD.Open") && old(in[0]) == 25 ==> argInt("generateAEADAdditionalDataCID", 1) == len(in) - 13 - len(header.ConnectionID) - 16
//@ end
