//go:build verif

// Contracts for package ciphersuite: record authentication (C05) and wire layout of the AEAD inputs (C10).
package ciphersuite

// RFC 5246 6.2.3.3 / RFC 6347 4.1.2.1: additional_data = epoch(2) || sequence_number(6) || type(1) ||
// version(2) || length(2). Every header field that identifies the record is covered.
//@ func generateAEADAdditionalData
//@ requires args: h != nil
//@ ensures length: len(result) == 13
//@ ensures epoch: result[0] == byte(h.Epoch >> 8) && result[1] == byte(h.Epoch)
//@ ensures sequence: result[2] == byte(h.SequenceNumber >> 40) && result[3] == byte(h.SequenceNumber >> 32) && result[4] == byte(h.SequenceNumber >> 24)
//@    && result[5] == byte(h.SequenceNumber >> 16) && result[6] == byte(h.SequenceNumber >> 8) && result[7] == byte(h.SequenceNumber)
//@ ensures content-type: result[8] == byte(h.ContentType)
//@ ensures version: result[9] == h.Version.Major && result[10] == h.Version.Minor
//@ ensures payload-length: result[11] == byte(uint16(payloadLen) >> 8) && result[12] == byte(uint16(payloadLen))
//@ ensures fresh-buffer: fresh(result)
//@ end

// RFC 9146 5.3: seq_num_placeholder(8 x 0xff) || tls12_cid(1) || cid_length(1) || tls12_cid(1) || version(2)
// || epoch(2) || sequence_number(6) || cid || length_of_DTLSInnerPlaintext(2).
//@ func generateAEADAdditionalDataCID
//@ requires args: h != nil && len(h.ConnectionID) <= 255
//@ ensures length: len(result) == 23 + len(h.ConnectionID)
//@ ensures placeholder: forall(0, 8, func(i int) bool { return result[i] == 0xff })
//@ ensures types: result[8] == 25 && result[10] == 25
//@ ensures cid-length: result[9] == byte(len(h.ConnectionID))
//@ ensures version: result[11] == h.Version.Major && result[12] == h.Version.Minor
//@ ensures epoch: result[13] == byte(h.Epoch >> 8) && result[14] == byte(h.Epoch)
//@ ensures sequence: result[15] == byte(h.SequenceNumber >> 40) && result[16] == byte(h.SequenceNumber >> 32) && result[17] == byte(h.SequenceNumber >> 24)
//@    && result[18] == byte(h.SequenceNumber >> 16) && result[19] == byte(h.SequenceNumber >> 8) && result[20] == byte(h.SequenceNumber)
//@ ensures cid: forall(0, len(h.ConnectionID), func(i int) bool { return result[21+i] == h.ConnectionID[i] })
//@ ensures payload-length: result[21+len(h.ConnectionID)] == byte(uint16(payloadLen) >> 8) && result[22+len(h.ConnectionID)] == byte(uint16(payloadLen))
//@ end

// RFC 5246 6.2.3.2: padding check. toRemove = padding_length + 1; good is 255 exactly when the last
// toRemove bytes all equal padding_length and fit in the payload, 0 otherwise.
//@ func examinePadding
//@ ensures empty: len(payload) == 0 ==> toRemove == 0 && good == 0
//@ ensures remove-range: len(payload) > 0 ==> toRemove == int(payload[len(payload)-1]) + 1 && 1 <= toRemove && toRemove <= 256
//@ ensures good-is-flag: good == 0 || good == 255
//@ ensures good-implies-fits: good == 255 ==> toRemove <= len(payload)
//@ ensures good-implies-padding: good == 255 ==> forall(0, toRemove, func(i int) bool { return payload[len(payload)-1-i] == payload[len(payload)-1] })
//@ loop #1: input-kept: paddingLen == payload[len(payload)-1] && len(payload) > 0 && toCheck == min(256, len(payload)) && 0 <= i && i <= toCheck
//@ loop #1: fits: good == 255 ==> int(paddingLen) <= len(payload)-1
//@ loop #1: checked: good == 255 ==> forall(0, i, func(j int) bool { return j <= int(paddingLen) ==> payload[len(payload)-1-j] == paddingLen })
//@ end

// AEAD record opening (RFC 5288 / 6655 / 9146): a record is returned only if the AEAD accepted it, with
// the nonce write_IV[:4] || explicit_nonce taken from the received bytes and the additional data
// computed from the header parsed from the same received bytes.
//@ assume-pure aead.nonceBufferPool

//@ func aead.decrypt
//@ watch AEAD.Open generateAEADAdditionalData generateAEADAdditionalDataCID
//@ requires args: a.remoteAEAD != nil && len(a.remoteWriteIV) >= 4 && len(header.ConnectionID) <= 255
//@ ensures short-rejected: len(in) < 13 ==> result1 != nil
//@ ensures opened-or-ccs: result1 == nil ==> old(in[0]) == 20 || (called("AEAD.Open") && retErr("AEAD.Open", 1) == nil)
//@ ensures ccs-untouched: result1 == nil && old(in[0]) == 20 ==> !called("AEAD.Open")
//@ ensures open-once: ncalls("AEAD.Open") <= 1
//@ ensures aad-from-received-header: called("AEAD.Open") ==> (called("generateAEADAdditionalData") || called("generateAEADAdditionalDataCID"))
//@ ensures aad-is-what-was-built: called("AEAD.Open") && old(in[0]) != 25 ==> sameSlice(argBytes("AEAD.Open", 4), retBytes("generateAEADAdditionalData", 0))
//@ ensures aad-cid-is-what-was-built: called("AEAD.Open") && old(in[0]) == 25 ==> sameSlice(argBytes("AEAD.Open", 4), retBytes("generateAEADAdditionalDataCID", 0))
//@ end

// CBC records (RFC 5246 6.2.3.2, MAC-then-encrypt): a record is returned only if the padding check
// succeeded and the MAC computed over the received header fields and the plaintext equals the MAC
// carried in the record; all slice bounds hold for every received length and padding value.
//@ func CBC.Decrypt
//@ watch examinePadding hmac.Equal CBC.hmac CBC.hmacCID
//@ requires args: c.readCBC != nil && c.h != nil && len(header.ConnectionID) <= 255
//@ ensures short-rejected: len(in) < 13 ==> result1 != nil
//@ ensures authenticated: result1 == nil && old(in[0]) != 20 ==> called("hmac.Equal") && retBool("hmac.Equal", 0)
//@ ensures padding-called: result1 == nil && old(in[0]) != 20 ==> called("examinePadding")
//@ ensures padding-checked: result1 == nil && old(in[0]) != 20 ==> retAs("examinePadding", 1, byte(0)) == 255
//@ ensures mac-computed: called("hmac.Equal") ==> called("CBC.hmac") || called("CBC.hmacCID")
//@ ensures mac-compared-is-computed: called("hmac.Equal") && old(in[0]) != 25 ==> sameSlice(argBytes("hmac.Equal", 0), retBytes("CBC.hmac", 0))
//@ ensures ccs-untouched: result1 == nil && old(in[0]) == 20 ==> !called("examinePadding") && sameSlice(result0, in)
//@ end

//@ func CBC.hmac
//@ noinline
//@ end

//@ func CBC.hmacCID
//@ noinline
//@ end
