//go:build verif

// C09: AEAD nonces of the DTLS 1.2 suites (RFC 5288 3 / RFC 6655 3 / RFC 9325 7.2.1): nonce =
// write_IV(4) || explicit_nonce(8) with explicit_nonce = epoch(2) || sequence_number(6). Distinct
// (epoch, sequence number) pairs below 2^48 therefore give distinct nonces under one key: no bit of
// the 48-bit sequence number may be dropped. Comment-only; read by /verif/vc.
package ciphersuite

//@ define EXPLICIT_NONCE(h) ((uint64(h.Epoch) << 48) | (h.SequenceNumber & 0x0000ffffffffffff))

//@ func aead.encrypt
//@ watch AEAD.Seal PutUint64! generateAEADAdditionalData generateAEADAdditionalDataCID
//@ requires args: pkt != nil && a.localAEAD != nil && len(a.localWriteIV) >= 4 && len(pkt.Header.ConnectionID) <= 255 && a.tagLength >= 0 && a.tagLength <= 256
//@ requires raw: len(raw) >= pkt.Header.Size() && len(raw) <= 1 << 20
//@ ensures sealed-once: result1 == nil ==> ncalls("AEAD.Seal") == 1
//@ ensures explicit-nonce-is-epoch-and-sequence: result1 == nil ==> ncalls("PutUint64!") == 1 && argU64("PutUint64!", 2) == EXPLICIT_NONCE(pkt.Header)
//@ ensures explicit-nonce-keeps-48-bits: result1 == nil ==> argU64("PutUint64!", 2) & 0x0000ffffffffffff == pkt.Header.SequenceNumber & 0x0000ffffffffffff && argU64("PutUint64!", 2) >> 48 == uint64(pkt.Header.Epoch)
//@ ensures sealed-nonce-is-that-buffer: result1 == nil ==> sameArray(argBytes("AEAD.Seal", 2), argBytes("PutUint64!", 1)) && offsetOf(argBytes("PutUint64!", 1)) == offsetOf(argBytes("AEAD.Seal", 2)) + 4
//@ ensures sealed-payload: result1 == nil ==> sameArray(argBytes("AEAD.Seal", 3), raw) && len(argBytes("AEAD.Seal", 3)) == len(raw) - pkt.Header.Size() && offsetOf(argBytes("AEAD.Seal", 3)) == offsetOf(raw) + pkt.Header.Size()
//@ ensures aad-is-what-was-built: result1 == nil && pkt.Header.ContentType != 25 ==> sameSlice(argBytes("AEAD.Seal", 4), retBytes("generateAEADAdditionalData", 0))
//@ ensures aad-cid-is-what-was-built: result1 == nil && pkt.Header.ContentType == 25 ==> sameSlice(argBytes("AEAD.Seal", 4), retBytes("generateAEADAdditionalDataCID", 0))
//@ ensures output-size: result1 == nil ==> len(result0) == len(raw) + 8 + a.tagLength
//@ ensures header-kept: pkt.Header.Epoch == old(pkt.Header.Epoch) && pkt.Header.SequenceNumber == old(pkt.Header.SequenceNumber)
//@ end

// ChaCha20-Poly1305 (RFC 7905 2): nonce = write_IV(12) XOR (0^4 || epoch(2) || sequence_number(6)); no explicit
// nonce in the record. The nonce bytes are stated as the invariant of the XOR loop (after the loop the AEAD
// call is summarised by a byte-heap havoc, so a postcondition could not read them any more).
//@ func ChaCha20Poly1305.Encrypt
//@ watch AEAD.Seal generateAEADAdditionalData generateAEADAdditionalDataCID
//@ requires args: pkt != nil && c.localCipher != nil && len(c.localWriteIV) == 12 && len(pkt.Header.ConnectionID) <= 255
//@ requires raw: len(raw) >= pkt.Header.Size() && len(raw) <= 1 << 20
//@ loop #1: iv-kept: len(c.localWriteIV) == 12 && forall(0, 12, func(j int) bool { return c.localWriteIV[j] == old(c.localWriteIV[j]) })
//@ loop #1: header-kept: pkt.Header.Epoch == old(pkt.Header.Epoch) && pkt.Header.SequenceNumber == old(pkt.Header.SequenceNumber) && seq64 == EXPLICIT_NONCE(pkt.Header)
//@ loop #1: nonce-prefix-is-iv: forall(0, 4, func(j int) bool { return nonce[j] == c.localWriteIV[j] })
//@ loop #1: nonce-is-iv-xor-epoch-and-sequence: forall(0, i, func(j int) bool { return nonce[4+j] == c.localWriteIV[4+j] ^ byte(EXPLICIT_NONCE(pkt.Header) >> (56 - uint(j)*8)) })
//@ loop #1: nonce-rest-is-iv: forall(i, 8, func(j int) bool { return nonce[4+j] == c.localWriteIV[4+j] })
// (engine limit: that the loop runs all 8 rounds cannot be stated: the facts at loop exit are destroyed by the
// byte-heap havoc of the next call before any event at which a clause could read them)
//@ ensures aad-built-before-seal: called("AEAD.Seal") ==> called("generateAEADAdditionalData") || called("generateAEADAdditionalDataCID")
//@ ensures sealed-once: result1 == nil ==> ncalls("AEAD.Seal") == 1
//@ ensures sealed-nonce-length: called("AEAD.Seal") ==> len(argBytes("AEAD.Seal", 2)) == 12
//@ ensures sealed-payload: result1 == nil ==> sameArray(argBytes("AEAD.Seal", 3), raw) && len(argBytes("AEAD.Seal", 3)) == len(raw) - pkt.Header.Size() && offsetOf(argBytes("AEAD.Seal", 3)) == offsetOf(raw) + pkt.Header.Size()
//@ ensures aad-is-what-was-built: result1 == nil && pkt.Header.ContentType != 25 ==> sameSlice(argBytes("AEAD.Seal", 4), retBytes("generateAEADAdditionalData", 0))
//@ ensures aad-cid-is-what-was-built: result1 == nil && pkt.Header.ContentType == 25 ==> sameSlice(argBytes("AEAD.Seal", 4), retBytes("generateAEADAdditionalDataCID", 0))
//@ end

// CBC suites have no nonce; what makes a record unique under the MAC key is the (epoch, 48-bit sequence number) pair in
// the MAC pseudo header (RFC 5246 6.2.3.1 seq_num = epoch(2) || sequence_number(6) at octets 0..7, RFC 6347 4.1.2.1).
// Every one of the 64 bits enters the HMAC at its own octet, so that two records with different (epoch, sequence
// number) never have the same MAC input and the peer's implementation computes the same MAC.
//@ define SEQNUM64(b) (len(b) == 13 && b[0] == byte(epoch >> 8) && b[1] == byte(epoch) && b[2] == byte(sequenceNumber >> 40) && b[3] == byte(sequenceNumber >> 32) && b[4] == byte(sequenceNumber >> 24) && b[5] == byte(sequenceNumber >> 16) && b[6] == byte(sequenceNumber >> 8) && b[7] == byte(sequenceNumber))
//@ func CBC.hmac
//@ watch Hash.Write
//@ ensures c09-epoch-and-sequence-number-in-mac-input: always("Hash.Write", "sameSlice(argBytes(\"Hash.Write\", 1), payload) || SEQNUM64(argBytes(\"Hash.Write\", 1))")
//@ ensures c09-pseudo-header-first: result1 == nil ==> ncalls("Hash.Write") == 2 && !always("Hash.Write", "sameSlice(argBytes(\"Hash.Write\", 1), payload)")
//@ end
