//go:build verif

// C13 support for package elliptic (comment-only; read by /verif/vc).
package elliptic

// Key generation is opaque to the cookie-exchange step contracts.

//@ func GenerateKeypair
//@ noinline
//@ end
