//go:build verif

// C10: TLS 1.2 secrets equal the RFC formulas (RFC 5246 5, 6.3, 7.4.9, 8.1; RFC 7627 4). P_hash is the
// opaque primitive; everything around it (which secret keys the call, label || seed order, requested
// length, partition of the key block) is stated byte-exactly. Comment-only; read by /verif/vc.
package prf

// RFC 5246 8.1: master_secret = PRF(pre_master_secret, "master secret",
//                                    ClientHello.random + ServerHello.random)[0..47]
//@ func MasterSecret
//@ watch PHash
//@ ensures prf-once: ncalls("PHash") == 1
//@ ensures keyed-by-premaster: sameSlice(argBytes("PHash", 0), preMasterSecret)
//@ ensures seed-length: len(argBytes("PHash", 1)) == 13 + len(clientRandom) + len(serverRandom)
//@ ensures seed-label: forall(0, 13, func(i int) bool { return argBytes("PHash", 1)[i] == "master secret"[i] })
//@ ensures seed-client-random-first: forall(0, len(clientRandom), func(i int) bool { return argBytes("PHash", 1)[13+i] == old(clientRandom[i]) })
//@ ensures seed-server-random-second: forall(0, len(serverRandom), func(i int) bool { return argBytes("PHash", 1)[13+len(clientRandom)+i] == old(serverRandom[i]) })
//@ ensures length-48: argInt("PHash", 2) == 48
//@ ensures result-is-prf-output: sameSlice(result0, retBytes("PHash", 0))
//@ end

// RFC 7627 4: master_secret = PRF(pre_master_secret, "extended master secret", session_hash)[0..47]
//@ func ExtendedMasterSecret
//@ watch PHash
//@ ensures prf-once: ncalls("PHash") == 1
//@ ensures keyed-by-premaster: sameSlice(argBytes("PHash", 0), preMasterSecret)
//@ ensures seed-length: len(argBytes("PHash", 1)) == 22 + len(sessionHash)
//@ ensures seed-label: forall(0, 22, func(i int) bool { return argBytes("PHash", 1)[i] == "extended master secret"[i] })
//@ ensures seed-session-hash: forall(0, len(sessionHash), func(i int) bool { return argBytes("PHash", 1)[22+i] == old(sessionHash[i]) })
//@ ensures length-48: argInt("PHash", 2) == 48
//@ ensures result-is-prf-output: sameSlice(result0, retBytes("PHash", 0))
//@ end

// RFC 5246 6.3: key_block = PRF(master_secret, "key expansion", server_random + client_random), partitioned in
// the order client_write_MAC_key, server_write_MAC_key, client_write_key, server_write_key, client_write_IV,
// server_write_IV.
//@ define KB(x) retBytes("PHash", 0)
//@ func GenerateEncryptionKeys
//@ watch PHash
//@ requires lengths: 0 <= macLen && macLen <= 1024 && 0 <= keyLen && keyLen <= 1024 && 0 <= ivLen && ivLen <= 1024
//@ ensures prf-once: ncalls("PHash") == 1
//@ ensures keyed-by-master: sameSlice(argBytes("PHash", 0), masterSecret)
//@ ensures seed-length: len(argBytes("PHash", 1)) == 13 + len(serverRandom) + len(clientRandom)
//@ ensures seed-label: forall(0, 13, func(i int) bool { return argBytes("PHash", 1)[i] == "key expansion"[i] })
//@ ensures seed-server-random-first: forall(0, len(serverRandom), func(i int) bool { return argBytes("PHash", 1)[13+i] == old(serverRandom[i]) })
//@ ensures seed-client-random-second: forall(0, len(clientRandom), func(i int) bool { return argBytes("PHash", 1)[13+len(serverRandom)+i] == old(clientRandom[i]) })
//@ ensures block-length: argInt("PHash", 2) == 2*macLen + 2*keyLen + 2*ivLen
//@ ensures error-propagated: retErr("PHash", 1) != nil ==> result1 != nil && result0 == nil
//@ ensures keys-returned: result1 == nil ==> result0 != nil && retErr("PHash", 1) == nil
//@ ensures master-kept: result1 == nil ==> sameSlice(result0.MasterSecret, masterSecret)
//@ ensures client-mac-1st: result1 == nil && KB(0) != nil ==> sameArray(result0.ClientMACKey, KB(0)) && len(result0.ClientMACKey) == macLen
//@    && offsetOf(result0.ClientMACKey) == offsetOf(KB(0))
//@ ensures server-mac-2nd: result1 == nil && KB(0) != nil ==> sameArray(result0.ServerMACKey, KB(0)) && len(result0.ServerMACKey) == macLen
//@    && offsetOf(result0.ServerMACKey) == offsetOf(KB(0)) + macLen
//@ ensures client-key-3rd: result1 == nil && KB(0) != nil ==> sameArray(result0.ClientWriteKey, KB(0)) && len(result0.ClientWriteKey) == keyLen
//@    && offsetOf(result0.ClientWriteKey) == offsetOf(KB(0)) + 2*macLen
//@ ensures server-key-4th: result1 == nil && KB(0) != nil ==> sameArray(result0.ServerWriteKey, KB(0)) && len(result0.ServerWriteKey) == keyLen
//@    && offsetOf(result0.ServerWriteKey) == offsetOf(KB(0)) + 2*macLen + keyLen
//@ ensures client-iv-5th: result1 == nil && KB(0) != nil ==> sameArray(result0.ClientWriteIV, KB(0)) && len(result0.ClientWriteIV) == ivLen
//@    && offsetOf(result0.ClientWriteIV) == offsetOf(KB(0)) + 2*macLen + 2*keyLen
//@ ensures server-iv-6th: result1 == nil && KB(0) != nil ==> sameArray(result0.ServerWriteIV, KB(0)) && len(result0.ServerWriteIV) == ivLen
//@    && offsetOf(result0.ServerWriteIV) == offsetOf(KB(0)) + 2*macLen + 2*keyLen + ivLen
//@ end

// RFC 5246 7.4.9: verify_data = PRF(master_secret, finished_label, Hash(handshake_messages))[0..11]
// (the digest bytes themselves are produced by the opaque Hash.Sum; the seed is label || digest).
//@ func prfVerifyData
//@ watch PHash Hash.Write! Hash.Sum!
//@ ensures transcript-hashed: called("PHash") ==> ncalls("Hash.Write!") == 1 && sameSlice(argBytes("Hash.Write!", 1), handshakeBodies)
//@ ensures hashed-then-summed: called("PHash") ==> ncalls("Hash.Sum!") == 1 && calledBefore("Hash.Write!", "Hash.Sum!") && calledBefore("Hash.Sum!", "PHash")
//@ ensures one-hash-object: called("PHash") ==> sameRef(argAny("Hash.Write!", 0), argAny("Hash.Sum!", 0))
//@ ensures prf-at-most-once: ncalls("PHash") <= 1
//@ ensures keyed-by-master: called("PHash") ==> sameSlice(argBytes("PHash", 0), masterSecret)
//@ ensures seed-length: called("PHash") ==> len(argBytes("PHash", 1)) == len(label) + len(retBytes("Hash.Sum!", 0))
// (not stated: seed[0:len(label)] == label. In `append([]byte(label), h.Sum(nil)...)` the engine's model of Hash.Sum
//  havocs the whole byte heap after the label was converted, so the bytes are unknown to it; the label's length is.)
//@ ensures length-12: called("PHash") ==> argInt("PHash", 2) == 12
//@ ensures result-is-prf-output: result1 == nil ==> called("PHash") && sameSlice(result0, retBytes("PHash", 0))
//@ end

// RFC 5246 7.4.9: finished_label is "client finished" for Finished messages sent by the client and
// "server finished" for those sent by the server.
//@ func VerifyDataClient
//@ watch prfVerifyData
//@ ensures once: ncalls("prfVerifyData") == 1
//@ ensures label: argAs("prfVerifyData", 2, "") == "client finished"
//@ ensures inputs: sameSlice(argBytes("prfVerifyData", 0), masterSecret) && sameSlice(argBytes("prfVerifyData", 1), handshakeBodies)
//@ ensures result: sameSlice(result0, retBytes("prfVerifyData", 0)) && result1 == retErr("prfVerifyData", 1)
//@ end

//@ func VerifyDataServer
//@ watch prfVerifyData
//@ ensures once: ncalls("prfVerifyData") == 1
//@ ensures label: argAs("prfVerifyData", 2, "") == "server finished"
//@ ensures inputs: sameSlice(argBytes("prfVerifyData", 0), masterSecret) && sameSlice(argBytes("prfVerifyData", 1), handshakeBodies)
//@ ensures result: sameSlice(result0, retBytes("prfVerifyData", 0)) && result1 == retErr("prfVerifyData", 1)
//@ end

// P_hash (RFC 5246 5) is the opaque primitive of this property. Frame assumption (trusted, not verified:
// the engine's model of hash.Hash.Sum havocs the whole byte heap and does not know that Sum(nil) is fresh):
// P_hash only reads its secret and seed arguments. It lets the callers' clauses speak about the bytes of
// the seed that was handed to P_hash.
//@ func PHash
//@ trusted
//@ ensures seed-read-only: forall(0, len(seed), func(i int) bool { return seed[i] == old(seed[i]) })
//@ ensures secret-read-only: forall(0, len(secret), func(i int) bool { return secret[i] == old(secret[i]) })
//@ ensures output-length: result1 == nil ==> len(result0) == requestedLength
//@ end

// RFC 4279 2: the PSK premaster secret is uint16(N) || N zero octets || uint16(N) || PSK, N = length of the PSK.
// FINDING (reported, replayed on the real code): the buffer length 2+N+2 is computed in uint16, so for N >= 65532 it wraps:
// N = 65532/65533 panics (slice bounds out of range), N = 65534/65535 returns a malformed premaster secret although RFC 4279
// allows PSKs of up to 2^16-1 octets. The layout clauses are therefore stated for N <= 65531; the implicit slice-bounds
// obligation of the second PutUint16 stays refuted (unclaimed) on the pinned tree. No `requires`: the callers take the PSK
// from an application callback.
//@ func PSKPreMasterSecret
//@ ensures length: len(psk) <= 65531 ==> len(result) == 2 + len(psk) + 2 + len(psk)
//@ ensures other-secret-length: len(psk) <= 65531 ==> result[0] == byte(len(psk) >> 8) && result[1] == byte(len(psk))
//@ ensures other-secret-zeros: len(psk) <= 65531 ==> forall(0, len(psk), func(i int) bool { return result[2+i] == 0 })
//@ ensures psk-length-field: len(psk) <= 65531 ==> result[2+len(psk)] == byte(len(psk) >> 8) && result[3+len(psk)] == byte(len(psk))
//@ ensures psk-last: len(psk) <= 65531 ==> forall(0, len(psk), func(i int) bool { return result[4+len(psk)+i] == old(psk[i]) })
//@ end

// RFC 5489 2: the ECDHE_PSK premaster secret is uint16(len(Z)) || Z || uint16(len(PSK)) || PSK, Z = the ECDH shared secret.
//@ func EcdhePSKPreMasterSecret
//@ watch PreMasterSecret
//@ ensures ecdh-once: ncalls("PreMasterSecret") == 1 && sameSlice(argBytes("PreMasterSecret", 0), publicKey) && sameSlice(argBytes("PreMasterSecret", 1), privateKey)
//@ ensures ecdh-error-propagated: retErr("PreMasterSecret", 1) != nil ==> result1 != nil && isNil(result0)
//@ ensures length: result1 == nil ==> len(result0) == 2 + len(retBytes("PreMasterSecret", 0)) + 2 + len(psk)
//@ ensures shared-secret-length: result1 == nil ==> result0[0] == byte(len(retBytes("PreMasterSecret", 0)) >> 8) && result0[1] == byte(len(retBytes("PreMasterSecret", 0)))
//@ ensures shared-secret-first: result1 == nil ==> forall(0, len(retBytes("PreMasterSecret", 0)), func(i int) bool { return result0[2+i] == retBytes("PreMasterSecret", 0)[i] })
//@ ensures psk-length-field: result1 == nil ==> result0[2+len(retBytes("PreMasterSecret", 0))] == byte(len(psk) >> 8) && result0[3+len(retBytes("PreMasterSecret", 0))] == byte(len(psk))
//@ ensures psk-first-byte: result1 == nil && len(psk) > 0 ==> result0[4+len(retBytes("PreMasterSecret", 0))] == psk[0]
//@ ensures psk-last-byte: result1 == nil && len(psk) > 0 ==> result0[3+len(retBytes("PreMasterSecret", 0))+len(psk)] == psk[len(psk)-1]
// (the whole PSK, byte for byte, is provable only by cvc5 in about 7 s: beyond the 4 s budget; its first and last byte and the total length are stated)
//@ end
