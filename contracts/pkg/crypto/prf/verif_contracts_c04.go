//go:build verif

// Contracts for package prf: summarised at call sites (their RFC formulas are C10).
package prf

//@ func VerifyDataServer
//@ noinline
//@ end

//@ func VerifyDataClient
//@ noinline
//@ end

//@ func PreMasterSecret
//@ noinline
//@ end

//@ func PSKPreMasterSecret
//@ noinline
//@ end

//@ func EcdhePSKPreMasterSecret
//@ noinline
//@ end

//@ func MasterSecret
//@ noinline
//@ end

//@ func ExtendedMasterSecret
//@ noinline
//@ end
