//go:build verif

// C18 contracts for package recordlayer (comment-only; read by /verif/vc).
package recordlayer

// RFC 9147 4 (unified header): first byte 0 0 1 C S L E E; connection ID (if C, length from context);
// sequence number 16 bits if S else 8 bits; length 16 bits if L.

//@ define UH_C(d) (d[0]&0x10 != 0)
//@ define UH_S(d) (d[0]&0x08 != 0)
//@ define UH_L(d) (d[0]&0x04 != 0)
//@ define UH_BE16(d, o) (uint16(d[o])<<8 | uint16(d[(o)+1]))

//@ func UnifiedHeader.Marshal
//@ inline
//@ ensures cid-too-big: len(old(u.ConnectionID)) > 255 ==> result1 != nil
//@ ensures ok: len(old(u.ConnectionID)) <= 255 ==> result1 == nil
//@ ensures size: result1 == nil ==> (u.SeqBit && u.LengthBit ==> len(result0) == 5 + len(u.ConnectionID))
//@    && (u.SeqBit && !u.LengthBit ==> len(result0) == 3 + len(u.ConnectionID))
//@    && (!u.SeqBit && u.LengthBit ==> len(result0) == 4 + len(u.ConnectionID))
//@    && (!u.SeqBit && !u.LengthBit ==> len(result0) == 2 + len(u.ConnectionID))
//@ ensures layout-fixed-bits: result1 == nil ==> result0[0]&0xE0 == 0x20
//@ ensures layout-flags: result1 == nil ==> UH_C(result0) == (len(u.ConnectionID) > 0) && UH_S(result0) == u.SeqBit && UH_L(result0) == u.LengthBit
//@ ensures layout-epoch: result1 == nil ==> result0[0]&0x03 == u.EpochLow&0x03
//@ ensures layout-cid: result1 == nil ==> forall(0, len(u.ConnectionID), func(i int) bool { return result0[1+i] == u.ConnectionID[i] })
//@ ensures layout-seq16: result1 == nil && u.SeqBit ==> UH_BE16(result0, 1+len(u.ConnectionID)) == u.SequenceNumber
//@ ensures layout-seq8: result1 == nil && !u.SeqBit ==> result0[1+len(u.ConnectionID)] == byte(u.SequenceNumber)
//@ ensures layout-len-s: result1 == nil && u.LengthBit && u.SeqBit ==> UH_BE16(result0, 3+len(u.ConnectionID)) == u.Length
//@ ensures layout-len-nos: result1 == nil && u.LengthBit && !u.SeqBit ==> UH_BE16(result0, 2+len(u.ConnectionID)) == u.Length
//@ ensures frame: len(u.ConnectionID) == old(len(u.ConnectionID)) && u.SequenceNumber == old(u.SequenceNumber) && u.SeqBit == old(u.SeqBit)
//@    && u.Length == old(u.Length) && u.LengthBit == old(u.LengthBit) && u.EpochLow == old(u.EpochLow)
//@ end

//@ func UnifiedHeader.Size
//@ inline
//@ ensures size: (u.SeqBit && u.LengthBit ==> result == 5 + len(u.ConnectionID))
//@    && (u.SeqBit && !u.LengthBit ==> result == 3 + len(u.ConnectionID))
//@    && (!u.SeqBit && u.LengthBit ==> result == 4 + len(u.ConnectionID))
//@    && (!u.SeqBit && !u.LengthBit ==> result == 2 + len(u.ConnectionID))
//@ end

// Decoding: the CID length is len(u.ConnectionID) on entry (the negotiated length).
//@ define UH_CIDLEN(u) len(old(u.ConnectionID))
//@ define UH_CASE_SHORT(d, c, s, l, need) (len(d) >= 1 && UH_C(d) == c && UH_S(d) == s && UH_L(d) == l && len(d) < need ==> result != nil)
//@ define UH_CASE_OK(d, c, s, l, need) (len(d) >= 1 && d[0]&0xE0 == 0x20 && UH_C(d) == c && UH_S(d) == s && UH_L(d) == l && len(d) >= need ==> result == nil)

//@ func UnifiedHeader.Unmarshal
//@ inline
//@ ensures empty: len(data) == 0 ==> result != nil
//@ ensures bad-fixed-bits: len(data) >= 1 && data[0]&0xE0 != 0x20 ==> result != nil
//@ ensures truncated-cid: UH_CASE_SHORT(data, true, true, true, 5+UH_CIDLEN(u)) && UH_CASE_SHORT(data, true, true, false, 3+UH_CIDLEN(u))
//@    && UH_CASE_SHORT(data, true, false, true, 4+UH_CIDLEN(u)) && UH_CASE_SHORT(data, true, false, false, 2+UH_CIDLEN(u))
//@ ensures truncated-nocid: UH_CASE_SHORT(data, false, true, true, 5) && UH_CASE_SHORT(data, false, true, false, 3)
//@    && UH_CASE_SHORT(data, false, false, true, 4) && UH_CASE_SHORT(data, false, false, false, 2)
//@ ensures ok-cid: UH_CASE_OK(data, true, true, true, 5+UH_CIDLEN(u)) && UH_CASE_OK(data, true, true, false, 3+UH_CIDLEN(u))
//@    && UH_CASE_OK(data, true, false, true, 4+UH_CIDLEN(u)) && UH_CASE_OK(data, true, false, false, 2+UH_CIDLEN(u))
//@ ensures ok-nocid: UH_CASE_OK(data, false, true, true, 5) && UH_CASE_OK(data, false, true, false, 3)
//@    && UH_CASE_OK(data, false, false, true, 4) && UH_CASE_OK(data, false, false, false, 2)
//@ ensures flags: result == nil ==> u.SeqBit == UH_S(data) && u.LengthBit == UH_L(data) && u.EpochLow == data[0]&0x03
//@ ensures cid: result == nil && UH_C(data) ==> len(u.ConnectionID) == UH_CIDLEN(u) && forall(0, len(u.ConnectionID), func(i int) bool { return u.ConnectionID[i] == data[1+i] })
//@ ensures nocid: result == nil && !UH_C(data) ==> len(u.ConnectionID) == 0
//@ ensures seq16-cid: result == nil && UH_C(data) && UH_S(data) ==> u.SequenceNumber == UH_BE16(data, 1+UH_CIDLEN(u))
//@ ensures seq16-nocid: result == nil && !UH_C(data) && UH_S(data) ==> u.SequenceNumber == UH_BE16(data, 1)
//@ ensures seq8-cid: result == nil && UH_C(data) && !UH_S(data) ==> u.SequenceNumber == uint16(data[1+UH_CIDLEN(u)])
//@ ensures seq8-nocid: result == nil && !UH_C(data) && !UH_S(data) ==> u.SequenceNumber == uint16(data[1])
//@ ensures len-s-cid: result == nil && UH_C(data) && UH_L(data) && UH_S(data) ==> u.Length == UH_BE16(data, 3+UH_CIDLEN(u))
//@ ensures len-s-nocid: result == nil && !UH_C(data) && UH_L(data) && UH_S(data) ==> u.Length == UH_BE16(data, 3)
//@ ensures len-nos-cid: result == nil && UH_C(data) && UH_L(data) && !UH_S(data) ==> u.Length == UH_BE16(data, 2+UH_CIDLEN(u))
//@ ensures len-nos-nocid: result == nil && !UH_C(data) && UH_L(data) && !UH_S(data) ==> u.Length == UH_BE16(data, 2)
//@ ensures nolen: result == nil && !UH_L(data) ==> u.Length == 0
//@ ensures input-unchanged: forall(0, len(data), func(i int) bool { return data[i] == old(data[i]) })
//@ end

// RFC 9147 4 / RFC 8446 5.2: struct { opaque content[length]; ContentType type; uint8 zeros[length_of_padding]; }
// DTLSInnerPlaintext; the type is the last non-zero byte.

//@ func InnerPlaintext.Marshal
//@ inline
//@ ensures ok: old(p.Zeros) <= 65536 ==> result1 == nil
//@ ensures size: result1 == nil && p.Zeros <= 65536 ==> len(result0) == len(p.Content) + 1 + int(p.Zeros)
//@ ensures layout-content: result1 == nil && p.Zeros <= 65536 ==> forall(0, len(p.Content), func(i int) bool { return result0[i] == p.Content[i] })
//@ ensures layout-type: result1 == nil && p.Zeros <= 65536 ==> result0[len(p.Content)] == byte(p.RealType)
//@ ensures layout-zeros: result1 == nil && p.Zeros <= 65536 ==> forall(len(p.Content)+1, len(result0), func(i int) bool { return result0[i] == 0 })
//@ ensures frame: len(p.Content) == old(len(p.Content)) && p.RealType == old(p.RealType) && p.Zeros == old(p.Zeros)
//@ end

//@ func InnerPlaintext.Unmarshal
//@ inline
//@ loop i: padding: forall(i+1, len(data), func(j int) bool { return data[j] == 0 })
//@ loop i: input-kept: forall(0, len(data), func(j int) bool { return data[j] == old(data[j]) })
//@ ensures empty: len(data) == 0 ==> result != nil
//@ ensures all-zero: forall(0, len(data), func(j int) bool { return data[j] == 0 }) ==> result != nil
//@ ensures ok: exists(0, len(data), func(j int) bool { return data[j] != 0 }) ==> result == nil
//@ ensures size: result == nil ==> len(p.Content) + 1 + int(p.Zeros) == len(data) && len(p.Content) >= 0 && len(p.Content) < len(data)
//@ ensures content: result == nil ==> forall(0, len(p.Content), func(j int) bool { return p.Content[j] == data[j] })
//@ ensures type: result == nil ==> p.RealType == protocol.ContentType(data[len(p.Content)]) && p.RealType != 0
//@ ensures zeros: result == nil ==> forall(len(p.Content)+1, len(data), func(j int) bool { return data[j] == 0 })
//@ ensures fresh: result == nil && len(p.Content) > 0 ==> !sameArray(p.Content, data)
//@ ensures input-unchanged: forall(0, len(data), func(j int) bool { return data[j] == old(data[j]) })
//@ end

// Datagram splitting (RFC 6347 4.1: a datagram is a sequence of records, each 13 header bytes —
// plus the connection ID for tls12_cid records — and `length` content bytes). The returned records are
// consecutive, non-empty sub-slices of buf that cover it exactly.

//@ define REC_LEN16(r, o) (int(r[o])<<8 | int(r[(o)+1]))
//@ define PART_IN(out, buf) forall(0, len(out), func(k int) bool { return sameArray(out[k], buf) && len(out[k]) >= 13 })
//@ define PART_FIRST(out, buf) (len(out) > 0 ==> offsetOf(out[0]) == offsetOf(buf))
//@ define PART_CONSEC(out) forall(0, len(out)-1, func(k int) bool { return offsetOf(out[k+1]) == offsetOf(out[k]) + len(out[k]) })
//@ define PART_LAST(out, buf, end) (len(out) > 0 ==> offsetOf(out[len(out)-1]) + len(out[len(out)-1]) == offsetOf(buf) + (end))

//@ func UnpackDatagram
//@ loop offset: in-buf: forall(0, len(out), func(k int) bool { return sameArray(out[k], buf) })
//@ loop offset: min-len: forall(0, len(out), func(k int) bool { return len(out[k]) >= 13 })
//@ loop offset: first: PART_FIRST(out, buf)
//@ loop offset: last: PART_LAST(out, buf, offset)
//@ loop offset: none-yet: len(out) == 0 ==> offset == 0
//@ ensures in-buf: result1 == nil ==> forall(0, len(result0), func(k int) bool { return sameArray(result0[k], buf) })
//@ ensures min-len: result1 == nil ==> forall(0, len(result0), func(k int) bool { return len(result0[k]) >= 13 })
//@ ensures first: result1 == nil ==> PART_FIRST(result0, buf)
//@ ensures last: result1 == nil ==> PART_LAST(result0, buf, len(buf))
//@ end
