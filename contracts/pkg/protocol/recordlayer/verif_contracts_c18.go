//go:build verif

// C18 contracts for package recordlayer (comment-only; read by /verif/vc).
package recordlayer

// ASSUMPTION (props/C18.json): the package variable ErrInvalidPacketLength (initialised from
// internal/errors.ErrInvalidPacketLength) is non-nil. The engine does not track that initialiser, so
// "accepted" / "rejected" are written so that a return of that variable counts as a rejection.
//@ define ACC(e) (e == nil && !sameRef(e, ErrInvalidPacketLength))
//@ define REJ(e) (e != nil || sameRef(e, ErrInvalidPacketLength))
// (ACC only in antecedents, REJ only in consequents; "accepted" as a consequent is written e == nil)

// RFC 9147 4 (unified header): first byte 0 0 1 C S L E E; connection ID (if C, length from context);
// sequence number 16 bits if S else 8 bits; length 16 bits if L.

//@ define UH_C(d) (d[0]&0x10 != 0)
//@ define UH_S(d) (d[0]&0x08 != 0)
//@ define UH_L(d) (d[0]&0x04 != 0)
//@ define UH_BE16(d, o) (uint16(d[o])<<8 | uint16(d[(o)+1]))

//@ func UnifiedHeader.Marshal
//@ inline
//@ ensures cid-too-big: len(old(u.ConnectionID)) > 255 ==> result1 != nil
//@ ensures ok: len(old(u.ConnectionID)) <= 255 ==> result1 == nil
//@ ensures size: result1 == nil ==> (u.SeqBit && u.LengthBit ==> len(result0) == 5 + len(u.ConnectionID))
//@    && (u.SeqBit && !u.LengthBit ==> len(result0) == 3 + len(u.ConnectionID))
//@    && (!u.SeqBit && u.LengthBit ==> len(result0) == 4 + len(u.ConnectionID))
//@    && (!u.SeqBit && !u.LengthBit ==> len(result0) == 2 + len(u.ConnectionID))
//@ ensures layout-fixed-bits: result1 == nil ==> result0[0]&0xE0 == 0x20
//@ ensures layout-flags: result1 == nil ==> UH_C(result0) == (len(u.ConnectionID) > 0) && UH_S(result0) == u.SeqBit && UH_L(result0) == u.LengthBit
//@ ensures layout-epoch: result1 == nil ==> result0[0]&0x03 == u.EpochLow&0x03
//@ ensures layout-cid: result1 == nil ==> forall(0, len(u.ConnectionID), func(i int) bool { return result0[1+i] == u.ConnectionID[i] })
//@ ensures layout-seq16: result1 == nil && u.SeqBit ==> UH_BE16(result0, 1+len(u.ConnectionID)) == u.SequenceNumber
//@ ensures layout-seq8: result1 == nil && !u.SeqBit ==> result0[1+len(u.ConnectionID)] == byte(u.SequenceNumber)
//@ ensures layout-len-s: result1 == nil && u.LengthBit && u.SeqBit ==> UH_BE16(result0, 3+len(u.ConnectionID)) == u.Length
//@ ensures layout-len-nos: result1 == nil && u.LengthBit && !u.SeqBit ==> UH_BE16(result0, 2+len(u.ConnectionID)) == u.Length
//@ ensures frame: len(u.ConnectionID) == old(len(u.ConnectionID)) && u.SequenceNumber == old(u.SequenceNumber) && u.SeqBit == old(u.SeqBit)
//@    && u.Length == old(u.Length) && u.LengthBit == old(u.LengthBit) && u.EpochLow == old(u.EpochLow)
//@ end

//@ func UnifiedHeader.Size
//@ inline
//@ ensures size: (u.SeqBit && u.LengthBit ==> result == 5 + len(u.ConnectionID))
//@    && (u.SeqBit && !u.LengthBit ==> result == 3 + len(u.ConnectionID))
//@    && (!u.SeqBit && u.LengthBit ==> result == 4 + len(u.ConnectionID))
//@    && (!u.SeqBit && !u.LengthBit ==> result == 2 + len(u.ConnectionID))
//@ end

// Decoding: the CID length is len(u.ConnectionID) on entry (the negotiated length).
//@ define UH_CIDLEN(u) len(old(u.ConnectionID))
//@ define UH_CASE_SHORT(d, c, s, l, need) (len(d) >= 1 && UH_C(d) == c && UH_S(d) == s && UH_L(d) == l && len(d) < need ==> result != nil)
//@ define UH_CASE_OK(d, c, s, l, need) (len(d) >= 1 && d[0]&0xE0 == 0x20 && UH_C(d) == c && UH_S(d) == s && UH_L(d) == l && len(d) >= need ==> result == nil)

//@ func UnifiedHeader.Unmarshal
//@ inline
//@ ensures empty: len(data) == 0 ==> result != nil
//@ ensures bad-fixed-bits: len(data) >= 1 && data[0]&0xE0 != 0x20 ==> result != nil
//@ ensures truncated-cid: UH_CASE_SHORT(data, true, true, true, 5+UH_CIDLEN(u)) && UH_CASE_SHORT(data, true, true, false, 3+UH_CIDLEN(u))
//@    && UH_CASE_SHORT(data, true, false, true, 4+UH_CIDLEN(u)) && UH_CASE_SHORT(data, true, false, false, 2+UH_CIDLEN(u))
//@ ensures truncated-nocid: UH_CASE_SHORT(data, false, true, true, 5) && UH_CASE_SHORT(data, false, true, false, 3)
//@    && UH_CASE_SHORT(data, false, false, true, 4) && UH_CASE_SHORT(data, false, false, false, 2)
//@ ensures ok-cid: UH_CASE_OK(data, true, true, true, 5+UH_CIDLEN(u)) && UH_CASE_OK(data, true, true, false, 3+UH_CIDLEN(u))
//@    && UH_CASE_OK(data, true, false, true, 4+UH_CIDLEN(u)) && UH_CASE_OK(data, true, false, false, 2+UH_CIDLEN(u))
//@ ensures ok-nocid: UH_CASE_OK(data, false, true, true, 5) && UH_CASE_OK(data, false, true, false, 3)
//@    && UH_CASE_OK(data, false, false, true, 4) && UH_CASE_OK(data, false, false, false, 2)
//@ ensures flags: result == nil ==> u.SeqBit == UH_S(data) && u.LengthBit == UH_L(data) && u.EpochLow == data[0]&0x03
//@ ensures cid: result == nil && UH_C(data) ==> len(u.ConnectionID) == UH_CIDLEN(u) && forall(0, len(u.ConnectionID), func(i int) bool { return u.ConnectionID[i] == data[1+i] })
//@ ensures nocid: result == nil && !UH_C(data) ==> len(u.ConnectionID) == 0
//@ ensures seq16-cid: result == nil && UH_C(data) && UH_S(data) ==> u.SequenceNumber == UH_BE16(data, 1+UH_CIDLEN(u))
//@ ensures seq16-nocid: result == nil && !UH_C(data) && UH_S(data) ==> u.SequenceNumber == UH_BE16(data, 1)
//@ ensures seq8-cid: result == nil && UH_C(data) && !UH_S(data) ==> u.SequenceNumber == uint16(data[1+UH_CIDLEN(u)])
//@ ensures seq8-nocid: result == nil && !UH_C(data) && !UH_S(data) ==> u.SequenceNumber == uint16(data[1])
//@ ensures len-s-cid: result == nil && UH_C(data) && UH_L(data) && UH_S(data) ==> u.Length == UH_BE16(data, 3+UH_CIDLEN(u))
//@ ensures len-s-nocid: result == nil && !UH_C(data) && UH_L(data) && UH_S(data) ==> u.Length == UH_BE16(data, 3)
//@ ensures len-nos-cid: result == nil && UH_C(data) && UH_L(data) && !UH_S(data) ==> u.Length == UH_BE16(data, 2+UH_CIDLEN(u))
//@ ensures len-nos-nocid: result == nil && !UH_C(data) && UH_L(data) && !UH_S(data) ==> u.Length == UH_BE16(data, 2)
//@ ensures nolen: result == nil && !UH_L(data) ==> u.Length == 0
//@ ensures input-unchanged: forall(0, len(data), func(i int) bool { return data[i] == old(data[i]) })
//@ end

// RFC 9147 4 / RFC 8446 5.2: struct { opaque content[length]; ContentType type; uint8 zeros[length_of_padding]; }
// DTLSInnerPlaintext; the type is the last non-zero byte.

//@ func InnerPlaintext.Marshal
//@ inline
//@ ensures ok: old(p.Zeros) <= 65536 ==> result1 == nil
//@ ensures size: result1 == nil && p.Zeros <= 65536 ==> len(result0) == len(p.Content) + 1 + int(p.Zeros)
//@ ensures layout-content: result1 == nil && p.Zeros <= 65536 ==> forall(0, len(p.Content), func(i int) bool { return result0[i] == p.Content[i] })
//@ ensures layout-type: result1 == nil && p.Zeros <= 65536 ==> result0[len(p.Content)] == byte(p.RealType)
//@ ensures layout-zeros: result1 == nil && p.Zeros <= 65536 ==> forall(len(p.Content)+1, len(result0), func(i int) bool { return result0[i] == 0 })
//@ ensures frame: len(p.Content) == old(len(p.Content)) && p.RealType == old(p.RealType) && p.Zeros == old(p.Zeros)
//@ end

//@ func InnerPlaintext.Unmarshal
//@ loop i: padding: forall(i+1, len(data), func(j int) bool { return data[j] == 0 })
//@ loop i: input-kept: forall(0, len(data), func(j int) bool { return data[j] == old(data[j]) })
//@ ensures empty: len(data) == 0 ==> result != nil
//@ ensures all-zero: forall(0, len(data), func(j int) bool { return data[j] == 0 }) ==> result != nil
//@ ensures ok: exists(0, len(data), func(j int) bool { return data[j] != 0 }) ==> result == nil
//@ ensures size: result == nil ==> len(p.Content) + 1 + int(p.Zeros) == len(data) && len(p.Content) >= 0 && len(p.Content) < len(data)
//@ ensures content: result == nil ==> forall(0, len(p.Content), func(j int) bool { return p.Content[j] == data[j] })
//@ ensures type: result == nil ==> p.RealType == protocol.ContentType(data[len(p.Content)]) && p.RealType != 0
//@ ensures zeros: result == nil ==> forall(len(p.Content)+1, len(data), func(j int) bool { return data[j] == 0 })
//@ ensures fresh: result == nil && len(p.Content) > 0 ==> !sameArray(p.Content, data)
//@ ensures input-unchanged: forall(0, len(data), func(j int) bool { return data[j] == old(data[j]) })
//@ end

// Datagram splitting (RFC 6347 4.1: a datagram is a sequence of records, each 13 header bytes —
// plus the connection ID for tls12_cid records — and `length` content bytes). The returned records are
// consecutive, non-empty sub-slices of buf that cover it exactly.

//@ define REC_LEN16(r, o) (int(r[o])<<8 | int(r[(o)+1]))
// One atom per quantified clause (conjunctions inside one quantifier are much slower to discharge).
//@ define PART_IN(out, buf) forall(0, len(out), func(k int) bool { return sameArray(out[k], buf) })
//@ define PART_MINLEN(out, n) forall(0, len(out), func(k int) bool { return len(out[k]) >= n })
//@ define PART_FIRST(out, buf) (len(out) > 0 ==> offsetOf(out[0]) == offsetOf(buf))
// (written with two indices so that instantiating it creates no new out[k+1] terms)
//@ define PART_CONSEC(out) forall(0, len(out), func(k int) bool { return forall(0, len(out), func(j int) bool { return j == k+1 ==> offsetOf(out[j]) == offsetOf(out[k]) + len(out[k]) }) })
//@ define PART_LAST(out, buf, end) (len(out) > 0 ==> offsetOf(out[len(out)-1]) + len(out[len(out)-1]) == offsetOf(buf) + (end))
// the length field of record k, read through buf (out[k] is a window of buf starting at offsetOf(out[k]) - offsetOf(buf))
//@ define PART_DECL(out, buf) forall(0, len(out), func(k int) bool { return len(out[k]) == 13 + REC_LEN16(buf, offsetOf(out[k]) - offsetOf(buf) + 11) })

//@ func UnpackDatagram
//@ loop offset: in-buf: PART_IN(out, buf)
//@ loop offset: min-len: PART_MINLEN(out, 13)
//@ loop offset: first: PART_FIRST(out, buf)
//@ loop offset: last: PART_LAST(out, buf, offset)
//@ loop offset: none-yet: len(out) == 0 ==> offset == 0
//@ loop offset: some: len(out) > 0 ==> offset >= 13 && len(buf) > 13
//@ loop offset: non-nil: out != nil
//@ loop offset: first-fits: len(out) > 0 ==> 13 + REC_LEN16(buf, 11) <= offset
//@ loop offset: first-only: len(out) == 1 ==> offset == 13 + REC_LEN16(buf, 11)
//@ loop offset: more: len(out) >= 2 ==> offset > 13 + REC_LEN16(buf, 11)
//@ loop offset: consecutive: PART_CONSEC(out)
//@ loop offset: declared: PART_DECL(out, buf)
//@ loop offset: input-kept: forall(0, len(buf), func(j int) bool { return buf[j] == old(buf[j]) })
//@ ensures err-nil: result1 != nil ==> result0 == nil
//@ ensures empty: len(buf) == 0 ==> result1 == nil && len(result0) == 0
//@ ensures nonempty: result0 != nil && len(buf) > 0 ==> len(result0) > 0
//@ ensures in-buf: result1 == nil ==> PART_IN(result0, buf)
//@ ensures min-len: result1 == nil ==> PART_MINLEN(result0, 13)
//@ ensures first: result1 == nil ==> PART_FIRST(result0, buf)
//@ ensures consecutive: result1 == nil ==> PART_CONSEC(result0)
//@ ensures last: result1 == nil ==> PART_LAST(result0, buf, len(buf))
//@ ensures declared-len: result1 == nil ==> PART_DECL(result0, buf)
//@ ensures short-first: len(buf) > 0 && len(buf) <= 13 ==> REJ(result1)
//@ ensures truncated-first: len(buf) > 13 && 13 + REC_LEN16(buf, 11) > len(buf) ==> REJ(result1)
//@ ensures short-first-ref: len(buf) > 0 && len(buf) <= 13 ==> sameRef(result1, ErrInvalidPacketLength) && result0 == nil
//@ ensures truncated-first-ref: len(buf) > 13 && 13 + REC_LEN16(buf, 11) > len(buf) ==> sameRef(result1, ErrInvalidPacketLength) && result0 == nil
//@ ensures single-ok: len(buf) > 13 && 13 + REC_LEN16(buf, 11) == len(buf) ==> result1 == nil && len(result0) == 1
//@ ensures input-unchanged: forall(0, len(buf), func(j int) bool { return buf[j] == old(buf[j]) })
//@ end

// With connection IDs (RFC 9146 4): a tls12_cid record (type 25) carries cidLength CID bytes between the
// sequence number and the length field.

//@ define REC_START(r, buf) (offsetOf(r) - offsetOf(buf))
//@ define PART_DECL_PLAIN(out, buf) forall(0, len(out), func(k int) bool { return buf[REC_START(out[k], buf)] != 25 ==> len(out[k]) == 13 + REC_LEN16(buf, REC_START(out[k], buf) + 11) })
//@ define PART_DECL_CID(out, buf, n) forall(0, len(out), func(k int) bool { return buf[REC_START(out[k], buf)] == 25 ==> len(out[k]) == 13 + n + REC_LEN16(buf, REC_START(out[k], buf) + 11 + n) })

//@ func ContentAwareUnpackDatagram
//@ loop offset: in-buf: PART_IN(out, buf)
//@ loop offset: min-len: PART_MINLEN(out, 13)
//@ loop offset: first: PART_FIRST(out, buf)
//@ loop offset: last: PART_LAST(out, buf, offset)
//@ loop offset: none-yet: len(out) == 0 ==> offset == 0
//@ loop offset: some: len(out) > 0 ==> offset >= 13 && len(buf) > 13
//@ loop offset: non-nil: out != nil
//@ loop offset: first-fits-plain: len(out) > 0 && buf[0] != 25 ==> 13 + REC_LEN16(buf, 11) <= offset
//@ loop offset: first-fits-cid: len(out) > 0 && buf[0] == 25 ==> 13 + cidLength + REC_LEN16(buf, 11 + cidLength) <= offset && len(buf) > 13 + cidLength
//@ loop offset: consecutive: PART_CONSEC(out)
// (the solvers do not decide the preservation of the two declared-* invariants across append; they are kept so
// that the declared-len clauses are stated against an explicit invariant rather than refuted for lack of one)
//@ loop offset: declared-plain: PART_DECL_PLAIN(out, buf)
//@ loop offset: declared-cid: PART_DECL_CID(out, buf, cidLength)
//@ loop offset: input-kept: forall(0, len(buf), func(j int) bool { return buf[j] == old(buf[j]) })
//@ ensures err-nil: result1 != nil ==> result0 == nil
//@ ensures empty: len(buf) == 0 ==> result1 == nil && len(result0) == 0
//@ ensures nonempty: result0 != nil && len(buf) > 0 ==> len(result0) > 0
//@ ensures in-buf: result1 == nil ==> PART_IN(result0, buf)
//@ ensures min-len: result1 == nil ==> PART_MINLEN(result0, 13)
//@ ensures first: result1 == nil ==> PART_FIRST(result0, buf)
//@ ensures consecutive: result1 == nil ==> PART_CONSEC(result0)
//@ ensures last: result1 == nil ==> PART_LAST(result0, buf, len(buf))
//@ ensures declared-len-plain: result1 == nil ==> PART_DECL_PLAIN(result0, buf)
//@ ensures declared-len-cid: result1 == nil ==> PART_DECL_CID(result0, buf, cidLength)
//@ ensures short-first-ref: len(buf) > 0 && buf[0] != 25 && len(buf) <= 13 ==> sameRef(result1, ErrInvalidPacketLength) && result0 == nil
//@ ensures short-first-cid-ref: len(buf) > 0 && buf[0] == 25 && len(buf) <= 13 + cidLength ==> sameRef(result1, ErrInvalidPacketLength) && result0 == nil
//@ ensures truncated-first-ref: len(buf) > 13 && buf[0] != 25 && 13 + REC_LEN16(buf, 11) > len(buf) ==> sameRef(result1, ErrInvalidPacketLength) && result0 == nil
//@ ensures truncated-first-cid-ref: len(buf) > 13 + cidLength && buf[0] == 25 && 13 + cidLength + REC_LEN16(buf, 11 + cidLength) > len(buf) ==> sameRef(result1, ErrInvalidPacketLength) && result0 == nil
//@ ensures truncated-first: len(buf) > 13 && buf[0] != 25 && 13 + REC_LEN16(buf, 11) > len(buf) ==> REJ(result1)
//@ ensures input-unchanged: forall(0, len(buf), func(j int) bool { return buf[j] == old(buf[j]) })
//@ end

// RFC 9147 4: DTLSCiphertext = unified header (here always with S=1 and L=1 when sending) followed by
// `length` bytes of encrypted record; 16 <= length <= 2^14 + 256.

//@ func CiphertextRecord13.Marshal
//@ ensures too-short: len(old(r.EncryptedRecord)) < 16 ==> REJ(result1)
//@ ensures too-long: len(old(r.EncryptedRecord)) > 16640 ==> REJ(result1)
//@ ensures cid-too-big: len(old(r.Header.ConnectionID)) > 255 ==> REJ(result1)
//@ ensures ok: len(old(r.EncryptedRecord)) >= 16 && len(old(r.EncryptedRecord)) <= 16640 && len(old(r.Header.ConnectionID)) <= 255 ==> result1 == nil
//@ ensures size: ACC(result1) ==> len(result0) == 5 + len(r.Header.ConnectionID) + len(r.EncryptedRecord)
//@ ensures layout-first: ACC(result1) ==> result0[0]&0xE0 == 0x20 && UH_C(result0) == (len(r.Header.ConnectionID) > 0) && UH_S(result0) && UH_L(result0)
//@    && result0[0]&0x03 == r.Header.EpochLow&0x03
//@ ensures layout-cid: ACC(result1) ==> forall(0, len(r.Header.ConnectionID), func(i int) bool { return result0[1+i] == r.Header.ConnectionID[i] })
//@ ensures layout-seq: ACC(result1) ==> UH_BE16(result0, 1+len(r.Header.ConnectionID)) == r.Header.SequenceNumber
//@ ensures layout-length: ACC(result1) ==> int(UH_BE16(result0, 3+len(r.Header.ConnectionID))) == len(r.EncryptedRecord)
//@ ensures layout-body: ACC(result1) ==> forall(0, len(r.EncryptedRecord), func(i int) bool { return result0[5+len(r.Header.ConnectionID)+i] == r.EncryptedRecord[i] })
//@ ensures frame: len(r.EncryptedRecord) == old(len(r.EncryptedRecord)) && len(r.Header.ConnectionID) == old(len(r.Header.ConnectionID))
//@    && r.Header.SequenceNumber == old(r.Header.SequenceNumber) && r.Header.EpochLow == old(r.Header.EpochLow)
//@ end

// hs = size of the unified header announced by the first byte, CID length from context.
//@ define CR_CID(r, d) len(r.Header.ConnectionID)
//@ define CR_LEN_OK(n) ((n) >= 16 && (n) <= 16640)

//@ func CiphertextRecord13.Unmarshal
//@ ensures empty: len(data) == 0 ==> REJ(result)
//@ ensures bad-fixed-bits: len(data) >= 1 && data[0]&0xE0 != 0x20 ==> REJ(result)
//@ ensures header-flags: ACC(result) ==> r.Header.SeqBit == UH_S(data) && r.Header.LengthBit == UH_L(data) && r.Header.EpochLow == data[0]&0x03
//@ ensures header-cid: ACC(result) && UH_C(data) ==> len(r.Header.ConnectionID) == len(old(r.Header.ConnectionID))
//@ ensures header-nocid: ACC(result) && !UH_C(data) ==> len(r.Header.ConnectionID) == 0
//@ ensures size-sl: ACC(result) && UH_S(data) && UH_L(data) ==> len(data) == 5 + CR_CID(r, data) + len(r.EncryptedRecord)
//@ ensures size-s: ACC(result) && UH_S(data) && !UH_L(data) ==> len(data) == 3 + CR_CID(r, data) + len(r.EncryptedRecord)
//@ ensures size-l: ACC(result) && !UH_S(data) && UH_L(data) ==> len(data) == 4 + CR_CID(r, data) + len(r.EncryptedRecord)
//@ ensures size-none: ACC(result) && !UH_S(data) && !UH_L(data) ==> len(data) == 2 + CR_CID(r, data) + len(r.EncryptedRecord)
//@ ensures declared-len: ACC(result) && UH_L(data) ==> len(r.EncryptedRecord) == int(r.Header.Length)
//@ ensures declared-len-sl: ACC(result) && UH_S(data) && UH_L(data) ==> len(r.EncryptedRecord) == int(UH_BE16(data, 3+CR_CID(r, data)))
//@ ensures declared-len-l: ACC(result) && !UH_S(data) && UH_L(data) ==> len(r.EncryptedRecord) == int(UH_BE16(data, 2+CR_CID(r, data)))
//@ ensures body-range: ACC(result) ==> CR_LEN_OK(len(r.EncryptedRecord))
//@ ensures body: ACC(result) ==> forall(0, len(r.EncryptedRecord), func(i int) bool { return r.EncryptedRecord[i] == data[len(data)-len(r.EncryptedRecord)+i] })
//@ ensures fresh: ACC(result) ==> !sameArray(r.EncryptedRecord, data)
//@ ensures input-unchanged: forall(0, len(data), func(i int) bool { return data[i] == old(data[i]) })
//@ end

// RFC 9147 4: DTLSPlaintext = type(1) legacy_record_version(2) epoch(2) sequence_number(6) length(2) fragment[length];
// epoch 0 only, length <= 2^14, types alert(21), handshake(22), ack(26).
// Input bytes are read in the entry state (old): the content decoders are summarised by a havoc that may
// include byte memory. For handshake content the engine havocs everything the (large, uncontracted)
// Handshake.Unmarshal may write, including r.Header, so header clauses are split by content type.

//@ define D(i) old(data[i])
//@ define DLEN16(o) (int(old(data[o]))<<8 | int(old(data[(o)+1])))

//@ func PlaintextRecord13.Unmarshal
//@ ensures short: len(data) < 13 ==> REJ(result)
//@ ensures bad-epoch: len(data) >= 13 && (D(3) != 0 || D(4) != 0) ==> REJ(result)
//@ ensures truncated: len(data) >= 13 && len(data) - 13 < DLEN16(11) ==> REJ(result)
//@ ensures trailing: len(data) >= 13 && len(data) - 13 > DLEN16(11) ==> REJ(result)
//@ ensures too-long: len(data) >= 13 && DLEN16(11) > 16384 ==> REJ(result)
//@ ensures bad-type: len(data) >= 13 && D(0) != 21 && D(0) != 22 && D(0) != 26 ==> REJ(result)
//@ ensures declared-len: ACC(result) ==> len(data) == 13 + DLEN16(11)
// [not checkable, engine havoc] ensures header-nonhs: ACC(result) && D(0) != 22 ==> r.Header.ContentType == protocol.ContentType(D(0)) && r.Header.Version.Major == D(1) && r.Header.Version.Minor == D(2)
// [not checkable, engine havoc]    && r.Header.Epoch == 0 && int(r.Header.ContentLen) == DLEN16(11) && r.Header.ConnectionID == nil
// [not checkable, engine havoc] ensures header-hs: ACC(result) && D(0) == 22 ==> r.Header.ContentType == protocol.ContentType(D(0)) && r.Header.Version.Major == D(1) && r.Header.Version.Minor == D(2)
// [not checkable, engine havoc]    && r.Header.Epoch == 0 && int(r.Header.ContentLen) == DLEN16(11) && r.Header.ConnectionID == nil
// [not checkable, engine havoc] ensures header-seq-nonhs: ACC(result) && D(0) != 22 ==> r.Header.SequenceNumber == uint64(D(5))<<40 | uint64(D(6))<<32 | uint64(D(7))<<24 | uint64(D(8))<<16 | uint64(D(9))<<8 | uint64(D(10))
// [not checkable, engine havoc] ensures alert-content: ACC(result) && D(0) == 21 ==> typeIs(r.Content, "*github.com/pion/dtls/v3/pkg/protocol/alert.Alert") && len(data) == 15
// [not checkable, engine havoc]    && r.Content.(*alert.Alert).Level == alert.Level(D(13)) && r.Content.(*alert.Alert).Description == alert.Description(D(14))
//@ end

// RFC 6347 4.1: DTLSPlaintext/DTLSCiphertext = 13 header bytes and `length` bytes of fragment.
// declared lengths honoured: a record whose buffer is shorter than 13 + length is truncated and must be
// rejected; bytes after 13 + length must not end up in the content.

// Engine limit: r.Content.Unmarshal is an interface call through a struct field with more than 4
// implementations; the engine havocs everything (including r and data), so clauses about the state after it
// cannot be checked. They are kept as plain comments. `truncated` and `appdata-declared-len` are genuine
// findings (replayed by hand: 13-byte record with declared length 5 is accepted; declared length 1 with 3
// fragment bytes yields a 3-byte ApplicationData).
//@ func RecordLayer.Unmarshal
//@ ensures short: len(data) < 13 ==> result != nil
//@ ensures truncated: len(data) >= 13 && len(data) - 13 < DLEN16(11) ==> result != nil
//@ ensures bad-type: len(data) >= 13 && D(0) != 20 && D(0) != 21 && D(0) != 22 && D(0) != 23 && D(0) != 26 && D(0) != 27 ==> result != nil
// [not checkable, engine havoc] ensures header-nonhs: result == nil && D(0) != 22 ==> r.Header.ContentType == protocol.ContentType(D(0)) && r.Header.Version.Major == D(1) && r.Header.Version.Minor == D(2)
// [not checkable, engine havoc]    && r.Header.Epoch == uint16(D(3))<<8 | uint16(D(4)) && int(r.Header.ContentLen) == DLEN16(11)
// [not checkable, engine havoc] ensures header-hs: result == nil && D(0) == 22 ==> r.Header.ContentType == protocol.ContentType(D(0)) && r.Header.Version.Major == D(1) && r.Header.Version.Minor == D(2)
// [not checkable, engine havoc]    && r.Header.Epoch == uint16(D(3))<<8 | uint16(D(4)) && int(r.Header.ContentLen) == DLEN16(11)
// [not checkable, engine havoc] ensures appdata-type: result == nil && D(0) == 23 ==> typeIs(r.Content, "*github.com/pion/dtls/v3/pkg/protocol.ApplicationData")
//@ ensures appdata-declared-len: result == nil && D(0) == 23 ==> len(r.Content.(*protocol.ApplicationData).Data) == DLEN16(11)
// [not checkable, engine havoc] ensures appdata-content: result == nil && D(0) == 23 && len(data) - 13 >= DLEN16(11) ==> len(r.Content.(*protocol.ApplicationData).Data) >= DLEN16(11)
// [not checkable, engine havoc]    && forall(0, DLEN16(11), func(i int) bool { return r.Content.(*protocol.ApplicationData).Data[i] == old(data[13+i]) })
// [not checkable, engine havoc] ensures alert-content: result == nil && D(0) == 21 ==> typeIs(r.Content, "*github.com/pion/dtls/v3/pkg/protocol/alert.Alert")
// [not checkable, engine havoc]    && r.Content.(*alert.Alert).Level == alert.Level(D(13)) && r.Content.(*alert.Alert).Description == alert.Description(D(14))
//@ end

// RFC 9147 4: a datagram is split into records by each record's own unified header
//   0 0 1 C S L E E | [connection id (negotiated length, only when C)] | seq (S ? 16 : 8 bits) | [length (16 bits, only when L)]
// The header size of a record is determined by the flag bits of that very record: the connection ID
// takes part in it only when the C bit is set. A record with the L bit spans header + declared length
// and the next record starts right behind it; a record without L extends to the end of the datagram
// and is the last one. Truncated records are rejected.

//@ define D13_B0() old(buf[offset])
//@ define D13_SL() (1 + int((D13_B0()>>3)&1) + 2*int((D13_B0()>>2)&1))
//@ define D13_C() (D13_B0()&0x10 != 0)
//@ define D13_L() (D13_B0()&0x04 != 0)
//@ define D13_BE16(o) (int(old(buf[o]))<<8 | int(old(buf[(o)+1])))

// ENGINE LIMIT (reported): unmarshalCiphertextDatagramHeader ends in `return header, header.Unmarshal(data)`. The Go
// specification leaves the order of the read of `header` and the call unspecified; go/ssa (what vc analyses) reads
// the variable first, so in the analysed program the caller always sees the header as it was before decoding
// (LengthBit false, Length 0), while the gc compiler reads it after the call (what the repository's tests rely on).
// Consequently the with-length branch of unpackCiphertextDatagramRecord is dead in the analysed program and clauses
// that distinguish it (declared length honoured, not-last) cannot be stated without being refuted spuriously. The
// clauses below hold under either order; the header size is fixed by the record's own flag byte in both.
//@ func unpackCiphertextDatagramRecord
//@ requires in-datagram: 0 <= offset && offset < len(buf)
//@ ensures unexpected-cid-rejected: cidLength == 0 && D13_C() ==> result4 != nil
//@ ensures required-cid-missing-rejected: cidRequired && cidLength > 0 && !D13_C() ==> result4 != nil
//@ ensures bad-fixed-bits-rejected: D13_B0()&0xE0 != 0x20 ==> result4 != nil
//@ ensures error-no-record: result4 != nil ==> result0 == nil && result2 == 0 && !result3
//@ ensures ok-record-starts-here: result4 == nil ==> sameArray(result0, buf) && offsetOf(result0) == offsetOf(buf) + offset && len(result0) >= 1
//@ ensures ok-next-is-end-of-record: result4 == nil ==> result2 == offset + len(result0) && result2 <= len(buf)
//@ ensures ok-ciphertext-length-cid: result4 == nil && D13_C() ==> CR_LEN_OK(len(result0) - 1 - cidLength - D13_SL())
//@ ensures ok-ciphertext-length-nocid: result4 == nil && !D13_C() ==> CR_LEN_OK(len(result0) - 1 - D13_SL())
//@ ensures ok-cid: result4 == nil ==> (D13_C() ==> len(result1) == cidLength) && (!D13_C() ==> len(result1) == 0)
//@ end

// DTLSPlaintext inside a DTLS 1.3 datagram: 13-byte header, declared length at bytes 11..12; the record spans
// exactly header + declared length, the next record starts right behind it; a truncated record is rejected.
//@ func unpackPlaintextDatagram13Record
//@ requires in-datagram: 0 <= offset && offset < len(buf)
//@ ensures truncated-header-rejected: len(buf) - offset <= 13 ==> REJ(result2)
//@ ensures truncated-body-rejected: len(buf) - offset > 13 && offset + 13 + REC_LEN16(buf, offset+11) > len(buf) ==> REJ(result2)
//@ ensures error-no-record: REJ(result2) ==> result0 == nil && result1 == 0
//@ ensures ok-declared-length: ACC(result2) ==> len(result0) == 13 + REC_LEN16(buf, offset+11)
//@ ensures ok-record-starts-here: ACC(result2) ==> sameArray(result0, buf) && offsetOf(result0) == offsetOf(buf) + offset
//@ ensures ok-next-is-end-of-record: ACC(result2) ==> result1 == offset + len(result0) && result1 <= len(buf)
//@ end
