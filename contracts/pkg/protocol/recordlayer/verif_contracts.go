//go:build verif

// Contracts for package recordlayer (comment-only; read by /verif/vc).
package recordlayer

// RFC 6347 4.1 / RFC 9146 4: type(1) version(2) epoch(2) sequence(6) [cid] length(2).

//@ func Header.Marshal
//@ ensures overflow: old(h.SequenceNumber) > 0x0000FFFFFFFFFFFF ==> result1 != nil
//@ ensures ok: old(h.SequenceNumber) <= 0x0000FFFFFFFFFFFF ==> result1 == nil
//@ ensures size: result1 == nil ==> len(result0) == 13 + len(h.ConnectionID)
//@ ensures layout-type: result1 == nil ==> result0[0] == byte(h.ContentType)
//@ ensures layout-version: result1 == nil ==> result0[1] == h.Version.Major && result0[2] == h.Version.Minor
//@ ensures layout-epoch: result1 == nil ==> result0[3] == byte(h.Epoch >> 8) && result0[4] == byte(h.Epoch)
//@ ensures layout-seq: result1 == nil ==> result0[5] == byte(h.SequenceNumber >> 40) && result0[6] == byte(h.SequenceNumber >> 32)
//@    && result0[7] == byte(h.SequenceNumber >> 24) && result0[8] == byte(h.SequenceNumber >> 16)
//@    && result0[9] == byte(h.SequenceNumber >> 8) && result0[10] == byte(h.SequenceNumber)
//@ ensures layout-cid: result1 == nil ==> forall(0, len(h.ConnectionID), func(i int) bool { return result0[11+i] == h.ConnectionID[i] })
//@ ensures layout-len: result1 == nil ==> result0[len(result0)-2] == byte(h.ContentLen >> 8) && result0[len(result0)-1] == byte(h.ContentLen)
//@ ensures frame: h.SequenceNumber == old(h.SequenceNumber) && h.Epoch == old(h.Epoch) && h.ContentLen == old(h.ContentLen)
//@ end

//@ func Header.Unmarshal
//@ ensures short: len(data) < 13 ==> result != nil
//@ ensures type: len(data) >= 13 ==> h.ContentType == protocol.ContentType(data[0])
//@ ensures version: result == nil ==> h.Version.Major == data[1] && h.Version.Minor == data[2]
//@ ensures epoch: result == nil ==> h.Epoch == uint16(data[3])<<8 | uint16(data[4])
//@ ensures seq: result == nil ==> h.SequenceNumber == uint64(data[5])<<40 | uint64(data[6])<<32 | uint64(data[7])<<24 | uint64(data[8])<<16 | uint64(data[9])<<8 | uint64(data[10])
//@ ensures seq48: result == nil ==> h.SequenceNumber <= 0x0000FFFFFFFFFFFF
//@ ensures cid: result == nil && data[0] == 25 ==> len(h.ConnectionID) == len(old(h.ConnectionID)) && len(data) >= 13 + len(h.ConnectionID)
//@    && forall(0, len(h.ConnectionID), func(i int) bool { return h.ConnectionID[i] == data[11+i] })
//@ ensures nocid: result == nil && data[0] != 25 ==> h.ConnectionID == nil
//@ ensures len: result == nil ==> h.ContentLen == uint16(data[11+len(h.ConnectionID)])<<8 | uint16(data[12+len(h.ConnectionID)])
//@ ensures versions: result == nil ==> h.Version.Major == 254 && (h.Version.Minor == 255 || h.Version.Minor == 253)
//@ end

// Datagram splitting helpers: offsets are positions inside buf; the configured CID length is a length.

//@ func ContentAwareUnpackDatagram
//@ requires cid-len: cidLength >= 0 && cidLength <= 255
//@ end

//@ func UnpackDatagram13
//@ requires cid-len: cidLength >= 0 && cidLength <= 255
//@ end

//@ func unpackPlaintextDatagram13Record
//@ inline
//@ requires offset-in-buf: 0 <= offset && offset <= len(buf)
//@ end

//@ func unpackCiphertextDatagramRecord
//@ inline
//@ requires offset-in-buf: 0 <= offset && offset < len(buf)
//@ requires cid-len: cidLength >= 0 && cidLength <= 255
//@ end

//@ func unmarshalCiphertextDatagramHeader
//@ inline
//@ requires nonempty: len(data) >= 1
//@ requires cid-len: cidLength >= 0 && cidLength <= 255
//@ end

//@ func unpackCiphertextDatagram13RecordWithoutLength
//@ inline
//@ requires offset-in-buf: 0 <= offset && offset <= len(buf)
//@ end

//@ func unpackCiphertextDatagram13RecordWithLength
//@ inline
//@ requires offset-in-buf: 0 <= offset && offset <= len(buf)
//@ requires header-size: 0 <= headerSize && headerSize <= 512
//@ end

//@ func isMismatchedCiphertextCID
//@ inline
//@ requires out-param: firstCID != nil
//@ end

//@ func unmarshalPlaintextRecord13Header
//@ inline
//@ requires out-param: header != nil
//@ end
