//go:build verif

// C08 (robustness of the receive path): contracts for package recordlayer (comment-only; read by /verif/vc).
package recordlayer

// A record that parsed carries a content object: the receive path (Conn.handleIncomingPacket -> handleRecordContent)
// switches on its dynamic type and dereferences it.
//@ func RecordLayer.Unmarshal
//@ ensures c08-parsed-record-has-content: result == nil ==> nonNilPayload(r.Content)
//@ end
