//go:build verif

// Contracts for package handshake (comment-only; read by /verif/vc).
package handshake

// Shared extension-block decoders are verified once on their own for arbitrary bytes and
// summarised at call sites by their inferred write set (no precondition, no postcondition).

//@ func decodeExtensionList
//@ noinline
//@ end

//@ func decodeRawExtensions
//@ noinline
//@ end

//@ func validateExtensionDependencies
//@ noinline
//@ end

//@ func validateClientHelloDependencies
//@ noinline
//@ end

//@ func validateRawExtensionBlock
//@ noinline
//@ end

//@ func parseCertificate13Entry
//@ noinline
//@ end

//@ func serverHelloExtensionContext
//@ noinline
//@ end

// The extension registry maps (type, context) to constructors `func() extension.Value { return &T{} }`:
// calling one only allocates.
//@ assume-pure handshake.extensionRegistry[]#0[]#0
