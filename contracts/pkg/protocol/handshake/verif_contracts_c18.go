//go:build verif

// C18 contracts for package handshake (comment-only; read by /verif/vc).
package handshake

// RFC 6347 4.2.2: msg_type(1) length(3) message_seq(2) fragment_offset(3) fragment_length(3).

//@ func Header.Marshal
//@ ensures ok: old(h.Length) <= 0xFFFFFF && old(h.FragmentOffset) <= 0xFFFFFF && old(h.FragmentLength) <= 0xFFFFFF ==> result1 == nil
//@ ensures size: result1 == nil ==> len(result0) == 12
//@ ensures layout-type: result1 == nil ==> result0[0] == byte(h.Type)
//@ ensures layout-length: result1 == nil ==> result0[1] == byte(h.Length >> 16) && result0[2] == byte(h.Length >> 8) && result0[3] == byte(h.Length)
//@ ensures layout-seq: result1 == nil ==> result0[4] == byte(h.MessageSequence >> 8) && result0[5] == byte(h.MessageSequence)
//@ ensures layout-fragoff: result1 == nil ==> result0[6] == byte(h.FragmentOffset >> 16) && result0[7] == byte(h.FragmentOffset >> 8) && result0[8] == byte(h.FragmentOffset)
//@ ensures layout-fraglen: result1 == nil ==> result0[9] == byte(h.FragmentLength >> 16) && result0[10] == byte(h.FragmentLength >> 8) && result0[11] == byte(h.FragmentLength)
//@ ensures frame: h.Type == old(h.Type) && h.Length == old(h.Length) && h.MessageSequence == old(h.MessageSequence)
//@    && h.FragmentOffset == old(h.FragmentOffset) && h.FragmentLength == old(h.FragmentLength)
//@ end

//@ func Header.Unmarshal
//@ ensures short: len(data) < 12 ==> result != nil
//@ ensures ok: len(data) >= 12 ==> result == nil
//@ ensures type: result == nil ==> h.Type == Type(data[0])
//@ ensures length: result == nil ==> h.Length == uint32(data[1])<<16 | uint32(data[2])<<8 | uint32(data[3])
//@ ensures seq: result == nil ==> h.MessageSequence == uint16(data[4])<<8 | uint16(data[5])
//@ ensures fragoff: result == nil ==> h.FragmentOffset == uint32(data[6])<<16 | uint32(data[7])<<8 | uint32(data[8])
//@ ensures fraglen: result == nil ==> h.FragmentLength == uint32(data[9])<<16 | uint32(data[10])<<8 | uint32(data[11])
//@ ensures ranges: result == nil ==> h.Length <= 0xFFFFFF && h.FragmentOffset <= 0xFFFFFF && h.FragmentLength <= 0xFFFFFF
//@ ensures short-frame: result != nil ==> h.Type == old(h.Type) && h.Length == old(h.Length) && h.MessageSequence == old(h.MessageSequence)
//@    && h.FragmentOffset == old(h.FragmentOffset) && h.FragmentLength == old(h.FragmentLength)
//@ ensures input-unchanged: forall(0, len(data), func(i int) bool { return data[i] == old(data[i]) })
//@ end

// RFC 5246 7.4.9: struct { opaque verify_data[verify_data_length]; } Finished — no length prefix,
// the body is the verify data.

//@ func MessageFinished.Marshal
//@ inline
//@ ensures ok: result1 == nil
//@ ensures layout: bytesEq(result0, old(m.VerifyData))
//@ ensures fresh: len(result0) > 0 ==> !sameArray(result0, m.VerifyData)
//@ ensures frame: bytesEq(m.VerifyData, old(m.VerifyData)) && len(m.VerifyData) == old(len(m.VerifyData))
//@ end

//@ func MessageFinished.Unmarshal
//@ inline
//@ ensures ok: result == nil
//@ ensures fields: bytesEq(m.VerifyData, data)
//@ ensures declared-len: len(m.VerifyData) == len(data)
//@ ensures fresh: len(data) > 0 ==> !sameArray(m.VerifyData, data)
//@ ensures input-unchanged: forall(0, len(data), func(i int) bool { return data[i] == old(data[i]) })
//@ end

// RFC 5246 7.4.5: struct { } ServerHelloDone.

//@ func MessageServerHelloDone.Marshal
//@ inline
//@ ensures ok: result1 == nil
//@ ensures layout: len(result0) == 0
//@ end

//@ func MessageServerHelloDone.Unmarshal
//@ inline
//@ ensures ok: result == nil
//@ end

// RFC 8446 4.6.3: enum { update_not_requested(0), update_requested(1), (255) } request_update.

//@ func MessageKeyUpdate.Marshal
//@ inline
//@ ensures ok: old(m.RequestUpdate) <= 1 ==> result1 == nil
//@ ensures invalid: old(m.RequestUpdate) > 1 ==> result1 != nil
//@ ensures size: result1 == nil ==> len(result0) == 1
//@ ensures layout: result1 == nil ==> result0[0] == byte(m.RequestUpdate)
//@ ensures frame: m.RequestUpdate == old(m.RequestUpdate)
//@ end

//@ func MessageKeyUpdate.Unmarshal
//@ inline
//@ ensures short: len(data) < 1 ==> result != nil
//@ ensures long: len(data) > 1 ==> result != nil
//@ ensures invalid: len(data) == 1 && data[0] > 1 ==> result != nil
//@ ensures ok: len(data) == 1 && data[0] <= 1 ==> result == nil
//@ ensures field: result == nil ==> m.RequestUpdate == KeyUpdateRequest(data[0])
//@ ensures err-frame: result != nil ==> m.RequestUpdate == old(m.RequestUpdate)
//@ end

// RFC 6347 4.2.1: struct { ProtocolVersion server_version; opaque cookie<0..2^8-1>; } HelloVerifyRequest.

//@ func MessageHelloVerifyRequest.Marshal
//@ inline
//@ ensures too-long: len(old(m.Cookie)) > 255 ==> result1 != nil
//@ ensures ok: len(old(m.Cookie)) <= 255 ==> result1 == nil
//@ ensures size: result1 == nil ==> len(result0) == 3 + len(m.Cookie)
//@ ensures layout-version: result1 == nil ==> result0[0] == m.Version.Major && result0[1] == m.Version.Minor
//@ ensures layout-cookie-len: result1 == nil ==> int(result0[2]) == len(m.Cookie)
//@ ensures layout-cookie: result1 == nil ==> forall(0, len(m.Cookie), func(i int) bool { return result0[3+i] == m.Cookie[i] })
//@ ensures frame: m.Version.Major == old(m.Version.Major) && m.Version.Minor == old(m.Version.Minor)
//@    && len(m.Cookie) == old(len(m.Cookie)) && forall(0, len(m.Cookie), func(i int) bool { return m.Cookie[i] == old(m.Cookie[i]) })
//@ end

//@ func MessageHelloVerifyRequest.Unmarshal
//@ inline
//@ ensures short: len(data) < 3 ==> result != nil
//@ ensures truncated: len(data) >= 3 && len(data) < 3 + int(data[2]) ==> result != nil
//@ ensures ok: len(data) >= 3 && len(data) >= 3 + int(data[2]) ==> result == nil
//@ ensures version: result == nil ==> m.Version.Major == data[0] && m.Version.Minor == data[1]
//@ ensures declared-len: result == nil ==> len(m.Cookie) == int(data[2])
//@ ensures cookie: result == nil ==> forall(0, len(m.Cookie), func(i int) bool { return m.Cookie[i] == data[3+i] })
//@ ensures fresh: result == nil && len(m.Cookie) > 0 ==> !sameArray(m.Cookie, data)
//@ ensures input-unchanged: forall(0, len(data), func(i int) bool { return data[i] == old(data[i]) })
//@ end

// RFC 5246 7.4.1.2: struct { uint32 gmt_unix_time; opaque random_bytes[28]; } Random.

// time.Time is opaque to the engine: the time field is specified through the call events of
// Time.Unix (encode) and time.Unix (decode).

//@ func Random.MarshalFixed
//@ inline
//@ watch Time.Unix
//@ ensures time-read: ncalls("Time.Unix") == 1
//@ ensures layout-time: result[0] == byte(uint32(retInt("Time.Unix", 0)) >> 24) && result[1] == byte(uint32(retInt("Time.Unix", 0)) >> 16)
//@    && result[2] == byte(uint32(retInt("Time.Unix", 0)) >> 8) && result[3] == byte(uint32(retInt("Time.Unix", 0)))
//@ ensures layout-bytes: forall(0, 28, func(i int) bool { return result[4+i] == r.RandomBytes[i] })
//@ ensures frame: forall(0, 28, func(i int) bool { return r.RandomBytes[i] == old(r.RandomBytes[i]) })
//@ end

//@ func Random.UnmarshalFixed
//@ inline
//@ watch time.Unix
//@ ensures time-built: ncalls("time.Unix") == 1
//@ ensures time: argInt("time.Unix", 0) == int(uint32(data[0])<<24 | uint32(data[1])<<16 | uint32(data[2])<<8 | uint32(data[3])) && argInt("time.Unix", 1) == 0
//@ ensures time-stored: r.GMTUnixTime == retAs("time.Unix", 0, r.GMTUnixTime)
//@ ensures bytes: forall(0, 28, func(i int) bool { return r.RandomBytes[i] == data[4+i] })
//@ end

// ClientKeyExchange. RFC 4279 2: opaque psk_identity<0..2^16-1>; RFC 8422 5.7:
// struct { opaque point<1..2^8-1>; } ECPoint; RFC 5489 2 (ECDHE_PSK): psk_identity then the ECPoint.
// KeyExchangeAlgorithm is a bit set: Psk = 2, Ecdhe = 4.

//@ define CKE_HINTLEN(d) (int(d[0])<<8 | int(d[1]))
//@ define CKE_PSK(m) (m.KeyExchangeAlgorithm & 2 != 0)
//@ define CKE_ECDHE(m) (m.KeyExchangeAlgorithm & 4 != 0)

//@ func MessageClientKeyExchange.Marshal
//@ ensures empty: old(m.IdentityHint) == nil && old(m.PublicKey) == nil ==> err != nil
//@ ensures key-too-long: old(m.PublicKey) != nil && len(old(m.PublicKey)) > 255 ==> err != nil
//@ ensures hint-too-long: old(m.IdentityHint) != nil && len(old(m.IdentityHint)) > 65535 ==> err != nil
//@ ensures ok: (old(m.IdentityHint) != nil || old(m.PublicKey) != nil) && len(old(m.PublicKey)) <= 255 && len(old(m.IdentityHint)) <= 65535 ==> err == nil
//@ ensures size-psk: err == nil && m.IdentityHint != nil && m.PublicKey == nil ==> len(out) == 2 + len(m.IdentityHint)
//@ ensures size-ecdhe: err == nil && m.IdentityHint == nil && m.PublicKey != nil ==> len(out) == 1 + len(m.PublicKey)
//@ ensures size-ecdhe-psk: err == nil && m.IdentityHint != nil && m.PublicKey != nil ==> len(out) == 2 + len(m.IdentityHint) + 1 + len(m.PublicKey)
//@ ensures layout-hint-len: err == nil && m.IdentityHint != nil && len(m.IdentityHint) <= 65535 ==> CKE_HINTLEN(out) == len(m.IdentityHint)
//@ ensures layout-hint: err == nil && m.IdentityHint != nil ==> forall(0, len(m.IdentityHint), func(i int) bool { return out[2+i] == m.IdentityHint[i] })
//@ ensures layout-key-len-ecdhe: err == nil && m.IdentityHint == nil && m.PublicKey != nil ==> int(out[0]) == len(m.PublicKey)
//@ ensures layout-key-ecdhe: err == nil && m.IdentityHint == nil && m.PublicKey != nil ==> forall(0, len(m.PublicKey), func(i int) bool { return out[1+i] == m.PublicKey[i] })
//@ ensures layout-key-len-ecdhe-psk: err == nil && m.IdentityHint != nil && m.PublicKey != nil ==> int(out[2+len(m.IdentityHint)]) == len(m.PublicKey)
//@ ensures layout-key-ecdhe-psk: err == nil && m.IdentityHint != nil && m.PublicKey != nil ==> forall(0, len(m.PublicKey), func(i int) bool { return out[3+len(m.IdentityHint)+i] == m.PublicKey[i] })
//@ ensures frame: len(m.IdentityHint) == old(len(m.IdentityHint)) && len(m.PublicKey) == old(len(m.PublicKey)) && m.KeyExchangeAlgorithm == old(m.KeyExchangeAlgorithm)
//@ ensures frame-hint: forall(0, len(m.IdentityHint), func(i int) bool { return m.IdentityHint[i] == old(m.IdentityHint[i]) })
//@ ensures frame-key: forall(0, len(m.PublicKey), func(i int) bool { return m.PublicKey[i] == old(m.PublicKey[i]) })
//@ end

//@ func MessageClientKeyExchange.Unmarshal
//@ ensures short: len(data) < 2 ==> result != nil
//@ ensures unset: old(m.KeyExchangeAlgorithm) == 0 ==> result != nil
//@ ensures psk-truncated: len(data) >= 2 && CKE_PSK(m) && len(data) - 2 < CKE_HINTLEN(data) ==> result != nil
//@ ensures psk-declared-len: result == nil && CKE_PSK(m) ==> len(m.IdentityHint) == CKE_HINTLEN(data)
//@ ensures psk-hint: result == nil && CKE_PSK(m) ==> forall(0, len(m.IdentityHint), func(i int) bool { return m.IdentityHint[i] == data[2+i] })
//@ ensures psk-only-ok: len(data) >= 2 && m.KeyExchangeAlgorithm == 2 && len(data) - 2 >= CKE_HINTLEN(data) ==> result == nil
//@ ensures ecdhe-truncated: len(data) >= 2 && m.KeyExchangeAlgorithm == 4 && len(data) - 1 < int(data[0]) ==> result != nil
//@ ensures ecdhe-ok: len(data) >= 2 && m.KeyExchangeAlgorithm == 4 && len(data) - 1 >= int(data[0]) ==> result == nil
//@ ensures ecdhe-declared-len: result == nil && m.KeyExchangeAlgorithm == 4 ==> len(m.PublicKey) == int(data[0])
//@ ensures ecdhe-key: result == nil && m.KeyExchangeAlgorithm == 4 ==> len(m.PublicKey) >= int(data[0])
//@    && forall(0, int(data[0]), func(i int) bool { return m.PublicKey[i] == data[1+i] })
//@ ensures ecdhe-psk-missing: len(data) >= 2 && m.KeyExchangeAlgorithm == 6 && len(data) - 2 <= CKE_HINTLEN(data) ==> result != nil
//@ ensures ecdhe-psk-truncated: len(data) >= 2 && m.KeyExchangeAlgorithm == 6 && len(data) - 2 > CKE_HINTLEN(data)
//@    && len(data) - 3 - CKE_HINTLEN(data) < int(data[2+CKE_HINTLEN(data)]) ==> result != nil
//@ ensures ecdhe-psk-ok: len(data) >= 2 && m.KeyExchangeAlgorithm == 6 && len(data) - 2 > CKE_HINTLEN(data)
//@    && len(data) - 3 - CKE_HINTLEN(data) >= int(data[2+CKE_HINTLEN(data)]) ==> result == nil
//@ ensures ecdhe-psk-declared-len: result == nil && m.KeyExchangeAlgorithm == 6 ==> len(m.PublicKey) == int(data[2+CKE_HINTLEN(data)])
//@ ensures ecdhe-psk-key: result == nil && m.KeyExchangeAlgorithm == 6 ==> len(m.PublicKey) >= int(data[2+CKE_HINTLEN(data)])
//@    && forall(0, int(data[2+CKE_HINTLEN(data)]), func(i int) bool { return m.PublicKey[i] == data[3+CKE_HINTLEN(data)+i] })
//@ ensures frame-alg: m.KeyExchangeAlgorithm == old(m.KeyExchangeAlgorithm)
//@ ensures frame-no-psk: !CKE_PSK(m) ==> len(m.IdentityHint) == old(len(m.IdentityHint)) && (len(m.IdentityHint) > 0 ==> sameArray(m.IdentityHint, old(m.IdentityHint)))
//@ ensures frame-no-ecdhe: !CKE_ECDHE(m) ==> len(m.PublicKey) == old(len(m.PublicKey)) && (len(m.PublicKey) > 0 ==> sameArray(m.PublicKey, old(m.PublicKey)))
//@ ensures input-unchanged: forall(0, len(data), func(i int) bool { return data[i] == old(data[i]) })
//@ end

// ServerKeyExchange. RFC 4279 2: opaque psk_identity_hint<0..2^16-1>; RFC 8422 5.4:
// ECCurveType curve_type(1) = named_curve(3); NamedCurve namedcurve(2); opaque point<1..2^8-1>;
// then (unless anonymous) SignatureAndHashAlgorithm / SignatureScheme (2) and opaque signature<0..2^16-1>.
// RFC 5489 2 (ECDHE_PSK): the hint comes first, then the EC parameters.
// "EC part present" on the encoding side is EllipticCurveType != 0 && len(PublicKey) != 0 (shape from the code).

//@ define SKE_EC(m) (m.EllipticCurveType != 0 && len(m.PublicKey) != 0)
//@ define SKE_ANON(m) (m.SignatureAlgorithm == 0 && m.HashAlgorithm == 0 && len(m.Signature) == 0)
//@ define SKE_PSS(a) (a == 0x0804 || a == 0x0805 || a == 0x0806 || a == 0x0809 || a == 0x080a || a == 0x080b)
//@ define BE16(d, o) (int(d[o])<<8 | int(d[(o)+1]))
//@ define SKE_L_PARAMS(out, off, m) (out[off] == byte(m.EllipticCurveType) && BE16(out, (off)+1) == int(m.NamedCurve) && int(out[(off)+3]) == len(m.PublicKey))
//@ define SKE_L_KEY(out, off, m) forall(0, len(m.PublicKey), func(i int) bool { return out[(off)+4+i] == m.PublicKey[i] })
//@ define SKE_L_SCHEME(out, o, m) ((!SKE_PSS(m.SignatureAlgorithm) ==> out[o] == byte(m.HashAlgorithm) && out[(o)+1] == byte(m.SignatureAlgorithm)) && (SKE_PSS(m.SignatureAlgorithm) ==> BE16(out, o) == int(m.SignatureAlgorithm)))
//@ define SKE_L_SIG(out, o, m) (BE16(out, o) == len(m.Signature) && forall(0, len(m.Signature), func(i int) bool { return out[(o)+2+i] == m.Signature[i] }))

//@ func MessageServerKeyExchange.Marshal
//@ ensures hint-too-long: old(m.IdentityHint) != nil && len(old(m.IdentityHint)) > 65535 ==> result1 != nil
//@ ensures key-too-long: SKE_EC(m) && len(old(m.PublicKey)) > 255 ==> result1 != nil
//@ ensures sig-too-long: SKE_EC(m) && len(old(m.Signature)) > 65535 ==> result1 != nil
//@ ensures ok-no-ec: !SKE_EC(m) && len(m.IdentityHint) <= 65535 ==> result1 == nil
//@ ensures ok-anon: SKE_EC(m) && SKE_ANON(m) && len(m.IdentityHint) <= 65535 && len(m.PublicKey) <= 255 ==> result1 == nil
//@ ensures ok-signed: SKE_EC(m) && m.HashAlgorithm != 0 && m.SignatureAlgorithm != 0 && len(m.Signature) > 0 && len(m.Signature) <= 65535
//@    && len(m.IdentityHint) <= 65535 && len(m.PublicKey) <= 255 ==> result1 == nil
//@ ensures size-no-ec: result1 == nil && !SKE_EC(m) && m.IdentityHint == nil ==> len(result0) == 0
//@ ensures size-psk: result1 == nil && !SKE_EC(m) && m.IdentityHint != nil ==> len(result0) == 2 + len(m.IdentityHint)
//@ ensures layout-hint-len: result1 == nil && m.IdentityHint != nil && len(m.IdentityHint) <= 65535 ==> BE16(result0, 0) == len(m.IdentityHint)
//@ ensures layout-hint: result1 == nil && m.IdentityHint != nil ==> forall(0, len(m.IdentityHint), func(i int) bool { return result0[2+i] == m.IdentityHint[i] })
//@ ensures size-anon: result1 == nil && SKE_EC(m) && SKE_ANON(m) && m.IdentityHint == nil ==> len(result0) == 4 + len(m.PublicKey)
//@ ensures size-anon-psk: result1 == nil && SKE_EC(m) && SKE_ANON(m) && m.IdentityHint != nil ==> len(result0) == 2 + len(m.IdentityHint) + 4 + len(m.PublicKey)
//@ ensures size-signed: result1 == nil && SKE_EC(m) && !SKE_ANON(m) && m.IdentityHint == nil ==> len(result0) == 4 + len(m.PublicKey) + 4 + len(m.Signature)
//@ ensures size-signed-psk: result1 == nil && SKE_EC(m) && !SKE_ANON(m) && m.IdentityHint != nil ==> len(result0) == 2 + len(m.IdentityHint) + 4 + len(m.PublicKey) + 4 + len(m.Signature)
//@ ensures layout-params: result1 == nil && SKE_EC(m) && m.IdentityHint == nil && len(m.PublicKey) <= 255 ==> SKE_L_PARAMS(result0, 0, m)
//@ ensures layout-params-psk: result1 == nil && SKE_EC(m) && m.IdentityHint != nil && len(m.PublicKey) <= 255 ==> SKE_L_PARAMS(result0, 2+len(m.IdentityHint), m)
//@ ensures layout-key: result1 == nil && SKE_EC(m) && m.IdentityHint == nil ==> SKE_L_KEY(result0, 0, m)
//@ ensures layout-key-psk: result1 == nil && SKE_EC(m) && m.IdentityHint != nil ==> SKE_L_KEY(result0, 2+len(m.IdentityHint), m)
//@ ensures layout-scheme: result1 == nil && SKE_EC(m) && !SKE_ANON(m) && m.IdentityHint == nil ==> SKE_L_SCHEME(result0, 4+len(m.PublicKey), m)
//@ ensures layout-scheme-psk: result1 == nil && SKE_EC(m) && !SKE_ANON(m) && m.IdentityHint != nil ==> SKE_L_SCHEME(result0, 6+len(m.IdentityHint)+len(m.PublicKey), m)
//@ ensures layout-sig: result1 == nil && SKE_EC(m) && !SKE_ANON(m) && m.IdentityHint == nil && len(m.Signature) <= 65535 ==> SKE_L_SIG(result0, 6+len(m.PublicKey), m)
//@ ensures layout-sig-psk: result1 == nil && SKE_EC(m) && !SKE_ANON(m) && m.IdentityHint != nil && len(m.Signature) <= 65535 ==> SKE_L_SIG(result0, 8+len(m.IdentityHint)+len(m.PublicKey), m)
//@ ensures frame: len(m.IdentityHint) == old(len(m.IdentityHint)) && len(m.PublicKey) == old(len(m.PublicKey)) && len(m.Signature) == old(len(m.Signature))
//@    && m.EllipticCurveType == old(m.EllipticCurveType) && m.NamedCurve == old(m.NamedCurve) && m.HashAlgorithm == old(m.HashAlgorithm)
//@    && m.SignatureAlgorithm == old(m.SignatureAlgorithm) && m.KeyExchangeAlgorithm == old(m.KeyExchangeAlgorithm)
//@ end

// Decoding. off is where the EC parameters start: 0 for ECDHE (4), 2+hint length for ECDHE_PSK (6).
//@ define SKE_HINT_OK(d) (len(d) >= 2 && len(d) - 2 >= BE16(d, 0))
//@ define SKE_PKLEN(d, off) int(d[(off)+3])
//@ define SKE_SIGOFF(d, off) ((off) + 4 + SKE_PKLEN(d, off))
//@ define SKE_U_TRUNC(d, off) (len(d) < (off)+4 || len(d) < (off)+4+SKE_PKLEN(d, off) || (len(d) > SKE_SIGOFF(d, off) && (len(d) < SKE_SIGOFF(d, off)+4 || len(d) < SKE_SIGOFF(d, off)+4+BE16(d, SKE_SIGOFF(d, off)+2))))
//@ define SKE_U_PARAMS(m, d, off) (m.EllipticCurveType == elliptic.CurveType(d[off]) && d[off] == 3 && int(m.NamedCurve) == BE16(d, (off)+1))
//@ define SKE_U_KEY(m, d, off) (len(m.PublicKey) == SKE_PKLEN(d, off) && forall(0, len(m.PublicKey), func(i int) bool { return m.PublicKey[i] == d[(off)+4+i] }))
//@ define SKE_U_SIGNED(d, off) (len(d) > SKE_SIGOFF(d, off))
//@ define SKE_U_SIG(m, d, off) (len(m.Signature) == BE16(d, SKE_SIGOFF(d, off)+2) && forall(0, len(m.Signature), func(i int) bool { return m.Signature[i] == d[SKE_SIGOFF(d, off)+4+i] }))
//@ define SKE_U_SCHEME(m, d, o) ((!SKE_PSS(BE16(d, o)) ==> int(m.HashAlgorithm) == int(d[o]) && int(m.SignatureAlgorithm) == int(d[(o)+1])) && (SKE_PSS(BE16(d, o)) ==> int(m.SignatureAlgorithm) == BE16(d, o)))

//@ func MessageServerKeyExchange.Unmarshal
//@ ensures short: len(data) < 2 ==> result != nil
//@ ensures unset: old(m.KeyExchangeAlgorithm) == 0 ==> result != nil
//@ ensures psk-truncated: m.KeyExchangeAlgorithm == 2 && !SKE_HINT_OK(data) ==> result != nil
//@ ensures psk-ok: m.KeyExchangeAlgorithm == 2 && len(data) >= 2 && len(data) - 2 == BE16(data, 0) ==> result == nil
//@ ensures psk-declared-len: result == nil && m.KeyExchangeAlgorithm == 2 ==> len(m.IdentityHint) == BE16(data, 0)
//@ ensures psk-hint: result == nil && m.KeyExchangeAlgorithm == 2 ==> forall(0, len(m.IdentityHint), func(i int) bool { return m.IdentityHint[i] == data[2+i] })
//@ ensures ecdhe-truncated: m.KeyExchangeAlgorithm == 4 && SKE_U_TRUNC(data, 0) ==> result != nil
//@ ensures ecdhe-params: result == nil && m.KeyExchangeAlgorithm == 4 ==> SKE_U_PARAMS(m, data, 0)
//@ ensures ecdhe-key: result == nil && m.KeyExchangeAlgorithm == 4 ==> SKE_U_KEY(m, data, 0)
//@ ensures ecdhe-scheme: result == nil && m.KeyExchangeAlgorithm == 4 && SKE_U_SIGNED(data, 0) ==> SKE_U_SCHEME(m, data, SKE_SIGOFF(data, 0))
//@ ensures ecdhe-sig: result == nil && m.KeyExchangeAlgorithm == 4 && SKE_U_SIGNED(data, 0) ==> SKE_U_SIG(m, data, 0)
//@ ensures ecdhe-anon: result == nil && m.KeyExchangeAlgorithm == 4 && !SKE_U_SIGNED(data, 0) ==> m.HashAlgorithm == old(m.HashAlgorithm)
//@    && m.SignatureAlgorithm == old(m.SignatureAlgorithm) && len(m.Signature) == old(len(m.Signature))
//@ ensures ecdhe-psk-truncated-hint: m.KeyExchangeAlgorithm == 6 && !SKE_HINT_OK(data) ==> result != nil
//@ ensures ecdhe-psk-truncated: m.KeyExchangeAlgorithm == 6 && SKE_HINT_OK(data) && SKE_U_TRUNC(data, 2+BE16(data, 0)) ==> result != nil
//@ ensures ecdhe-psk-declared-len: result == nil && m.KeyExchangeAlgorithm == 6 && SKE_HINT_OK(data) ==> len(m.IdentityHint) == BE16(data, 0)
//@ ensures ecdhe-psk-hint: result == nil && m.KeyExchangeAlgorithm == 6 && SKE_HINT_OK(data) ==> forall(0, len(m.IdentityHint), func(i int) bool { return m.IdentityHint[i] == data[2+i] })
//@ ensures ecdhe-psk-params: result == nil && m.KeyExchangeAlgorithm == 6 && SKE_HINT_OK(data) ==> SKE_U_PARAMS(m, data, 2+BE16(data, 0))
//@ ensures ecdhe-psk-key: result == nil && m.KeyExchangeAlgorithm == 6 && SKE_HINT_OK(data) ==> SKE_U_KEY(m, data, 2+BE16(data, 0))
//@ ensures ecdhe-psk-scheme: result == nil && m.KeyExchangeAlgorithm == 6 && SKE_HINT_OK(data) && SKE_U_SIGNED(data, 2+BE16(data, 0)) ==> SKE_U_SCHEME(m, data, SKE_SIGOFF(data, 2+BE16(data, 0)))
//@ ensures ecdhe-psk-sig: result == nil && m.KeyExchangeAlgorithm == 6 && SKE_HINT_OK(data) && SKE_U_SIGNED(data, 2+BE16(data, 0)) ==> SKE_U_SIG(m, data, 2+BE16(data, 0))
//@ ensures frame-alg: m.KeyExchangeAlgorithm == old(m.KeyExchangeAlgorithm)
//@ ensures frame-no-psk: m.KeyExchangeAlgorithm & 2 == 0 ==> len(m.IdentityHint) == old(len(m.IdentityHint)) && (len(m.IdentityHint) > 0 ==> sameArray(m.IdentityHint, old(m.IdentityHint)))
//@ ensures input-unchanged: forall(0, len(data), func(i int) bool { return data[i] == old(data[i]) })
//@ end

// RFC 9147 9: struct { ConnectionId cids<0..2^16-1>; ConnectionIdUsage usage; } NewConnectionId, with
// opaque ConnectionId<0..2^8-1>. The message body is exactly the 2-byte list length, the list and one
// usage byte: a body that is longer or shorter than the declared length is rejected (no trailing bytes),
// every element must fit in the declared list, usage is cid_immediate(0) or cid_spare(1).

//@ func MessageNewConnectionID.Unmarshal
//@ ensures short: len(data) < 3 ==> result != nil
//@ ensures truncated: len(data) >= 3 && len(data) < 3 + BE16(data, 0) ==> result != nil
//@ ensures trailing-bytes-rejected: len(data) >= 3 && len(data) > 3 + BE16(data, 0) ==> result != nil
//@ ensures accepted-exact-length: result == nil ==> len(data) == 3 + BE16(data, 0)
//@ ensures bad-usage-rejected: len(data) >= 3 && data[len(data)-1] > 1 ==> result != nil
//@ ensures usage: result == nil ==> byte(m.Usage) == data[len(data)-1]
//@ ensures empty-list: result == nil && BE16(data, 0) == 0 ==> len(m.CIDs) == 0
//@ ensures empty-list-ok: len(data) == 3 && data[0] == 0 && data[1] == 0 && data[2] <= 1 ==> result == nil
//@ ensures first-element-overrun-rejected: len(data) >= 3 && BE16(data, 0) > 0 && int(data[2]) > BE16(data, 0) - 1 ==> result != nil
//@ ensures error-changes-nothing: result != nil ==> m.Usage == old(m.Usage) && len(m.CIDs) == old(len(m.CIDs))
//@ ensures input-unchanged: forall(0, len(data), func(i int) bool { return data[i] == old(data[i]) })
//@ loop #1: in-list: sameArray(cidsData, data) && offsetOf(cidsData) >= offsetOf(data) + 2 && offsetOf(cidsData) + len(cidsData) == offsetOf(data) + 2 + cidsLength
//@ loop #1: first: offsetOf(cidsData) == offsetOf(data) + 2 || (len(data) >= 3 && offsetOf(cidsData) >= offsetOf(data) + 3 + int(data[2]))
//@ loop #1: nothing-written: m.Usage == old(m.Usage) && len(m.CIDs) == old(len(m.CIDs))
//@ loop #1: count: (offsetOf(cidsData) == offsetOf(data) + 2) == (len(cids) == 0)
//@ loop #1: input-unchanged: forall(0, len(data), func(i int) bool { return data[i] == old(data[i]) })
//@ end

// Encoding side. NOT CHECKED (engine limit: no sum over a slice of slices): declared list length == sum of
// (1 + len(cid)), hence also len(result0) == 3 + declared length. Checked: usage validation, the usage byte is the
// last byte, an empty list is encoded as 00 00 usage, an over-long element is refused.
//@ func MessageNewConnectionID.Marshal
//@ ensures bad-usage-rejected: old(m.Usage) > 1 ==> result1 != nil && result0 == nil
//@ ensures long-cid-rejected: old(m.Usage) <= 1 && len(m.CIDs) > 0 && len(m.CIDs[0]) > 255 ==> result1 != nil
//@ ensures empty-list: old(m.Usage) <= 1 && len(m.CIDs) == 0 ==> result1 == nil && len(result0) == 3 && result0[0] == 0 && result0[1] == 0 && result0[2] == byte(m.Usage)
//@ ensures usage-last: result1 == nil ==> len(result0) >= 3 && result0[len(result0)-1] == byte(m.Usage)
//@ ensures frame: m.Usage == old(m.Usage) && len(m.CIDs) == old(len(m.CIDs))
//@ loop #1: bounded: 0 <= cidsLength && cidsLength <= 65535 && (idx == 0 ==> cidsLength == 0)
//@ loop #1: first-fits: idx > 0 ==> len(m.CIDs[0]) <= 255
//@ loop #1: frame: m.Usage == old(m.Usage) && len(m.CIDs) == old(len(m.CIDs))
//@ loop #2: grows: len(out) >= 2 && (idx == 0 ==> len(out) == 2 && out[0] == byte(cidsLength >> 8) && out[1] == byte(cidsLength))
//@ loop #2: frame: m.Usage == old(m.Usage) && len(m.CIDs) == old(len(m.CIDs))
//@ end
