//go:build verif

// C12 contracts for package handshake (comment-only; read by /verif/vc).
// The layout of Header.Marshal / Header.Unmarshal is specified in verif_contracts_c18.go; C12 relies
// on it and adds only what the fragmenting caller needs: the encoded header is a new buffer, so that
// appending the body to it cannot overwrite the message or an earlier fragment.
package handshake

//@ func Header.Marshal
//@ inline
//@ ensures c12-fresh-buffer: fresh(result0)
//@ end
