//go:build verif

// C12 contracts for package handshake (comment-only; read by /verif/vc).
// The layout of Header.Marshal / Header.Unmarshal is specified in verif_contracts_c18.go; C12 relies
// on it and adds only what the fragmenting caller needs: the encoded header is a new buffer, so that
// appending the body to it cannot overwrite the message or an earlier fragment.
package handshake

//@ func Header.Marshal
//@ inline
//@ ensures c12-fresh-buffer: fresh(result0)
//@ end

// C12: "a handshake message is surfaced only when the stored fragments add up to the message length": the
// message length that the fragment buffer compares with is the full 24-bit length field of the fragment's
// header (RFC 6347 4.2.2: uint24 length), and fragment_offset / fragment_length are the full 24-bit fields.
// (The complete layout is in verif_contracts_c18.go; these clauses make the C12 check depend on it.)

//@ func Header.Unmarshal
//@ ensures c12-length-24bit: result == nil ==> h.Length>>16 == uint32(data[1]) && (h.Length>>8)&0xFF == uint32(data[2]) && h.Length&0xFF == uint32(data[3])
//@ ensures c12-fragment-fields-24bit: result == nil ==> h.FragmentOffset>>16 == uint32(data[6]) && h.FragmentLength>>16 == uint32(data[9])
//@     && h.FragmentOffset&0xFFFF == uint32(data[7])<<8 | uint32(data[8]) && h.FragmentLength&0xFFFF == uint32(data[10])<<8 | uint32(data[11])
//@ ensures c12-sequence: result == nil ==> h.MessageSequence == uint16(data[4])<<8 | uint16(data[5])
//@ end
