//go:build verif

// C13 contracts for package dtls13 (comment-only; read by /verif/vc).
package dtls13

// RFC 8446 4.2.2: struct { opaque cookie<1..2^16-1>; } Cookie - extension_data is a 2-byte big-endian
// length followed by exactly the cookie bytes; an empty cookie cannot be encoded. This is the byte string the
// server compares ClientHello2's cookie extension with (negotiation.validateRetryCookie).

//@ func Cookie.MarshalData
//@ ensures empty-cookie-rejected: len(c.Cookie) == 0 ==> result1 != nil
//@ ensures length: result1 == nil ==> len(result0) == 2 + len(c.Cookie)
//@ ensures length-prefix: result1 == nil ==> int(result0[0])*256 + int(result0[1]) == len(c.Cookie)
//@ ensures cookie-bytes: result1 == nil ==> bytesEq(result0[2:], c.Cookie)
//@ ensures fresh-output: result1 == nil ==> fresh(result0)
//@ end
