//go:build verif

// C18 contracts for package extension (comment-only; read by /verif/vc).
package extension

// RFC 5246 7.4.1.4 / RFC 8446 4.2:  Extension extensions<0..2^16-1>;
//   struct { ExtensionType extension_type; opaque extension_data<0..2^16-1>; } Extension;
// ParseList is given the complete vector (2-byte length prefix included). The declared length is
// honoured in both directions: a buffer that is shorter than declared (truncated) and a buffer that
// carries bytes beyond the declared vector are both rejected, so no byte outside the declared vector
// is ever parsed as an extension. Each element is a 4-byte header and exactly extension_data_length
// bytes; an element that does not fit is rejected. The elements partition the vector (stated as:
// the first element starts right after the prefix, the last one ends at the end of the buffer, at
// least 4 bytes are consumed per element). Payloads are copies; the input is not modified.

//@ define U16(s, i) (uint16(s[i])<<8 | uint16(s[(i)+1]))
//@ define LAST(v) v[len(v)-1]

//@ func ParseList
//@ ensures short-rejected: len(buf) < 2 ==> result0 == nil && result1 != nil
//@ ensures trailing-bytes-rejected: len(buf) >= 2 && int(U16(buf, 0)) < len(buf)-2 ==> result0 == nil && result1 != nil
//@ ensures truncated-rejected: len(buf) >= 2 && int(U16(buf, 0)) > len(buf)-2 ==> result0 == nil && result1 != nil
//@ ensures ok-declared-length-exact: result1 == nil ==> len(buf) >= 2 && int(U16(buf, 0)) == len(buf)-2
//@ ensures error-no-values: result1 != nil ==> result0 == nil
//@ ensures empty-vector: len(buf) == 2 && buf[0] == 0 && buf[1] == 0 ==> result1 == nil && len(result0) == 0
//@ ensures ok-nonempty: result1 == nil && len(buf) > 2 ==> len(result0) >= 1
//@ ensures ok-header-per-element: result1 == nil ==> 4*len(result0) <= len(buf)-2
//@ ensures ok-first-element: result1 == nil && len(result0) >= 1 ==> len(buf) >= 6 && uint16(result0[0].Type) == U16(buf, 2) && len(result0[0].Data) == int(U16(buf, 4)) && 6 + len(result0[0].Data) <= len(buf)
//@ loop offset: first-done: len(values) >= 1 ==> len(buf) >= 6 && uint16(values[0].Type) == U16(buf, 2) && len(values[0].Data) == int(U16(buf, 4)) && 6 + len(values[0].Data) <= offset
//@ loop offset: progress: 2 <= offset && offset <= len(buf) && fresh(values) && 4*len(values) <= offset-2 && (len(values) == 0) == (offset == 2)
//@ loop offset: declared-length-exact: len(buf) >= 2 && int(U16(buf, 0)) == len(buf)-2
//@ end
