//go:build verif

// C18 contracts for package extension (comment-only; read by /verif/vc).
package extension

// RFC 5246 7.4.1.4 / RFC 8446 4.2:  Extension extensions<0..2^16-1>;
//   struct { ExtensionType extension_type; opaque extension_data<0..2^16-1>; } Extension;
// ParseList is given the complete vector (2-byte length prefix included). The declared length is
// honoured in both directions: a buffer that is shorter than declared (truncated) and a buffer that
// carries bytes beyond the declared vector are both rejected, so no byte outside the declared vector
// is ever parsed as an extension. Each element is a 4-byte header and exactly extension_data_length
// bytes; an element that does not fit is rejected (implicit slice-bounds obligations plus: at least
// 4 bytes are consumed per element, the last payload fits into the vector).
// NOT CHECKED (solver time, reported): the per-element layout (type and length of element k are the
// bytes at its offset; payload k is a copy of the following bytes). Invariants over the []Raw heap
// (struct slices, append with reallocation) take 5-20 s per obligation.

//@ define U16(s, i) (uint16(s[i])<<8 | uint16(s[(i)+1]))
//@ define LAST(v) v[len(v)-1]

//@ func ParseList
//@ ensures short-rejected: len(buf) < 2 ==> result0 == nil && result1 != nil
//@ ensures trailing-bytes-rejected: len(buf) >= 2 && int(U16(buf, 0)) < len(buf)-2 ==> result0 == nil && result1 != nil
//@ ensures truncated-rejected: len(buf) >= 2 && int(U16(buf, 0)) > len(buf)-2 ==> result0 == nil && result1 != nil
//@ ensures ok-declared-length-exact: result1 == nil ==> len(buf) >= 2 && int(U16(buf, 0)) == len(buf)-2
//@ ensures error-no-values: result1 != nil ==> result0 == nil
//@ ensures empty-vector: len(buf) == 2 && buf[0] == 0 && buf[1] == 0 ==> result1 == nil && len(result0) == 0
//@ ensures ok-nonempty: result1 == nil && len(buf) > 2 ==> len(result0) >= 1
//@ ensures ok-header-per-element: result1 == nil ==> 4*len(result0) <= len(buf)-2
//@ ensures ok-last-element-fits: result1 == nil && len(result0) >= 1 ==> 6 + len(LAST(result0).Data) <= len(buf)
//@ loop offset: last-done-fits: len(values) >= 1 ==> 6 + len(LAST(values).Data) <= offset
//@ loop offset: progress: 2 <= offset && offset <= len(buf) && fresh(values) && 4*len(values) <= offset-2 && (len(values) == 0) == (offset == 2)
//@ loop offset: declared-length-exact: len(buf) >= 2 && int(U16(buf, 0)) == len(buf)-2
//@ end

// RFC 5764 4.1.1 use_srtp:
//   struct { SRTPProtectionProfiles SRTPProtectionProfiles; opaque srtp_mki<0..255>; } UseSRTPData;
//   SRTPProtectionProfile SRTPProtectionProfiles<2..2^16-1>;   (uint8[2] each)
// Both declared lengths are honoured: the profile vector is non-empty and even, the MKI length byte
// follows it, and the payload ends exactly where the declared MKI ends (truncated input and bytes
// beyond the declared MKI are rejected). Profile k is the big-endian uint16 at 2+2k; the MKI is a
// copy of the declared bytes.

//@ define SRTP_PL(d) int(U16(d, 0))
//@ define SRTP_ML(d) int(d[2+SRTP_PL(d)])

//@ func unmarshalSRTPPayload
//@ ensures short-rejected: len(data) < 3 ==> result2 != nil
//@ ensures empty-or-odd-profiles-rejected: len(data) >= 3 && (SRTP_PL(data) == 0 || SRTP_PL(data)%2 != 0) ==> result2 != nil
//@ ensures no-mki-length-rejected: len(data) >= 3 && 2+SRTP_PL(data) >= len(data) ==> result2 != nil
//@ ensures truncated-mki-rejected: len(data) >= 3 && 2+SRTP_PL(data) < len(data) && 3+SRTP_PL(data)+SRTP_ML(data) > len(data) ==> result2 != nil
//@ ensures trailing-bytes-rejected: len(data) >= 3 && 2+SRTP_PL(data) < len(data) && 3+SRTP_PL(data)+SRTP_ML(data) < len(data) ==> result2 != nil
//@ ensures error-no-values: result2 != nil ==> result0 == nil && result1 == nil
//@ ensures ok-exact: result2 == nil ==> len(data) >= 3 && SRTP_PL(data) >= 2 && SRTP_PL(data)%2 == 0 && 2+SRTP_PL(data) < len(data) && 3+SRTP_PL(data)+SRTP_ML(data) == len(data)
//@ ensures ok-profile-count: result2 == nil ==> 2*len(result0) == SRTP_PL(data)
//@ ensures ok-profiles: result2 == nil ==> forall(0, len(result0), func(k int) bool { return uint16(result0[k]) == U16(data, 2+2*k) })
//@ ensures ok-mki: result2 == nil ==> len(result1) == SRTP_ML(data) && bytesEq(result1, data[3+SRTP_PL(data):])
//@ ensures ok-mki-is-copy: result2 == nil && len(result1) > 0 ==> !sameArray(result1, data)
//@ ensures input-unchanged: forall(0, len(data), func(p int) bool { return data[p] == old(data[p]) })
//@ loop offset: progress: 2 <= offset && offset <= 2+profilesLen && offset%2 == 0 && 2*len(profiles) == offset-2 && fresh(profiles)
//@ loop offset: lengths-kept: len(data) >= 3 && profilesLen == SRTP_PL(data) && profilesLen >= 2 && profilesLen%2 == 0 && 2+profilesLen < len(data) && mkiLen == SRTP_ML(data) && 3+profilesLen+mkiLen == len(data)
//@ loop offset: done-profiles: forall(0, len(profiles), func(k int) bool { return uint16(profiles[k]) == U16(data, 2+2*k) })
//@ loop offset: input-unchanged: forall(0, len(data), func(p int) bool { return data[p] == old(data[p]) })
//@ end
