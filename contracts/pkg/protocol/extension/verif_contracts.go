//go:build verif

// Contracts for package extension (comment-only; read by /verif/vc).
package extension

//@ func ParseList
//@ noinline
//@ end

//@ func MarshalList
//@ noinline
//@ end

//@ func MarshalRawList
//@ noinline
//@ end
