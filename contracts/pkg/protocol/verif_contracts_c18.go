//go:build verif

// C18 contracts for package protocol (comment-only; read by /verif/vc).
package protocol

// RFC 5246 7.1: struct { enum { change_cipher_spec(1), (255) } type; } ChangeCipherSpec.

//@ func ChangeCipherSpec.Marshal
//@ inline
//@ ensures ok: result1 == nil
//@ ensures layout: len(result0) == 1 && result0[0] == 1
//@ end

//@ func ChangeCipherSpec.Unmarshal
//@ inline
//@ ensures short: len(data) < 1 ==> result != nil
//@ ensures long: len(data) > 1 ==> result != nil
//@ ensures invalid: len(data) == 1 && data[0] != 1 ==> result != nil
//@ ensures ok: len(data) == 1 && data[0] == 1 ==> result == nil
//@ ensures input-unchanged: forall(0, len(data), func(i int) bool { return data[i] == old(data[i]) })
//@ end

// Application data is opaque: the body is the data.

//@ func ApplicationData.Marshal
//@ inline
//@ ensures ok: result1 == nil
//@ ensures layout: bytesEq(result0, old(a.Data))
//@ ensures frame: len(a.Data) == old(len(a.Data)) && forall(0, len(a.Data), func(i int) bool { return a.Data[i] == old(a.Data[i]) })
//@ end

//@ func ApplicationData.Unmarshal
//@ inline
//@ ensures ok: result == nil
//@ ensures fields: bytesEq(a.Data, data)
//@ ensures declared-len: len(a.Data) == len(data)
//@ ensures fresh: len(data) > 0 ==> !sameArray(a.Data, data)
//@ ensures input-unchanged: forall(0, len(data), func(i int) bool { return data[i] == old(data[i]) })
//@ end

// draft-ietf-tls-dtls-rrc 4: struct { rrc_msg_type msg_type; opaque cookie[8]; } for
// path_challenge(0), path_response(1), path_drop(2); unknown types must be parsed and ignored.

//@ func ReturnRoutabilityCheck.Marshal
//@ inline
//@ ensures ok: result1 == nil
//@ ensures size: len(result0) == 9
//@ ensures layout-type: result0[0] == byte(r.MessageType)
//@ ensures layout-cookie: forall(0, 8, func(i int) bool { return result0[1+i] == r.Cookie[i] })
//@ ensures frame: r.MessageType == old(r.MessageType) && forall(0, 8, func(i int) bool { return r.Cookie[i] == old(r.Cookie[i]) })
//@ end

// data may alias r.Cookie[:] (both are byte memory), so input bytes are read in the entry state.
//@ func ReturnRoutabilityCheck.Unmarshal
//@ inline
//@ ensures empty: len(data) == 0 ==> result != nil
//@ ensures short: len(data) >= 1 && old(data[0]) <= 2 && len(data) < 9 ==> result != nil
//@ ensures long: len(data) >= 1 && old(data[0]) <= 2 && len(data) > 9 ==> result != nil
//@ ensures ok: len(data) == 9 && old(data[0]) <= 2 ==> result == nil
//@ ensures unknown-type-ok: len(data) >= 1 && old(data[0]) > 2 ==> result == nil
//@ ensures type: result == nil ==> r.MessageType == ReturnRoutabilityCheckMessageType(old(data[0]))
//@ ensures cookie: result == nil && old(data[0]) <= 2 ==> forall(0, 8, func(i int) bool { return r.Cookie[i] == old(data[1+i]) })
//@ ensures unknown-type-cookie: result == nil && old(data[0]) > 2 ==> forall(0, 8, func(i int) bool { return r.Cookie[i] == 0 })
//@ end

// RFC 9147 7: struct { RecordNumber record_numbers<0..2^16-1>; } ACK;
// struct { uint64 epoch; uint64 sequence_number; } RecordNumber (16 bytes each).

//@ define ACK_DECL(d) (int(d[0])<<8 | int(d[1]))
//@ define ACK_BE64(d, o) (uint64(d[o])<<56 | uint64(d[(o)+1])<<48 | uint64(d[(o)+2])<<40 | uint64(d[(o)+3])<<32 | uint64(d[(o)+4])<<24 | uint64(d[(o)+5])<<16 | uint64(d[(o)+6])<<8 | uint64(d[(o)+7]))

// Engine limit: the declared length is computed by a loop inside the inlined library function
// cryptobyte.String.readLengthPrefixed, for which no invariant can be given; its value is lost, so the
// clauses that mention the declared length (truncated, trailing, partial-record, ok, declared-len, invariant `declared`) are plain comments.
//@ func ACK.Unmarshal
//@ loop #1: list-window: sameArray(recordList, data) && offsetOf(recordList) + len(recordList) == offsetOf(data) + len(data) && len(recordList) <= len(data) - 2
//@ loop #1: progress: len(data) >= 2 && len(a.Records)*16 + len(recordList) == len(data) - 2 && len(a.Records) >= 0 && len(a.Records) <= len(data)
// [not checkable, engine havoc] loop #1: declared: len(data) - 2 == ACK_DECL(data)
//@ loop #1: list-start: offsetOf(recordList) == offsetOf(data) + 2 + 16*len(a.Records)
//@ loop #1: decoded-epoch: forall(0, len(a.Records), func(i int) bool { return a.Records[i].Epoch == ACK_BE64(data, 2+16*i) })
//@ loop #1: decoded-seq: forall(0, len(a.Records), func(i int) bool { return a.Records[i].SequenceNumber == ACK_BE64(data, 10+16*i) })
//@ ensures short: len(data) < 2 ==> result != nil
// [not checkable, engine havoc] ensures truncated: len(data) >= 2 && len(data) - 2 < ACK_DECL(data) ==> result != nil
// [not checkable, engine havoc] ensures trailing: len(data) >= 2 && len(data) - 2 > ACK_DECL(data) ==> result != nil
// [not checkable, engine havoc] ensures partial-record: len(data) >= 2 && ACK_DECL(data) % 16 != 0 ==> result != nil
// [not checkable, engine havoc] ensures ok: len(data) >= 2 && len(data) - 2 == ACK_DECL(data) && ACK_DECL(data) % 16 == 0 ==> result == nil
// [not checkable, engine havoc] ensures declared-len: result == nil ==> len(a.Records)*16 == ACK_DECL(data)
//@ ensures count: result == nil ==> len(a.Records)*16 == len(data) - 2
//@ ensures records: result == nil ==> forall(0, len(a.Records), func(i int) bool { return a.Records[i].Epoch == ACK_BE64(data, 2+16*i) && a.Records[i].SequenceNumber == ACK_BE64(data, 10+16*i) })
//@ ensures input-unchanged: forall(0, len(data), func(i int) bool { return data[i] == old(data[i]) })
//@ end
