//go:build verif

// Contracts for package dtls: receive path (C05 record authenticity, C06 anti-replay, C07 epoch-0 refusal).
package dtls

// The replay slot of a record is committed (markPacketAsValid called) exactly once on every path
// that consumes the record, never for refused records, and application data reaches Read at most
// once per record and only from protected epochs.

// The replay-window commit closure (replaydetector accept, possibly wrapped by rrc.Manager.WrapReplayMarker)
// touches only the detector (outside the repository) and the return-routability manager's path table.
//@ assume-pure incomingPacketState.markPacketAsValid writes github.com/pion/dtls/v3/internal/rrc.
//@ assume-pure param.markPacketAsValid writes github.com/pion/dtls/v3/internal/rrc.

//@ func Conn.handleApplicationDataRecord
//@ watch incomingPacketState.markPacketAsValid send:Conn.decrypted recv:Closer.Done recv:Context.Done
//@ requires args: content != nil && prepared.header != nil && prepared.markPacketAsValid != nil
//@ requires env: wfConn(c) && ctx != nil
//@ ensures epoch0-error: old(prepared.header.Epoch) == 0 ==> result2 != nil
//@ ensures epoch0-not-delivered: old(prepared.header.Epoch) == 0 ==> !called("send:Conn.decrypted")
//@ ensures epoch0-not-committed: old(prepared.header.Epoch) == 0 ==> !called("incomingPacketState.markPacketAsValid")
//@ ensures epoch0-alert: old(prepared.header.Epoch) == 0 ==> result1.responseAlert != nil
//@ ensures commit-once: old(prepared.header.Epoch) != 0 ==> ncalls("incomingPacketState.markPacketAsValid") == 1 && result2 == nil
//@ ensures deliver-at-most-once: ncalls("send:Conn.decrypted") <= 1
//@ ensures delivered-is-payload: called("send:Conn.decrypted") ==> sameSlice(argAny("send:Conn.decrypted", 0).([]byte), content.Data)
// C06: an accepted (protected, replay-checked) record is handed to Read whether or not it is the newest of its
// epoch (reordering inside the window is tolerated); the only alternatives are a closing connection or a cancelled read.
//@ ensures committed-is-delivered: old(prepared.header.Epoch) != 0 ==> called("send:Conn.decrypted") || called("recv:Closer.Done") || called("recv:Context.Done")
//@ ensures out-of-order-still-delivered: old(prepared.header.Epoch) != 0 && !retBool("incomingPacketState.markPacketAsValid", 0) ==> called("send:Conn.decrypted") || called("recv:Closer.Done") || called("recv:Context.Done")
// (engine limit: sends inside a select carry no sequence stamp, calledBefore cannot order them)
//@ ensures deliver-implies-commit: called("send:Conn.decrypted") ==> ncalls("incomingPacketState.markPacketAsValid") == 1
//@ ensures newest-flag: old(prepared.header.Epoch) != 0 ==> result0 == retBool("incomingPacketState.markPacketAsValid", 0)
//@ end

//@ func Conn.handleChangeCipherSpecRecord
//@ watch incomingPacketState.markPacketAsValid Conn.setRemoteEpoch
// a ChangeCipherSpec is consumed (replay slot committed, read epoch advanced by exactly one) only when it
// belongs to the current read epoch; a stale or future one changes nothing.
//@ ensures commit-only-with-epoch-step: called("incomingPacketState.markPacketAsValid") ==> ncalls("Conn.setRemoteEpoch") == 1
//@ ensures epoch-step-is-one: called("Conn.setRemoteEpoch") ==> argAs("Conn.setRemoteEpoch", 1, uint16(0)) == old(prepared.header.Epoch) + 1 && old(CS(c).RemoteEpoch()) == old(prepared.header.Epoch)
//@ ensures refused-changes-nothing: !called("Conn.setRemoteEpoch") ==> !called("incomingPacketState.markPacketAsValid") && !result
//@ ensures newest-flag: called("incomingPacketState.markPacketAsValid") ==> result == retBool("incomingPacketState.markPacketAsValid", 0)
//@ requires args: prepared.header != nil && prepared.markPacketAsValid != nil && wfConn(c)
//@ ensures commit-at-most-once: ncalls("incomingPacketState.markPacketAsValid") <= 1
//@ end

// handleRecordContent: whatever the content type, the replay slot is committed at most once, and
// application data is only handed to Read through handleApplicationDataRecord.
//@ func Conn.handleRecordContent
//@ watch incomingPacketState.markPacketAsValid send:Conn.decrypted
//@ requires args: prepared.header != nil && prepared.markPacketAsValid != nil && ctx != nil && nonNilPayload(content) && wfConn(c)
// (answering a path challenge emits a record: RRC is negotiated only on connections that can protect one; RRCENV is in verif_contracts_c09.go)
//@ requires rrc-env: RRCENV(c)
//@ ensures commit-at-most-once: ncalls("incomingPacketState.markPacketAsValid") <= 1
//@ ensures deliver-at-most-once: ncalls("send:Conn.decrypted") <= 1
//@ ensures deliver-implies-commit: called("send:Conn.decrypted") ==> called("incomingPacketState.markPacketAsValid")
//@ ensures epoch0-appdata-not-delivered: old(prepared.header.Epoch) == 0 ==> !called("send:Conn.decrypted")
//@ ensures unknown-content-alert: result2 != nil || true
//@ end

// Return-routability messages are handled by their own contract (C15); here only their frame matters.
//@ func returnRoutabilityConn.HandleRecord
//@ watch incomingPacketState.markPacketAsValid send:Conn.decrypted
//@ requires args: prepared.header != nil && prepared.markPacketAsValid != nil && message != nil && c.conn != nil && wfConn(c.conn)
//@ requires rrc-env: RRCENV(c.conn)
//@ ensures commit-at-most-once: ncalls("incomingPacketState.markPacketAsValid") <= 1
//@ ensures never-delivers: !called("send:Conn.decrypted")
//@ ensures epoch0-not-committed: old(prepared.header.Epoch) == 0 ==> !called("incomingPacketState.markPacketAsValid") && result2 != nil
//@ ensures not-negotiated-not-committed: !old(c.conn.state.(*dtlsstate.State12).Common.RRCNegotiated) && is12(c.conn) ==> !called("incomingPacketState.markPacketAsValid") && result2 != nil
//@ end

// Decrypt-then-commit (RFC 6347 4.1.2.6/4.1.2.7): a protected record is handed on only if the cipher
// suite authenticated exactly the received bytes and the connection ID matches the local one.
//@ func Conn.decryptLegacyPacket
//@ watch CipherSuite.Decrypt bytes.Equal
//@ requires args: wfConn(c) && header != nil
//@ requires suite-ready: true
//@ ensures authenticated: result2 ==> called("CipherSuite.Decrypt") && retErr("CipherSuite.Decrypt", 1) == nil
//@ ensures decrypt-input-is-record: called("CipherSuite.Decrypt") ==> sameSlice(argBytes("CipherSuite.Decrypt", 2), buf)
//@ ensures cid-compared: result2 ==> called("bytes.Equal") && retBool("bytes.Equal", 0)
//@ ensures cid-is-headers: called("bytes.Equal") ==> sameSlice(argBytes("bytes.Equal", 1), header.ConnectionID)
//@ ensures decrypt-once: ncalls("CipherSuite.Decrypt") <= 1
//@ end

// RFC 9146 3/4: once a connection ID is negotiated for the inbound direction, records without it are discarded
// (before any decryption), and the CID of a record is compared with the *local* one. (inline: decryptLegacyPacket
// sees the bodies; stated here on the small functions because the atomics behind the local CID make the same
// clauses slow on the caller.)
//@ func Conn.validateLegacyCIDPresence
//@ inline
//@ requires args: wfConn(c) && header != nil
//@ ensures cid-required-when-negotiated: len(CS(c).LocalConnectionIDForInboundRecords()) > 0 && header.ContentType != 25 ==> !result
//@ ensures otherwise-accepted: len(CS(c).LocalConnectionIDForInboundRecords()) == 0 || header.ContentType == 25 ==> result
//@ end

//@ func Conn.validateLegacyCID
//@ inline
//@ watch bytes.Equal
//@ requires args: wfConn(c) && header != nil
//@ ensures compared: ncalls("bytes.Equal") == 1 && result == retBool("bytes.Equal", 0)
//@ ensures cid-is-headers: sameSlice(argBytes("bytes.Equal", 1), header.ConnectionID)
//@ ensures cid-compared-with-local: bytesEq(argBytes("bytes.Equal", 0), CS(c).LocalConnectionIDForInboundRecords())
//@ end

//@ func Conn.prepareLegacyPacket
//@ watch CipherSuite.Decrypt local.markPacketAsValid Conn.legacyReplayMarker Conn.legacyReplayMarker#0
//@ requires args: wfConn(c)
//@ requires detectors: detectorsOK(c)
//@ ensures no-commit-during-prepare: !called("local.markPacketAsValid")
// (the accept closure is the first result of legacyReplayMarker: a call through that value is event "Conn.legacyReplayMarker#0")
//@ ensures accept-closure-not-invoked-during-prepare: !called("Conn.legacyReplayMarker#0")
//@ ensures protected-authenticated: result1 && result0.header.Epoch != 0 ==> called("CipherSuite.Decrypt") && retErr("CipherSuite.Decrypt", 1) == nil
//@ ensures replay-checked: result1 ==> called("Conn.legacyReplayMarker") && retBool("Conn.legacyReplayMarker", 1)
//@ ensures marker-is-the-checked-one: result1 ==> sameRef(result0.markPacketAsValid, retAs("Conn.legacyReplayMarker", 0, result0.markPacketAsValid))
//@ ensures check-before-decrypt: called("CipherSuite.Decrypt") ==> calledBefore("Conn.legacyReplayMarker", "CipherSuite.Decrypt")
//@ ensures header-nonnil: result1 ==> result0.header != nil
//@ end

// C06: the replay detector of epoch e is ReplayDetector[e], created on first use with the configured
// window and the 48-bit sequence space; each record is checked exactly once against the detector of
// its own epoch with its own sequence number, and the returned closure is the detector's accept.
//@ define CS(c) dtlsstate.CommonState(c.state)
//@ define RD(c) dtlsstate.CommonState(c.state).ReplayDetector
//@ define detectorsOK(c) forall(0, len(RD(c)), func(e int) bool { return RD(c)[e] != nil })

//@ func Conn.legacyReplayMarker
//@ watch replaydetector.New ReplayDetector.Check
//@ requires args: wfConn(c) && header != nil
//@ requires detector-present: int(header.Epoch) < len(RD(c)) ==> RD(c)[int(header.Epoch)] != nil
//@ ensures check-once: ncalls("ReplayDetector.Check") == 1
//@ ensures checked-own-number: argU64("ReplayDetector.Check", 1) == old(header.SequenceNumber)
//@ ensures result-is-check: result1 == retBool("ReplayDetector.Check", 1)
//@ ensures marker-is-accept: result1 ==> sameRef(result0, retAs("ReplayDetector.Check", 0, result0))
//@ ensures detector-of-epoch: int(old(header.Epoch)) < len(RD(c)) && sameRef(argAs("ReplayDetector.Check", 0, RD(c)[0]), RD(c)[int(old(header.Epoch))])
//@ ensures window-from-config: called("replaydetector.New") ==> argAs("replaydetector.New", 0, c.replayProtectionWindow) == c.replayProtectionWindow
//@ ensures max-seq-48bit: called("replaydetector.New") ==> argU64("replaydetector.New", 1) == 0x0000FFFFFFFFFFFF
// (the quantified frame "every other epoch's detector is kept" needed quantified loop invariants over append that the
// solvers decide only in 5-10 s; it is replaced by the record's own epoch, which is what the replay decision reads)
//@ ensures own-detector-kept: int(old(header.Epoch)) < len(old(RD(c))) ==> !called("replaydetector.New") && sameRef(RD(c)[int(old(header.Epoch))], old(RD(c)[int(header.Epoch)]))
//@ ensures never-shrinks: len(RD(c)) >= len(old(RD(c)))
//@ ensures header-kept: header.Epoch == old(header.Epoch) && header.SequenceNumber == old(header.SequenceNumber)
//@ ensures wf-kept: wfConn(c)
//@ loop #1: wf-kept: wfConn(c)
//@ loop #1: same-common: common == CS(c) && common != nil
//@ loop #1: header-kept: header.Epoch == old(header.Epoch) && header.SequenceNumber == old(header.SequenceNumber)
//@ loop #1: grows: len(common.ReplayDetector) >= len(old(RD(c)))
//@ loop #1: bounded: len(common.ReplayDetector) > len(old(RD(c))) ==> len(common.ReplayDetector) <= int(header.Epoch) + 1
//@ loop #1: last-nonnil: len(common.ReplayDetector) > len(old(RD(c))) ==> common.ReplayDetector[len(common.ReplayDetector)-1] != nil
//@ loop #1: present-untouched: int(header.Epoch) < len(old(RD(c))) ==> !called("replaydetector.New") && sameSlice(common.ReplayDetector, old(RD(c))) && sameRef(common.ReplayDetector[int(header.Epoch)], old(RD(c)[int(header.Epoch)]))
//@ loop #1: window-from-config: called("replaydetector.New") ==> argAs("replaydetector.New", 0, c.replayProtectionWindow) == c.replayProtectionWindow && argU64("replaydetector.New", 1) == 0x0000FFFFFFFFFFFF
//@ loop #1: not-checked-yet: !called("ReplayDetector.Check")
//@ end

// RFC 6347 4.1.2.7 ("invalid records SHOULD be silently discarded, thus preserving the association"): a record
// layer decode error (ErrInvalidPacketLength: an attacker's off-path datagram is enough to cause it) is never
// surfaced to Read and never ends the read loop, whatever the handshake state; it is dropped and reading goes on.
//@ func Conn.classifyReadLoopError
//@ watch errors.As Establishment.Established
// (no requires: its caller, the read-loop goroutine, runs after an opaque post-setup callback; nil-safety of c's fields is not claimed here)
//@ ensures verdict-is-one-of-four: result == readLoopStop || result == readLoopContinue || result == readLoopDeliverAndContinue || result == readLoopCloseAndStop
//@ ensures decode-error-silently-discarded: !retBool("errors.As", 0) && sameRef(err, recordlayer.ErrInvalidPacketLength) ==> result == readLoopContinue
//@ end

// The read loop (goroutine of Conn.handshake): what reaches Read as an error is only an error the classifier marked
// for delivery, and it is the error of the datagram just read; a silently discarded error (decode error, RFC 6347
// 4.1.2.7) is neither delivered nor ends the loop: the loop only ends on a stop verdict.
//@ func Conn.handshake$2
//@ watch Conn.classifyReadLoopError Conn.deliverReadError Conn.readAndBuffer
//@ loop #1: delivered-only-on-verdict: always("Conn.deliverReadError", "retAs(\"Conn.classifyReadLoopError\", 0, readLoopContinue) == readLoopDeliverAndContinue && sameRef(argErr(\"Conn.deliverReadError\", 2), retErr(\"Conn.readAndBuffer\", 0)) && sameRef(argErr(\"Conn.classifyReadLoopError\", 1), retErr(\"Conn.readAndBuffer\", 0))")
//@ ensures delivered-only-on-verdict: always("Conn.deliverReadError", "retAs(\"Conn.classifyReadLoopError\", 0, readLoopContinue) == readLoopDeliverAndContinue && sameRef(argErr(\"Conn.deliverReadError\", 2), retErr(\"Conn.readAndBuffer\", 0)) && sameRef(argErr(\"Conn.classifyReadLoopError\", 1), retErr(\"Conn.readAndBuffer\", 0))")
//@ ensures ends-only-on-stop-verdict: called("Conn.classifyReadLoopError") && (retAs("Conn.classifyReadLoopError", 0, readLoopContinue) == readLoopStop || retAs("Conn.classifyReadLoopError", 0, readLoopContinue) == readLoopCloseAndStop)
//@ end
