//go:build verif

// C11 contracts for the root package (comment-only; read by /verif/vc).
package dtls

// Suite list construction: "the cipher suite ... fits the server's key type" / a PSK suite is enabled
// only when a PSK is configured, a certificate suite only when certificates are in play
// (includePSKSuites / includeCertificateSuites are computed from the configuration by the caller).
// Anonymous suites are the caller's explicit choice and are kept.

// Cipher suite descriptors are immutable: pure functions of the suite object.
//@ assume-pure CipherSuite.AuthenticationType
//@ assume-pure CipherSuite.ID

//@ define PSKAUTH(c) (c.AuthenticationType() == CipherSuiteAuthenticationTypePreSharedKey)
//@ define CERTAUTH(c) (c.AuthenticationType() == CipherSuiteAuthenticationTypeCertificate)
//@ define ALLOWED(c) ((includePSKSuites || !PSKAUTH(c)) && (includeCertificateSuites || !CERTAUTH(c)))

//@ func parseCipherSuitesForVersions
//@ loop i: kept-allowed: 0 <= i && i <= idx && forall(0, i, func(k int) bool { return ALLOWED(cipherSuites[k]) })
//@ ensures psk-suites-need-a-psk: result1 == nil && !includePSKSuites ==> forall(0, len(result0), func(k int) bool { return !PSKAUTH(result0[k]) })
//@ ensures certificate-suites-need-a-certificate: result1 == nil && !includeCertificateSuites ==> forall(0, len(result0), func(k int) bool { return !CERTAUTH(result0[k]) })
//@ ensures never-empty: result1 == nil ==> len(result0) > 0
//@ ensures failure-returns-nothing: result1 != nil ==> result0 == nil
//@ end

// "The cipher suite ... fits the server's key type": with a certificate key, a certificate-authenticated suite is kept
// only if its certificate type is the key's (ECDSA suites for ECDSA and Ed25519 keys, RSA suites for RSA keys).
//@ assume-pure CipherSuite.CertificateType
//@ define KEYIS(t) typeIs(retAny("Signer.Public", 0), t)
//@ define ECKEY() (KEYIS("crypto/ed25519.PublicKey") || KEYIS("*crypto/ecdsa.PublicKey"))
//@ define RSAKEY() KEYIS("*crypto/rsa.PublicKey")
//@ define FITS(c) (!CERTAUTH(c) || ((ECKEY() ==> c.CertificateType() == clientcertificate.ECDSASign) && (RSAKEY() ==> c.CertificateType() == clientcertificate.RSASign)))
//@ func filterCipherSuitesForCertificate
//@ watch Signer.Public
//@ ensures no-key-no-filter: cert == nil ==> sameSlice(result, cipherSuites)
//@ ensures kept-suites-fit-the-key: called("Signer.Public") ==> forall(0, len(result), func(k int) bool { return FITS(result[k]) })
//@ ensures filtered-is-a-new-list: called("Signer.Public") ==> len(result) <= len(cipherSuites)
//@ loop #1: kept-fit: called("Signer.Public") && len(filtered) <= idx && forall(0, len(filtered), func(k int) bool { return FITS(filtered[k]) })
//@ loop #1: key-type-decided: (ECKEY() ==> certType == clientcertificate.ECDSASign) && (RSAKEY() ==> certType == clientcertificate.RSASign)
//@ end
