//go:build verif

// C14 contracts for the root package (comment-only; read by /verif/vc).
package dtls

// RFC 5246 7.2: "Alert messages with a level of fatal result in the immediate termination of the
// connection. In this case [...] the session identifier MUST be invalidated, preventing the failed
// session from being used to establish new connections."  The endpoint's store is keyed by
// Conn.sessionKey() (client: remote address + server name, server: session ID) - the same key under
// which HandshakeContext looks a session up - so the entry removed must be the one under that key.

// The session store is user code; removing an entry does not modify the connection.
//@ assume-pure HandshakeConfig.DelSession

//@ func Conn.sessionKey
//@ noinline
//@ end

// Called only from notify and negotiateVersionClient; summarised (its callee's contract uses an
// always() accumulator that cannot be consumed through an inlined wrapper).
//@ func Conn.writePackets
//@ noinline
//@ end

//@ define NCS(c) dtlsstate.CommonState(c.state)

//@ func Conn.notify
//@ watch HandshakeConfig.DelSession Conn.sessionKey! Conn.writePackets!
//@ requires args: wfConn(c) && c.handshakeConfig != nil && c.handshakeEstablished != nil
//@ requires store-callback: c.handshakeConfig.HasSessionStore ==> c.handshakeConfig.DelSession != nil
//@ ensures fatal-alert-drops-session: level == alert.Fatal && old(len(NCS(c).SessionID)) > 0 && old(NCS(c).LocalVersion.Major) == 254 && old(NCS(c).LocalVersion.Minor) == 253 && old(c.handshakeConfig.HasSessionStore) ==> called("HandshakeConfig.DelSession")
//@ ensures dropped-under-the-store-key: called("HandshakeConfig.DelSession") ==> called("Conn.sessionKey!") && sameSlice(argBytes("HandshakeConfig.DelSession", 0), retBytes("Conn.sessionKey!", 0)) && calledBefore("Conn.sessionKey!", "HandshakeConfig.DelSession")
//@ ensures at-most-one-removal: ncalls("HandshakeConfig.DelSession") <= 1
//@ ensures store-failure-reported: called("HandshakeConfig.DelSession") && retErr("HandshakeConfig.DelSession", 0) != nil ==> result != nil && !called("Conn.writePackets!")
//@ ensures warning-keeps-session: level != alert.Fatal ==> !called("HandshakeConfig.DelSession")
//@ ensures alert-sent-after-removal: result == nil ==> called("Conn.writePackets!")
//@ end
