//go:build verif

// C08 (robustness of the receive path): contracts for package dtls (comment-only; read by /verif/vc).
package dtls

// RFC 6347 4.1.2.7: "invalid records SHOULD be silently discarded". A record that the reassembly buffer
// refuses (truncated or inconsistent handshake header, buffer limits) is consumed by bufferHandshakeRecord:
// it is reported as handled, so that handleIncomingPacket does not go on to parse it, raises no alert, commits no
// replay slot and surfaces nothing - the endpoint keeps serving the genuine peer.
//@ func Conn.bufferHandshakeRecord
//@ watch FragmentBuffer.Push param.markPacketAsValid
//@ ensures c08-undecodable-record-consumed: retErr("FragmentBuffer.Push", 2) != nil ==> result1
//@ ensures c08-undecodable-record-silent: retErr("FragmentBuffer.Push", 2) != nil ==> result0.responseAlert == nil && !result0.containsHandshake && !result0.retransmit && result0.receivedACK == nil
//@ ensures c08-undecodable-record-not-committed: retErr("FragmentBuffer.Push", 2) != nil ==> !called("param.markPacketAsValid") && !result2
//@ ensures c08-other-content-passed-on-uncommitted: retErr("FragmentBuffer.Push", 2) == nil && !retBool("FragmentBuffer.Push", 0) ==> !result1 && !called("param.markPacketAsValid")
//@ ensures c08-handshake-record-committed-once: retErr("FragmentBuffer.Push", 2) == nil && retBool("FragmentBuffer.Push", 0) ==> ncalls("param.markPacketAsValid") == 1 && result2 == retBool("param.markPacketAsValid", 0)
//@ end

// Records that cannot be processed yet (future epoch / keys not ready) are parked in Conn.encryptedPackets; the
// queue holds at most maxAppDataPacketQueueSize (100) datagrams, a full queue refuses and is left unchanged.
//@ func Conn.enqueueEncryptedPackets
//@ requires receiver: c != nil
//@ ensures c08-full-queue-refuses: old(len(c.encryptedPackets)) >= maxAppDataPacketQueueSize ==> !result && len(c.encryptedPackets) == old(len(c.encryptedPackets))
//@ ensures c08-queue-grows-by-one: result ==> len(c.encryptedPackets) == old(len(c.encryptedPackets)) + 1 && old(len(c.encryptedPackets)) < maxAppDataPacketQueueSize
//@ ensures c08-refused-unchanged: !result ==> len(c.encryptedPackets) == old(len(c.encryptedPackets))
//@ ensures c08-queue-bounded: old(len(c.encryptedPackets)) <= maxAppDataPacketQueueSize ==> len(c.encryptedPackets) <= maxAppDataPacketQueueSize
//@ ensures c08-parked-record-isolated: result ==> cap(c.encryptedPackets[len(c.encryptedPackets)-1].data) == len(packet.data)
//@ ensures unlocked: !held("Conn.lock")
//@ end

// [NOT CHECKED: the postconditions below discharge, but handleIncomingPacket calls six contracted callees whose
//  preconditions (well-formedness after prepareIncomingPacket, record size, DTLS 1.2 environment) cannot be established
//  from any precondition expressible here, so under the conditional rule nothing after those calls may be claimed.
//  The repair 4b43560 is guarded by the demonstration known/C08_unparsable_epoch0_record_test.go.txt only.]
// RFC 6347 4.1.2.7: an unprotected (epoch 0) record that cannot be parsed is dropped: no alert is queued and
// the read loop gets no error (a fatal decode_error here let one spoofed datagram close the session).
//   func Conn.handleIncomingPacket
//   watch RecordLayer.Unmarshal Conn.prepareIncomingPacket
//   requires args: wfConn(c) && !isNil(ctx)
//   ensures c08-unparsable-unprotected-record-dropped: called("RecordLayer.Unmarshal") && retErr("RecordLayer.Unmarshal", 0) != nil
//      && retAs("Conn.prepareIncomingPacket", 0, incomingPacketState{}).header != nil && retAs("Conn.prepareIncomingPacket", 0, incomingPacketState{}).header.Epoch == 0
//      ==> result0.responseAlert == nil && result1 == nil
//   ensures c08-empty-datagram-ignored: len(buf) == 0 ==> result0.responseAlert == nil && result1 == nil
//   end
