//go:build verif

// C08 (robustness of the receive path): contracts for package dtls (comment-only; read by /verif/vc).
package dtls

// RFC 6347 4.1.2.7: "invalid records SHOULD be silently discarded". A record that the reassembly buffer
// refuses (truncated or inconsistent handshake header, buffer limits) is consumed by bufferHandshakeRecord:
// it is reported as handled, so that handleIncomingPacket does not go on to parse it, raises no alert, commits no
// replay slot and surfaces nothing - the endpoint keeps serving the genuine peer.
//@ func Conn.bufferHandshakeRecord
//@ watch FragmentBuffer.Push param.markPacketAsValid
//@ ensures c08-undecodable-record-consumed: retErr("FragmentBuffer.Push", 2) != nil ==> result1
//@ ensures c08-undecodable-record-silent: retErr("FragmentBuffer.Push", 2) != nil ==> result0.responseAlert == nil && !result0.containsHandshake && !result0.retransmit && result0.receivedACK == nil
//@ ensures c08-undecodable-record-not-committed: retErr("FragmentBuffer.Push", 2) != nil ==> !called("param.markPacketAsValid") && !result2
//@ ensures c08-other-content-passed-on-uncommitted: retErr("FragmentBuffer.Push", 2) == nil && !retBool("FragmentBuffer.Push", 0) ==> !result1 && !called("param.markPacketAsValid")
//@ ensures c08-handshake-record-committed-once: retErr("FragmentBuffer.Push", 2) == nil && retBool("FragmentBuffer.Push", 0) ==> ncalls("param.markPacketAsValid") == 1 && result2 == retBool("param.markPacketAsValid", 0)
//@ end

// Records that cannot be processed yet (future epoch / keys not ready) are parked in Conn.encryptedPackets; the
// queue holds at most maxAppDataPacketQueueSize (100) datagrams, a full queue refuses and is left unchanged.
//@ func Conn.enqueueEncryptedPackets
//@ requires receiver: c != nil
//@ ensures c08-full-queue-refuses: old(len(c.encryptedPackets)) >= maxAppDataPacketQueueSize ==> !result && len(c.encryptedPackets) == old(len(c.encryptedPackets))
//@ ensures c08-queue-grows-by-one: result ==> len(c.encryptedPackets) == old(len(c.encryptedPackets)) + 1 && old(len(c.encryptedPackets)) < maxAppDataPacketQueueSize
//@ ensures c08-refused-unchanged: !result ==> len(c.encryptedPackets) == old(len(c.encryptedPackets))
//@ ensures c08-queue-bounded: old(len(c.encryptedPackets)) <= maxAppDataPacketQueueSize ==> len(c.encryptedPackets) <= maxAppDataPacketQueueSize
//@ ensures c08-parked-record-isolated: result ==> cap(c.encryptedPackets[len(c.encryptedPackets)-1].data) == len(packet.data)
//@ ensures unlocked: !held("Conn.lock")
//@ end

// RFC 6347 4.1.2.7: an unprotected (epoch 0) record that cannot be parsed is dropped: no alert is queued and
// the read loop gets no error (a fatal decode_error here let one spoofed datagram close the session). The test is on the
// epoch of the *record* (what was never authenticated), not on the connection's read epoch: after the handshake an
// epoch-0 record is still unauthenticated.
// Scope: an established DTLS 1.2 association (state12 with a cipher suite: what HandleCandidate/handleRecordContent need),
// datagrams up to the inbound buffer size.
// prepareIncomingPacket (header parse, replay check, decryption: C05/C06) is summarised: a prepared record has its parsed
// header and its replay-commit closure, and is not larger than the inbound buffer (assumption: removing record
// protection does not expand a record).
//@ func Conn.prepareIncomingPacket
//@ noinline
//@ trusted
//@ ensures c08-prepared-shape: result1 ==> result0.header != nil && result0.markPacketAsValid != nil && len(result0.buf) <= 8192
// (assumption: receiving a record does not replace the state object, the cipher suite or the negotiated rrc flag of an
// established DTLS 1.2 association; state.CommonState writes State12.Common only when it is nil)
//@ ensures c08-prepare-keeps-association: ASSOC_KEPT(c)
//@ end

//@ define ASSOC_KEPT(c) (old(has12(c)) ==> S12(c).Common == old(S12(c).Common) && sameRef(S12(c).Common.CipherSuite, old(S12(c).Common.CipherSuite)) && S12(c).Common.RRCNegotiated == old(S12(c).Common.RRCNegotiated))

//@ func Conn.bufferHandshakeRecord
//@ loop #1: c08-assoc-kept: ASSOC_KEPT(c)
//@ ensures c08-buffering-keeps-association: ASSOC_KEPT(c)
// Buffering a handshake fragment never answers with an alert (unauthenticated fragments must not tear the association down).
//@ ensures c08-buffering-raises-no-alert: result0.responseAlert == nil && result0.receivedACK == nil
//@ end

// Handling the content of one record (alert, change_cipher_spec, application data, ack, rrc) does not replace the
// state object, the cipher suite or the negotiated rrc flag either (needed by the second HandleCandidate call).
//@ func Conn.handleRecordContent
//@ ensures c08-content-keeps-association: ASSOC_KEPT(c)
//@ end

//@ func Conn.handleChangeCipherSpecRecord
//@ ensures c08-ccs-keeps-association: ASSOC_KEPT(c)
//@ end
//@ func Conn.processPacket
//@ ensures c08-send-keeps-association: ASSOC_KEPT(c)
//@ end
//@ func returnRoutabilityConn.HandleRecord
//@ ensures c08-rrc-keeps-association: ASSOC_KEPT(c.conn)
//@ end

//@ define PREP() retAs("Conn.prepareIncomingPacket", 0, incomingPacketState{})

//@ func Conn.handleIncomingPacket
//@ watch RecordLayer.Unmarshal Conn.prepareIncomingPacket Conn.handleRecordContent
//@ requires args: wfConn(c) && ctx != nil && len(buf) <= 8192
//@ requires established12: has12(c) && S12(c).Common.CipherSuite != nil
//@ ensures c08-empty-datagram-ignored: len(buf) == 0 ==> result0.responseAlert == nil && result1 == nil
//@ ensures c08-unparsable-unprotected-record-dropped: called("RecordLayer.Unmarshal") && retErr("RecordLayer.Unmarshal", 0) != nil
//@    && PREP().header.Epoch == 0 ==> result0.responseAlert == nil && result1 == nil
//@ ensures c08-unparsable-unprotected-record-not-processed: called("RecordLayer.Unmarshal") && retErr("RecordLayer.Unmarshal", 0) != nil ==> !called("Conn.handleRecordContent")
//@ ensures c08-unparsable-protected-record-is-decode-error: called("RecordLayer.Unmarshal") && retErr("RecordLayer.Unmarshal", 0) != nil
//@    && PREP().header.Epoch != 0 ==> result1 != nil && result0.responseAlert != nil && result0.responseAlert.Description == alert.DecodeError
//@ ensures c08-refused-by-prepare-is-silent: called("Conn.prepareIncomingPacket") && !retBool("Conn.prepareIncomingPacket", 1) ==> result0.responseAlert == nil && result1 == nil && !called("RecordLayer.Unmarshal")
//@ end
