//go:build verif

// C19: exported state (state.go). Comment-only; read by /verif/vc.
package dtls

// State <-> serializedState are field-by-field copies. Every field has its own clause so that a
// dropped or swapped field fails exactly one obligation. encoding/gob between serialize and
// deserialize is assumed to be the identity on serializedState (trusted, props/C19.json).
//
// A Random is { gmt_unix_time(4) ; random_bytes[28] }: the 28 bytes are stated directly; time.Time
// is opaque to the engine, the 4 time bytes are stated through the Time.Unix / time.Unix events
// (only the last call of a name is observable: that is the remote random).

//@ define V13(v) (v.Major == 254 && v.Minor == 252)
//@ define V12(v) (v.Major == 254 && v.Minor == 253)
//@ define VZERO(v) (v.Major == 0 && v.Minor == 0)

//@ func State.serialize
//@ watch Time.Unix
//@ ensures unset-suite: s.CipherSuiteID == 0 ==> result0 == nil && result1 != nil
//@ ensures dtls13-refused: s.CipherSuiteID != 0 && V13(s.version) ==> result0 == nil && sameRef(result1, ErrStateSerializationUnsupported)
//@ ensures otherwise-ok: s.CipherSuiteID != 0 && !V13(s.version) ==> result0 != nil && result1 == nil
//@ ensures f-Version: result1 == nil && !VZERO(s.version) ==> result0.Version.Major == s.version.Major && result0.Version.Minor == s.version.Minor
//@ ensures f-Version-default: result1 == nil && VZERO(s.version) ==> V12(result0.Version)
//@ ensures f-Version-never13: result1 == nil ==> !V13(result0.Version)
//@ ensures f-LocalEpoch: result1 == nil ==> result0.LocalEpoch == s.localEpoch
//@ ensures f-RemoteEpoch: result1 == nil ==> result0.RemoteEpoch == s.remoteEpoch
//@ ensures f-LocalRandom: result1 == nil ==> forall(0, 28, func(i int) bool { return result0.LocalRandom[4+i] == s.localRandom.RandomBytes[i] })
//@ ensures f-RemoteRandom: result1 == nil ==> forall(0, 28, func(i int) bool { return result0.RemoteRandom[4+i] == s.remoteRandom.RandomBytes[i] })
//@ ensures f-RemoteRandom-time: result1 == nil ==> ncalls("Time.Unix") == 2
//@    && result0.RemoteRandom[0] == byte(uint32(retInt("Time.Unix", 0)) >> 24) && result0.RemoteRandom[1] == byte(uint32(retInt("Time.Unix", 0)) >> 16)
//@    && result0.RemoteRandom[2] == byte(uint32(retInt("Time.Unix", 0)) >> 8) && result0.RemoteRandom[3] == byte(uint32(retInt("Time.Unix", 0)))
//@ ensures f-CipherSuiteID: result1 == nil ==> result0.CipherSuiteID == uint16(s.CipherSuiteID)
//@ ensures f-MasterSecret: result1 == nil ==> bytesEq(result0.MasterSecret, s.masterSecret)
//@ ensures f-SequenceNumber: result1 == nil ==> result0.SequenceNumber == s.sequenceNumber
//@ ensures f-SRTPProtectionProfile: result1 == nil ==> result0.SRTPProtectionProfile == uint16(s.srtpProtectionProfile)
//@ ensures f-PeerSRTPMKI: result1 == nil ==> bytesEq(result0.PeerSRTPMKI, s.peerSRTPMKI)
//@ ensures f-PeerCertificates: result1 == nil ==> sameSlice(result0.PeerCertificates, s.PeerCertificates)
//@ ensures f-IdentityHint: result1 == nil ==> bytesEq(result0.IdentityHint, s.IdentityHint)
//@ ensures f-SessionID: result1 == nil ==> bytesEq(result0.SessionID, s.SessionID)
//@ ensures f-LocalConnectionID: result1 == nil ==> bytesEq(result0.LocalConnectionID, s.localConnectionID)
//@ ensures f-RemoteConnectionID: result1 == nil ==> bytesEq(result0.RemoteConnectionID, s.remoteConnectionID)
//@ ensures f-ConnectionID-lengths: result1 == nil ==> len(result0.LocalConnectionID) == len(s.localConnectionID) && len(result0.RemoteConnectionID) == len(s.remoteConnectionID)
//@ ensures f-ConnectionID-not-swapped: result1 == nil && len(s.remoteConnectionID) > 0 && len(s.localConnectionID) > 0 ==> result0.RemoteConnectionID[0] == s.remoteConnectionID[0] && result0.LocalConnectionID[0] == s.localConnectionID[0]
//@ ensures f-RRCNegotiated: result1 == nil ==> result0.RRCNegotiated == s.rrcNegotiated
//@ ensures f-IsClient: result1 == nil ==> result0.IsClient == s.isClient
//@ ensures f-NegotiatedProtocol: result1 == nil ==> result0.NegotiatedProtocol == s.NegotiatedProtocol
//@ ensures source-unchanged: s.sequenceNumber == old(s.sequenceNumber) && s.localEpoch == old(s.localEpoch) && s.remoteEpoch == old(s.remoteEpoch)
//@    && sameSlice(s.masterSecret, old(s.masterSecret)) && s.CipherSuiteID == old(s.CipherSuiteID)
//@ end

//@ func State.deserialize
//@ watch time.Unix
//@ ensures f-version: !VZERO(serialized.Version) ==> s.version.Major == serialized.Version.Major && s.version.Minor == serialized.Version.Minor
//@ ensures f-version-default: VZERO(serialized.Version) ==> V12(s.version)
//@ ensures f-localEpoch: s.localEpoch == serialized.LocalEpoch
//@ ensures f-remoteEpoch: s.remoteEpoch == serialized.RemoteEpoch
//@ ensures f-localRandom: forall(0, 28, func(i int) bool { return s.localRandom.RandomBytes[i] == serialized.LocalRandom[4+i] })
//@ ensures f-remoteRandom: forall(0, 28, func(i int) bool { return s.remoteRandom.RandomBytes[i] == serialized.RemoteRandom[4+i] })
//@ ensures f-remoteRandom-time: ncalls("time.Unix") == 2 && s.remoteRandom.GMTUnixTime == retAs("time.Unix", 0, s.remoteRandom.GMTUnixTime)
//@    && argInt("time.Unix", 0) == int(uint32(serialized.RemoteRandom[0])<<24 | uint32(serialized.RemoteRandom[1])<<16 | uint32(serialized.RemoteRandom[2])<<8 | uint32(serialized.RemoteRandom[3]))
//@ ensures f-masterSecret: bytesEq(s.masterSecret, serialized.MasterSecret)
//@ ensures f-sequenceNumber: s.sequenceNumber == serialized.SequenceNumber
//@ ensures f-srtpProtectionProfile: uint16(s.srtpProtectionProfile) == serialized.SRTPProtectionProfile
//@ ensures f-peerSRTPMKI: bytesEq(s.peerSRTPMKI, serialized.PeerSRTPMKI)
//@ ensures f-localConnectionID: bytesEq(s.localConnectionID, serialized.LocalConnectionID)
//@ ensures f-remoteConnectionID: bytesEq(s.remoteConnectionID, serialized.RemoteConnectionID)
//@ ensures f-rrcNegotiated: s.rrcNegotiated == serialized.RRCNegotiated
//@ ensures f-isClient: s.isClient == serialized.IsClient
//@ ensures f-CipherSuiteID: uint16(s.CipherSuiteID) == serialized.CipherSuiteID
//@ ensures f-PeerCertificates: sameSlice(s.PeerCertificates, serialized.PeerCertificates)
//@ ensures f-IdentityHint: bytesEq(s.IdentityHint, serialized.IdentityHint)
//@ ensures f-SessionID: bytesEq(s.SessionID, serialized.SessionID)
//@ ensures f-NegotiatedProtocol: s.NegotiatedProtocol == serialized.NegotiatedProtocol
//@ end

// generateState: snapshot of the DTLS 1.2 connection state. The record sequence number that is
// exported is the local counter of the *current local epoch* (the next number to use), so that
// the resumed connection continues without reusing a number.

//@ define IS(x) x.Common
//@ define IVER(x) x.Common.LocalVersion

//@ func generateState
//@ watch CipherSuite.ID
//@ requires args: internalState != nil && internalState.Common != nil
//@ requires seq-allocated: int(internalState.Common.LocalEpoch()) < len(internalState.Common.LocalSequenceNumber)
//@ ensures no-suite: isNil(IS(internalState).CipherSuite) ==> result0 == nil && result1 != nil
//@ ensures dtls13-refused: !isNil(IS(internalState).CipherSuite) && V13(IVER(internalState)) ==> result0 == nil && sameRef(result1, ErrStateSerializationUnsupported)
//@ ensures otherwise-ok: !isNil(IS(internalState).CipherSuite) && !V13(IVER(internalState)) ==> result0 != nil && result1 == nil
//@ ensures f-sequenceNumber: result1 == nil ==> result0.sequenceNumber == IS(internalState).LocalSequenceNumber[IS(internalState).LocalEpoch()]
//@ ensures f-localEpoch: result1 == nil ==> result0.localEpoch == IS(internalState).LocalEpoch()
//@ ensures f-remoteEpoch: result1 == nil ==> result0.remoteEpoch == IS(internalState).RemoteEpoch()
//@ ensures f-localRandom: result1 == nil ==> forall(0, 28, func(i int) bool { return result0.localRandom.RandomBytes[i] == IS(internalState).LocalRandom.RandomBytes[i] })
//@ ensures f-localRandom-time: result1 == nil ==> result0.localRandom.GMTUnixTime == IS(internalState).LocalRandom.GMTUnixTime
//@ ensures f-remoteRandom: result1 == nil ==> forall(0, 28, func(i int) bool { return result0.remoteRandom.RandomBytes[i] == IS(internalState).RemoteRandom.RandomBytes[i] })
//@ ensures f-remoteRandom-time: result1 == nil ==> result0.remoteRandom.GMTUnixTime == IS(internalState).RemoteRandom.GMTUnixTime
//@ ensures f-masterSecret: result1 == nil ==> bytesEq(result0.masterSecret, internalState.MasterSecret)
//@ ensures f-srtpProtectionProfile: result1 == nil ==> result0.srtpProtectionProfile == IS(internalState).SRTPProtectionProfile()
//@ ensures f-peerSRTPMKI: result1 == nil && result0.srtpProtectionProfile != 0 ==> bytesEq(result0.peerSRTPMKI, IS(internalState).RemoteSRTPMasterKeyIdentifier)
//@ ensures f-peerSRTPMKI-none: result1 == nil && result0.srtpProtectionProfile == 0 ==> len(result0.peerSRTPMKI) == 0
//@ ensures f-localConnectionID: result1 == nil ==> bytesEq(result0.localConnectionID, IS(internalState).LocalConnectionID())
//@ ensures f-remoteConnectionID: result1 == nil ==> bytesEq(result0.remoteConnectionID, IS(internalState).RemoteConnectionID)
//@ ensures f-rrcNegotiated: result1 == nil ==> result0.rrcNegotiated == IS(internalState).RRCNegotiated
//@ ensures f-isClient: result1 == nil ==> result0.isClient == IS(internalState).IsClient
//@ ensures f-version: result1 == nil ==> V12(result0.version)
//@ ensures f-CipherSuiteID: result1 == nil ==> called("CipherSuite.ID") && result0.CipherSuiteID == retAs("CipherSuite.ID", 0, result0.CipherSuiteID)
//@    && sameRef(argAs("CipherSuite.ID", 0, IS(internalState).CipherSuite), IS(internalState).CipherSuite)
//@ ensures f-PeerCertificates: result1 == nil ==> sameSlice(result0.PeerCertificates, IS(internalState).PeerCertificates)
//@ ensures f-IdentityHint: result1 == nil ==> bytesEq(result0.IdentityHint, IS(internalState).IdentityHint)
//@ ensures f-SessionID: result1 == nil ==> bytesEq(result0.SessionID, IS(internalState).SessionID)
//@ ensures f-NegotiatedProtocol: result1 == nil ==> result0.NegotiatedProtocol == IS(internalState).NegotiatedProtocol
//@ ensures source-unchanged: IS(internalState).LocalEpoch() == old(IS(internalState).LocalEpoch())
//@    && IS(internalState).LocalSequenceNumber[IS(internalState).LocalEpoch()] == old(IS(internalState).LocalSequenceNumber[IS(internalState).LocalEpoch()])
//@ end

// generateInternalState: inverse expansion. The per-epoch counter slice receives the exported
// sequence number at index localEpoch (all lower epochs start at zero); arbitrary serialized
// values (any epoch, any lengths) must not panic (implicit obligations of the append loop / index).

//@ define RS(x) x.Common

//@ func State.generateInternalState
//@ watch ciphersuite.ForID State12.InitCipherSuite Common.SetLocalEpoch Common.SetRemoteEpoch Common.SetSRTPProtectionProfile Common.SetLocalConnectionID atomic.StoreUint64 bytes.Clone
//@ ensures unset-suite: old(s.CipherSuiteID) == 0 ==> result0 == nil && result1 != nil
//@ ensures dtls13-refused: old(s.CipherSuiteID) != 0 && V13(old(s.version)) ==> result0 == nil && sameRef(result1, ErrStateSerializationUnsupported)
//@ ensures ok-shape: result1 == nil ==> result0 != nil && RS(result0) != nil
//@ ensures error-no-state: result1 != nil ==> result0 == nil
//@ ensures init-ok: result1 == nil ==> called("State12.InitCipherSuite") && retErr("State12.InitCipherSuite", 0) == nil
//@    && argAs("State12.InitCipherSuite", 0, result0) == result0
// InitCipherSuite is the last step and is summarised by a type-wide write set (typed atomics, uint64
// and byte element heaps: engine limit, reported). Fields living in those heaps are therefore stated
// through the call events of the setters that ran before it; all other fields directly.
//@ ensures g-localEpoch: result1 == nil ==> ncalls("Common.SetLocalEpoch") == 1 && argAs("Common.SetLocalEpoch", 0, RS(result0)) == RS(result0)
//@    && argAs("Common.SetLocalEpoch", 1, s.localEpoch) == s.localEpoch
//@ ensures g-remoteEpoch: result1 == nil ==> ncalls("Common.SetRemoteEpoch") == 1 && argAs("Common.SetRemoteEpoch", 0, RS(result0)) == RS(result0)
//@    && argAs("Common.SetRemoteEpoch", 1, s.remoteEpoch) == s.remoteEpoch
//@ ensures g-sequenceNumber: result1 == nil ==> int(s.localEpoch) < len(RS(result0).LocalSequenceNumber) && ncalls("atomic.StoreUint64") == 1
//@    && argAs("atomic.StoreUint64", 0, &s.sequenceNumber) == &RS(result0).LocalSequenceNumber[s.localEpoch] && argU64("atomic.StoreUint64", 1) == s.sequenceNumber
//@ ensures g-sequence-slice-exact: result1 == nil ==> len(RS(result0).LocalSequenceNumber) == int(s.localEpoch) + 1
//@ ensures g-localRandom-time: result1 == nil ==> RS(result0).LocalRandom.GMTUnixTime == s.localRandom.GMTUnixTime
//@ ensures g-remoteRandom-time: result1 == nil ==> RS(result0).RemoteRandom.GMTUnixTime == s.remoteRandom.GMTUnixTime
//@ ensures g-masterSecret: result1 == nil ==> sameSlice(result0.MasterSecret, s.masterSecret)
//@ ensures g-cipherSuite: result1 == nil ==> called("ciphersuite.ForID") && argAs("ciphersuite.ForID", 0, s.CipherSuiteID) == s.CipherSuiteID
//@    && sameRef(RS(result0).CipherSuite, retAs("ciphersuite.ForID", 0, RS(result0).CipherSuite))
//@ ensures g-srtpProtectionProfile: result1 == nil ==> ncalls("Common.SetSRTPProtectionProfile") == 1
//@    && argAs("Common.SetSRTPProtectionProfile", 0, RS(result0)) == RS(result0) && argAs("Common.SetSRTPProtectionProfile", 1, s.srtpProtectionProfile) == s.srtpProtectionProfile
//@ ensures g-peerSRTPMKI: result1 == nil ==> sameSlice(argBytes("bytes.Clone", 0), s.peerSRTPMKI) && sameSlice(RS(result0).RemoteSRTPMasterKeyIdentifier, retBytes("bytes.Clone", 0))
//@ ensures g-localConnectionID: result1 == nil ==> ncalls("Common.SetLocalConnectionID") == 1
//@    && argAs("Common.SetLocalConnectionID", 0, RS(result0)) == RS(result0) && sameSlice(argBytes("Common.SetLocalConnectionID", 1), s.localConnectionID)
//@ ensures g-remoteConnectionID: result1 == nil ==> sameSlice(RS(result0).RemoteConnectionID, s.remoteConnectionID)
//@ ensures g-rrcNegotiated: result1 == nil ==> RS(result0).RRCNegotiated == s.rrcNegotiated
//@ ensures g-isClient: result1 == nil ==> RS(result0).IsClient == s.isClient
//@ ensures g-version12: result1 == nil ==> V12(RS(result0).LocalVersion)
//@ ensures g-PeerCertificates: result1 == nil ==> sameSlice(RS(result0).PeerCertificates, s.PeerCertificates)
//@ ensures g-IdentityHint: result1 == nil ==> sameSlice(RS(result0).IdentityHint, s.IdentityHint)
//@ ensures g-SessionID: result1 == nil ==> sameSlice(RS(result0).SessionID, s.SessionID)
//@ ensures g-NegotiatedProtocol: result1 == nil ==> RS(result0).NegotiatedProtocol == s.NegotiatedProtocol
//@ ensures source-unchanged: s.sequenceNumber == old(s.sequenceNumber) && s.localEpoch == old(s.localEpoch)
//@ loop #1: bounded: len(RS(state).LocalSequenceNumber) <= int(s.localEpoch) + 1
//@ loop #1: kept: state != nil && RS(state) != nil && s.localEpoch == old(s.localEpoch) && s.sequenceNumber == old(s.sequenceNumber)
//@ end

// initializedCipherSuite: the suite object that a resumed / exported State works with. The suite is
// looked up by the exported identifier; an identifier that names no suite (corrupted bytes) is
// rejected with an error before anything is done with the lookup result (never a panic: the implicit
// nil obligations of this function are part of the check). A suite that is not yet initialised is
// keyed with exactly the exported master secret and the two exported randoms in role order
// (RFC 5246 6.3: key_block = PRF(master_secret, "key expansion", server_random + client_random); the
// Init signature is (masterSecret, clientRandom, serverRandom, isClient)).

//@ define FORID_RET(x) retAs("ciphersuite.ForID", 0, x)
//@ define RANDOM28(b, r) forall(0, 28, func(i int) bool { return b[4+i] == r.RandomBytes[i] })

//@ func State.initializedCipherSuite
//@ watch ciphersuite.ForID CipherSuite.IsInitialized CipherSuite.Init Random.MarshalFixed
//@ requires receiver: s != nil
//@ ensures lookup-by-exported-id: ncalls("ciphersuite.ForID") == 1 && argAs("ciphersuite.ForID", 0, s.CipherSuiteID) == s.CipherSuiteID
//@ ensures unknown-suite-rejected: isNil(FORID_RET(result0)) ==> isNil(result0) && result1 != nil
//@ ensures unknown-suite-untouched: isNil(FORID_RET(result0)) ==> !called("CipherSuite.IsInitialized") && !called("CipherSuite.Init")
//@ ensures ok-is-the-looked-up-suite: result1 == nil ==> !isNil(result0) && sameRef(result0, FORID_RET(result0))
//@ ensures error-no-suite: result1 != nil ==> isNil(result0)
//@ ensures ok-is-initialized: result1 == nil ==> called("CipherSuite.IsInitialized") && (retBool("CipherSuite.IsInitialized", 0) || (called("CipherSuite.Init") && retErr("CipherSuite.Init", 0) == nil))
//@ ensures already-initialized-not-rekeyed: called("CipherSuite.IsInitialized") && retBool("CipherSuite.IsInitialized", 0) ==> !called("CipherSuite.Init") && result1 == nil
//@ ensures init-at-most-once: ncalls("CipherSuite.Init") <= 1 && ncalls("CipherSuite.IsInitialized") <= 1
//@ ensures init-error-rejected: called("CipherSuite.Init") && retErr("CipherSuite.Init", 0) != nil ==> sameRef(result1, retErr("CipherSuite.Init", 0)) && isNil(result0)
//@ ensures init-on-looked-up-suite: called("CipherSuite.Init") ==> sameRef(argAs("CipherSuite.Init", 0, result0), FORID_RET(result0))
//@ ensures init-master-secret: called("CipherSuite.Init") ==> sameSlice(argBytes("CipherSuite.Init", 1), s.masterSecret)
//@ ensures init-role: called("CipherSuite.Init") ==> argBool("CipherSuite.Init", 4) == s.isClient
//@ ensures init-random-lengths: called("CipherSuite.Init") ==> len(argBytes("CipherSuite.Init", 2)) == 32 && len(argBytes("CipherSuite.Init", 3)) == 32
// NOT CHECKED (engine limits, reported): which random goes first. The byte heap is summarised as written by Init
// (8 implementations, type-wide write set), so the contents of the two random arguments cannot be read back after the
// call, and a local array cannot be sliced or addressed in a clause (`localRandom[:]`, `&localRandom[0]`), so the
// arguments cannot be identified with the two marshalled arrays either. Stated: two different 32-byte buffers, both
// randoms were marshalled, the last one marshalled is the remote random of this State.
//@ ensures init-randoms-distinct: called("CipherSuite.Init") ==> !sameArray(argBytes("CipherSuite.Init", 2), argBytes("CipherSuite.Init", 3))
//@ ensures init-randoms-marshalled: called("CipherSuite.Init") ==> ncalls("Random.MarshalFixed") == 2 && argAs("Random.MarshalFixed", 0, &s.remoteRandom) == &s.remoteRandom
//@ ensures exported-fields-kept: s.CipherSuiteID == old(s.CipherSuiteID) && s.isClient == old(s.isClient) && s.sequenceNumber == old(s.sequenceNumber)
//@    && s.localEpoch == old(s.localEpoch) && s.remoteEpoch == old(s.remoteEpoch) && sameSlice(s.masterSecret, old(s.masterSecret))
//@ end

// UnmarshalBinary: bytes that gob rejects are rejected; DTLS 1.3 state is refused; otherwise the
// decoded value is expanded (deserialize) and accepted only if the suite can be set up.

//@ func State.UnmarshalBinary
//@ watch Decoder.Decode State.deserialize State.initializedCipherSuite
//@ requires receiver: s != nil
//@ ensures decode-once: ncalls("Decoder.Decode") == 1
//@ ensures undecodable-rejected: retErr("Decoder.Decode", 0) != nil ==> sameRef(result, retErr("Decoder.Decode", 0)) && !called("State.deserialize") && !called("State.initializedCipherSuite")
//@ ensures dtls13-refused: retErr("Decoder.Decode", 0) == nil && V13(serialized.Version) ==> sameRef(result, ErrStateSerializationUnsupported) && !called("State.deserialize")
//@ ensures ok-expanded-then-suite-checked: result == nil ==> calledBefore("State.deserialize", "State.initializedCipherSuite") && retErr("State.initializedCipherSuite", 1) == nil
//@ ensures suite-error-rejected: called("State.initializedCipherSuite") && retErr("State.initializedCipherSuite", 1) != nil ==> result != nil
//@ end

// MarshalBinary: a State that cannot be serialised (no suite, DTLS 1.3) yields no bytes.

//@ func State.MarshalBinary
//@ watch State.serialize Encoder.Encode
//@ requires receiver: s != nil
//@ ensures serialize-once: ncalls("State.serialize") == 1
//@ ensures unserializable-rejected: retErr("State.serialize", 1) != nil ==> result0 == nil && sameRef(result1, retErr("State.serialize", 1)) && !called("Encoder.Encode")
//@ ensures encode-error-rejected: called("Encoder.Encode") && retErr("Encoder.Encode", 0) != nil ==> result0 == nil && result1 != nil
//@ ensures ok-encoded: result1 == nil ==> called("Encoder.Encode") && retErr("Encoder.Encode", 0) == nil
//@ end
