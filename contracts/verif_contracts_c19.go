//go:build verif

// C19: exported state (state.go). Comment-only; read by /verif/vc.
package dtls

// State <-> serializedState are field-by-field copies. Every field has its own clause so that a
// dropped or swapped field fails exactly one obligation. encoding/gob between serialize and
// deserialize is assumed to be the identity on serializedState (trusted, props/C19.json).
//
// A Random is { gmt_unix_time(4) ; random_bytes[28] }: the 28 bytes are stated directly; time.Time
// is opaque to the engine, the 4 time bytes are stated through the Time.Unix / time.Unix events
// (only the last call of a name is observable: that is the remote random).

//@ define V13(v) (v.Major == 254 && v.Minor == 252)
//@ define V12(v) (v.Major == 254 && v.Minor == 253)
//@ define VZERO(v) (v.Major == 0 && v.Minor == 0)

//@ func State.serialize
//@ watch Time.Unix
//@ ensures unset-suite: s.CipherSuiteID == 0 ==> result0 == nil && result1 != nil
//@ ensures dtls13-refused: s.CipherSuiteID != 0 && V13(s.version) ==> result0 == nil && sameRef(result1, ErrStateSerializationUnsupported)
//@ ensures otherwise-ok: s.CipherSuiteID != 0 && !V13(s.version) ==> result0 != nil && result1 == nil
//@ ensures f-Version: result1 == nil && !VZERO(s.version) ==> result0.Version.Major == s.version.Major && result0.Version.Minor == s.version.Minor
//@ ensures f-Version-default: result1 == nil && VZERO(s.version) ==> V12(result0.Version)
//@ ensures f-Version-never13: result1 == nil ==> !V13(result0.Version)
//@ ensures f-LocalEpoch: result1 == nil ==> result0.LocalEpoch == s.localEpoch
//@ ensures f-RemoteEpoch: result1 == nil ==> result0.RemoteEpoch == s.remoteEpoch
//@ ensures f-LocalRandom: result1 == nil ==> forall(0, 28, func(i int) bool { return result0.LocalRandom[4+i] == s.localRandom.RandomBytes[i] })
//@ ensures f-RemoteRandom: result1 == nil ==> forall(0, 28, func(i int) bool { return result0.RemoteRandom[4+i] == s.remoteRandom.RandomBytes[i] })
//@ ensures f-RemoteRandom-time: result1 == nil ==> ncalls("Time.Unix") == 2
//@    && result0.RemoteRandom[0] == byte(uint32(retInt("Time.Unix", 0)) >> 24) && result0.RemoteRandom[1] == byte(uint32(retInt("Time.Unix", 0)) >> 16)
//@    && result0.RemoteRandom[2] == byte(uint32(retInt("Time.Unix", 0)) >> 8) && result0.RemoteRandom[3] == byte(uint32(retInt("Time.Unix", 0)))
//@ ensures f-CipherSuiteID: result1 == nil ==> result0.CipherSuiteID == uint16(s.CipherSuiteID)
//@ ensures f-MasterSecret: result1 == nil ==> bytesEq(result0.MasterSecret, s.masterSecret)
//@ ensures f-SequenceNumber: result1 == nil ==> result0.SequenceNumber == s.sequenceNumber
//@ ensures f-SRTPProtectionProfile: result1 == nil ==> result0.SRTPProtectionProfile == uint16(s.srtpProtectionProfile)
//@ ensures f-PeerSRTPMKI: result1 == nil ==> bytesEq(result0.PeerSRTPMKI, s.peerSRTPMKI)
//@ ensures f-PeerCertificates: result1 == nil ==> sameSlice(result0.PeerCertificates, s.PeerCertificates)
//@ ensures f-IdentityHint: result1 == nil ==> bytesEq(result0.IdentityHint, s.IdentityHint)
//@ ensures f-SessionID: result1 == nil ==> bytesEq(result0.SessionID, s.SessionID)
//@ ensures f-LocalConnectionID: result1 == nil ==> bytesEq(result0.LocalConnectionID, s.localConnectionID)
//@ ensures f-RemoteConnectionID: result1 == nil ==> bytesEq(result0.RemoteConnectionID, s.remoteConnectionID)
//@ ensures f-RRCNegotiated: result1 == nil ==> result0.RRCNegotiated == s.rrcNegotiated
//@ ensures f-IsClient: result1 == nil ==> result0.IsClient == s.isClient
//@ ensures f-NegotiatedProtocol: result1 == nil ==> result0.NegotiatedProtocol == s.NegotiatedProtocol
//@ ensures source-unchanged: s.sequenceNumber == old(s.sequenceNumber) && s.localEpoch == old(s.localEpoch) && s.remoteEpoch == old(s.remoteEpoch)
//@    && sameSlice(s.masterSecret, old(s.masterSecret)) && s.CipherSuiteID == old(s.CipherSuiteID)
//@ end

//@ func State.deserialize
//@ watch time.Unix
//@ ensures f-version: !VZERO(serialized.Version) ==> s.version.Major == serialized.Version.Major && s.version.Minor == serialized.Version.Minor
//@ ensures f-version-default: VZERO(serialized.Version) ==> V12(s.version)
//@ ensures f-localEpoch: s.localEpoch == serialized.LocalEpoch
//@ ensures f-remoteEpoch: s.remoteEpoch == serialized.RemoteEpoch
//@ ensures f-localRandom: forall(0, 28, func(i int) bool { return s.localRandom.RandomBytes[i] == serialized.LocalRandom[4+i] })
//@ ensures f-remoteRandom: forall(0, 28, func(i int) bool { return s.remoteRandom.RandomBytes[i] == serialized.RemoteRandom[4+i] })
//@ ensures f-remoteRandom-time: ncalls("time.Unix") == 2 && s.remoteRandom.GMTUnixTime == retAs("time.Unix", 0, s.remoteRandom.GMTUnixTime)
//@    && argInt("time.Unix", 0) == int(uint32(serialized.RemoteRandom[0])<<24 | uint32(serialized.RemoteRandom[1])<<16 | uint32(serialized.RemoteRandom[2])<<8 | uint32(serialized.RemoteRandom[3]))
//@ ensures f-masterSecret: bytesEq(s.masterSecret, serialized.MasterSecret)
//@ ensures f-sequenceNumber: s.sequenceNumber == serialized.SequenceNumber
//@ ensures f-srtpProtectionProfile: uint16(s.srtpProtectionProfile) == serialized.SRTPProtectionProfile
//@ ensures f-peerSRTPMKI: bytesEq(s.peerSRTPMKI, serialized.PeerSRTPMKI)
//@ ensures f-localConnectionID: bytesEq(s.localConnectionID, serialized.LocalConnectionID)
//@ ensures f-remoteConnectionID: bytesEq(s.remoteConnectionID, serialized.RemoteConnectionID)
//@ ensures f-rrcNegotiated: s.rrcNegotiated == serialized.RRCNegotiated
//@ ensures f-isClient: s.isClient == serialized.IsClient
//@ ensures f-CipherSuiteID: uint16(s.CipherSuiteID) == serialized.CipherSuiteID
//@ ensures f-PeerCertificates: sameSlice(s.PeerCertificates, serialized.PeerCertificates)
//@ ensures f-IdentityHint: bytesEq(s.IdentityHint, serialized.IdentityHint)
//@ ensures f-SessionID: bytesEq(s.SessionID, serialized.SessionID)
//@ ensures f-NegotiatedProtocol: s.NegotiatedProtocol == serialized.NegotiatedProtocol
//@ end
