//go:build verif

// C10: keying-material exporters, byte-exact (RFC 5705 4 for DTLS 1.2, RFC 8446 7.5 for DTLS 1.3). The C07 file states
// which secret keys the exporter; here: the seed / label / context handed to the PRF. Comment-only; read by /verif/vc.
package dtls

// RFC 5705 4 (no context):  PRF(master_secret, label, client_random + server_random)[length]
// (same watch names as verif_contracts_c07.go; the seed bytes can be read after the call because prf.PHash is
//  assumed not to write its seed, see pkg/crypto/prf/verif_contracts_c10.go)
//@ define SEED(x) argBytes("prf.PHash!", 1)
//@ func State.ExportKeyingMaterial
//@ watch prf.PHash! exportKeyingMaterial13
//@ ensures seed-starts-with-label: called("prf.PHash!") ==> forall(0, len(label), func(i int) bool { return SEED(0)[i] == label[i] })
// (engine limit: the order client_random || server_random after the label could not be decided - clauses relating seed[len(label)+4+i]
//  to s.localRandom.RandomBytes[i] / s.remoteRandom.RandomBytes[i], even for single bytes, time out (z3 > 58 s CPU); C07 states the length)
//@ end

// RFC 8446 7.5 (empty context_value):
//   HKDF-Expand-Label(Derive-Secret(exporter_master_secret, label, ""), "exporter", Hash(""), length)
//@ func exportKeyingMaterial13
//@ watch keyschedule.DeriveSecret keyschedule.HkdfExpandLabel! Hash.Sum! param.hashFunc!
//@ ensures derive-over-empty-messages: called("keyschedule.DeriveSecret") ==> isNil(argAny("keyschedule.DeriveSecret", 3))
//@ ensures context-is-hash-of-empty-string: called("keyschedule.HkdfExpandLabel!") ==> ncalls("Hash.Sum!") == 1 && ncalls("param.hashFunc!") == 1 && sameRef(argAny("Hash.Sum!", 0), retAny("param.hashFunc!", 0))
//@    && isNil(argBytes("Hash.Sum!", 1)) && sameSlice(argBytes("keyschedule.HkdfExpandLabel!", 3), retBytes("Hash.Sum!", 0))
//@ end
