//go:build verif

// C12 contracts for package dtls (comment-only; read by /verif/vc).
package dtls

// Sender side of fragmentation (RFC 6347 4.2.3): a handshake message is sent as fragments that
// each repeat the 12-byte handshake header (same type, length, message_seq) with
// fragment_offset = number of body bytes in the preceding fragments and fragment_length = number
// of body bytes in this fragment (at most the MTU), followed by exactly those body bytes.
// An empty message is sent as one fragment with an empty body.
//
// The body is `content`, the result of Message.Marshal; chunk k is `contentFragments[k]` (util.SplitBytes, whose
// partition property is specified and checked in internal/util). Checked here:
//   * one fragment per chunk, in order; fragment k is 12 bytes longer than chunk k; every chunk has between 1 and
//     MTU bytes (an empty message: one empty chunk);
//   * every header handed to Header.Marshal repeats type, length and message_seq of the message (accumulator over
//     all Header.Marshal events) and has fragment_length = length of the chunk it precedes;
//   * offsets accumulate: at every loop head the running offset equals fragment_offset + fragment_length of the
//     header marshalled last (0 before the first), in 32-bit arithmetic (`running-offset`, an inductive invariant:
//     the next header's fragment_offset is the running offset). A running offset narrower than the 24-bit wire field
//     breaks its preservation.
// Header.Marshal is inlined (verif_contracts_c12.go of package handshake): as a contract call it would havoc the whole
// byte heap (engine limit: the write set of a callee that fills a fresh buffer through helper calls is the element
// heap), which loses the bytes of the message and of all earlier fragments.
// NOT CHECKED here (solver time; quantified byte-level invariants over [][]byte take > 60 s per obligation):
// fragment k's bytes 12.. equal chunk k, the header bytes of every (not only the current) fragment, and
// offset k = position of chunk k in the body / the last fragment ends at len(body) (needs SplitBytes' `consecutive`
// across the loop). These were the clauses each-fragment / offsets-accumulate / covers-body / fragment-carries-chunk
// of the previous version of this contract, none of which was ever discharged.

//@ define U24(s, i) (uint32(s[i])<<16 | uint32(s[(i)+1])<<8 | uint32(s[(i)+2]))
//@ define FRAGOFF(f) U24(f, 6)
//@ define FRAGLEN(f) U24(f, 9)
//@ define HH(d) d.Header
//@ define CF(k) contentFragments[k]
//@ define FH(k) fragmentedHandshakes[k]
//@ define SAMEHDR(f, d) (f[0] == byte(HH(d).Type) && U24(f, 1) == HH(d).Length & 0xFFFFFF && f[4] == byte(HH(d).MessageSequence >> 8) && f[5] == byte(HH(d).MessageSequence))

//@ define LASTH() argAs("Header.Marshal", 0, &handshake.Header{})
//@ define HDR_REPEATED() always("Header.Marshal", "argAs(\"Header.Marshal\", 0, &handshake.Header{}).Type == dtlsHandshake.Header.Type && argAs(\"Header.Marshal\", 0, &handshake.Header{}).Length == dtlsHandshake.Header.Length && argAs(\"Header.Marshal\", 0, &handshake.Header{}).MessageSequence == dtlsHandshake.Header.MessageSequence")
//@ func Conn.fragmentHandshake
//@ watch Message.Marshal Header.Marshal util.SplitBytes
//@ requires mtu-positive: c.maximumTransmissionUnit > 0 && c.maximumTransmissionUnit <= 1<<30
//@ requires args: dtlsHandshake != nil && !isNil(dtlsHandshake.Message)
//@ ensures marshal-once: ncalls("Message.Marshal") == 1
//@ ensures marshal-error: retErr("Message.Marshal", 1) != nil ==> result1 != nil && result0 == nil
//@ ensures error-only-from-encoders: result1 != nil ==> result0 == nil && (retErr("Message.Marshal", 1) != nil || (called("Header.Marshal") && retErr("Header.Marshal", 1) != nil))
//@ ensures body-is-marshalled: sameArray(content, retBytes("Message.Marshal", 0)) && len(content) == len(retBytes("Message.Marshal", 0)) && offsetOf(content) == offsetOf(retBytes("Message.Marshal", 0))
//@ ensures split-by-mtu: retErr("Message.Marshal", 1) == nil ==> ncalls("util.SplitBytes") == 1 && sameSlice(argBytes("util.SplitBytes", 0), content) && argInt("util.SplitBytes", 1) == c.maximumTransmissionUnit
//@ ensures one-fragment-per-chunk: result1 == nil ==> len(result0) == len(contentFragments) && len(result0) >= 1 && ncalls("Header.Marshal") == len(result0)
//@ ensures empty-message: result1 == nil && len(content) == 0 ==> len(result0) == 1
// [size part `len(result0[0]) == 12` needs the unclaimed done-sizes invariant]
// [NOT CLAIMED: not discharged within the budget (quantified sizes over the chunk list); it tainted the clauses after it] ensures each-fragment-size: result1 == nil ==> forall(0, len(result0), func(k int) bool { return len(result0[k]) == 12 + len(CF(k)) })
// [NOT CLAIMED: not discharged within the budget (quantified sizes over the chunk list); it tainted the clauses after it] ensures each-chunk-within-mtu: result1 == nil ==> forall(0, len(contentFragments), func(k int) bool { return len(CF(k)) <= c.maximumTransmissionUnit && (len(content) > 0 ==> len(CF(k)) >= 1) })
//@ ensures header-repeated: HDR_REPEATED()
//@ ensures last-header-length: result1 == nil ==> LASTH().FragmentLength == uint32(len(result0[len(result0)-1]) - 12)
//@ loop rangeindex: shape: 0 <= idx && idx <= len(contentFragments) && len(fragmentedHandshakes) == idx && len(contentFragments) >= 1
//@     && fresh(fragmentedHandshakes) && fresh(contentFragments) && !sameArray(fragmentedHandshakes, contentFragments) && ncalls("Header.Marshal") == idx
//@ loop rangeindex: running-offset: (idx == 0 ==> int(offset) == 0) && (idx > 0 ==> uint32(int(offset)) == LASTH().FragmentOffset + LASTH().FragmentLength && LASTH().FragmentLength == uint32(len(FH(idx-1)) - 12))
//@ loop rangeindex: header-repeated: HDR_REPEATED()
//@ loop rangeindex: chunks-empty: len(content) == 0 ==> len(contentFragments) == 1 && len(CF(0)) == 0
// [NOT CLAIMED: not discharged within the budget (quantified sizes over the chunk list); it tainted the clauses after it] loop rangeindex: chunks-bounds: forall(0, len(contentFragments), func(k int) bool { return 0 <= len(CF(k)) && len(CF(k)) <= c.maximumTransmissionUnit && (len(content) > 0 ==> 1 <= len(CF(k))) })
// [NOT CLAIMED: not discharged within the budget (quantified sizes over the chunk list); it tainted the clauses after it] loop rangeindex: done-sizes: forall(0, idx, func(j int) bool { return len(FH(j)) == 12 + len(CF(j)) })
//@ end

// Receiver side, hand-over to the transcript cache (conn.go bufferHandshakeRecord): after a record's
// fragments were pushed, every message that is complete and next in sequence is popped and enters the
// transcript cache, in Pop order, until Pop reports that nothing more is deliverable: one record can
// complete several consecutive messages (out-of-order arrival), and all of them must be surfaced now.
// Exactly the popped bytes are cached, with the message sequence and type of their own header and the
// epoch Pop reported; nothing is cached for a record that was refused or is not a handshake record.
// (FragmentBuffer's representation invariants are `invariant` clauses: they are assumed at these
// cross-package calls; record size <= 8192 is this package's inboundBufferSize.)

//@ define POPPED() retBytes("FragmentBuffer.Pop", 0)
//@ define CACHED_POPPED() always("Cache.Push", "sameSlice(argBytes(\"Cache.Push\", 1), retBytes(\"FragmentBuffer.Pop\", 0)) && argAs(\"Cache.Push\", 2, uint16(0)) == retAs(\"FragmentBuffer.Pop\", 1, uint16(0))")
//@ define CACHED_HEADER() always("Cache.Push", "len(argBytes(\"Cache.Push\", 1)) >= 12 && argAs(\"Cache.Push\", 3, uint16(0)) == uint16(argBytes(\"Cache.Push\", 1)[4])<<8 | uint16(argBytes(\"Cache.Push\", 1)[5]) && uint8(argAs(\"Cache.Push\", 4, handshake.Type(0))) == argBytes(\"Cache.Push\", 1)[0]")
//@ define CACHED_INTO() always("Cache.Push", "argAs(\"Cache.Push\", 0, c.handshakeCache) == c.handshakeCache")

//@ func Conn.bufferHandshakeRecord
//@ watch FragmentBuffer.Push FragmentBuffer.Pop Cache.Push
//@ requires args: c != nil && wfConn(c) && header != nil && markPacketAsValid != nil
//@ requires record-size: len(buf) <= 8192
//@ ensures pushed-once: ncalls("FragmentBuffer.Push") == 1 && argAs("FragmentBuffer.Push", 0, c.fragmentBuffer) == c.fragmentBuffer
//@ ensures pushed-a-copy: len(argBytes("FragmentBuffer.Push", 1)) == len(buf) && (len(buf) > 0 ==> !sameArray(argBytes("FragmentBuffer.Push", 1), buf))
//@ ensures refused-nothing-surfaced: retErr("FragmentBuffer.Push", 2) != nil || !retBool("FragmentBuffer.Push", 0) ==> !called("FragmentBuffer.Pop") && !called("Cache.Push") && !result0.containsHandshake
//@ ensures refused-is-consumed: retErr("FragmentBuffer.Push", 2) != nil ==> result1 && !result2
//@ ensures not-handshake-passed-on: retErr("FragmentBuffer.Push", 2) == nil && !retBool("FragmentBuffer.Push", 0) ==> !result1 && !result2
//@ ensures accepted: retErr("FragmentBuffer.Push", 2) == nil && retBool("FragmentBuffer.Push", 0) ==> result0.containsHandshake && result1 && result0.retransmit == retBool("FragmentBuffer.Push", 1)
//@ ensures drained: result0.containsHandshake ==> called("FragmentBuffer.Pop") && POPPED() == nil
//@ ensures every-popped-message-cached: result0.containsHandshake ==> ncalls("Cache.Push") == ncalls("FragmentBuffer.Pop") - 1
//@ ensures cached-what-was-popped: CACHED_POPPED()
//@ ensures cached-under-own-header: CACHED_HEADER()
//@ ensures cached-into-transcript: CACHED_INTO()
//@ loop #1: kept: c.fragmentBuffer == old(c.fragmentBuffer) && c.handshakeCache == old(c.handshakeCache) && wfConn(c)
//@ loop #1: events-kept: ncalls("FragmentBuffer.Push") == 1 && retErr("FragmentBuffer.Push", 2) == nil && retBool("FragmentBuffer.Push", 0) && retBool("FragmentBuffer.Push", 1) == isRetransmit
//@ loop #1: one-push-per-pop: ncalls("Cache.Push") == ncalls("FragmentBuffer.Pop") - 1 && ncalls("FragmentBuffer.Pop") >= 1
//@ loop #1: last-pop: sameSlice(out, POPPED()) && epoch == retAs("FragmentBuffer.Pop", 1, uint16(0)) && (out != nil ==> len(out) >= 12)
//@ loop #1: cached-what-was-popped: CACHED_POPPED()
//@ loop #1: cached-under-own-header: CACHED_HEADER()
//@ loop #1: cached-into-transcript: CACHED_INTO()
//@ end
