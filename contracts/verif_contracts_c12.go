//go:build verif

// C12 contracts for package dtls (comment-only; read by /verif/vc).
package dtls

// Sender side of fragmentation (RFC 6347 4.2.3): a handshake message is sent as fragments that
// each repeat the 12-byte handshake header (same type, length, message_seq) with
// fragment_offset = number of body bytes in the preceding fragments and fragment_length = number
// of body bytes in this fragment (at most the MTU), followed by exactly those body bytes.
// An empty message is sent as one fragment with an empty body.
//
// The body is `content`, the result of Message.Marshal; chunk k is `contentFragments[k]`.
// Handshake lengths and offsets are 24-bit on the wire; clauses that decode them are stated for
// bodies of at most 2^24-1 bytes.

//@ define U24(s, i) (uint32(s[i])<<16 | uint32(s[(i)+1])<<8 | uint32(s[(i)+2]))
//@ define FRAGOFF(f) U24(f, 6)
//@ define FRAGLEN(f) U24(f, 9)
//@ define HH(d) d.Header
//@ define CF(k) contentFragments[k]
//@ define FH(k) fragmentedHandshakes[k]
//@ define SAMEHDR(f, d) (f[0] == byte(HH(d).Type) && U24(f, 1) == HH(d).Length & 0xFFFFFF && f[4] == byte(HH(d).MessageSequence >> 8) && f[5] == byte(HH(d).MessageSequence))

//@ func Conn.fragmentHandshake
//@ watch Message.Marshal
//@ requires mtu-positive: c.maximumTransmissionUnit > 0 && c.maximumTransmissionUnit <= 1<<30
//@ requires args: dtlsHandshake != nil && !isNil(dtlsHandshake.Message)
//@ ensures marshal-once: ncalls("Message.Marshal") == 1
//@ ensures marshal-error: retErr("Message.Marshal", 1) != nil ==> result1 != nil && result0 == nil
//@ ensures ok: retErr("Message.Marshal", 1) == nil && len(content) <= 0xFFFFFF && HH(dtlsHandshake).Length <= 0xFFFFFF ==> result1 == nil
//@ ensures body-is-marshalled: sameArray(content, retBytes("Message.Marshal", 0)) && len(content) == len(retBytes("Message.Marshal", 0)) && offsetOf(content) == offsetOf(retBytes("Message.Marshal", 0))
//@ ensures empty-message: result1 == nil && len(content) == 0 ==> len(result0) == 1 && len(result0[0]) == 12
//@ ensures one-fragment-per-chunk: result1 == nil ==> len(result0) == len(contentFragments) && len(result0) >= 1
//@ ensures first-offset-zero: result1 == nil && len(content) <= 0xFFFFFF ==> FRAGOFF(result0[0]) == 0
//@ ensures covers-body: result1 == nil && len(content) <= 0xFFFFFF ==> int(FRAGOFF(result0[len(result0)-1])) + len(result0[len(result0)-1]) - 12 == len(content)
//@ ensures each-fragment: len(result0) == 0 || (result1 == nil && len(content) <= 0xFFFFFF ==> forall(0, len(result0), func(k int) bool { return len(result0[k]) >= 12 && SAMEHDR(result0[k], dtlsHandshake)
//@     && int(FRAGLEN(result0[k])) == len(result0[k]) - 12 && len(result0[k]) - 12 <= c.maximumTransmissionUnit && (len(content) > 0 ==> len(result0[k]) > 12)
//@     && len(CF(k)) == len(result0[k]) - 12
//@     && (len(content) > 0 ==> sameArray(CF(k), content) && offsetOf(CF(k)) == offsetOf(content) + int(FRAGOFF(result0[k]))) }))
//@ ensures offsets-accumulate: len(result0) == 0 || (result1 == nil && len(content) <= 0xFFFFFF ==> forall(0, len(result0)-1, func(k int) bool { return int(FRAGOFF(result0[k+1])) == int(FRAGOFF(result0[k])) + len(result0[k]) - 12 }))
//@ ensures fragment-carries-chunk: len(result0) == 0 || (result1 == nil ==> forall(0, len(result0), func(k int) bool { return bytesEq(result0[k][12:], CF(k)) }))
//@ loop rangeindex: shape: 0 <= idx && idx <= len(contentFragments) && len(fragmentedHandshakes) == idx && len(contentFragments) >= 1
//@     && fresh(fragmentedHandshakes) && fresh(contentFragments) && !sameArray(fragmentedHandshakes, contentFragments)
//@ loop rangeindex: offset-tracks: 0 <= offset && offset <= len(content) && (len(content) == 0 ==> offset == 0)
//@     && (len(content) > 0 && idx < len(contentFragments) ==> offsetOf(CF(idx)) == offsetOf(content) + offset)
//@     && (len(content) > 0 && idx == len(contentFragments) ==> offset == len(content))
//@ loop rangeindex: chunks-empty: len(content) == 0 ==> len(contentFragments) == 1 && len(CF(0)) == 0
//@ loop rangeindex: chunks-end: len(content) > 0 ==> offsetOf(CF(0)) == offsetOf(content) && offsetOf(CF(len(contentFragments)-1)) + len(CF(len(contentFragments)-1)) == offsetOf(content) + len(content)
//@ loop rangeindex: chunks: len(content) > 0 ==> forall(0, len(contentFragments), func(k int) bool { return sameArray(CF(k), content)
//@     && offsetOf(content) <= offsetOf(CF(k)) && offsetOf(CF(k)) + len(CF(k)) <= offsetOf(content) + len(content)
//@     && 1 <= len(CF(k)) && len(CF(k)) <= c.maximumTransmissionUnit
//@     && (k+1 < len(contentFragments) ==> offsetOf(CF(k+1)) == offsetOf(CF(k)) + len(CF(k))) })
//@ loop rangeindex: done: len(content) <= 0xFFFFFF ==> forall(0, idx, func(j int) bool { return len(FH(j)) == 12 + len(CF(j)) && SAMEHDR(FH(j), dtlsHandshake)
//@     && FRAGLEN(FH(j)) == uint32(len(CF(j)))
//@     && (len(content) > 0 ==> FRAGOFF(FH(j)) == uint32(offsetOf(CF(j)) - offsetOf(content)))
//@     && (len(content) == 0 ==> FRAGOFF(FH(j)) == 0) })
//@ loop rangeindex: done-body: forall(0, idx, func(j int) bool { return bytesEq(FH(j)[12:], CF(j)) })
//@ end
