#!/bin/sh
# Builds the verification condition generator from files on disk only (offline).
set -e
cd "$(dirname "$0")/vc"
export GOFLAGS=-mod=mod GOPROXY=off
cp /repo/go.sum . 2>/dev/null || true
mkdir -p ../bin
go build -o ../bin/vc .
