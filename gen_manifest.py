#!/usr/bin/env python3
# Regenerates MANIFEST.json from claims.json (what each claimed check asserts) and properties.jsonl.
import json, subprocess
props=[json.loads(l) for l in open('/verif/properties.jsonl')]
claims=json.load(open('/verif/claims.json'))
claimed=claims['claimed']; na_reasons=claims['not_applicable']
checks=[]
for p in props:
    if p['id'] in claimed:
        c=claimed[p['id']]
        checks.append({"property_id":p['id'],"quick_cmd":f"./check {p['id']} quick","thorough_cmd":f"./check {p['id']} thorough","evidence_file":f"/verif/evidence/{p['id']}.json","replay_cmd_template":"./check replay {path}","engine":"vc",
          "level_claimed":{"category":"proof","text":c['text'],"design_ref":c.get('design','DESIGN.md 3/'+p['id'])},"level_note":c['note'],"technique":c.get('technique',"contract-based deductive verification: own SSA->SMT VC generator over //@ contracts, z3/cvc5")})
na=[]
for p in props:
    if p['id'] not in claimed:
        na.append({"property_id":p['id'],"reason":na_reasons.get(p['id'],"not claimed yet: contracts for this property are still being written (DESIGN 9 build order); no check is registered until its core obligations are in the baseline")})
try:
    commits=subprocess.check_output(['git','-C','/repo','log','--format=%H %s','--grep=^verif:'],text=True).strip().split('\n')
    commits=[c.split()[0] for c in commits if c]
except Exception:
    commits=[]
m={"version":1,"setup_cmd":"./setup.sh",
 "hooks":{"guard":"verif","enable":"go build -tags verif (contract files /repo/<pkg>/verif_contracts.go are comment-only; vc loads /repo with -tags=verif)","baseline_off_cmd":"cd /repo && go test -mod=mod -vet=off -count=1 -timeout 25m ./...","source_commits":commits,"add_only":True},
 "engines":[{"name":"vc","path":"/verif/vc","serves_properties":sorted(claimed),"kind_free_text":"weakest-precondition style VC generator over go/ssa with Gobra-flavoured //@ contracts; obligations discharged by z3 4.8.12, z3 5.1.0 and cvc5 1.0 in a race"}],
 "checks":checks,"not_applicable":na,
 "notes":"See DESIGN.md. Exit 0: all claimed obligations discharged; exit 1 with VIOLATION lines; exit 2: the machinery could not run."}
json.dump(m,open('/verif/MANIFEST.json','w'),indent=1)
print(len(checks),'checks',len(na),'not applicable')
