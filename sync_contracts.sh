#!/bin/sh
# Copies the contract mirror into /repo (comment-only files behind the build tag `verif`).
set -e
cd "$(dirname "$0")/contracts"
find . -name "verif_contracts*.go" | while read f; do
  mkdir -p "/repo/$(dirname "$f")"
  cp "$f" "/repo/$f"
done
