#!/bin/sh
# ./check selftest [id...]: must-fail corpus. Every seeded change whose directory holds a file `expect` containing
# "caught" must make its property's quick check report a VIOLATION (in a scratch worktree, see mutcheck.sh);
# then every quick check must pass (exit 0, no VIOLATION line) on the unchanged tree.
cd "$(dirname "$0")"
ids="${*:-$(ls -d seeded/C* | xargs -n1 basename | tr '\n' ' ')}"
fail=0
for id in $ids; do
  for d in seeded/$id/*/; do
    [ -f $d/expect ] || continue
    [ "$(cat $d/expect)" = caught ] || continue
    extra=""; [ -f $d/also_check ] && extra=$(cat $d/also_check)
    if ./mutcheck.sh $d/patch.diff $id $extra 2>&1 | grep -q '^VIOLATION'; then
      echo "selftest: $d caught"
    else
      echo "selftest: $d NOT caught (expected a VIOLATION)"; fail=1
    fi
  done
done
# harmless edits (renames, extra log lines, reordered independent statements) must not raise an alarm
if [ $# -eq 0 ]; then
  for b in selftest/benign/*.diff; do
    props=$(cat "${b%.diff}.props")
    if ./mutcheck.sh $b $props 2>&1 | grep -q '^VIOLATION'; then
      echo "selftest: harmless edit $b raises an alarm"; fail=1
    else
      echo "selftest: harmless edit $b quiet"
    fi
  done
fi
for id in $ids; do
  out=$(VC_EVIDENCE_DIR=/tmp/selftest-ev.$$ ./check $id quick 2>&1); rc=$?
  if [ $rc -ne 0 ] || echo "$out" | grep -q '^VIOLATION'; then
    echo "selftest: $id raises an alarm on the unchanged tree (exit $rc)"; fail=1
  else
    echo "selftest: $id quiet on the unchanged tree"
  fi
done
rm -rf /tmp/selftest-ev.$$
exit $fail
