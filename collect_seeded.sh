#!/bin/sh
# collect_seeded.sh <id>...: copy the sub-agent's deliverables from /tmp/mut/<id> into /verif/seeded/<id>/<X>/
for id in "$@"; do
  for X in A B C D E F G H I; do
    src=/tmp/mut/$id
    [ -f $src/MUT_$X.diff ] || continue
    d=/verif/seeded/$id/$X; mkdir -p $d
    cp $src/MUT_$X.diff $d/patch.diff
    cp $src/MUT_$X.md $d/README.md 2>/dev/null
    for f in $src/MUT_${X}_demo*; do [ -f "$f" ] && cp "$f" $d/; done
  done
done
