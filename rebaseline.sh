#!/bin/sh
# Rewrites the baselines one property at a time (run on a quiet machine), then runs every quick check.
cd "$(dirname "$0")"
props="${*:-C03 C04 C05 C06 C07 C08 C09 C10 C11 C12 C13 C14 C15 C17 C18 C19 C20}"
for p in $props; do
  echo "== baseline $p"; /usr/bin/time -f "%es" bin/vc check -prop $p -write-baseline 2>&1 | tail -12
done
for p in $props; do
  echo "== quick $p"; /usr/bin/time -f "%es" ./check $p quick 2>&1 | tail -6
done
