#!/bin/sh
# ./mutcheck.sh <patch.diff> <prop-id>...   apply a seeded change to a scratch worktree of /repo (outside /repo and
# /verif), run the quick check of each property against it, print the verdict lines, remove the worktree.
# Evidence and replays of these runs go to a scratch directory, never to /verif/evidence.
patch="$(readlink -f "$1")"; shift
cd "$(dirname "$0")"
export GOFLAGS=-mod=mod GOPROXY=off
[ -x bin/vc ] || ./setup.sh || exit 2
wt=$(mktemp -d /tmp/mutcheck.XXXXXX)
rmdir "$wt"
git -C /repo worktree add --detach "$wt" HEAD >/dev/null 2>&1 || { echo "worktree failed"; exit 2; }
trap 'git -C /repo worktree remove --force "$wt" >/dev/null 2>&1; rm -rf "$wt" "$wt.ev"' EXIT
# uncommitted contract edits of /repo's working tree are part of "the current tree"
(cd /repo && git diff HEAD) | (cd "$wt" && git apply --allow-empty 2>/dev/null)
(cd "$wt" && git apply "$patch") || { echo "patch does not apply"; exit 2; }
rc=0
for p in "$@"; do
  out=$(VC_EVIDENCE_DIR="$wt.ev" bin/vc check -repo "$wt" -prop "$p" -tier "${TIER:-quick}" 2>&1)
  echo "$out" | grep -E "^(VIOLATION|KNOWN-FINDING|STALE-CONTRACT|property )" | cut -c1-400
  echo "$out" | grep -q "^VIOLATION" && rc=1
done
exit $rc
